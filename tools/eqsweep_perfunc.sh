#!/bin/bash
# usage: tools/eqsweep_perfunc.sh <kind>    one rewritten tree per function (the realistic size of a refactoring); development tool
. /verif/env.sh
export GOFLAGS="$GOFLAGS -trimpath"
kind="$1"
cd /verif && go build -o bin/eqsweep ./cmd/eqsweep || exit 2
funcs=$(cd /repo && ls *.go | grep -v _test.go | xargs grep -h "^func " | sed -E 's/^func \(([a-zA-Z_]+ )?\*?([A-Za-z_0-9]+)\) ([A-Za-z_0-9]+)\(.*/\2.\3/; s/^func ([A-Za-z_0-9]+)\(.*/\1/' | sort -u)
one() {
  k="$1"; f="$2"; d=$(mktemp -d /tmp/rceqf.XXXXXX)
  n=$(/verif/bin/eqsweep -repo /repo -kind "$k" -func "$f" -out "$d.src" 2>&1 | tail -1)
  case "$n" in *": 0 sites") rm -rf "$d" "$d.src"; return;; esac
  rsync -a --exclude .git --exclude examples /repo/ "$d/"; cp "$d.src"/*.go "$d/"; rm -rf "$d.src"
  if ! (cd "$d" && go build ./... >/dev/null 2>&1); then echo "$f ($n): BUILD-FAILED"; rm -rf "$d"; return; fi
  if ! (cd "$d" && go test -vet=off -count=1 . >/dev/null 2>&1); then echo "$f ($n): TESTS-FAILED"; rm -rf "$d"; return; fi
  out=$(/verif/bin/restcheck -repo "$d" -property all -no-evidence 2>&1)
  nsum=$(echo "$out" | grep -cE '^C[0-9]+: [0-9]+ obligations')
  rules=$(echo "$out" | grep -E '^  (VIOLATED|UNDECIDED)' | awk '{print $2}' | tr -d ':' | sort | uniq -c | awk '{print $2"x"$1}' | paste -sd' ')
  [ "$nsum" -ne 19 ] && rules="CRASH($nsum/19) $rules"
  echo "$f ($n): ${rules:-NONE}"
  rm -rf "$d"
}
export -f one
printf "%s\n" $funcs | xargs -P 10 -I{} bash -c "one $kind {}"
