#!/bin/bash
# usage: tools/verify_feature_seed.sh <PROP> <k> [extra go test flags]
# For seeded changes that ADD API (the demo cannot compile on HEAD): /tmp/wt/<PROP>-out/<k>/ holds patch.diff (the flawed
# feature), fixed.diff (the same feature without the flaw), demo_test.go, notes.md. Confirmed when: the suite passes with
# patch.diff, the demo FAILS with patch.diff, the demo PASSES with fixed.diff and the suite passes with fixed.diff.
# Stored under /verif/seeded/<PROP>-<k>/ (plus the repaired feature as variants/benign-<PROP>-<k>-fixed.patch).
set -u
. /verif/env.sh
id=$1; k=$2; shift 2; flags="$*"
src=/tmp/wt/$id-out/$k
wt=/tmp/wt/VAR
head=$(git -C /repo rev-parse HEAD)
git -C $wt checkout -q --detach $head; git -C $wt checkout -q -- .; git -C $wt clean -fdq
tests=$(grep -ohE '^func (Test[A-Za-z0-9_]+)' $src/demo_test.go | awk '{print $2}' | paste -sd'|')
cd $wt
git apply $src/patch.diff || { echo "APPLY-FAILED"; exit 2; }
go build ./... || { echo "BUILD-FAILED"; git checkout -q -- .; exit 2; }
suite=$(go test -vet=off -count=1 ./... 2>&1 | tail -1)
cp $src/demo_test.go $wt/zz_demo_test.go
timeout 300 go test -vet=off -count=1 $flags -run "^($tests)\$" . > /tmp/wt/demo_mut.log 2>&1; rc_mut=$?
rm -f $wt/zz_demo_test.go; git checkout -q -- .; git clean -fdq
git apply $src/fixed.diff || { echo "FIXED-APPLY-FAILED"; exit 2; }
suitef=$(go test -vet=off -count=1 ./... 2>&1 | tail -1)
cp $src/demo_test.go $wt/zz_demo_test.go
timeout 300 go test -vet=off -count=1 $flags -run "^($tests)\$" . > /tmp/wt/demo_head.log 2>&1; rc_fix=$?
rm -f $wt/zz_demo_test.go; git checkout -q -- .; git clean -fdq
echo "$id-$k: suite-with-mutation: $suite | demo-with-mutation rc=$rc_mut | demo-with-fixed rc=$rc_fix | suite-with-fixed: $suitef"
if [[ "$suite" == ok* && "$suitef" == ok* && $rc_mut -ne 0 && $rc_fix -eq 0 ]]; then
  d=/verif/seeded/$id-$k; mkdir -p $d
  cp $src/patch.diff $d/patch.diff; cp $src/fixed.diff $d/fixed.diff; cp $src/demo_test.go $d/demo_test.go; cp $src/notes.md $d/notes.md 2>/dev/null
  python3 - "$id" "$k" "$head" "$tests" "$flags" "$suite" "$rc_mut" "$rc_fix" <<'PY'
import json,sys,re
id,k,head,tests,flags,suite,rc_mut,rc_fix=sys.argv[1:]
d='/verif/seeded/%s-%s'%(id,k)
meta={"id":"%s-%s"%(id,k),"breaks_property":re.sub(r"r\d+$","",id),"base_commit":head,"kind":"new feature with a flaw (the demo uses new API, so it is compared with fixed.diff instead of HEAD)",
 "needs_to_manifest":"see notes.md (written by the independent sub-agent that produced the change)",
 "confirmed_by":"tools/verify_feature_seed.sh in scratch worktree /tmp/wt/VAR",
 "ran":["git apply patch.diff","go build ./...","go test -vet=off -count=1 ./...  -> "+suite,
        "go test -vet=off -count=1 %s -run '^(%s)$' .  with patch.diff -> exit %s (fails)"%(flags,tests,rc_mut),
        "same demo with fixed.diff instead -> exit %s (passes)"%rc_fix],
 "detected_by":[]}
json.dump(meta,open(d+'/meta.json','w'),indent=1)
PY
  { echo "# variant: benign-$id-$k-fixed"; echo "# kind: benign"; echo "# expect: none"; echo "# properties: all"; echo "# origin: sub-agent (the repaired version of seeded/$id-$k: the same new feature without the flaw)"; echo "# tests: pass"; echo "# desc: $(sed -n 1,1p $src/notes.md | cut -c1-100) - repaired"; cat $src/fixed.diff; } > /verif/variants/benign-$id-$k-fixed.patch
  echo "  stored in $d (+ variants/benign-$id-$k-fixed.patch)"
else
  echo "  NOT CONFIRMED (see /tmp/wt/demo_mut.log, /tmp/wt/demo_head.log)"
fi
