#!/usr/bin/env python3
"""Regenerates /verif/MANIFEST.json from the table below and from `restcheck -list`.
Run after adding/removing a claimed property. The manifest is committed; nothing reads this at check time."""
import json, subprocess, os, sys
here = os.path.dirname(os.path.dirname(os.path.abspath(__file__)))
ENV = ". ./env.sh && "
lst = subprocess.run(["bash", "-c", ENV + "bin/restcheck -list"], cwd=here, capture_output=True, text=True, check=True).stdout
claimed = {}
cur = None
for line in lst.splitlines():
    if line and not line.startswith(" "):
        cur, title = line.split(" ", 1)
        claimed[cur] = {"title": title, "rules": []}
    elif line.strip():
        parts = line.split(None, 2)
        claimed[cur]["rules"].append((parts[0], parts[1], parts[2] if len(parts) > 2 else ""))

TEXT = json.load(open(os.path.join(here, "tools", "manifest_text.json")))
props = [json.loads(l)["id"] for l in open(os.path.join(here, "properties.jsonl"))]
checks, na = [], []
for pid in props:
    if pid in claimed:
        t = TEXT["claimed"].get(pid, {})
        rules = claimed[pid]["rules"]
        templates = sorted({r[1] for r in rules})
        checks.append({
            "property_id": pid,
            "quick_cmd": ENV + "bin/restcheck -property %s -tier quick" % pid,
            "thorough_cmd": ENV + "bin/restcheck -property %s -tier thorough" % pid,
            "evidence_file": "/verif/evidence/%s.json" % pid,
            "replay_cmd_template": ENV + "bin/restcheck -replay {path}",
            "engine": "restcheck",
            "level_claimed": {
                "category": "other",
                "text": t.get("level_text", "Static analysis decides structural clauses that are necessary conditions of the property, for every path/schedule/history at once; it does not decide the behaviour itself."),
                "design_ref": "DESIGN.md §5 " + pid,
            },
            "level_note": t.get("level_note", "Trusted: go/packages, go/types, go/ssa (x/tools v0.29.0); Go semantics of defer/recover/select/receivers; modelled library contracts (DESIGN.md §8). User callbacks are opaque."),
            "technique": t.get("technique", "static analysis over go/ssa: " + ", ".join(templates) + " rules (" + ", ".join(r[0] for r in rules) + ")"),
        })
    else:
        na.append({"property_id": pid, "reason": TEXT["not_applicable"].get(pid, "no check built yet for this property (static rules under construction; see DESIGN.md §5)")})
m = {
    "version": 1,
    "setup_cmd": ". ./env.sh && mkdir -p bin evidence && go build -o bin/restcheck ./cmd/restcheck",
    "hooks": {"guard": "verif", "enable": "none: static analysis needs no instrumentation of /repo (no hook commits)",
              "baseline_off_cmd": "cd /repo && GOFLAGS=-mod=mod GOPROXY=off go test -vet=off -count=1 ./...",
              "source_commits": [], "add_only": True},
    "engines": [{"name": "restcheck", "path": "/verif/cmd/restcheck", "serves_properties": sorted(claimed),
                 "kind_free_text": "repository-specific static analyser over go/packages + go/types + go/ssa (dominators, cells, provenance, locksets, call graph); no code of /repo is executed"}],
    "checks": checks,
    "not_applicable": na,
    "notes": TEXT.get("notes", ""),
}
json.dump(m, open(os.path.join(here, "MANIFEST.json"), "w"), indent=1)
print("MANIFEST.json: %d checks, %d not_applicable" % (len(checks), len(na)))
