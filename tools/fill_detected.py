#!/usr/bin/env python3
"""usage: tools/fill_detected.py [matrix-output]. Runs tools/matrix.sh over seeded/* (or reads its output) and records, in each meta.json, which rules report the change."""
import subprocess, json, re, os, sys
out = open(sys.argv[1]).read() if len(sys.argv) > 1 else subprocess.run(['/verif/tools/matrix.sh'] + sorted(__import__('glob').glob('/verif/seeded/*/patch.diff')), capture_output=True, text=True).stdout
for line in out.splitlines():
    m = re.match(r'(/verif/seeded/[^/]+)/patch.diff => (.*)', line)
    if not m: continue
    d, rules = m.groups()
    meta = json.load(open(d + '/meta.json'))
    meta['detected_by'] = [] if rules == 'NONE' else rules.split()
    meta['detected_by_own_property'] = any(r.startswith(meta['breaks_property'] + '.') for r in meta['detected_by'])
    json.dump(meta, open(d + '/meta.json', 'w'), indent=1)
    print(os.path.basename(d), meta['detected_by'])
