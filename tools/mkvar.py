#!/usr/bin/env python3
"""Author a sensitivity-suite variant: tools/mkvar.py <name> <kind> <expect-rules|none> <props> [--notest]  < spec
kind: breaking|benign. spec on stdin: blocks of
  @@ file
  <old text>
  ====
  <new text>
  @@end
Applies the replacements in the scratch worktree /tmp/wt/VAR (a checkout of /repo HEAD), requires that it builds
and that the repository's tests still pass (a variant the suite catches proves nothing), writes
variants/<name>.patch with a header, and resets the worktree."""
import sys, subprocess, os, re
name, kind, expect, props = sys.argv[1:5]
notest = '--notest' in sys.argv
wt = '/tmp/wt/VAR'
env = dict(os.environ, GOFLAGS='-mod=mod', GOPROXY='off', GOSUMDB='off', GOTOOLCHAIN='local')
subprocess.run(['git','-C',wt,'checkout','-q','--detach',subprocess.run(['git','-C','/repo','rev-parse','HEAD'],capture_output=True,text=True).stdout.strip()],check=True)
subprocess.run(['git','-C',wt,'checkout','-q','--','.'],check=True)
spec = sys.stdin.read()
desc = ''
blocks = re.findall(r'@@ (\S+)\n(.*?)\n====\n(.*?)\n@@end', spec, re.S)
m = re.search(r'^desc: (.*)$', spec, re.M)
if m: desc = m.group(1)
assert blocks, 'no blocks'
for f, old, new in blocks:
    p = os.path.join(wt, f)
    s = open(p).read()
    if s.count(old) != 1:
        print('ERROR: old text occurs %d times in %s' % (s.count(old), f)); subprocess.run(['git','-C',wt,'checkout','-q','--','.']); sys.exit(1)
    open(p, 'w').write(s.replace(old, new))
r = subprocess.run(['go','build','./...'], cwd=wt, env=env, capture_output=True, text=True)
if r.returncode != 0:
    print('BUILD FAILED\n' + r.stderr); subprocess.run(['git','-C',wt,'checkout','-q','--','.']); sys.exit(1)
tests = 'not run'
if not notest:
    r = subprocess.run(['go','test','-vet=off','-count=1','./...'], cwd=wt, env=env, capture_output=True, text=True)
    tests = 'pass' if r.returncode == 0 else 'FAIL'
    if r.returncode != 0:
        print('TESTS FAIL with this variant (the suite catches it):\n' + r.stdout[-1500:])
        if kind == 'breaking':
            subprocess.run(['git','-C',wt,'checkout','-q','--','.']); sys.exit(1)
diff = subprocess.run(['git','-C',wt,'diff'], capture_output=True, text=True).stdout
out = '/verif/variants/%s.patch' % name
open(out, 'w').write('# variant: %s\n# kind: %s\n# expect: %s\n# properties: %s\n# tests: %s\n# desc: %s\n%s' % (name, kind, expect, props, tests, desc, diff))
subprocess.run(['git','-C',wt,'checkout','-q','--','.'],check=True)
print('wrote', out, 'tests:', tests)
