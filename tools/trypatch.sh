#!/bin/bash
# usage: tools/trypatch.sh [-R] <patch-file|commit:SHA> <property|all> [more properties]
# Applies a patch (or the reverse of a /repo commit with commit:SHA, i.e. re-introduces the defect)
# to a scratch copy of /repo and analyses that copy. Nothing is executed or left behind.
set -u
. /verif/env.sh
rev=""
if [ "$1" = "-R" ]; then rev="-R"; shift; fi
src="$1"; shift
case "$src" in commit:*) ;; *) src=$(readlink -f "$src");; esac
d=$(mktemp -d /tmp/rcvar.XXXXXX)
trap 'rm -rf "$d"' EXIT
rsync -a --exclude .git --exclude examples /repo/ "$d/"
case "$src" in
  commit:*) git -C /repo show "${src#commit:}" -- . ':!examples' | (cd "$d" && patch -s -p1 -R) || { echo "PATCH-FAILED"; exit 3; } ;;
  *) (cd "$d" && patch -s -p1 $rev < "$src") || { echo "PATCH-FAILED"; exit 3; } ;;
esac
(cd "$d" && go build ./... ) || { echo "BUILD-FAILED"; exit 4; }
rc=0
for p in "$@"; do
  /verif/bin/restcheck -repo "$d" -property "$p" -no-evidence | sed "s#$d/##g" | grep -v '^VIOLATION' | cut -c1-${COLS:-220} || true
  /verif/bin/restcheck -repo "$d" -property "$p" -no-evidence >/dev/null 2>&1 || rc=1
done
exit $rc
