#!/bin/bash
# usage: tools/tryv.sh <patch> <property>   verbose normal-form trace for one variant
. /verif/env.sh
export GOFLAGS="$GOFLAGS -trimpath"
src=$(readlink -f "$1"); shift
d=$(mktemp -d /tmp/rcvar.XXXXXX); trap 'rm -rf "$d"' EXIT
rsync -a --exclude .git --exclude examples /repo/ "$d/"
(cd "$d" && patch -s -p1 < "$src") || exit 3
for p in "$@"; do /verif/bin/restcheck -repo "$d" -property "$p" -no-evidence -v 2>&1 | grep -E "normal form|VIOLATED|UNDECIDED|^C[0-9]|^     " | sed "s#$d/##g" | cut -c1-${COLS:-300}; done
[ -n "$KEEP" ] && { mkdir -p $KEEP; RESTCHECK_DUMP_DIR=$KEEP /verif/bin/restcheck -repo "$d" -dump inline; }
