#!/usr/bin/env python3
"""usage: tools/matrix.sh > /tmp/m.txt; tools/matrix_check.py /tmp/m.txt
Checks the matrix: every seeded change is reported by a rule of the property it was written against, every
breaking variant by a rule of one of its properties, every benign variant by nothing, and no analysis crashed."""
import json, glob, os, sys
m = {}
for l in open(sys.argv[1]):
    if '=>' not in l:
        continue
    f, r = l.strip().split(' => ')
    m[f] = r.split()
bad = 0
nmiss = 0
for f, r in m.items():
    if r and r[0].startswith('CRASH'):
        bad += 1
        print('CRASH:', f, r)
for d in sorted(glob.glob('/verif/seeded/*/')):
    meta = json.load(open(d + 'meta.json'))
    prop = meta['breaks_property']
    rules = m.get(os.path.abspath(d + 'patch.diff'), [])
    if not [r for r in rules if r.startswith(prop + '.')]:
        if meta.get('documented_miss'):
            nmiss += 1
            continue
        bad += 1
        print('NOT BY OWN:', d, prop, rules)
nb = 0
nlim = 0
for f in sorted(glob.glob('/verif/variants/*.patch')):
    hdr = {}
    for l in open(f):
        if not l.startswith('#'):
            break
        k, _, v = l[1:].partition(':')
        hdr[k.strip()] = v.strip()
    rules = m.get(os.path.abspath(f), [])
    if hdr.get('kind') == 'limit':
        # a correct new feature the rules are known to report (DESIGN 13.6): the reported rules are recorded in the header
        nlim += 1
        exp = [x for x in hdr.get('expect', '').split(',') if x]
        if sorted(rules) != sorted(exp):
            print('LIMIT CHANGED:', f, 'recorded', exp, 'now', rules)
        continue
    if hdr.get('kind') == 'benign':
        nb += 1
        if rules != ['NONE']:
            bad += 1
            print('BENIGN ALARM:', f, rules)
        continue
    props = hdr.get('properties', '')
    if not (rules and rules != ['NONE'] and any(r.split('.')[0] in props for r in rules)):
        bad += 1
        print('VARIANT NOT REPORTED:', f, hdr.get('kind'), props, rules)
print('seeds', len(glob.glob('/verif/seeded/*/')), '(documented misses %d)' % nmiss, 'benign', nb, 'documented limits', nlim, 'problems', bad)
sys.exit(1 if bad else 0)
