#!/bin/bash
# usage: tools/store_benign.sh <Bn>   - confirm the six refactorings in /tmp/wt/<Bn>-out/{1..6} (apply, build, suite passes)
# in the scratch worktree /tmp/wt/<Bn> and store them as variants/benign-<Bn>-<k>.patch (kind: benign, expect: none).
. /verif/env.sh
B="$1"; wt=/tmp/wt/$B
for k in 1 2 3 4 5 6; do
  src=/tmp/wt/$B-out/$k/patch.diff
  [ -f "$src" ] || { echo "$B-$k: no patch"; continue; }
  git -C $wt checkout -q -- . ; git -C $wt clean -fdq
  if ! git -C $wt apply "$src" 2>/dev/null; then echo "$B-$k: does not apply"; continue; fi
  if ! (cd $wt && go build ./... >/dev/null 2>&1); then echo "$B-$k: build fails"; git -C $wt checkout -q -- .; continue; fi
  if ! (cd $wt && go test -vet=off -count=1 ./... >/dev/null 2>&1); then echo "$B-$k: suite fails"; git -C $wt checkout -q -- .; continue; fi
  desc=$(head -1 /tmp/wt/$B-out/$k/notes.md 2>/dev/null | sed 's/^#* *//' | cut -c1-150)
  { echo "# variant: benign-$B-$k"; echo "# kind: benign"; echo "# expect: none"; echo "# properties: all"; echo "# origin: sub-agent"; echo "# tests: pass"; echo "# desc: $desc"; cat "$src"; } > /verif/variants/benign-$B-$k.patch
  mkdir -p /verif/variants/notes; cp /tmp/wt/$B-out/$k/notes.md /verif/variants/notes/benign-$B-$k.md 2>/dev/null
  git -C $wt checkout -q -- . ; git -C $wt clean -fdq
  echo "$B-$k: stored"
done
