#!/bin/bash
# usage: tools/matrix.sh [dir-with-patches...]   (default: seeded/*/patch.diff and variants/*.patch)
# For every patch: scratch copy of /repo, apply, analyse with ALL properties in one process, remove the copy.
# Prints one line per patch: which properties/rules reported it. Nothing is executed or left behind.
. /verif/env.sh
export GOFLAGS="$GOFLAGS -trimpath"
one() {
  f="$1"; d=$(mktemp -d /tmp/rcmx.XXXXXX)
  rsync -a --exclude .git --exclude examples /repo/ "$d/"
  if ! (cd "$d" && patch -s -p1 < "$f" >/dev/null 2>&1); then echo "$f PATCH-FAILED"; rm -rf "$d"; return; fi
  if ! (cd "$d" && go build ./... >/dev/null 2>&1); then echo "$f BUILD-FAILED"; rm -rf "$d"; return; fi
  out=$(${RC:-/verif/bin/restcheck} -repo "$d" -property all -no-evidence 2>&1)
  rules=$(echo "$out" | grep -E '^  (VIOLATED|UNDECIDED)' | awk '{print $2}' | tr -d ':' | sort -u | paste -sd' ')
  nsum=$(echo "$out" | grep -cE '^C[0-9]+: [0-9]+ obligations')
  if [ "$nsum" -ne 19 ] || echo "$out" | grep -qE '^(ERROR|panic:|fatal error)'; then rules="CRASH($nsum/19 summaries) $rules"; fi
  echo "$f => ${rules:-NONE}"
  rm -rf "$d"
}
export -f one
if [ $# -eq 0 ]; then set -- /verif/seeded/*/patch.diff /verif/variants/*.patch; fi
printf "%s\n" "$@" | while read f; do readlink -f "$f"; done | xargs -P 12 -I{} bash -c 'one {}' | sort
