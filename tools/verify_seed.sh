#!/bin/bash
# usage: tools/verify_seed.sh <PROP> <k> [extra go test flags]
# Confirms a sub-agent's mutation in the scratch worktree /tmp/wt/VAR and, if confirmed, stores it under /verif/seeded/<PROP>-<k>/.
set -u
. /verif/env.sh
id=$1; k=$2; shift 2; flags="$*"
src=/tmp/wt/$id-out/$k
wt=/tmp/wt/VAR
head=$(git -C /repo rev-parse HEAD)
git -C $wt checkout -q --detach $head; git -C $wt checkout -q -- .; git -C $wt clean -fdq
tests=$(grep -ohE '^func (Test[A-Za-z0-9_]+)' $src/demo_test.go | awk '{print $2}' | paste -sd'|')
res() { echo "$1"; }
cd $wt
git apply $src/patch.diff || { echo "APPLY-FAILED"; exit 2; }
go build ./... || { echo "BUILD-FAILED"; git checkout -q -- .; exit 2; }
suite=$(go test -vet=off -count=1 ./... 2>&1 | tail -1)
cp $src/demo_test.go $wt/zz_demo_test.go
timeout 300 go test -vet=off -count=1 $flags -run "^($tests)\$" . > /tmp/wt/demo_mut.log 2>&1; rc_mut=$?
rm -f $wt/zz_demo_test.go; git checkout -q -- .; git clean -fdq
cp $src/demo_test.go $wt/zz_demo_test.go
timeout 300 go test -vet=off -count=1 $flags -run "^($tests)\$" . > /tmp/wt/demo_head.log 2>&1; rc_head=$?
rm -f $wt/zz_demo_test.go; git checkout -q -- .; git clean -fdq
echo "$id-$k: suite-with-mutation: $suite | demo-with-mutation rc=$rc_mut | demo-on-HEAD rc=$rc_head"
if [[ "$suite" == ok* && $rc_mut -ne 0 && $rc_head -eq 0 ]]; then
  d=/verif/seeded/$id-$k; mkdir -p $d
  cp $src/patch.diff $d/patch.diff; cp $src/demo_test.go $d/demo_test.go; cp $src/notes.md $d/notes.md 2>/dev/null
  python3 - "$id" "$k" "$head" "$tests" "$flags" "$suite" "$rc_mut" "$rc_head" <<'PY'
import json,sys,re
id,k,head,tests,flags,suite,rc_mut,rc_head=sys.argv[1:]
d='/verif/seeded/%s-%s'%(id,k)
notes=open(d+'/notes.md').read() if True else ''
import re as _re
meta={"id":"%s-%s"%(id,k),"breaks_property":_re.sub(r"r\d+$","",id),"base_commit":head,
 "needs_to_manifest":"see notes.md (written by the independent sub-agent that produced the change)",
 "confirmed_by":"tools/verify_seed.sh in scratch worktree /tmp/wt/VAR",
 "ran":["git apply patch.diff","go build ./...","go test -vet=off -count=1 ./...  -> "+suite,
        "go test -vet=off -count=1 %s -run '^(%s)$' .  with the change -> exit %s (fails)"%(flags,tests,rc_mut),
        "same demo on unmodified HEAD -> exit %s (passes)"%rc_head],
 "detected_by":[]}
json.dump(meta,open(d+'/meta.json','w'),indent=1)
PY
  echo "  stored in $d"
else
  echo "  NOT CONFIRMED (see /tmp/wt/demo_mut.log, /tmp/wt/demo_head.log)"
fi
