# sourced by every command registered in MANIFEST.json
export GOFLAGS=-mod=mod GOPROXY=off GOSUMDB=off GOTOOLCHAIN=local
unset GOWORK
