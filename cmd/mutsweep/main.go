// mutsweep is a development tool (not part of any check): it generates first-order syntactic
// mutants of /repo's non-test sources, keeps those that still build and pass the repository's
// test suite, and asks restcheck which of them it reports. Survivors that no rule reports are
// candidates for triage (equivalent mutant, out-of-scope behaviour, or a hole in a rule).
// Everything happens in scratch copies under $TMPDIR; /repo is only read.
package main

import (
	"bufio"
	"bytes"
	"encoding/json"
	"flag"
	"fmt"
	"go/ast"
	"go/parser"
	"go/token"
	"os"
	"os/exec"
	"path/filepath"
	"sort"
	"strings"
	"sync"
	"time"
)

type site struct {
	File  string `json:"file"`
	Line  int    `json:"line"`
	Func  string `json:"func"`
	Op    string `json:"op"`
	Desc  string `json:"desc"`
	start int
	end   int
	repl  string
}

type result struct {
	site
	Build string   `json:"build"`
	Tests string   `json:"tests"`
	Rules []string `json:"rules"`
}

func main() {
	repo := flag.String("repo", "/repo", "repository")
	out := flag.String("out", "/tmp/mutsweep.jsonl", "output")
	workers := flag.Int("workers", 14, "parallel workers")
	only := flag.String("files", "", "comma-separated file filter")
	limit := flag.Int("limit", 0, "max mutants (0 = all)")
	restcheck := flag.String("restcheck", "/verif/bin/restcheck", "checker binary")
	reuse := flag.String("reuse", "", "earlier output: build/test verdicts are taken from it, only the checker is re-run on survivors")
	flag.Parse()
	old := map[string]result{}
	if *reuse != "" {
		if b, err := os.ReadFile(*reuse); err == nil {
			for _, l := range strings.Split(string(b), "\n") {
				var r result
				if json.Unmarshal([]byte(l), &r) == nil && r.File != "" {
					old[r.File+"|"+fmt.Sprint(r.Line)+"|"+r.Op+"|"+r.Desc] = r
				}
			}
		}
	}

	files, _ := filepath.Glob(filepath.Join(*repo, "*.go"))
	sort.Strings(files)
	var sites []site
	srcs := map[string][]byte{}
	for _, f := range files {
		base := filepath.Base(f)
		if strings.HasSuffix(base, "_test.go") || base == "doc.go" {
			continue
		}
		if *only != "" && !strings.Contains(","+*only+",", ","+base+",") {
			continue
		}
		src, err := os.ReadFile(f)
		if err != nil {
			continue
		}
		srcs[base] = src
		sites = append(sites, mutationSites(base, src)...)
	}
	if *limit > 0 && len(sites) > *limit {
		sites = sites[:*limit]
	}
	fmt.Fprintf(os.Stderr, "%d mutation sites\n", len(sites))

	of, err := os.Create(*out)
	if err != nil {
		panic(err)
	}
	defer of.Close()
	w := bufio.NewWriter(of)
	defer w.Flush()
	var mu sync.Mutex
	jobs := make(chan site)
	var wg sync.WaitGroup
	done := 0
	for k := 0; k < *workers; k++ {
		wg.Add(1)
		go func(k int) {
			defer wg.Done()
			dir, err := os.MkdirTemp("", "mutsweep-")
			if err != nil {
				return
			}
			defer os.RemoveAll(dir)
			exec.Command("rsync", "-a", "--exclude", ".git", "--exclude", "examples", *repo+"/", dir+"/").Run()
			env := append(os.Environ(), "GOFLAGS=-mod=mod", "GOPROXY=off", "GOSUMDB=off", "GOTOOLCHAIN=local", "GOWORK=off")
			for s := range jobs {
				r := result{site: s}
				orig := srcs[s.File]
				mut := append(append(append([]byte{}, orig[:s.start]...), []byte(s.repl)...), orig[s.end:]...)
				os.WriteFile(filepath.Join(dir, s.File), mut, 0o644)
				if o, ok := old[s.File+"|"+fmt.Sprint(s.Line)+"|"+s.Op+"|"+s.Desc]; ok {
					r.Build, r.Tests = o.Build, o.Tests
				} else {
					r.Build = run(dir, env, 60*time.Second, "go", "build", "./...")
					if r.Build == "ok" {
						r.Tests = run(dir, env, 120*time.Second, "go", "test", "-vet=off", "-count=1", "./...")
					}
				}
				if r.Build == "ok" {
					if r.Tests == "ok" {
						cmd := exec.Command(*restcheck, "-repo", dir, "-property", "all", "-no-evidence")
						cmd.Env = append(env, "VERIF_DIR=/verif")
						b, _ := cmd.CombinedOutput()
						seen := map[string]bool{}
						for _, l := range strings.Split(string(b), "\n") {
							l = strings.TrimSpace(l)
							if strings.HasPrefix(l, "VIOLATED ") || strings.HasPrefix(l, "UNDECIDED ") {
								f := strings.Fields(l)
								if len(f) > 1 {
									seen[strings.TrimSuffix(f[1], ":")] = true
								}
							}
							if strings.HasPrefix(l, "ERROR") {
								seen["ERROR"] = true
							}
						}
						for k := range seen {
							r.Rules = append(r.Rules, k)
						}
						sort.Strings(r.Rules)
					}
				}
				os.WriteFile(filepath.Join(dir, s.File), orig, 0o644)
				b, _ := json.Marshal(r)
				mu.Lock()
				w.Write(b)
				w.WriteByte('\n')
				done++
				if done%100 == 0 {
					w.Flush()
					fmt.Fprintf(os.Stderr, "%d/%d\n", done, len(sites))
				}
				mu.Unlock()
			}
		}(k)
	}
	for _, s := range sites {
		jobs <- s
	}
	close(jobs)
	wg.Wait()
}

func run(dir string, env []string, timeout time.Duration, name string, args ...string) string {
	cmd := exec.Command(name, args...)
	cmd.Dir = dir
	cmd.Env = env
	var buf bytes.Buffer
	cmd.Stdout = &buf
	cmd.Stderr = &buf
	if err := cmd.Start(); err != nil {
		return "fail"
	}
	ch := make(chan error, 1)
	go func() { ch <- cmd.Wait() }()
	select {
	case err := <-ch:
		if err != nil {
			return "fail"
		}
		return "ok"
	case <-time.After(timeout):
		cmd.Process.Kill()
		return "timeout"
	}
}

func mutationSites(file string, src []byte) []site {
	fset := token.NewFileSet()
	f, err := parser.ParseFile(fset, file, src, parser.ParseComments)
	if err != nil {
		return nil
	}
	var out []site
	off := func(p token.Pos) int { return fset.Position(p).Offset }
	text := func(n ast.Node) string { return string(src[off(n.Pos()):off(n.End())]) }
	curFunc := ""
	add := func(n ast.Node, op, repl, desc string) {
		out = append(out, site{File: file, Line: fset.Position(n.Pos()).Line, Func: curFunc, Op: op, Desc: desc, start: off(n.Pos()), end: off(n.End()), repl: repl})
	}
	for _, d := range f.Decls {
		fd, ok := d.(*ast.FuncDecl)
		if !ok || fd.Body == nil {
			continue
		}
		curFunc = fd.Name.Name
		if fd.Recv != nil && len(fd.Recv.List) > 0 {
			curFunc = strings.TrimPrefix(text(fd.Recv.List[0].Type), "*") + "." + fd.Name.Name
		}
		ast.Inspect(fd.Body, func(n ast.Node) bool {
			switch x := n.(type) {
			case *ast.IfStmt:
				add(x.Cond, "negate-cond", "!("+text(x.Cond)+")", "if "+text(x.Cond)+" -> negated")
				add(x.Cond, "cond-true", "true", "if "+text(x.Cond)+" -> true")
				add(x.Cond, "cond-false", "false", "if "+text(x.Cond)+" -> false")
			case *ast.BinaryExpr:
				swaps := map[token.Token][]string{
					token.LSS: {"<="}, token.LEQ: {"<"}, token.GTR: {">="}, token.GEQ: {">"},
					token.EQL: {"!="}, token.NEQ: {"=="}, token.LAND: {"||"}, token.LOR: {"&&"},
					token.ADD: {"-"}, token.SUB: {"+"},
				}
				for _, r := range swaps[x.Op] {
					if x.Op == token.ADD {
						// skip string concatenation
						if bl, ok := x.X.(*ast.BasicLit); ok && bl.Kind == token.STRING {
							continue
						}
						if bl, ok := x.Y.(*ast.BasicLit); ok && bl.Kind == token.STRING {
							continue
						}
					}
					add(x, "binop", text(x.X)+" "+r+" "+text(x.Y), text(x)+" -> "+r)
				}
			case *ast.DeferStmt:
				add(x, "undefer", text(x.Call), "defer removed (call made immediately): "+text(x.Call))
				add(x, "delete-defer", "", "deferred call deleted: "+text(x.Call))
			case *ast.ExprStmt:
				if _, ok := x.X.(*ast.CallExpr); ok {
					add(x, "delete-call", "", "statement deleted: "+text(x))
				}
			case *ast.AssignStmt:
				if x.Tok == token.ASSIGN || x.Tok == token.ADD_ASSIGN {
					add(x, "delete-assign", "", "assignment deleted: "+text(x))
				}
			case *ast.IncDecStmt:
				add(x, "delete-incdec", "", "statement deleted: "+text(x))
			case *ast.ReturnStmt:
				if len(x.Results) == 1 {
					if id, ok := x.Results[0].(*ast.Ident); ok && (id.Name == "true" || id.Name == "false") {
						nv := "true"
						if id.Name == "true" {
							nv = "false"
						}
						add(x.Results[0], "flip-return", nv, "return "+id.Name+" -> "+nv)
					}
				}
			case *ast.BranchStmt:
				if x.Tok == token.BREAK && x.Label == nil {
					add(x, "break-continue", "continue", "break -> continue")
				}
				if x.Tok == token.CONTINUE && x.Label == nil {
					add(x, "continue-break", "break", "continue -> break")
				}
			case *ast.BasicLit:
				if x.Kind == token.INT {
					switch x.Value {
					case "0":
						add(x, "const", "1", "0 -> 1")
					case "1":
						add(x, "const", "0", "1 -> 0")
					}
				}
			case *ast.CallExpr:
				// swap the first two arguments when they print differently and the call has exactly two or three
				if len(x.Args) >= 2 && len(x.Args) <= 3 && text(x.Args[0]) != text(x.Args[1]) {
					args := []string{text(x.Args[1]), text(x.Args[0])}
					for _, a := range x.Args[2:] {
						args = append(args, text(a))
					}
					add(x, "swap-args", text(x.Fun)+"("+strings.Join(args, ", ")+")", "arguments swapped: "+text(x))
				}
			}
			return true
		})
	}
	return out
}
