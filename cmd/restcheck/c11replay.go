package main

import (
	"go/token"
	"go/types"

	"golang.org/x/tools/go/ssa"
)

// Record and replay (C11.e). A registration function that Remove's rebuild does not reach is still replayed when
//   - next to every mux registration it makes, it records the registered (pattern, handler) pair in a Container field
//     F: an append of a struct element whose fields hold the two registered values, or a map update keyed by the
//     pattern; the record and the registration lie on the same paths; and
//   - Remove ranges over F to exhaustion and, in every iteration, registers the recorded pattern with the recorded
//     handler on the mux it installs, and does not write F before that loop.
// The function returns "" when this holds and the reason otherwise.

type recordedPair struct {
	Field   *types.Var // the Container field F
	Store   ssa.Instruction
	Pattern *types.Var // element field that holds the pattern (nil for a map: the key)
	Handler *types.Var // element field that holds the handler (nil for a map: the value)
	IsMap   bool
}

func containerFieldAddr(v ssa.Value) (*ssa.FieldAddr, bool) {
	fa, ok := v.(*ssa.FieldAddr)
	if !ok || ownerOfFieldAddr(fa) != "Container" {
		return nil, false
	}
	return fa, true
}

// loadOfContainerField: v is a load of Container.<F>.
func loadOfContainerField(v ssa.Value) (*types.Var, bool) {
	u, ok := strip(v).(*ssa.UnOp)
	if !ok || u.Op != token.MUL {
		return nil, false
	}
	fa, ok := containerFieldAddr(u.X)
	if !ok {
		return nil, false
	}
	return fieldOfAddr(fa), true
}

// structFieldStores: v is a struct value or a pointer to one, built locally; the values stored in its fields.
func structFieldStores(v ssa.Value) map[*types.Var]ssa.Value {
	v = strip(v)
	var alloc *ssa.Alloc
	switch x := v.(type) {
	case *ssa.Alloc:
		alloc = x
	case *ssa.UnOp:
		if a, ok := x.X.(*ssa.Alloc); ok && x.Op == token.MUL {
			alloc = a
		}
	}
	if alloc == nil {
		return nil
	}
	out := map[*types.Var]ssa.Value{}
	for _, r := range referrers(alloc) {
		fa, ok := r.(*ssa.FieldAddr)
		if !ok {
			continue
		}
		for _, rr := range referrers(fa) {
			if st, ok := rr.(*ssa.Store); ok && st.Addr == fa {
				if _, dup := out[fieldOfAddr(fa)]; dup {
					return nil // written twice: not a plain literal
				}
				out[fieldOfAddr(fa)] = st.Val
			}
		}
	}
	return out
}

// loadsFieldOf: v is a load of field fld of the very struct object obj (the registration reads the record).
func loadsFieldOf(v, obj ssa.Value, fld *types.Var) bool {
	u, ok := strip(v).(*ssa.UnOp)
	if !ok || u.Op != token.MUL {
		return false
	}
	fa, ok := u.X.(*ssa.FieldAddr)
	if !ok || fieldOfAddr(fa) != fld {
		return false
	}
	base := strip(obj)
	if l, ok := base.(*ssa.UnOp); ok && l.Op == token.MUL {
		base = l.X
	}
	return fa.X == base
}

// appendedElements: v is append(load F, e1, e2...) ; returns F and the appended element values.
func appendedElements(v ssa.Value) (*types.Var, []ssa.Value, bool) {
	call, ok := strip(v).(*ssa.Call)
	if !ok || !isBuiltinCall(call, "append") || len(call.Call.Args) != 2 {
		return nil, nil, false
	}
	f, ok := loadOfContainerField(call.Call.Args[0])
	if !ok {
		return nil, nil, false
	}
	sl, ok := call.Call.Args[1].(*ssa.Slice)
	if !ok {
		return nil, nil, false
	}
	arr, ok := sl.X.(*ssa.Alloc)
	if !ok {
		return nil, nil, false
	}
	var elems []ssa.Value
	for _, r := range referrers(arr) {
		ia, ok := r.(*ssa.IndexAddr)
		if !ok {
			continue
		}
		for _, rr := range referrers(ia) {
			if st, ok := rr.(*ssa.Store); ok && st.Addr == ia {
				elems = append(elems, st.Val)
			}
		}
	}
	return f, elems, len(elems) > 0
}

// sameRegistered: a recorded value is the registered value (the same SSA value below representation-only
// conversions, or loads of one variable).
func (p *Program) sameRegistered(a, b ssa.Value) bool {
	return p.sameVar(a, b)
}

// recordsOf: the records of (pattern, handler) that fn makes in Container fields.
func (p *Program) recordsOf(fn *ssa.Function, pattern, handler ssa.Value) []recordedPair {
	var out []recordedPair
	eachInstr(fn, func(i ssa.Instruction) {
		switch x := i.(type) {
		case *ssa.Store:
			fa, ok := containerFieldAddr(x.Addr)
			if !ok {
				return
			}
			f, elems, ok := appendedElements(x.Val)
			if !ok || f != fieldOfAddr(fa) {
				return
			}
			for _, e := range elems {
				rec := recordedPair{Field: f, Store: x}
				for fld, val := range structFieldStores(e) {
					if p.sameRegistered(val, pattern) || loadsFieldOf(pattern, e, fld) {
						rec.Pattern = fld
					}
					if p.sameRegistered(val, handler) || loadsFieldOf(handler, e, fld) {
						rec.Handler = fld
					}
				}
				if rec.Pattern != nil && rec.Handler != nil {
					out = append(out, rec)
				}
			}
		case *ssa.MapUpdate:
			f, ok := loadOfContainerField(x.Map)
			if !ok {
				return
			}
			if p.sameRegistered(x.Key, pattern) && p.sameRegistered(x.Value, handler) {
				out = append(out, recordedPair{Field: f, Store: x, IsMap: true})
			}
		}
	})
	return out
}

// alwaysTogether: a and b lie on the same paths: one dominates the other and no return is reached from the
// first without the second.
func alwaysTogether(a, b ssa.Instruction) bool {
	if !instrDominates(a, b) {
		a, b = b, a
		if !instrDominates(a, b) {
			return false
		}
	}
	for _, r := range returnsOf(a.Parent()) {
		if canReachAvoiding(a, r, []ssa.Instruction{b}) {
			return false
		}
	}
	return true
}

// elementField: v is the load of a field of an element of Container.<F> (the element reached through a range
// variable, an index expression, or a pointer element); for a map range, v is the key or the value.
func (p *Program) elementField(v ssa.Value, rec recordedPair) (fld *types.Var, isKey, isVal bool, loop *ssa.BasicBlock) {
	v = strip(v)
	if rec.IsMap {
		ex, ok := v.(*ssa.Extract)
		if !ok {
			// the key or value copied into a range variable
			for _, s := range p.sources(v, provDefault) {
				if e, ok := s.(*ssa.Extract); ok {
					ex = e
				}
			}
			if ex == nil {
				return nil, false, false, nil
			}
		}
		nx, ok := ex.Tuple.(*ssa.Next)
		if !ok {
			return nil, false, false, nil
		}
		rg, ok := nx.Iter.(*ssa.Range)
		if !ok {
			return nil, false, false, nil
		}
		if f, ok := loadOfContainerField(rg.X); !ok || f != rec.Field {
			return nil, false, false, nil
		}
		return nil, ex.Index == 1, ex.Index == 2, nx.Block()
	}
	u, ok := v.(*ssa.UnOp)
	if !ok || u.Op != token.MUL {
		return nil, false, false, nil
	}
	fa, ok := u.X.(*ssa.FieldAddr)
	if !ok {
		return nil, false, false, nil
	}
	var elemAddr *ssa.IndexAddr
	switch b := fa.X.(type) {
	case *ssa.IndexAddr:
		elemAddr = b
	case *ssa.UnOp: // []*T : the element is a pointer
		if ia, ok := b.X.(*ssa.IndexAddr); ok && b.Op == token.MUL {
			elemAddr = ia
		}
	case *ssa.Alloc: // the range variable: *alloc = *(&list[i])
		n := 0
		for _, st := range p.cellStores(b) {
			n++
			if l, ok := st.Val.(*ssa.UnOp); ok && l.Op == token.MUL {
				if ia, ok := l.X.(*ssa.IndexAddr); ok {
					elemAddr = ia
				}
			}
		}
		if n != 1 {
			elemAddr = nil
		}
	}
	if elemAddr == nil {
		return nil, false, false, nil
	}
	isF := false
	for _, s := range p.sources(elemAddr.X, provDefault) {
		if f, ok := loadOfContainerField(s); ok && f == rec.Field {
			isF = true
		}
		// a rebuild helper that is given the records to keep: it registers them and makes them the field's content
		if prm, ok := strip(s).(*ssa.Parameter); ok {
			eachInstr(prm.Parent(), func(i ssa.Instruction) {
				if st, ok := i.(*ssa.Store); ok && strip(st.Val) == ssa.Value(prm) {
					if fa, ok := containerFieldAddr(st.Addr); ok && fieldOfAddr(fa) == rec.Field {
						isF = true
					}
				}
			})
		}
	}
	if !isF {
		return nil, false, false, nil
	}
	return fieldOfAddr(fa), false, false, elemAddr.Block()
}

// replayedByRecord decides the record-and-replay mechanism for the registration `reg`; rm is Remove.
func (p *Program) replayedByRecord(rm *ssa.Function, reg muxRegistration) (ok bool, how, why string) {
	cc := callCommon(reg.Call)
	if cc == nil || len(cc.Args) < 3 {
		return false, "", ""
	}
	recs := p.recordsOf(reg.Fn, cc.Args[1], cc.Args[2])
	if len(recs) == 0 {
		return false, "", ""
	}
	// the value Remove installs as the mux
	var installed []ssa.Value
	for _, fn := range withClosures(rm) {
		eachInstr(fn, func(i ssa.Instruction) {
			if st, ok := i.(*ssa.Store); ok {
				if fa, ok := containerFieldAddr(st.Addr); ok && fieldOfAddr(fa).Name() == "ServeMux" {
					installed = append(installed, st.Val)
				}
			}
		})
	}
	for _, rec := range recs {
		if !alwaysTogether(reg.Call, rec.Store) {
			why = "the record in Container." + rec.Field.Name() + " at " + p.ipos(rec.Store) + " is not made on every path that registers"
			continue
		}
		// replay call sites in Remove
		for _, r2 := range muxRegistrations(p) {
			if r2.Fn != rm {
				continue
			}
			c2 := callCommon(r2.Call)
			onInstalled := false
			for _, v := range installed {
				if p.sameVar(v, c2.Args[0]) {
					onInstalled = true
				}
			}
			if !onInstalled {
				continue
			}
			pf, pk, _, l1 := p.elementField(c2.Args[1], rec)
			hf, _, hv, l2 := p.elementField(c2.Args[2], rec)
			if l1 == nil || l2 == nil {
				continue
			}
			if rec.IsMap && !(pk && hv) || !rec.IsMap && (pf != rec.Pattern || hf != rec.Handler) {
				why = "the replay at " + p.ipos(r2.Call) + " does not register the recorded pattern with the recorded handler"
				continue
			}
			// the loop: the call is on a cycle; every trip passes through it; the loop is left only by exhaustion
			cyc := blocksOnCycles(rm)
			cb := r2.Call.Block()
			if !cyc[cb] {
				why = "the replay at " + p.ipos(r2.Call) + " is not in a loop over Container." + rec.Field.Name()
				continue
			}
			var header *ssa.BasicBlock
			for b := cb; b != nil; b = b.Idom() {
				if !cyc[b] || !reachableAfter(cb, nil)[b] {
					break
				}
				if _, isIf := b.Instrs[len(b.Instrs)-1].(*ssa.If); isIf {
					for _, s := range b.Succs {
						if !reachableBlocks([]*ssa.BasicBlock{s}, nil)[b] {
							header = b
						}
					}
				}
			}
			if header == nil {
				why = "no loop header found for the replay at " + p.ipos(r2.Call)
				continue
			}
			inLoop := map[*ssa.BasicBlock]bool{header: true}
			fromH := reachableAfter(header, nil)
			for _, b := range rm.Blocks {
				if fromH[b] && reachableAfter(b, nil)[header] {
					inLoop[b] = true
				}
			}
			complete := true
			for b := range inLoop {
				for _, s := range b.Succs {
					if !inLoop[s] && b != header {
						complete = false
						why = "the replay loop is left at " + p.ipos(b.Instrs[len(b.Instrs)-1]) + " before the records are exhausted"
					}
				}
			}
			for _, s := range header.Succs {
				if inLoop[s] && s != cb && reachableBlocks([]*ssa.BasicBlock{s}, map[*ssa.BasicBlock]bool{cb: true})[header] {
					complete = false
					why = "an iteration of the replay loop can skip the registration at " + p.ipos(r2.Call)
				}
			}
			if !complete {
				continue
			}
			// F is not written in Remove ahead of the loop
			written := false
			eachInstr(rm, func(i ssa.Instruction) {
				var f *types.Var
				switch x := i.(type) {
				case *ssa.Store:
					if fa, ok := containerFieldAddr(x.Addr); ok {
						f = fieldOfAddr(fa)
					}
				case *ssa.MapUpdate:
					f, _ = loadOfContainerField(x.Map)
				}
				if f == rec.Field && !inLoop[i.Block()] && canReach(i, r2.Call) {
					if st, isSt := i.(*ssa.Store); isSt {
						if _, isPrm := strip(st.Val).(*ssa.Parameter); isPrm {
							return // the records handed to the rebuild become the field's content
						}
					}
					written = true
					why = "Container." + rec.Field.Name() + " is overwritten at " + p.ipos(i) + " before the replay loop"
				}
			})
			if written {
				continue
			}
			return true, "recorded in Container." + rec.Field.Name() + " at " + p.ipos(rec.Store) + " and registered again from that record by the loop at " + p.ipos(r2.Call) + " on the mux Remove installs", ""
		}
		if why == "" {
			why = "Container." + rec.Field.Name() + " records the pair, but Remove does not register from it on the mux it installs"
		}
	}
	return false, "", why
}

// isRecordReplay: the registration's pattern is read from a record kept in a Container field (a slice of structs or a
// map keyed by pattern, not the list of WebServices): it registers again what a caller of Handle chose, it does not
// compute a pattern from a WebService. Such registrations are decided by C11.e, not by the rules about computed
// patterns (C11.c, C11.h, C11.j).
func (p *Program) isRecordReplay(reg muxRegistration) bool {
	// the pattern is a string field of an element of a list of records (a module struct that is not a WebService or
	// a Route), wherever the list comes from (a field, or a parameter of a rebuild helper)
	if u, ok := strip(singleAssignment(reg.Key)).(*ssa.UnOp); ok && u.Op == token.MUL {
		if fa, ok := u.X.(*ssa.FieldAddr); ok {
			var elem ssa.Value
			switch b := fa.X.(type) {
			case *ssa.IndexAddr:
				elem = b
			case *ssa.UnOp:
				if ia, ok := b.X.(*ssa.IndexAddr); ok {
					elem = ia
				}
			case *ssa.Alloc:
				for _, st := range p.cellStores(b) {
					if l, ok := st.Val.(*ssa.UnOp); ok && l.Op == token.MUL {
						if ia, ok := l.X.(*ssa.IndexAddr); ok {
							elem = ia
						}
					}
				}
			}
			if elem != nil {
				t := fa.X.Type()
				if pt, ok := t.Underlying().(*types.Pointer); ok {
					t = pt.Elem()
				}
				if pt, ok := t.Underlying().(*types.Pointer); ok {
					t = pt.Elem()
				}
				if nt, ok := t.(*types.Named); ok && nt.Obj().Pkg() != nil && nt.Obj().Pkg().Path() == modulePath {
					if _, isStruct := nt.Underlying().(*types.Struct); isStruct && nt.Obj().Name() != "WebService" && nt.Obj().Name() != "Route" {
						return true
					}
				}
			}
		}
	}
	ct := p.namedType("Container")
	if ct == nil {
		return false
	}
	st, ok := ct.Underlying().(*types.Struct)
	if !ok {
		return false
	}
	for k := 0; k < st.NumFields(); k++ {
		f := st.Field(k)
		rec := recordedPair{Field: f}
		switch t := f.Type().Underlying().(type) {
		case *types.Slice:
			e := t.Elem()
			if pt, ok := e.Underlying().(*types.Pointer); ok {
				e = pt.Elem()
			}
			if _, ok := e.Underlying().(*types.Struct); !ok || isRestfulNamed(e, "WebService") {
				continue
			}
		case *types.Map:
			rec.IsMap = true
		default:
			continue
		}
		fld, isKey, _, loop := p.elementField(reg.Key, rec)
		if loop != nil && (fld != nil || isKey) {
			return true
		}
	}
	return false
}

// serviceRegistrations: the mux registrations whose pattern is computed (not replayed from a record).
func serviceRegistrations(p *Program) []muxRegistration {
	var out []muxRegistration
	for _, r := range muxRegistrations(p) {
		if !p.isRecordReplay(r) {
			out = append(out, r)
		}
	}
	return out
}
