package main

import (
	"go/token"
	"strings"

	"golang.org/x/tools/go/ssa"
)

// C16.h. A coding name means one format in both directions. The response side fixes the meaning: the constructor of
// the compressing writer installs, under `encoding == E`, a compressor of one family (gzip for "gzip", zlib for
// "deflate"). Wherever the request side installs a decoder as the request body under `Content-Encoding == E`, the
// decoder is of that same family on every path. A second decoder chosen by looking at the first byte of the body
// (raw flate when it is not 0x78) rejects valid zlib bodies written with a smaller window.

func codecFamily(name string) string {
	n := strings.ToLower(name)
	switch {
	case strings.Contains(n, "gzip"):
		return "gzip"
	case strings.Contains(n, "zlib"):
		return "zlib"
	case strings.Contains(n, "flate"):
		return "flate"
	}
	return ""
}

// familiesOf: the codec families of the constructor / provider calls the value derives from.
func (p *Program) familiesOf(v ssa.Value) map[string]bool {
	out := map[string]bool{}
	for _, s := range p.sources(v, provOpt{ThroughCells: true, ThroughTypeAssert: true}) {
		var call *ssa.Call
		switch x := strip(s).(type) {
		case *ssa.Call:
			call = x
		case *ssa.Extract:
			call, _ = x.Tuple.(*ssa.Call)
		}
		if call == nil {
			continue
		}
		n := calleeName(&call.Call)
		if call.Call.IsInvoke() {
			n = call.Call.Method.Name()
		}
		if !(strings.Contains(n, "New") || strings.Contains(n, "Acquire")) {
			continue
		}
		if f := codecFamily(n); f != "" {
			out[f] = true
		}
	}
	return out
}

// codingAt: the coding constant that facts say the compared value equals.
func codingAt(facts map[condFact]bool) string {
	for f := range facts {
		bo, ok := f.Cond.(*ssa.BinOp)
		if !ok || !((bo.Op == token.EQL && f.Pol) || (bo.Op == token.NEQ && !f.Pol)) {
			continue
		}
		for _, v := range []ssa.Value{bo.X, bo.Y} {
			if s, ok := constStr(v); ok && (s == "gzip" || s == "deflate") {
				return s
			}
		}
	}
	return ""
}

func ruleCodecSymmetry(c *Ctx) {
	p := c.P
	// the response side
	writer := map[string]string{}
	for _, fn := range p.SrcFunc {
		facts := factsAt(fn)
		for _, a := range p.fieldAccesses(fn) {
			if a.Kind != "store" || a.Owner != "CompressingResponseWriter" || a.Field.Name() != "compressor" {
				continue
			}
			e := codingAt(facts[a.Instr.Block()])
			if e == "" {
				// one store after the branches: the value is a phi with one compressor per incoming edge, each
				// chosen under its own test of the coding
				if ph, isPhi := strip(a.Instr.(*ssa.Store).Val).(*ssa.Phi); isPhi && len(ph.Edges) == len(ph.Block().Preds) {
					for k, ev := range ph.Edges {
						pr := ph.Block().Preds[k]
						fs := map[condFact]bool{}
						for g := range facts[pr] {
							fs[g] = true
						}
						if iff, ok := pr.Instrs[len(pr.Instrs)-1].(*ssa.If); ok && pr.Succs[0] != pr.Succs[1] {
							addCondFacts(fs, iff.Cond, pr.Succs[0] == ph.Block())
						}
						if ek := codingAt(fs); ek != "" {
							for f := range p.familiesOf(ev) {
								writer[ek] = f
							}
						}
					}
				}
				continue
			}
			for f := range p.familiesOf(a.Instr.(*ssa.Store).Val) {
				writer[e] = f
			}
		}
	}
	if len(writer) == 0 {
		c.undecided("-", "the compressor installed per coding", "-", "no store of CompressingResponseWriter.compressor under a test of the coding")
		return
	}
	n := 0
	for _, fn := range p.requestPathFuncs() {
		facts := factsAt(fn)
		name := p.fname(fn)
		eachInstr(fn, func(i ssa.Instruction) {
			st, ok := i.(*ssa.Store)
			if !ok {
				return
			}
			fa, ok := st.Addr.(*ssa.FieldAddr)
			if !ok || fieldOfAddr(fa).Name() != "Body" || !strings.HasSuffix(fa.X.Type().String(), "net/http.Request") {
				return
			}
			e := codingAt(facts[st.Block()])
			fams := p.familiesOf(st.Val)
			if e == "" || len(fams) == 0 {
				return
			}
			n++
			want := writer[e]
			bad := ""
			for f := range fams {
				if f != want {
					bad = f
				}
			}
			c.check(bad == "" && want != "", name, "a "+e+" request body is decoded by the family that encodes "+e+" responses", p.ipos(i),
				"decoder family "+want+" on this path, as installed for responses",
				"for Content-Encoding "+e+" this path decodes with "+bad+" while responses declared "+e+" are written with "+want+": bodies in the format the name stands for are rejected (or accepted by only one of two guesses)")
		})
	}
	if n == 0 {
		c.undecided("-", "decoders installed as the request body", "-", "no store to http.Request.Body under a test of the Content-Encoding")
	}
}
