package main

import (
	"go/token"

	"golang.org/x/tools/go/ssa"
)

func init() {
	register(&Property{
		ID:    "C16",
		Title: "Entities survive write then read, also compressed, whatever came before",
		Decided: "C16.a the JSON reader calls UseNumber on the very decoder whose Decode result it returns, before decoding (64-bit integers read into interface{} would otherwise pass through float64); C16.b a pooled gzip reader is Reset onto this request's body before first use and released only when the operation that reads through it is over, and the deflate branch builds a fresh reader per call; " +
			"C16.c in ReadEntity the result of a decompressor constructor is not touched (not even by a deferred Close) before its error was checked and returned, the accessor's Read error is the method's result, and no explicit panic is reachable from the read path; C16.d the acquire/release discipline of the pooled reader (same obligation as C13.a). C16.e = C13.f; C16.f = C13.d (every reader handed out is fully constructed). C16.g a byte container that goes through a sync.Pool is emptied before every Put or after every Get. C16.h under Content-Encoding E the request body is decoded on every path by the codec family the compressing writer installs for responses declared E.",
		NotDecided:  "the round-trip equality itself (a law about encoding/json, encoding/xml and compress/* on runtime values); unicode handling of the codecs.",
		Assumptions: []string{"gzip.Reader latches a Reset error and returns it from the next Read (library contract): the dropped error of gzipReader.Reset is not a violation"},
		Rules: []Rule{
			{ID: "C16.i", Template: "T-TOKEN", Required: false, Run: ruleTokenAll,
				Doc: "The reader of an entity is looked up by the media type of the Content-Type header: the piece cut from the header is trimmed before it is compared or used as a registry key (same obligations as C05.a). `application/json ; charset=UTF-8` cut at ';' without a trim misses the JSON reader."},
			{ID: "C16.a", Template: "T-ORDER", Required: true, Run: ruleC16a,
				Doc: "Number-preserving decoder."},
			{ID: "C16.b", Template: "T-ORDER", Required: true, Run: ruleC16b,
				Doc: "A pooled reader never carries a previous body: Reset(this request's Body) before use; fresh zlib reader per call."},
			{ID: "C16.c", Template: "T-SINK", Required: true, Run: ruleC16c,
				Doc: "Broken input is an error, not a panic: zlib.NewReader returns a nil reader together with its error, so any use before the check - including `defer r.Close()` - dereferences nil when the 2-byte header is malformed."},
			{ID: "C16.d", Template: "T-TYPESTATE", Required: true, Run: ruleC13aReaders,
				Doc: "The pooled reader is released exactly once and not before the entity was read (C13.a): a reader released by a helper is handed to the next request while this one still decodes from it."},
			{ID: "C16.e", Template: "T-OWN", Required: true, Run: ruleNoCompressorCopy,
				Doc: "Decompressors handed out by the providers are distinct objects, never shallow copies of one reader (same obligations as C13.f): otherwise a gzip body is decoded with a flate state another request is using."},
			{ID: "C16.h", Template: "T-SIBLING", Required: true, Run: ruleCodecSymmetry,
				Doc: "A coding name stands for one format in both directions: under Content-Encoding E the request body is decoded, on every path, by the codec family that the compressing writer installs for responses declared E (gzip/gzip, deflate/zlib). A decoder guessed from the first byte of the body rejects valid bodies."},
			{ID: "C16.g", Template: "T-FRESH", Required: true, Run: rulePooledBytesClean,
				Doc: "'Never affects how any later request body is decoded': a byte container (bytes.Buffer, []byte, bufio) that goes through a sync.Pool is emptied before every Put or after every Get. A Put on an error path that skips the Reset leaves the bytes of a broken request in front of the next body."},
			{ID: "C16.f", Template: "T-PROV", Required: true,
				Doc: "'An error from reading, never a panic': every reader a provider hands out is fully constructed (a primed gzip.Reader from the constructor, not new(gzip.Reader)) - same obligations as C13.d. Close on an unprimed reader dereferences its nil decompressor when the first body it sees has a broken header.",
				Run: ruleC13d},
		},
	})
}

func ruleC16a(c *Ctx) {
	p := c.P
	n := 0
	for _, fn := range p.requestPathFuncs() {
		if fn.Name() != "Read" || fn.Signature.Recv() == nil {
			continue
		}
		// a Decode whose receiver has a UseNumber method (encoding/json)
		eachInstr(fn, func(i ssa.Instruction) {
			call, ok := i.(*ssa.Call)
			if !ok || call.Call.StaticCallee() == nil || call.Call.StaticCallee().Name() != "Decode" || len(call.Call.Args) == 0 {
				return
			}
			dec := call.Call.Args[0]
			if !hasMethod(dec.Type(), "UseNumber") {
				return
			}
			n++
			var un ssa.Instruction
			for _, r := range referrers(dec) {
				if cc := callCommon(r); cc != nil && cc.StaticCallee() != nil && cc.StaticCallee().Name() == "UseNumber" && cc.Args[0] == dec {
					if _, isDefer := r.(*ssa.Defer); !isDefer {
						un = r
					}
				}
			}
			c.check(un != nil && instrDominates(un, call), p.fname(fn), "UseNumber is set on the decoder before Decode", p.ipos(call), "same decoder value, UseNumber dominates Decode",
				"the JSON decoder decodes numbers into float64: 64-bit integers read into interface{} lose precision")
			returned := false
			for _, r := range referrers(call) {
				if _, ok := r.(*ssa.Return); ok {
					returned = true
				}
			}
			c.check(returned, p.fname(fn), "the Decode error is the reader's result", p.ipos(call), "returned directly", "a syntax error in the body is not reported")
		})
	}
	// no entity is decoded by a function that cannot be told to keep numbers (round 19): json.Unmarshal on the request path
	for _, fn := range p.requestPathFuncs() {
		eachInstr(fn, func(i ssa.Instruction) {
			cc := callCommon(i)
			if cc == nil || cc.StaticCallee() == nil || cc.StaticCallee().Pkg == nil {
				return
			}
			if cc.StaticCallee().Pkg.Pkg.Path() == "encoding/json" && cc.StaticCallee().Name() == "Unmarshal" {
				c.bad(p.fname(fn), "UseNumber is set on the decoder before Decode", p.ipos(i),
					"json.Unmarshal decodes numbers into float64 and cannot be told otherwise: on this path 64-bit integers read into interface{} lose precision")
			}
		})
	}
	if n == 0 {
		c.bad("-", "JSON entity reader", "-", "no Decode on a decoder with UseNumber found in an entity reader")
	}
}

func ruleC16b(c *Ctx) {
	p := c.P
	re := p.fn("(*Request).ReadEntity")
	if re == nil {
		c.undecided("-", "(*Request).ReadEntity", "-", "not found")
		return
	}
	reach := p.callGraph().reach([]*ssa.Function{re}, func(e Edge) bool { return e.Kind != EdgeStatic })
	n := 0
	for _, s := range acquireSites(p) {
		if !reach[s.Fn] || s.Kind != "GzipReader" {
			continue
		}
		n++
		name := p.fname(s.Fn)
		okReset := false
		for _, r := range referrers(s.Call) {
			cc := callCommon(r)
			if cc == nil || cc.StaticCallee() == nil || cc.StaticCallee().Name() != "Reset" || len(cc.Args) != 2 {
				continue
			}
			if _, f, ok := fieldLoad(strip(cc.Args[1])); ok && f.Name() == "Body" {
				okReset = true
			}
		}
		c.check(okReset, name, "the pooled gzip reader is reset onto this request's body", p.ipos(s.Call), "Reset(r.Request.Body)", "the pooled reader keeps reading what its previous user gave it")
	}
	if n == 0 {
		c.note(p.fname(re), "no pooled gzip reader on the read path", "-", "nothing pooled")
	}
	// deflate: a fresh reader per call
	fresh := false
	for _, fn := range p.SrcFunc {
		if !reach[fn] {
			continue
		}
		eachInstr(fn, func(i ssa.Instruction) {
			if isCallTo(i, "compress/zlib.NewReader") {
				fresh = true
			}
		})
	}
	c.check(fresh, p.fname(re), "deflate bodies get a new zlib reader per call", p.pos(re.Pos()), "zlib.NewReader on the read path", "no zlib reader is constructed for deflate bodies")
}

func ruleC16c(c *Ctx) {
	p := c.P
	re := p.fn("(*Request).ReadEntity")
	if re == nil {
		c.undecided("-", "(*Request).ReadEntity", "-", "not found")
		return
	}
	cg := p.callGraph()
	reach := cg.reach([]*ssa.Function{re}, func(e Edge) bool { return e.Kind != EdgeStatic })
	n := 0
	for _, fn := range p.SrcFunc {
		if !reach[fn] {
			continue
		}
		name := p.fname(fn)
		facts := factsAt(fn)
		eachInstr(fn, func(i ssa.Instruction) {
			call, ok := i.(*ssa.Call)
			if !ok {
				return
			}
			switch calleeName(&call.Call) {
			case "compress/zlib.NewReader", "compress/gzip.NewReader", "compress/flate.NewReader":
			default:
				return
			}
			var rd, er ssa.Value
			for _, r := range referrers(call) {
				if ex, ok := r.(*ssa.Extract); ok {
					if ex.Index == 0 {
						rd = ex
					} else {
						er = ex
					}
				}
			}
			if rd == nil {
				return
			}
			n++
			if er == nil {
				c.bad(name, "error of "+shortCallee(&call.Call)+" is checked", p.ipos(i), "the constructor's error is dropped: a malformed header yields a nil reader that is used later")
				return
			}
			bad := ""
			for _, u := range referrers(rd) {
				if _, ok := u.(*ssa.DebugRef); ok {
					continue
				}
				okNil := false
				for f := range facts[u.Block()] {
					if bo, ok := f.Cond.(*ssa.BinOp); ok && ((bo.X == er && isNilConst(bo.Y)) || (bo.Y == er && isNilConst(bo.X))) {
						if (bo.Op == token.NEQ && !f.Pol) || (bo.Op == token.EQL && f.Pol) {
							okNil = true
						}
					}
				}
				if !okNil {
					what := "use"
					if _, isDefer := u.(*ssa.Defer); isDefer {
						what = "deferred call"
					}
					bad = what + " at " + p.ipos(u)
				}
			}
			c.check(bad == "", name, "the reader from "+shortCallee(&call.Call)+" is used only after its error was found nil", p.ipos(i), "every use is dominated by err == nil",
				"the reader is touched before the error check ("+bad+"): the constructor returns a nil reader with its error, so a body with a malformed header makes ReadEntity panic instead of returning an error")
			// the error is returned
			ret := false
			for _, r := range returnsOf(fn) {
				for _, res := range r.Results {
					for _, s := range p.sources(res, provDefault) {
						if s == er {
							ret = true
						}
					}
				}
			}
			c.check(ret, name, "the constructor's error is returned", p.ipos(i), "returned to the caller", "a broken declared encoding is not reported to the caller")
		})
		eachInstr(fn, func(i ssa.Instruction) {
			if _, ok := i.(*ssa.Panic); ok {
				c.bad(name, "explicit panic on the entity read path", p.ipos(i), "reading a request body can panic")
			}
		})
	}
	// the accessor's Read error is ReadEntity's result
	okRet := false
	// ReadEntity may hand the whole job to a helper whose result it returns
	for hops := 0; hops < 2; hops++ {
		var tail *ssa.Function
		rets := returnsOf(re)
		for _, r := range rets {
			if len(r.Results) != 1 {
				continue
			}
			if call, ok := strip(r.Results[0]).(*ssa.Call); ok && len(rets) == 1 {
				if cal := call.Call.StaticCallee(); cal != nil && p.inModule(cal) && cal.Blocks != nil {
					tail = cal
				}
			}
		}
		if tail == nil {
			break
		}
		re = tail
	}
	eachInstr(re, func(i ssa.Instruction) {
		call, ok := i.(*ssa.Call)
		if !ok || !call.Call.IsInvoke() || call.Call.Method.Name() != "Read" {
			return
		}
		for _, r := range returnsOf(re) {
			for _, s := range p.sources(r.Results[0], provDefault) {
				if s == ssa.Value(call) {
					okRet = true
				}
			}
		}
	})
	c.check(okRet, p.fname(re), "the entity reader's error is ReadEntity's result", p.pos(re.Pos()), "return entityReader.Read(...)", "a decoding error is swallowed")
	c.count("decompressor_constructors", n)
}
