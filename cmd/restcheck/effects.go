package main

import (
	"go/token"
	"go/types"

	"golang.org/x/tools/go/ssa"
)

// T-EFFECT (DESIGN §3): request-path code performs no store / map update / in-place
// append / copy on shared objects or globals unless the base is a request-local copy.

type effectVerdict struct {
	OK  bool
	Why string
}

type effectCtx struct {
	p      *Program
	roles  *Roles
	shared map[string]bool
	fresh  *freshCtx
}

func newEffectCtx(p *Program) *effectCtx {
	return &effectCtx{p: p, roles: p.Roles(), shared: p.sharedTypes()}
}

var externalRequestScoped = map[string]bool{
	"net/http.Request": true, "net/url.URL": true, "bytes.Buffer": true,
}

func namedOf(t types.Type) *types.Named {
	t = types.Unalias(t)
	if pt, ok := t.(*types.Pointer); ok {
		t = types.Unalias(pt.Elem())
	}
	n, _ := t.(*types.Named)
	return n
}

// classifyAddr decides whether a write through address addr stays inside the request.
func (e *effectCtx) classifyAddr(addr ssa.Value, depth int) effectVerdict {
	p := e.p
	addr = strip(addr)
	switch a := addr.(type) {
	case *ssa.Alloc:
		return effectVerdict{true, "local variable"}
	case *ssa.FreeVar:
		roots := p.cellRoots(a)
		if len(roots) == 0 {
			return effectVerdict{false, "captured variable " + a.Name() + " with unknown binding"}
		}
		for _, r := range roots {
			if !e.roles.RequestPath[r.Parent()] {
				return effectVerdict{false, "variable " + a.Name() + " captured from " + p.fname(r.Parent()) + ", which runs at configuration time: it outlives the request and is shared by all requests"}
			}
		}
		return effectVerdict{true, "variable of the enclosing request-path activation"}
	case *ssa.Global:
		return effectVerdict{false, "package-level variable " + a.Name()}
	case *ssa.FieldAddr:
		return e.classifyObject(a.X, depth)
	case *ssa.IndexAddr:
		if _, isSlice := a.X.Type().Underlying().(*types.Slice); isSlice {
			return e.classifySlice(a.X, depth)
		}
		// pointer to array
		return e.classifyAddr(a.X, depth)
	}
	return e.classifyObject(addr, depth)
}

// classifyObject: v is a pointer to the object written.
func (e *effectCtx) classifyObject(v ssa.Value, depth int) effectVerdict {
	p := e.p
	v = strip(v)
	switch a := v.(type) {
	case *ssa.Alloc, *ssa.FreeVar, *ssa.Global, *ssa.FieldAddr, *ssa.IndexAddr:
		return e.classifyAddr(a, depth)
	}
	if nt := namedOf(v.Type()); nt != nil {
		o := nt.Obj()
		if o.Pkg() == nil {
			return effectVerdict{true, "builtin type"}
		}
		inModule := o.Pkg() == p.Restful.Pkg || o.Pkg() == p.Log.Pkg
		if !inModule {
			if o.Pkg().Path() == "net/http" && o.Name() == "ServeMux" {
				return effectVerdict{false, "the container's http.ServeMux"}
			}
			return effectVerdict{true, "object of external type " + o.Pkg().Name() + "." + o.Name() + " (per request or internally synchronised)"}
		}
		for _, n := range requestScopedTypes {
			if o.Name() == n {
				return effectVerdict{true, "request-scoped type " + n}
			}
		}
		if !e.shared[o.Name()] {
			return effectVerdict{true, "type " + o.Name() + " is never reachable from a Container or a global (request-scoped helper)"}
		}
		if p.isFreshObject(v) {
			return effectVerdict{true, "freshly allocated " + o.Name() + " (or a local copy passed by every caller)"}
		}
		return effectVerdict{false, "object of shared type " + o.Name() + " that is not a request-local copy"}
	}
	// unnamed pointee (e.g. *[]T, *string): follow where the pointer comes from
	allOK := true
	why := ""
	for _, s := range p.sources(v, provDefault) {
		switch x := s.(type) {
		case *ssa.Alloc:
		case *ssa.FieldAddr, *ssa.IndexAddr, *ssa.Global, *ssa.FreeVar:
			if r := e.classifyAddr(x, depth); !r.OK {
				allOK, why = false, r.Why
			}
		case *ssa.Parameter:
			if !p.isFreshObject(x) {
				// a pointer parameter of unnamed pointee type: be conservative only for exported API
				if o := x.Parent().Object(); o != nil && o.Exported() {
					allOK, why = false, "pointer parameter "+x.Name()+" of exported "+p.fname(x.Parent())
				}
			}
		default:
		}
	}
	if allOK {
		return effectVerdict{true, "pointer to local storage"}
	}
	return effectVerdict{false, why}
}

// classifySlice: v is a slice whose element is written (or onto which is appended).
func (e *effectCtx) classifySlice(v ssa.Value, depth int) effectVerdict {
	p := e.p
	fc := &freshCtx{p: p, cg: p.callGraph(), taken: p.addressTakenCached(), visited: map[ssa.Value]bool{}}
	if fc.freshSlice(v, 0) {
		return effectVerdict{true, "slice allocated during this activation"}
	}
	// not provably fresh: acceptable when nothing shared can be behind it
	bad := ""
	for _, s := range p.sources(v, provDefault) {
		s = strip(s)
		switch x := s.(type) {
		case *ssa.UnOp:
			if x.Op == token.MUL {
				if fa, ok := x.X.(*ssa.FieldAddr); ok {
					if r := e.classifyObject(fa.X, depth); !r.OK {
						bad = "slice loaded from field " + ownerOfFieldAddr(fa) + "." + fieldOfAddr(fa).Name() + " of " + r.Why
					}
					continue
				}
				if g, ok := x.X.(*ssa.Global); ok {
					bad = "slice held in package-level variable " + g.Name()
					continue
				}
			}
		case *ssa.Parameter:
			// slice parameter: its type decides (a named helper slice type that is never stored in shared state is request-scoped)
			if nt := namedOf(x.Type()); nt != nil {
				if o := nt.Obj(); o.Pkg() != nil && (o.Pkg() == p.Restful.Pkg) && e.shared[o.Name()] {
					bad = "slice parameter of shared type " + o.Name()
				}
				continue
			}
			if o := x.Parent().Object(); o != nil && o.Exported() && x.Parent().Signature.Recv() == nil {
				continue // caller-provided buffer of an exported function
			}
			// unexported: all callers must pass fresh slices - freshSlice already tried that
			bad = "slice parameter " + x.Name() + " of " + p.fname(x.Parent()) + " is not fresh at every call site (" + fc.why + ")"
		case *ssa.Call:
			// result of an unknown call
			if cal := x.Call.StaticCallee(); cal != nil && p.inModule(cal) {
				bad = "slice returned by " + p.fname(cal) + " may be shared (" + fc.why + ")"
			}
		}
	}
	if bad == "" {
		return effectVerdict{true, "no shared origin behind the slice"}
	}
	return effectVerdict{false, bad}
}

func (p *Program) addressTakenCached() map[*ssa.Function]bool {
	if p.takenCache == nil {
		p.takenCache = p.addressTaken()
	}
	return p.takenCache
}

// classifyMap: v is a map that is updated.
func (e *effectCtx) classifyMap(v ssa.Value, depth int) effectVerdict {
	p := e.p
	bad := ""
	for _, s := range p.sources(v, provOpt{ThroughCells: true, ThroughTypeAssert: true, ThroughCalls: 2}) {
		s = strip(s)
		switch x := s.(type) {
		case *ssa.MakeMap:
		case *ssa.UnOp:
			if x.Op == token.MUL {
				if fa, ok := x.X.(*ssa.FieldAddr); ok {
					if r := e.classifyObject(fa.X, depth); !r.OK {
						bad = "map held in field " + ownerOfFieldAddr(fa) + "." + fieldOfAddr(fa).Name() + " of " + r.Why
					} else if depth < 2 {
						// the field belongs to a per-request object, but what was put into the field may be shared: a map
						// taken over from a Route / WebService / Container instead of being copied
						for _, st := range p.storesToField(fieldOfAddr(fa)) {
							for _, src := range p.sources(st.Val, provOpt{ThroughCells: true}) {
								u, ok := strip(src).(*ssa.UnOp)
								if !ok || u.Op != token.MUL {
									continue
								}
								if fa2, ok := u.X.(*ssa.FieldAddr); ok && fieldOfAddr(fa2) != fieldOfAddr(fa) {
									if r2 := e.classifyObject(fa2.X, depth+1); !r2.OK {
										bad = "map that " + p.fname(st.Parent()) + " took over from field " + ownerOfFieldAddr(fa2) + "." + fieldOfAddr(fa2).Name() + " of " + r2.Why + " (assigned, not copied, at " + p.ipos(st) + ")"
									}
								}
							}
						}
					}
					continue
				}
				if g, ok := x.X.(*ssa.Global); ok {
					bad = "map held in package-level variable " + g.Name()
				}
			}
		case *ssa.Parameter:
			if o := x.Parent().Object(); o != nil && !o.Exported() {
				// every caller must pass a request-local map
				for _, ed := range p.callGraph().In[x.Parent()] {
					cc := callCommon(ed.Site)
					for k, prm := range x.Parent().Params {
						if prm == x && k < len(cc.Args) && depth < 3 {
							if r := e.classifyMap(cc.Args[k], depth+1); !r.OK {
								bad = r.Why
							}
						}
					}
				}
			}
		case *ssa.Call:
			if nm := calleeName(&x.Call); nm == "(net/http.ResponseWriter).Header" || nm == "(*net/http.Request).Header" {
				continue
			}
		case *ssa.Global:
			bad = "package-level map " + x.Name()
		}
	}
	if bad == "" {
		return effectVerdict{true, "request-local map"}
	}
	return effectVerdict{false, bad}
}
