package main

// thorough tier: see DESIGN §2.4. Filled in below (variants.go).

func thorough(prog *Program, p *Property, c *Ctx, seed int64, extra map[string]interface{}) {
	thoroughImpl(prog, p, c, seed, extra)
}
