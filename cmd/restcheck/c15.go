package main

import (
	"go/ast"
	"go/token"
	"go/types"
	"strings"

	"golang.org/x/tools/go/ssa"
)

func init() {
	register(&Property{
		ID:    "C15",
		Title: "Response status and length bookkeeping match what was actually sent",
		Decided: "C15.a one counting gate: the wrapped writer's Write is called only inside (*Response).Write and its WriteHeader only inside (*Response).WriteHeader, and every encoder or writer built by the framework's response code is given the *Response, not the inner writer; a function that hands body bytes to the wrapped writer through a wider interface it asserted (ReadFrom, WriteString) adds what that call returned to contentLength; " +
			"C15.b the gate books what was accepted: Write adds result #0 of the inner Write unconditionally (also when it returns an error) and returns that call's results unchanged, WriteHeader stores its argument and forwards the same argument, and the two counters are stored nowhere else (apart from the constructor's 200); " +
			"C15.c every non-deprecated method from which the bookkeeping is reachable has a pointer receiver; C15.d in the response writing functions the error of every Write/Encode/nested writer call is returned on the path where it is non-nil, and the status is written before the first body byte. C15.f in the functions of the Response's writing API the error of a call that hands bytes towards the underlying writer is looked at.",
		NotDecided: "that encoding/json and encoding/xml hand all bytes to Write; behaviour with a content coding in between (the property excludes it from the fault clause); user code that writes to the underlying http.ResponseWriter directly.",
		Rules: []Rule{
			{ID: "C15.f", Template: "T-ERR", Required: false, Run: ruleWriteErrorsKept,
				Doc: "'The failing call returns that error': in the Response's writing functions a call that hands bytes towards the underlying writer (Write, WriteString, Flush, Encode, io.Copy, fmt.Fprint*) has its error result looked at. A buffered writer in front of the response whose Flush error is dropped makes the writing call return nil for a writer that failed."},
			{ID: "C15.a", Template: "T-OWN", Required: true, Run: ruleC15a,
				Doc: "One counting gate. A byte or status that reaches the wrapped writer by another route is not booked: ContentLength()/StatusCode() then lie to logging and metrics filters."},
			{ID: "C15.b", Template: "T-PROV", Required: true, Run: ruleC15b,
				Doc: "The gate counts what the underlying writer accepted (its own result), also on a failing write, and hides nothing from the caller."},
			{ID: "C15.c", Template: "T-EFFECT", Required: true, Run: ruleC15c,
				Doc: "A value receiver books on a copy: every non-deprecated Response method that reaches the bookkeeping has a pointer receiver."},
			{ID: "C15.e", Template: "T-PROV", Required: true, Run: ruleC15e,
				Doc: "The bookkeeping lives on one object per request: a framework filter continues the chain with the *Response it received, never with a copy - otherwise status and length recorded by the handler are not what filters earlier in the chain observe afterwards."},
			{ID: "C15.d", Template: "T-ORDER", Required: true, Run: ruleC15d,
				Doc: "Write errors surface: a dropped error from the k-th write makes a failing connection look like success; status before body, or net/http sends 200."},
		},
	})
}

// innerWriterLoads: loads of the embedded Response.ResponseWriter field.
func isInnerWriter(v ssa.Value) bool {
	_, ok := fieldLoadIs(v, "Response", "ResponseWriter")
	return ok
}

// innerWriterAsserted: v is the wrapped writer seen through a type assertion to another interface.
func innerWriterAsserted(v ssa.Value) bool {
	v = strip(v)
	if ex, ok := v.(*ssa.Extract); ok && ex.Index == 0 {
		v = ex.Tuple
	}
	ta, ok := v.(*ssa.TypeAssert)
	if !ok {
		return false
	}
	if _, isIface := ta.AssertedType.Underlying().(*types.Interface); !isIface {
		return false
	}
	return isInnerWriter(strip(ta.X))
}

// booksInnerBodyCall: the store is `contentLength = contentLength + <what a body-taking call on the asserted inner
// writer returned>`; returns that call.
func booksInnerBodyCall(st *ssa.Store) *ssa.Call {
	fa, ok := st.Addr.(*ssa.FieldAddr)
	if !ok || fieldOfAddr(fa).Name() != "contentLength" || ownerOfFieldAddr(fa) != "Response" {
		return nil
	}
	bo, ok := strip(st.Val).(*ssa.BinOp)
	if !ok || bo.Op != token.ADD {
		return nil
	}
	for _, pr := range [][2]ssa.Value{{bo.X, bo.Y}, {bo.Y, bo.X}} {
		old, isLoad := strip(pr[0]).(*ssa.UnOp)
		if !isLoad || old.Op != token.MUL {
			continue
		}
		ofa, ok := old.X.(*ssa.FieldAddr)
		if !ok || fieldOfAddr(ofa) != fieldOfAddr(fa) || ofa.X != fa.X {
			continue
		}
		v := strip(pr[1])
		for {
			cv, isConv := v.(*ssa.Convert)
			if !isConv {
				break
			}
			v = strip(cv.X)
		}
		if ex, ok := v.(*ssa.Extract); ok && ex.Index == 0 {
			v = ex.Tuple
		}
		call, ok := v.(*ssa.Call)
		if !ok || !call.Call.IsInvoke() || !innerWriterAsserted(call.Call.Value) || !takesBody(call.Call.Method) {
			continue
		}
		return call
	}
	return nil
}

// takesBody: the method has a parameter that can carry body bytes ([]byte, string, io.Reader, io.WriterTo).
func takesBody(m *types.Func) bool {
	sig, ok := m.Type().(*types.Signature)
	if !ok {
		return false
	}
	for k := 0; k < sig.Params().Len(); k++ {
		t := sig.Params().At(k).Type()
		if isNamed(t, "io", "Reader") || isNamed(t, "io", "WriterTo") {
			return true
		}
		if b, ok := t.Underlying().(*types.Basic); ok && b.Kind() == types.String {
			return true
		}
		if sl, ok := t.Underlying().(*types.Slice); ok {
			if b, ok := sl.Elem().Underlying().(*types.Basic); ok && b.Kind() == types.Byte {
				return true
			}
		}
	}
	return false
}

func ruleC15a(c *Ctx) {
	p := c.P
	gateWrite := p.fn("(*Response).Write")
	gateHeader := p.fn("(*Response).WriteHeader")
	if gateWrite == nil || gateHeader == nil {
		c.undecided("-", "Response.Write / Response.WriteHeader", "-", "gate methods not found")
		return
	}
	n := 0
	for _, fn := range p.SrcFunc {
		name := p.fname(fn)
		eachInstr(fn, func(i ssa.Instruction) {
			cc := callCommon(i)
			if cc == nil {
				return
			}
			if cc.IsInvoke() && isInnerWriter(cc.Value) {
				switch cc.Method.Name() {
				case "Write":
					n++
					c.check(fn == gateWrite, name, "inner ResponseWriter.Write", p.ipos(i), "inside the counting gate (*Response).Write", "the wrapped writer's Write is called outside (*Response).Write: those bytes are not counted")
				case "WriteHeader":
					n++
					c.check(fn == gateHeader, name, "inner ResponseWriter.WriteHeader", p.ipos(i), "inside the recording gate (*Response).WriteHeader", "the wrapped writer's WriteHeader is called outside (*Response).WriteHeader: the status is not recorded")
				}
				return
			}
			// the inner writer asserted to a wider interface (`r.ResponseWriter.(io.ReaderFrom)`) and given body bytes
			// through it: Write is not on that path, so the function itself has to book what the writer accepted
			if cc.IsInvoke() && innerWriterAsserted(cc.Value) && takesBody(cc.Method) {
				n++
				booked := false
				if call, isCall := i.(*ssa.Call); isCall {
					var stores []ssa.Instruction
					eachInstr(fn, func(j ssa.Instruction) {
						if st, ok := j.(*ssa.Store); ok && booksInnerBodyCall(st) == call {
							stores = append(stores, j)
						}
					})
					// on every path from the call to a return (also the one on which it failed after a partial write)
					booked = len(stores) > 0
					for _, r := range returnsOf(fn) {
						if booked && canReachAvoiding(call, r, stores) {
							booked = false
						}
					}
				}
				c.check(booked, name, "body handed to the inner writer through "+cc.Method.Name()+" is counted", p.ipos(i), "contentLength is updated with what the call returned on every path from the call to a return",
					"the wrapped writer is given body bytes through "+cc.Method.Name()+" (the writer asserted to a wider interface) and the function does not add what it accepted to contentLength on every path (also when the call failed after a partial write): ContentLength() misses these bytes")
				return
			}
			// the inner writer handed to something that writes
			for k, a := range cc.Args {
				if !isInnerWriter(a) {
					// also through interface conversion
					if ci, ok := a.(*ssa.ChangeInterface); !ok || !isInnerWriter(ci.X) {
						continue
					}
				}
				if cc.IsInvoke() && cc.Method.Name() == "ServeHTTP" {
					continue // handing the writer on to the next http.Handler (middleware adapter)
				}
				if cal := cc.StaticCallee(); cal != nil && (cal.Name() == "NewResponse" || cal.Name() == "NewCompressingResponseWriter" || cal.Name() == "wantsCompressedResponse") {
					continue // wrapping, not writing
				}
				n++
				c.bad(name, "inner writer passed to "+calleeOrValue(cc), p.ipos(i), "argument "+itoa(k)+" is resp.ResponseWriter: whatever is written through it bypasses the counting gate")
			}
		})
	}
	// encoders built in response code receive the *Response
	for _, fn := range p.requestPathFuncs() {
		name := p.fname(fn)
		eachInstr(fn, func(i ssa.Instruction) {
			call, ok := i.(*ssa.Call)
			if !ok || len(call.Call.Args) == 0 {
				return
			}
			// a call that produces an encoder: result has a method Encode, first parameter is an io.Writer
			if !hasMethod(call.Type(), "Encode") {
				return
			}
			sig := call.Call.Signature()
			if sig.Params().Len() < 1 || !isNamed(sig.Params().At(0).Type(), "io", "Writer") {
				return
			}
			arg := strip(call.Call.Args[0])
			if !hasResponseInScope(fn) {
				return
			}
			n++
			c.check(isPtrToRestful(arg.Type(), "Response"), name, "encoder is built on the *Response", p.ipos(i), "the encoder writes through the counting gate",
				"the encoder writes to "+typeShort(arg.Type())+" instead of the *Response: its bytes are not counted and its errors bypass the Response")
		})
	}
	c.count("gate_sites", n)
}

func calleeOrValue(cc *ssa.CallCommon) string {
	if s := shortCallee(cc); s != "" {
		return s
	}
	return "a function value"
}

func hasMethod(t types.Type, name string) bool {
	ms := types.NewMethodSet(t)
	for i := 0; i < ms.Len(); i++ {
		if ms.At(i).Obj().Name() == name {
			return true
		}
	}
	return false
}

func hasResponseInScope(fn *ssa.Function) bool {
	for _, prm := range fn.Params {
		if isPtrToRestful(prm.Type(), "Response") || isRestfulNamed(prm.Type(), "Response") {
			return true
		}
	}
	return false
}

func ruleC15b(c *Ctx) {
	p := c.P
	// Write
	if fn := p.fn("(*Response).Write"); fn != nil {
		name := p.fname(fn)
		var inner *ssa.Call
		eachInstr(fn, func(i ssa.Instruction) {
			if call, ok := i.(*ssa.Call); ok && call.Call.IsInvoke() && call.Call.Method.Name() == "Write" && isInnerWriter(call.Call.Value) {
				inner = call
			}
		})
		if inner == nil {
			c.bad(name, "forwards to the wrapped writer", p.pos(fn.Pos()), "no call of the inner Write")
		} else {
			c.check(len(inner.Call.Args) == 1 && inner.Call.Args[0] == ssa.Value(fn.Params[1]), name, "forwards the caller's bytes", p.ipos(inner), "inner.Write(bytes)", "the bytes forwarded are not the caller's")
			var stores []ssa.Instruction
			okVal := false
			eachInstr(fn, func(i ssa.Instruction) {
				st, ok := i.(*ssa.Store)
				if !ok {
					return
				}
				fa, ok := st.Addr.(*ssa.FieldAddr)
				if !ok || fieldOfAddr(fa).Name() != "contentLength" {
					return
				}
				stores = append(stores, i)
				if bo, ok := strip(st.Val).(*ssa.BinOp); ok && bo.Op == token.ADD {
					for _, pr := range [][2]ssa.Value{{bo.X, bo.Y}, {bo.Y, bo.X}} {
						_, isOld := fieldLoadIs(pr[0], "Response", "contentLength")
						ex, isEx := strip(pr[1]).(*ssa.Extract)
						if isOld && isEx && ex.Tuple == ssa.Value(inner) && ex.Index == 0 {
							okVal = true
						}
					}
				}
			})
			c.check(len(stores) == 1 && okVal, name, "adds the number of bytes the wrapped writer accepted", p.ipos(inner), "contentLength += result #0 of the inner Write",
				"the count is not 'old + bytes accepted by the inner writer' (e.g. len(bytes) is counted although the writer accepted fewer)")
			uncond := len(stores) == 1
			for _, r := range returnsOf(fn) {
				if len(stores) == 1 && canReachAvoiding(inner, r, stores) {
					uncond = false
				}
			}
			c.check(uncond, name, "the count is updated unconditionally", p.ipos(inner), "every path from the inner Write to a return passes the update (also when the write failed)", "on some path (typically err != nil) the accepted bytes are not counted")
			for _, r := range returnsOf(fn) {
				ok := len(r.Results) == 2
				if ok {
					e0, ok0 := strip(r.Results[0]).(*ssa.Extract)
					e1, ok1 := strip(r.Results[1]).(*ssa.Extract)
					ok = ok0 && ok1 && e0.Tuple == ssa.Value(inner) && e1.Tuple == ssa.Value(inner) && e0.Index == 0 && e1.Index == 1
				}
				c.check(ok, name, "returns the inner Write's results unchanged", p.ipos(r), "(written, err) of the wrapped writer", "the caller does not see what the wrapped writer returned (a failing write looks like success, or a short write is hidden)")
			}
		}
	} else {
		c.undecided("-", "(*Response).Write", "-", "not found")
	}
	// WriteHeader
	if fn := p.fn("(*Response).WriteHeader"); fn != nil {
		name := p.fname(fn)
		status := fn.Params[1]
		stored, forwarded := false, false
		eachInstr(fn, func(i ssa.Instruction) {
			if st, ok := i.(*ssa.Store); ok {
				if fa, ok := st.Addr.(*ssa.FieldAddr); ok && fieldOfAddr(fa).Name() == "statusCode" && st.Val == ssa.Value(status) {
					stored = true
				}
			}
			if cc := callCommon(i); cc != nil && cc.IsInvoke() && cc.Method.Name() == "WriteHeader" && isInnerWriter(cc.Value) && cc.Args[0] == ssa.Value(status) {
				forwarded = true
			}
		})
		c.check(stored, name, "records the status it is given", p.pos(fn.Pos()), "statusCode = httpStatus", "the recorded status is not the argument")
		c.check(forwarded, name, "forwards the same status", p.pos(fn.Pos()), "inner.WriteHeader(httpStatus)", "the status sent differs from the status recorded")
		min, _, ok := countOnPaths(fn, nil, allStoresTo(fn, "statusCode"))
		c.check(ok && min >= 1, name, "records on every path", p.pos(fn.Pos()), "min = 1", "some path forwards a status without recording it")
	} else {
		c.undecided("-", "(*Response).WriteHeader", "-", "not found")
	}
	// nobody else writes the counters
	for _, fn := range p.SrcFunc {
		name := p.fname(fn)
		eachInstr(fn, func(i ssa.Instruction) {
			st, ok := i.(*ssa.Store)
			if !ok {
				return
			}
			fa, ok := st.Addr.(*ssa.FieldAddr)
			if !ok || ownerOfFieldAddr(fa) != "Response" {
				return
			}
			f := fieldOfAddr(fa).Name()
			if f != "statusCode" && f != "contentLength" {
				return
			}
			switch {
			case fn.Name() == "Write" && f == "contentLength" && recvTypeName(fn) == "Response":
			case fn.Name() == "WriteHeader" && f == "statusCode" && recvTypeName(fn) == "Response":
			case p.freshBase(fa):
				if f == "statusCode" {
					n, ok := constInt(st.Val)
					c.check(ok && n == 200, name, "a new Response starts with status 200", p.ipos(i), "constructor", "a new Response does not start at 200")
				}
			case f == "contentLength" && booksInnerBodyCall(st) != nil:
				// a second way into the wrapped writer (ReadFrom, WriteString) books what that call accepted (C15.a requires it)
			default:
				c.bad(name, "store to Response."+f+" outside the gate", p.ipos(i), "the bookkeeping is modified by something other than the gate methods")
			}
		})
	}
}

func allStoresTo(fn *ssa.Function, field string) map[ssa.Instruction]bool {
	m := map[ssa.Instruction]bool{}
	eachInstr(fn, func(i ssa.Instruction) {
		if st, ok := i.(*ssa.Store); ok {
			if fa, ok := st.Addr.(*ssa.FieldAddr); ok && fieldOfAddr(fa).Name() == field {
				m[i] = true
			}
		}
	})
	return m
}

func isDeprecated(fn *ssa.Function) bool {
	fd, ok := fn.Syntax().(*ast.FuncDecl)
	if !ok || fd.Doc == nil {
		return false
	}
	return strings.Contains(strings.ToLower(fd.Doc.Text()), "deprecated")
}

func ruleC15c(c *Ctx) {
	p := c.P
	cg := p.callGraph()
	// functions that book directly
	books := map[*ssa.Function]bool{}
	for _, fn := range p.SrcFunc {
		if len(allStoresTo(fn, "statusCode")) > 0 || len(allStoresTo(fn, "contentLength")) > 0 {
			if recvTypeName(fn) == "Response" {
				books[fn] = true
			}
		}
	}
	n := 0
	for _, m := range p.methodsOf("Response") {
		reach := cg.reach([]*ssa.Function{m}, func(e Edge) bool { return e.Kind != EdgeStatic && e.Kind != EdgeInvoke })
		reaches := false
		for b := range books {
			if reach[b] {
				reaches = true
			}
		}
		if !reaches {
			continue
		}
		n++
		_, isPtr := m.Signature.Recv().Type().(*types.Pointer)
		name := p.fname(m)
		switch {
		case isPtr:
			c.ok(name, "booking method has a pointer receiver", p.pos(m.Pos()), "status/length are recorded on the caller's Response")
		case isDeprecated(m):
			c.note(name, "deprecated value-receiver method books on a copy", p.pos(m.Pos()), "exempt: the property speaks about non-deprecated writing calls")
		default:
			c.bad(name, "booking method has a value receiver", p.pos(m.Pos()), "the status/length is recorded on a copy of the Response: StatusCode()/ContentLength() on the caller's object do not see it")
		}
	}
	c.count("booking_methods", n)
}

// errorResult returns the error value produced by call instruction i (last result), or nil.
func errorResult(i ssa.Instruction) ssa.Value {
	call, ok := i.(*ssa.Call)
	if !ok {
		return nil
	}
	res := call.Call.Signature().Results()
	if res.Len() == 0 || !isErrorType(res.At(res.Len()-1).Type()) {
		return nil
	}
	if res.Len() == 1 {
		return call
	}
	for _, r := range referrers(call) {
		if ex, ok := r.(*ssa.Extract); ok && ex.Index == res.Len()-1 {
			return ex
		}
	}
	return call // tuple whose error is never extracted
}

func isErrorType(t types.Type) bool {
	return types.Identical(t, types.Universe.Lookup("error").Type())
}

// writingCall: a call whose error matters for the response.
func writingCall(p *Program, i ssa.Instruction) string {
	cc := callCommon(i)
	if cc == nil {
		return ""
	}
	if _, ok := i.(*ssa.Call); !ok {
		return ""
	}
	if cc.IsInvoke() {
		switch cc.Method.Name() {
		case "Encode":
			return "Encode"
		case "Write":
			if isRestfulNamed(cc.Value.Type(), "EntityReaderWriter") {
				return "EntityReaderWriter.Write"
			}
		}
		return ""
	}
	if cal := cc.StaticCallee(); cal != nil {
		if cal.Name() == "Encode" {
			return "Encode"
		}
		if p.inModule(cal) && cal.Signature.Results().Len() > 0 && isErrorType(cal.Signature.Results().At(cal.Signature.Results().Len()-1).Type()) {
			// module functions that write to a response
			if recvTypeName(cal) == "Response" || hasResponseInScope(cal) {
				return cal.Name()
			}
		}
		return ""
	}
	// calls through the package's marshalling hooks
	if isDynamicCall(cc) {
		sig := cc.Signature()
		if sig.Results().Len() == 2 && isErrorType(sig.Results().At(1).Type()) {
			return "marshal hook"
		}
	}
	return ""
}

func ruleC15d(c *Ctx) {
	p := c.P
	n := 0
	for _, fn := range p.requestPathFuncs() {
		if fn.Parent() != nil {
			continue
		}
		if !(recvTypeName(fn) == "Response" || hasResponseInScope(fn)) {
			continue
		}
		res := fn.Signature.Results()
		if res.Len() == 0 || !isErrorType(res.At(res.Len()-1).Type()) {
			continue
		}
		name := p.fname(fn)
		facts := factsAt(fn)
		errIdx := res.Len() - 1
		eachInstr(fn, func(i ssa.Instruction) {
			kind := writingCall(p, i)
			if kind == "" {
				return
			}
			e := errorResult(i)
			if e == nil {
				return
			}
			n++
			construct := "error of " + kind + " is returned when non-nil"
			bad := ""
			for _, r := range returnsOf(fn) {
				if !canReach(i, r) {
					continue
				}
				derives := false
				for _, s := range p.sources(r.Results[errIdx], provDefault) {
					if s == strip(e) {
						derives = true
					}
				}
				if derives {
					continue
				}
				// known nil here?
				knownNil := false
				for f := range facts[r.Block()] {
					bo, ok := f.Cond.(*ssa.BinOp)
					if !ok {
						continue
					}
					if (strip(bo.X) == strip(e) && isNilConst(bo.Y)) || (strip(bo.Y) == strip(e) && isNilConst(bo.X)) {
						if (bo.Op == token.NEQ && !f.Pol) || (bo.Op == token.EQL && f.Pol) {
							knownNil = true
						}
					}
				}
				if !knownNil {
					bad = "the return at " + p.ipos(r) + " is reachable with a non-nil error from this call, and does not return it"
				}
			}
			c.check(bad == "", name, construct, p.ipos(i), "every return reachable from the call either returns this error or is only reached when it is nil", bad+": a failing write looks like success to the handler")
		})
		// status before the first body byte
		var wh, wr []ssa.Instruction
		always := alwaysWritesStatus(p)
		eachInstr(fn, func(i ssa.Instruction) {
			cc := callCommon(i)
			if cc == nil || cc.StaticCallee() == nil {
				return
			}
			if always[cc.StaticCallee()] && cc.StaticCallee() != fn {
				wh = append(wh, i) // a helper that writes the status on every path
				return
			}
			if recvTypeName(cc.StaticCallee()) != "Response" {
				return
			}
			switch cc.StaticCallee().Name() {
			case "WriteHeader":
				wh = append(wh, i)
			case "Write":
				wr = append(wr, i)
			}
		})
		// encoders writing the body
		eachInstr(fn, func(i ssa.Instruction) {
			if writingCall(p, i) == "Encode" {
				wr = append(wr, i)
			}
		})
		if len(wh) > 0 && len(wr) > 0 {
			for _, w := range wr {
				before := false
				for _, h := range wh {
					if instrDominates(h, w) {
						before = true
					}
				}
				n++
				c.check(before, name, "status is written before the body", p.ipos(w), "a WriteHeader dominates this body write", "a body byte can be written before the status: net/http then sends 200 and ignores the later status")
			}
		}
	}
	c.count("writing_calls", n)
}

func ruleC15e(c *Ctx) {
	p := c.P
	n := 0
	for _, fn := range p.requestPathFuncs() {
		eachInstr(fn, func(i ssa.Instruction) {
			if !isProcessFilterCall(i) {
				return
			}
			cc := callCommon(i)
			if _, isLocal := strip(cc.Args[0]).(*ssa.Alloc); isLocal {
				return // the chain is built here: the pair is the freshly wrapped one (C06.a)
			}
			n++
			checkPairPassedOn(c, fn, i)
		})
		// no Response is copied into a new addressable object that is then used as a *Response
		eachInstr(fn, func(i ssa.Instruction) {
			st, ok := i.(*ssa.Store)
			if !ok || !isRestfulNamed(st.Val.Type(), "Response") {
				return
			}
			a, ok := st.Addr.(*ssa.Alloc)
			if !ok {
				return
			}
			// receiver spill of a value-receiver method is fine (the copy does not escape)
			if _, isParam := st.Val.(*ssa.Parameter); isParam {
				return
			}
			escapes := false
			for _, r := range referrers(a) {
				if cc := callCommon(r); cc != nil {
					escapes = true
				}
			}
			if escapes {
				c.bad(p.fname(fn), "copy of a Response handed on as *Response", p.ipos(i), "bookkeeping recorded on the copy is lost to the holder of the original")
			}
		})
	}
	c.count("chain_continuations", n)
}

// alwaysWritesStatus: module functions every path of which calls (*Response).WriteHeader, directly or
// through another such function (helpers like `setContentTypeAndStatus`).
func alwaysWritesStatus(p *Program) map[*ssa.Function]bool {
	if p.alwaysStatus != nil {
		return p.alwaysStatus
	}
	set := map[*ssa.Function]bool{}
	for changed := true; changed; {
		changed = false
		for _, fn := range p.SrcFunc {
			if set[fn] || fn.Blocks == nil {
				continue
			}
			sites := map[ssa.Instruction]bool{}
			eachInstr(fn, func(i ssa.Instruction) {
				cc := callCommon(i)
				if cc == nil || cc.StaticCallee() == nil {
					return
				}
				if _, isDefer := i.(*ssa.Defer); isDefer {
					return
				}
				cal := cc.StaticCallee()
				if (cal.Name() == "WriteHeader" && recvTypeName(cal) == "Response") || set[cal] {
					sites[i] = true
				}
			})
			if len(sites) == 0 {
				continue
			}
			if min, _, ok := countOnPaths(fn, nil, sites); ok && min >= 1 {
				set[fn] = true
				changed = true
			}
		}
	}
	// the gate itself is not a "helper"
	for fn := range set {
		if fn.Name() == "WriteHeader" && recvTypeName(fn) == "Response" {
			delete(set, fn)
		}
	}
	p.alwaysStatus = set
	return set
}
