package main

import (
	"go/token"
	"go/types"
	"strings"

	"golang.org/x/tools/go/ssa"
)

func init() {
	register(&Property{
		ID:    "C08",
		Title: "CORS headers are granted only to allowed origins, echoing the origin",
		Decided: "C08.a every Access-Control-* grant reachable from the CORS filter is dominated - in its function or at every call site, transitively - by the true edge of the origin predicate applied to this request's Origin header; " +
			"C08.b the origin predicate decides on whole strings only: the origin flows only into len, ToLower/EqualFold, equality with a whole configured entry and the configured predicate, every 'true' answer is justified by 'nothing configured', the wildcard entry, whole-string equality or the predicate, and an empty origin is refused first; " +
			"C08.c the Allow-Origin value is the request's Origin header itself and at most one Allow-Origin is added on any path; credentials only under CookiesAllowed; C08.d without an Origin or for a refused origin the filter only passes the chain on, exactly once, with its own arguments.",
		NotDecided: "what a user-supplied AllowedDomainFunc accepts; headers added by other filters or handlers; the OPTIONSFilter (it has no origin configuration and is outside this property).",
		Rules: []Rule{
			{ID: "C08.a", Template: "T-GUARD", Required: true, Run: ruleC08a,
				Doc: "Every grant is guarded by the origin decision on the same request. A grant moved before the check or a helper called from an unguarded place hands CORS headers to a refused origin."},
			{ID: "C08.b", Template: "T-NOPARTIAL", Required: true, Run: ruleC08b,
				Doc: "Whole-string decision. strings.Contains/HasPrefix/HasSuffix/Index, regexp, slicing or indexing of the origin, or a 'true' not justified by the whitelist, is exactly the partial-match bypass of the 3.8.0 advisory; none of the suite's five fixtures is a near miss of an allowed entry."},
			{ID: "C08.c", Template: "T-PROV", Required: true, Run: ruleC08c,
				Doc: "Echo verbatim, once: Allow-Origin carries Header.Get(Origin) of this request (not a lowered copy, not '*'), is added at most once per request, and Allow-Credentials is dominated by the CookiesAllowed setting."},
			{ID: "C08.d", Template: "T-ONCE", Required: true, Run: ruleC08d,
				Doc: "Pass-through: on the no-Origin and refused-origin branches nothing but logging and exactly one chain.ProcessFilter(req, resp) runs; no grant is reachable."},
		},
	})
	register(&Property{
		ID:    "C09",
		Title: "CORS preflight is answered by the filter alone and grants only what is allowed",
		Decided: "C09.a on the preflight branch (OPTIONS with Access-Control-Request-Method, allowed origin) no ProcessFilter is reachable, on every other allowed-origin branch exactly one is, after the actual-request headers; " +
			"C09.b in the preflight function every grant is dominated by the true edge of the method check on this request's Access-Control-Request-Method and lies behind the exhaustion of the loop that checks every requested header, a failed check reaches no grant, and the method list tested is the list granted; " +
			"C09.c requested header names are compared whole and case-insensitively (or against the '*' entry) after trimming; C09.d the computed allowed methods are stored into a function-local copy of the filter configuration, never into shared state; C09.e the methods are computed for this request on the configured (or default) container.",
		NotDecided: "which methods are routable at the URL (see C17); the exact header values beyond their provenance.",
		Rules: []Rule{
			{ID: "C09.a", Template: "T-ONCE", Required: true, Run: ruleC09a,
				Doc: "Preflight does not continue the chain; any other request from an allowed origin continues it exactly once."},
			{ID: "C09.b", Template: "T-ENFORCE", Required: true, Run: ruleC09b,
				Doc: "All checks before any grant: a refused method or a single refused header means no CORS header at all."},
			{ID: "C09.c", Template: "T-NOPARTIAL", Required: true, Run: ruleC09c,
				Doc: "Requested header names are decided by case-insensitive whole-string equality with a configured entry, or the '*' entry."},
			{ID: "C09.d", Template: "T-EFFECT", Required: true, Run: ruleC09d,
				Doc: "Computed methods do not stick: stores into the filter configuration on the request path go to a function-local copy (today: Filter has a value receiver). Turning Filter into a pointer-receiver method compiles, passes the single preflight test and makes the first preflight's methods the answer for every later URL."},
			{ID: "C09.e", Template: "T-PROV", Required: true, Run: ruleC09e,
				Doc: "The allowed methods are computed from this request (the filter's own req) on the configured container, or the default container when none is configured."},
		},
	})
}

// headerWrite recognises resp.AddHeader(k, v) and X.Header().Set/Add(k, v).
func headerWrite(i ssa.Instruction) (key string, keyConst bool, val ssa.Value, ok bool) {
	cc := callCommon(i)
	if cc == nil {
		return "", false, nil, false
	}
	if cal := cc.StaticCallee(); cal != nil && cal.Name() == "AddHeader" && recvTypeName(cal) == "Response" && len(cc.Args) == 3 {
		k, kc := constStr(cc.Args[1])
		return k, kc, cc.Args[2], true
	}
	switch calleeName(cc) {
	case "(net/http.Header).Set", "(net/http.Header).Add":
		k, kc := constStr(cc.Args[1])
		return k, kc, cc.Args[2], true
	}
	return "", false, nil, false
}

const corsType = "CrossOriginResourceSharing"

// corsFuncs: the filter entry (filter-shaped method of the CORS type) and what it reaches among the type's methods.
func corsFuncs(p *Program) (entries []*ssa.Function, reach map[*ssa.Function]bool) {
	for _, fn := range p.methodsOf(corsType) {
		if requestShape(fn.Signature) == "filter-function" {
			entries = append(entries, fn)
		}
	}
	reach = p.callGraph().reach(entries, func(e Edge) bool { return e.Kind != EdgeStatic && e.Kind != EdgeClosure })
	return
}

// originPredicates: methods of the CORS type func(string) bool that read AllowedDomains.
func originPredicates(p *Program) []*ssa.Function {
	var out []*ssa.Function
	for _, fn := range p.methodsOf(corsType) {
		sig := fn.Signature
		if sig.Params().Len() != 1 || sig.Results().Len() != 1 {
			continue
		}
		if b, ok := sig.Params().At(0).Type().Underlying().(*types.Basic); !ok || b.Kind() != types.String {
			continue
		}
		reads := false
		eachInstr(fn, func(i ssa.Instruction) {
			if fa, ok := i.(*ssa.FieldAddr); ok && fieldOfAddr(fa).Name() == "AllowedDomains" {
				reads = true
			}
			if f, ok := i.(*ssa.Field); ok {
				if st, ok := f.X.Type().Underlying().(*types.Struct); ok && st.Field(f.Field).Name() == "AllowedDomains" {
					reads = true
				}
			}
		})
		if reads {
			out = append(out, fn)
		}
	}
	return out
}

// requestHeaderGet: v is req.Request.Header.Get(name) for the *Request parameter/variable req of fn.
func requestHeaderGet(p *Program, v ssa.Value, name string) (req ssa.Value, ok bool) {
	owner, hname, ok := headerGet(v)
	if !ok || hname != name {
		return nil, false
	}
	// owner is *http.Request loaded from (*Request).Request
	b, f, ok := fieldLoad(strip(owner))
	if !ok || f.Name() != "Request" || !isPtrToRestful(b.Type(), "Request") {
		return nil, false
	}
	return strip(b), true
}

// originAllowedFact: fact f says "originPredicate(Header.Get(Origin) of req) == pol".
func originAllowedFact(p *Program, f condFact, preds []*ssa.Function) (req ssa.Value, ok bool) {
	call, isCall := f.Cond.(*ssa.Call)
	if !isCall {
		return nil, false
	}
	cal := call.Call.StaticCallee()
	match := false
	for _, pr := range preds {
		if cal == pr {
			match = true
		}
	}
	if !match || len(call.Call.Args) != 2 {
		return nil, false
	}
	return requestHeaderGet(p, call.Call.Args[1], "Origin")
}

// sameRequest: two *Request values denote the same request object (parameter identity through cells).
func (p *Program) sameValue(a, b ssa.Value) bool {
	if strip(a) == strip(b) {
		return true
	}
	sa, sb := p.sources(a, provDefault), p.sources(b, provDefault)
	return len(sa) == 1 && len(sb) == 1 && sa[0] == sb[0]
}

func requestParam(fn *ssa.Function) *ssa.Parameter {
	for _, prm := range fn.Params {
		if isPtrToRestful(prm.Type(), "Request") {
			return prm
		}
	}
	return nil
}

// guardedByOrigin decides whether instruction i of fn only executes for an allowed origin of the
// request denoted by fn's *Request parameter.
func guardedByOrigin(p *Program, i ssa.Instruction, preds []*ssa.Function, depth int, why *string) bool {
	fn := i.Parent()
	rq := requestParam(fn)
	for f := range factsAt(fn)[i.Block()] {
		if !f.Pol {
			continue
		}
		if req, ok := originAllowedFact(p, f, preds); ok && rq != nil && p.sameValue(req, rq) {
			return true
		}
	}
	if depth >= 4 {
		*why = "guard not found within 4 call levels"
		return false
	}
	if o := fn.Object(); o == nil || o.Exported() || p.addressTakenCached()[fn] {
		*why = p.fname(fn) + " can be called from outside the guarded region (exported or used as a value)"
		return false
	}
	ins := p.callGraph().In[fn]
	if len(ins) == 0 {
		*why = p.fname(fn) + " has no caller"
		return false
	}
	for _, e := range ins {
		if e.Kind != EdgeStatic {
			*why = p.fname(fn) + " is reached through an interface"
			return false
		}
		// the callee must be told about the same request
		cc := callCommon(e.Site)
		crq := requestParam(e.Caller)
		passes := rq == nil
		for k, prm := range fn.Params {
			if prm == rq && k < len(cc.Args) && crq != nil && p.sameValue(cc.Args[k], crq) {
				passes = true
			}
		}
		if !passes {
			*why = "call at " + p.ipos(e.Site) + " passes a different request"
			return false
		}
		if !guardedByOrigin(p, e.Site, preds, depth+1, why) {
			if *why == "" {
				*why = "call site " + p.ipos(e.Site) + " in " + p.fname(e.Caller) + " is not guarded"
			}
			return false
		}
	}
	return true
}

func ruleC08a(c *Ctx) {
	p := c.P
	_, reach := corsFuncs(p)
	preds := originPredicates(p)
	if len(preds) == 0 {
		c.undecided("-", "origin predicate", "-", "no method of the CORS type func(string) bool reading AllowedDomains found")
		return
	}
	n := 0
	for _, fn := range p.SrcFunc {
		if !reach[fn] || recvTypeName(topFunc(fn)) != corsType {
			continue
		}
		eachInstr(fn, func(i ssa.Instruction) {
			key, kc, _, ok := headerWrite(i)
			if !ok {
				return
			}
			if kc && !strings.HasPrefix(key, "Access-Control-") {
				return
			}
			n++
			why := ""
			g := guardedByOrigin(p, i, preds, 0, &why)
			c.check(g, p.fname(fn), "grant "+keyOr(key, kc)+" guarded by the origin decision", p.ipos(i),
				"dominated, here or at every call site, by the true edge of "+preds[0].Name()+"(Header.Get(Origin)) on this request",
				"a CORS grant is reachable for an origin that was not accepted: "+why)
		})
	}
	c.count("grant_sites", n)
}

func keyOr(k string, c bool) string {
	if c {
		return k
	}
	return "<computed header name>"
}

// ---------------------------------------------------------------------------

// stringTaint computes the values derived from param by case mapping (the only transformation
// that keeps "the whole string"), and lists every other use.
type taintUse struct {
	Instr ssa.Instruction
	What  string
}

func wholeStringTaint(p *Program, fn *ssa.Function, param ssa.Value, allowEq func(other ssa.Value) bool, allowCall func(cc *ssa.CallCommon, argIdx int) bool) (tainted map[ssa.Value]bool, bad []taintUse) {
	tainted = map[ssa.Value]bool{param: true}
	work := []ssa.Value{param}
	for len(work) > 0 {
		v := work[len(work)-1]
		work = work[:len(work)-1]
		for _, r := range referrers(v) {
			switch x := r.(type) {
			case *ssa.DebugRef:
			case *ssa.Phi:
				if !tainted[x] {
					tainted[x] = true
					work = append(work, x)
				}
			case *ssa.MakeInterface:
				// only for logging
				for _, rr := range referrers(x) {
					if _, ok := rr.(*ssa.Store); !ok {
						bad = append(bad, taintUse{rr, "the string escapes as an interface value"})
					}
				}
			case *ssa.BinOp:
				if x.Op == token.EQL || x.Op == token.NEQ {
					other := x.X
					if other == v {
						other = x.Y
					}
					if allowEq(other) {
						continue
					}
					bad = append(bad, taintUse{r, "compared with something that is not a whole configured entry"})
					continue
				}
				bad = append(bad, taintUse{r, "operator " + x.Op.String() + " applied to the string"})
			case *ssa.Slice:
				bad = append(bad, taintUse{r, "the string is sliced (partial match)"})
			case *ssa.Index, *ssa.Lookup:
				bad = append(bad, taintUse{r, "the string is indexed"})
			case *ssa.Convert:
				bad = append(bad, taintUse{r, "the string is converted (bytes/runes are inspected)"})
			case *ssa.Range:
				bad = append(bad, taintUse{r, "the string is iterated"})
			case *ssa.Store:
				// spilled to a local: follow loads
				if a, ok := x.Addr.(*ssa.Alloc); ok {
					for _, l := range referrers(a) {
						if u, ok := l.(*ssa.UnOp); ok && u.Op == token.MUL && !tainted[u] {
							tainted[u] = true
							work = append(work, u)
						}
					}
				} else if ia, ok := x.Addr.(*ssa.IndexAddr); ok {
					_ = ia // varargs for logging
				} else {
					bad = append(bad, taintUse{r, "the string is stored"})
				}
			case *ssa.Return:
				bad = append(bad, taintUse{r, "the string is returned"})
			default:
				cc := callCommon(r)
				if cc == nil {
					bad = append(bad, taintUse{r, "unrecognised use " + r.String()})
					continue
				}
				idx := -1
				for k, a := range cc.Args {
					if a == v {
						idx = k
					}
				}
				n := calleeName(cc)
				switch n {
				case "builtin.len":
				case "strings.ToLower", "strings.ToUpper":
					res := r.(ssa.Value)
					if !tainted[res] {
						tainted[res] = true
						work = append(work, res)
					}
				case "strings.EqualFold":
					other := cc.Args[0]
					if other == v {
						other = cc.Args[1]
					}
					if !allowEq(other) {
						bad = append(bad, taintUse{r, "EqualFold with something that is not a whole configured entry"})
					}
				default:
					if allowCall != nil && allowCall(cc, idx) {
						continue
					}
					what := n
					if what == "" {
						what = "a function value"
					}
					bad = append(bad, taintUse{r, "passed to " + what + " (a partial or pattern match is possible)"})
				}
			}
		}
	}
	return
}

func ruleC08b(c *Ctx) {
	p := c.P
	preds := originPredicates(p)
	if len(preds) == 0 {
		c.undecided("-", "origin predicate", "-", "not found")
		return
	}
	for _, fn := range preds {
		name := p.fname(fn)
		origin := fn.Params[1]
		// values denoting a whole configured entry: element of AllowedDomains, possibly case-mapped
		isEntry := func(v ssa.Value) bool {
			v = strip(v)
			if call, ok := v.(*ssa.Call); ok {
				if n := calleeName(&call.Call); n == "strings.ToLower" || n == "strings.ToUpper" {
					v = strip(call.Call.Args[0])
				}
			}
			return isElementOfField(v, "AllowedDomains")
		}
		var tainted map[ssa.Value]bool
		allowEq := func(other ssa.Value) bool {
			if s, ok := constStr(other); ok && s == "" {
				return true
			}
			return isEntry(other)
		}
		allowCall := func(cc *ssa.CallCommon, idx int) bool {
			// the configured predicate
			if isDynamicCall(cc) {
				if _, f, ok := fieldLoad(strip(cc.Value)); ok && f.Name() == "AllowedDomainFunc" {
					return true
				}
			}
			// logging
			if cc.IsInvoke() && isNamed(cc.Value.Type(), modulePath+"/log", "StdLogger") {
				return true
			}
			return false
		}
		tainted, bad := wholeStringTaint(p, fn, origin, allowEq, allowCall)
		if len(bad) == 0 {
			c.ok(name, "origin used through whole-string operations only", p.pos(fn.Pos()), itoa(len(tainted))+" derived value(s): len, case mapping, equality with a whole AllowedDomains entry, the configured predicate")
		}
		for _, b := range bad {
			c.bad(name, "origin used by a partial-match capable operation", p.ipos(b.Instr), b.What+": an origin that merely contains, starts or ends with an allowed entry could be accepted")
		}
		// every "true" is justified
		facts := factsAt(fn)
		isWholeEq := func(f condFact) bool {
			if !f.Pol {
				return false
			}
			switch x := f.Cond.(type) {
			case *ssa.BinOp:
				if x.Op != token.EQL {
					return false
				}
				return (tainted[strip(x.X)] && isEntry(x.Y)) || (tainted[strip(x.Y)] && isEntry(x.X))
			case *ssa.Call:
				if calleeName(&x.Call) == "strings.EqualFold" {
					a, b := x.Call.Args[0], x.Call.Args[1]
					return (tainted[strip(a)] && isEntry(b)) || (tainted[strip(b)] && isEntry(a))
				}
			}
			return false
		}
		isWildcard := func(f condFact) bool {
			if !f.Pol {
				return false
			}
			x, ok := f.Cond.(*ssa.BinOp)
			if !ok || x.Op != token.EQL {
				return false
			}
			for _, pr := range [][2]ssa.Value{{x.X, x.Y}, {x.Y, x.X}} {
				if s, ok := constStr(pr[0]); ok && s == ".*" && isElementOfField(strip(pr[1]), "AllowedDomains") {
					return true
				}
			}
			return false
		}
		isNoList := func(f condFact) bool {
			x, ok := f.Cond.(*ssa.BinOp)
			if !ok {
				return false
			}
			call, ok := strip(x.X).(*ssa.Call)
			if !ok || !isBuiltinCall(call, "len") {
				return false
			}
			if _, fld, ok := fieldLoad(strip(call.Call.Args[0])); !ok || fld.Name() != "AllowedDomains" {
				return false
			}
			n, ok := constInt(x.Y)
			if !ok || n != 0 {
				return false
			}
			return (x.Op == token.EQL && f.Pol) || (x.Op == token.NEQ && !f.Pol) || (x.Op == token.GTR && !f.Pol)
		}
		isNoFunc := func(f condFact) bool {
			x, ok := f.Cond.(*ssa.BinOp)
			if !ok {
				return false
			}
			var v ssa.Value
			if isNilConst(x.Y) {
				v = x.X
			} else if isNilConst(x.X) {
				v = x.Y
			} else {
				return false
			}
			if _, fld, ok := fieldLoad(strip(v)); !ok || fld.Name() != "AllowedDomainFunc" {
				return false
			}
			return (x.Op == token.EQL && f.Pol) || (x.Op == token.NEQ && !f.Pol)
		}
		emptyRefused := func(b *ssa.BasicBlock) bool {
			for f := range facts[b] {
				x, ok := f.Cond.(*ssa.BinOp)
				if !ok {
					continue
				}
				if call, ok := strip(x.X).(*ssa.Call); ok && isBuiltinCall(call, "len") && call.Call.Args[0] == ssa.Value(origin) {
					if n, ok := constInt(x.Y); ok && n == 0 && ((x.Op == token.EQL && !f.Pol) || (x.Op == token.NEQ && f.Pol) || (x.Op == token.GTR && f.Pol)) {
						return true
					}
				}
				if (x.X == ssa.Value(origin) || x.Y == ssa.Value(origin)) && (x.Op == token.EQL && !f.Pol || x.Op == token.NEQ && f.Pol) {
					if s, ok := constStr(x.X); ok && s == "" {
						return true
					}
					if s, ok := constStr(x.Y); ok && s == "" {
						return true
					}
				}
			}
			return false
		}
		var justified func(b *ssa.BasicBlock, depth int) (bool, string)
		justified = func(b *ssa.BasicBlock, depth int) (bool, string) {
			noList, noFunc := false, false
			for f := range facts[b] {
				if isWholeEq(f) {
					return true, "whole-string equality with an AllowedDomains entry"
				}
				if isWildcard(f) {
					return true, "the wildcard entry"
				}
				if isNoList(f) {
					noList = true
				}
				if isNoFunc(f) {
					noFunc = true
				}
			}
			if noList && noFunc {
				return true, "no restriction configured"
			}
			if depth > 4 || len(b.Preds) == 0 {
				return false, "block " + b.String() + " is reachable without a whitelisted condition"
			}
			// every incoming edge must be justified by its own edge condition or by its source block
			reason := ""
			for _, pr := range b.Preds {
				edgeOK := false
				if iff, ok := pr.Instrs[len(pr.Instrs)-1].(*ssa.If); ok && pr.Succs[0] != pr.Succs[1] {
					m := map[condFact]bool{}
					addCondFacts(m, iff.Cond, pr.Succs[0] == b)
					for f := range m {
						if isWholeEq(f) || isWildcard(f) {
							edgeOK = true
							reason = "whole-string equality or the wildcard entry on every incoming edge"
						}
					}
				}
				if !edgeOK {
					ok, why := justified(pr, depth+1)
					if !ok {
						return false, why
					}
					reason = why
				}
			}
			return true, reason
		}
		for _, r := range returnsOf(fn) {
			v := strip(r.Results[0])
			if b, ok := constBool(v); ok {
				if !b {
					continue
				}
				ok, why := justified(r.Block(), 0)
				c.check(ok && emptyRefused(r.Block()), name, "answer 'allowed' is justified", p.ipos(r), why+"; an empty origin was refused before",
					"'return true' is reachable without a whitelisted reason ("+why+") or for an empty origin")
				continue
			}
			if call, ok := v.(*ssa.Call); ok && isDynamicCall(&call.Call) {
				_, f, okf := fieldLoad(strip(call.Call.Value))
				c.check(okf && f.Name() == "AllowedDomainFunc" && len(call.Call.Args) == 1 && tainted[strip(call.Call.Args[0])] && emptyRefused(r.Block()), name, "answer delegated to the configured predicate", p.ipos(r),
					"returns AllowedDomainFunc(origin)", "the answer comes from an unexpected call")
				continue
			}
			if call, ok := v.(*ssa.Call); ok && calleeName(&call.Call) == "strings.EqualFold" {
				ok := isWholeEq(condFact{call, true})
				c.check(ok, name, "answer is a whole-string comparison", p.ipos(r), "EqualFold with a whole entry", "the returned comparison is not a whole-entry comparison")
				continue
			}
			c.undecided(name, "answer "+v.Name(), p.ipos(r), "cannot justify a computed boolean answer: "+v.String())
		}
	}
}

// isElementOfField: v is an element (by index or range) of a slice loaded from the named field.
func isElementOfField(v ssa.Value, field string) bool {
	u, ok := strip(v).(*ssa.UnOp)
	if !ok || u.Op != token.MUL {
		return false
	}
	ia, ok := u.X.(*ssa.IndexAddr)
	if !ok {
		return false
	}
	_, f, ok := fieldLoad(strip(ia.X))
	return ok && f.Name() == field
}

// ---------------------------------------------------------------------------

// maxGrants computes the maximum number of writes of header `key` on any path through fn,
// including module callees (static), to a depth of 5.
func maxGrants(p *Program, fn *ssa.Function, key string, depth int, memo map[*ssa.Function]int) int {
	if v, ok := memo[fn]; ok {
		return v
	}
	memo[fn] = 0
	w := map[ssa.Instruction]int{}
	eachInstr(fn, func(i ssa.Instruction) {
		if k, kc, _, ok := headerWrite(i); ok && (!kc || k == key) {
			w[i] = 1
			return
		}
		if cc := callCommon(i); cc != nil && depth < 5 {
			if cal := cc.StaticCallee(); cal != nil && p.inModule(cal) && cal.Blocks != nil && recvTypeName(cal) == corsType {
				if n := maxGrants(p, cal, key, depth+1, memo); n > 0 {
					w[i] = n
				}
			}
		}
	})
	_, max, ok := countWeighted(fn, nil, nil, w, nil)
	if !ok {
		max = 0
	}
	memo[fn] = max
	return max
}

func ruleC08c(c *Ctx) {
	p := c.P
	entries, reach := corsFuncs(p)
	n := 0
	for _, fn := range p.SrcFunc {
		if !reach[fn] {
			continue
		}
		name := p.fname(fn)
		facts := factsAt(fn)
		eachInstr(fn, func(i ssa.Instruction) {
			key, kc, val, ok := headerWrite(i)
			if !ok || !kc {
				return
			}
			switch key {
			case "Access-Control-Allow-Origin":
				n++
				req, ok := requestHeaderGet(p, val, "Origin")
				rq := requestParam(fn)
				c.check(ok && rq != nil && p.sameValue(req, rq), name, "Allow-Origin echoes the request's Origin verbatim", p.ipos(i),
					"value = req.Request.Header.Get(Origin)", "Allow-Origin is not the request's own Origin header value (a lowered copy, a constant such as * or another string)")
			case "Access-Control-Allow-Credentials":
				g := false
				for f := range facts[i.Block()] {
					if _, fld, ok := fieldLoad(strip(f.Cond)); ok && fld.Name() == "CookiesAllowed" && f.Pol {
						g = true
					}
				}
				c.check(g, name, "Allow-Credentials only when configured", p.ipos(i), "dominated by the true edge of CookiesAllowed", "credentials are granted without the CookiesAllowed setting")
			}
		})
	}
	if n == 0 {
		c.bad("-", "Allow-Origin grant", "-", "no Access-Control-Allow-Origin write reachable from the CORS filter")
	}
	for _, e := range entries {
		m := maxGrants(p, e, "Access-Control-Allow-Origin", 0, map[*ssa.Function]int{})
		c.check(m <= 1, p.fname(e), "Allow-Origin added at most once per request", p.pos(e.Pos()), "maximum over all paths through the filter and its helpers: "+itoa(m), "some path adds Access-Control-Allow-Origin "+maxStr(m)+" times")
	}
}

// ---------------------------------------------------------------------------

// corsBranch classifies a block of the filter entry by the facts known there.
type corsBranch int

const (
	brUnknown corsBranch = iota
	brNoOrigin
	brRefused
	brPreflight
	brActual
)

func classifyCorsBlock(p *Program, fn *ssa.Function, b *ssa.BasicBlock, facts map[*ssa.BasicBlock]map[condFact]bool, preds []*ssa.Function) corsBranch {
	rq := requestParam(fn)
	allowed, refused, noOrigin := false, false, false
	optFalse, optTrue := false, false // Method == OPTIONS known true / false
	acrm, noAcrm := false, false
	for f := range facts[b] {
		if req, ok := originAllowedFact(p, f, preds); ok && p.sameValue(req, rq) {
			if f.Pol {
				allowed = true
			} else {
				refused = true
			}
			continue
		}
		bo, ok := f.Cond.(*ssa.BinOp)
		if !ok {
			continue
		}
		// len(origin) == 0
		if call, ok := strip(bo.X).(*ssa.Call); ok && isBuiltinCall(call, "len") {
			if _, ok := requestHeaderGet(p, call.Call.Args[0], "Origin"); ok {
				if n, ok := constInt(bo.Y); ok && n == 0 && ((bo.Op == token.EQL && f.Pol) || (bo.Op == token.NEQ && !f.Pol) || (bo.Op == token.GTR && !f.Pol)) {
					noOrigin = true
				}
			}
		}
		for _, pr := range [][2]ssa.Value{{bo.X, bo.Y}, {bo.Y, bo.X}} {
			s, okc := constStr(pr[1])
			if !okc {
				continue
			}
			if _, ok := requestHeaderGet(p, pr[0], "Origin"); ok && s == "" {
				if (bo.Op == token.EQL && f.Pol) || (bo.Op == token.NEQ && !f.Pol) {
					noOrigin = true
				}
			}
			if _, ok := requestHeaderGet(p, pr[0], "Access-Control-Request-Method"); ok && s == "" {
				if (bo.Op == token.NEQ && f.Pol) || (bo.Op == token.EQL && !f.Pol) {
					acrm = true
				} else {
					noAcrm = true
				}
			}
			if _, fld, ok := fieldLoad(strip(pr[0])); ok && fld.Name() == "Method" && s == "OPTIONS" {
				if (bo.Op == token.EQL && f.Pol) || (bo.Op == token.NEQ && !f.Pol) {
					optTrue = true
				} else {
					optFalse = true
				}
			}
		}
	}
	switch {
	case noOrigin:
		return brNoOrigin
	case refused:
		return brRefused
	case optTrue && acrm:
		// the origin decision is C08's business; a preflight is a preflight
		return brPreflight
	case allowed:
		// allowed origin and not (known to be) a preflight
		_, _ = optFalse, noAcrm
		return brActual
	}
	return brUnknown
}

func isProcessFilterCall(i ssa.Instruction) bool {
	cc := callCommon(i)
	return cc != nil && cc.StaticCallee() != nil && cc.StaticCallee().Name() == "ProcessFilter" && recvTypeName(cc.StaticCallee()) == "FilterChain"
}

func ruleC08d(c *Ctx) {
	p := c.P
	entries, _ := corsFuncs(p)
	preds := originPredicates(p)
	cg := p.callGraph()
	for _, fn := range entries {
		name := p.fname(fn)
		facts := factsAt(fn)
		pf := map[ssa.Instruction]int{}
		eachInstr(fn, func(i ssa.Instruction) {
			if isProcessFilterCall(i) {
				pf[i] = 1
			}
		})
		seen := map[corsBranch]bool{}
		for _, r := range returnsOf(fn) {
			br := classifyCorsBlock(p, fn, r.Block(), facts, preds)
			if br != brNoOrigin && br != brRefused {
				continue
			}
			seen[br] = true
			label := map[corsBranch]string{brNoOrigin: "no Origin header", brRefused: "refused origin"}[br]
			min, max, ok := countWeighted(fn, nil, nil, pf, r)
			c.check(ok && min == 1 && max == 1, name, "pass-through ("+label+"): chain continued exactly once", p.ipos(r), "ProcessFilter min = max = 1 on every path to this return", "ProcessFilter runs min="+itoa(min)+" max="+maxStr(max)+" times on the "+label+" branch")
		}
		for _, br := range []corsBranch{brNoOrigin, brRefused} {
			if !seen[br] {
				c.bad(name, "pass-through branch missing", p.pos(fn.Pos()), "no return is reached under the "+map[corsBranch]string{brNoOrigin: "no-Origin", brRefused: "refused-origin"}[br]+" condition: the filter does not behave as if absent there")
			}
		}
		// in those regions: only logging and ProcessFilter(req, resp) with own parameters; no grant reachable
		for _, b := range fn.Blocks {
			br := classifyCorsBlock(p, fn, b, facts, preds)
			if br != brNoOrigin && br != brRefused {
				continue
			}
			for _, i := range b.Instrs {
				cc := callCommon(i)
				if cc == nil {
					continue
				}
				if isProcessFilterCall(i) {
					okArgs := len(cc.Args) == 3 && isPtrToRestful(cc.Args[0].Type(), "FilterChain")
					for k, a := range cc.Args {
						if _, isParam := strip(a).(*ssa.Parameter); !isParam {
							okArgs = false
						}
						_ = k
					}
					c.check(okArgs, name, "pass-through continues with the filter's own request, response and chain", p.ipos(i), "ProcessFilter(req, resp) on the chain parameter", "the chain is continued with other objects")
					continue
				}
				if cc.IsInvoke() && isNamed(cc.Value.Type(), modulePath+"/log", "StdLogger") {
					continue
				}
				if _, isB := cc.Value.(*ssa.Builtin); isB {
					continue
				}
				if n := calleeName(cc); n == "(net/http.Header).Get" {
					continue
				}
				// anything else: must not reach a header write
				writes := false
				if cal := cc.StaticCallee(); cal != nil && p.inModule(cal) {
					for f := range cg.reach([]*ssa.Function{cal}, nil) {
						eachInstr(f, func(j ssa.Instruction) {
							if _, _, _, ok := headerWrite(j); ok {
								writes = true
							}
						})
					}
				} else if _, _, _, ok := headerWrite(i); ok {
					writes = true
				} else {
					writes = true // unknown effectful call
				}
				if writes {
					c.bad(name, "effect on a pass-through branch", p.ipos(i), "a request without Origin or from a refused origin must be processed as if the filter were absent, but "+shortCallee(cc)+" runs here")
				}
			}
		}
	}
}

// ---------------------------------------------------------------------------
// C09

func ruleC09a(c *Ctx) {
	p := c.P
	entries, _ := corsFuncs(p)
	preds := originPredicates(p)
	cg := p.callGraph()
	for _, fn := range entries {
		name := p.fname(fn)
		facts := factsAt(fn)
		pf := map[ssa.Instruction]int{}
		eachInstr(fn, func(i ssa.Instruction) {
			if isProcessFilterCall(i) {
				pf[i] = 1
			}
		})
		seen := map[corsBranch]bool{}
		for _, r := range returnsOf(fn) {
			br := classifyCorsBlock(p, fn, r.Block(), facts, preds)
			switch br {
			case brPreflight:
				seen[br] = true
				_, max, _ := countWeighted(fn, nil, nil, pf, r)
				// also nothing in the callees of that branch continues the chain
				deep := false
				for _, b := range fn.Blocks {
					if classifyCorsBlock(p, fn, b, facts, preds) != brPreflight {
						continue
					}
					for _, i := range b.Instrs {
						if cc := callCommon(i); cc != nil {
							if cal := cc.StaticCallee(); cal != nil && p.inModule(cal) && !isProcessFilterCall(i) {
								for f := range cg.reach([]*ssa.Function{cal}, nil) {
									eachInstr(f, func(j ssa.Instruction) {
										if isProcessFilterCall(j) {
											deep = true
										}
									})
								}
							}
						}
					}
				}
				c.check(max == 0 && !deep, name, "preflight is answered by the filter alone", p.ipos(r), "no ProcessFilter on any path to this return, nor in the helpers called on the preflight branch",
					"a preflight request continues the chain: later filters or a route function run for it")
			case brActual:
				seen[br] = true
				min, max, ok := countWeighted(fn, nil, nil, pf, r)
				c.check(ok && min == 1 && max == 1, name, "actual request from an allowed origin continues the chain exactly once", p.ipos(r), "min = max = 1", "ProcessFilter runs min="+itoa(min)+" max="+maxStr(max)+" times")
			case brUnknown:
				c.undecided(name, "unclassified exit of the CORS filter", p.ipos(r), "cannot tell from the dominating conditions whether this exit is the no-origin, refused, preflight or actual-request case")
			}
		}
		if !seen[brPreflight] {
			c.bad(name, "preflight branch", p.pos(fn.Pos()), "no exit is reached under OPTIONS + Access-Control-Request-Method + allowed origin")
		}
		if !seen[brActual] {
			c.bad(name, "actual-request branch", p.pos(fn.Pos()), "no exit is reached for a non-preflight request from an allowed origin")
		}
		// actual headers are added before the chain continues
		for _, b := range fn.Blocks {
			if classifyCorsBlock(p, fn, b, facts, preds) != brActual {
				continue
			}
			var pfI ssa.Instruction
			grantsBefore := false
			for _, i := range b.Instrs {
				if isProcessFilterCall(i) {
					pfI = i
				}
				if cc := callCommon(i); cc != nil && pfI == nil {
					if cal := cc.StaticCallee(); cal != nil && recvTypeName(cal) == corsType {
						if maxGrants(p, cal, "Access-Control-Allow-Origin", 0, map[*ssa.Function]int{}) > 0 {
							grantsBefore = true
						}
					}
				}
			}
			if pfI != nil {
				c.check(grantsBefore, name, "actual-request headers are added before the chain continues", p.ipos(pfI), "the helper that adds Allow-Origin runs before ProcessFilter", "the chain continues before the CORS headers are added (they are lost once the handler writes)")
			}
		}
	}
}

// preflightFuncs: methods of the CORS type called from a preflight-classified block of the entry.
func preflightFuncs(p *Program) []*ssa.Function {
	entries, _ := corsFuncs(p)
	preds := originPredicates(p)
	var out []*ssa.Function
	for _, fn := range entries {
		facts := factsAt(fn)
		for _, b := range fn.Blocks {
			if classifyCorsBlock(p, fn, b, facts, preds) != brPreflight {
				continue
			}
			for _, i := range b.Instrs {
				if cc := callCommon(i); cc != nil {
					if cal := cc.StaticCallee(); cal != nil && recvTypeName(cal) == corsType {
						out = append(out, cal)
					}
				}
			}
		}
	}
	return dedupFuncs(out)
}

func ruleC09b(c *Ctx) {
	p := c.P
	for _, fn := range preflightFuncs(p) {
		name := p.fname(fn)
		facts := factsAt(fn)
		rq := requestParam(fn)
		// grant sites: direct header writes and calls of helpers that grant
		var grants []ssa.Instruction
		eachInstr(fn, func(i ssa.Instruction) {
			if k, kc, _, ok := headerWrite(i); ok && (!kc || strings.HasPrefix(k, "Access-Control-")) {
				grants = append(grants, i)
				return
			}
			if cc := callCommon(i); cc != nil {
				if cal := cc.StaticCallee(); cal != nil && recvTypeName(cal) == corsType && maxGrantsAny(p, cal) > 0 {
					grants = append(grants, i)
				}
			}
		})
		if len(grants) == 0 {
			c.bad(name, "preflight grants", p.pos(fn.Pos()), "the preflight function grants nothing")
			continue
		}
		// method check: call(bool) with an argument Header.Get(Access-Control-Request-Method) of this request
		var methodCheck *ssa.Call
		var methodList ssa.Value
		var headerCheck *ssa.Call
		eachInstr(fn, func(i ssa.Instruction) {
			call, ok := i.(*ssa.Call)
			if !ok || call.Call.StaticCallee() == nil || !isBoolResult(call) {
				return
			}
			for _, a := range call.Call.Args {
				if req, ok := requestHeaderGet(p, a, "Access-Control-Request-Method"); ok && p.sameValue(req, rq) {
					methodCheck = call
					for _, a2 := range call.Call.Args {
						if _, isSlice := a2.Type().Underlying().(*types.Slice); isSlice {
							methodList = a2
						}
					}
				}
				if derivesFromSplitOfHeader(p, a, "Access-Control-Request-Headers", rq) {
					headerCheck = call
				}
			}
		})
		if methodCheck == nil {
			c.bad(name, "requested method is checked", p.pos(fn.Pos()), "no boolean check takes this request's Access-Control-Request-Method")
		}
		if headerCheck == nil {
			c.bad(name, "requested headers are checked", p.pos(fn.Pos()), "no boolean check takes the elements of this request's Access-Control-Request-Headers")
		}
		for _, g := range grants {
			construct := "grant " + grantName(g)
			if methodCheck != nil {
				c.check(facts[g.Block()][condFact{methodCheck, true}], name, construct+" after the method check", p.ipos(g),
					"dominated by the true edge of "+methodCheck.Call.StaticCallee().Name()+"(ACRM, methods)", "a CORS grant is reachable although the requested method was not accepted")
			}
			if headerCheck != nil {
				ok, why := behindHeaderLoop(p, fn, headerCheck, g)
				c.check(ok, name, construct+" after every requested header was checked", p.ipos(g), "only reachable through the exhaustion of the header loop (or when no header was requested)", why)
			}
		}
		// the list tested is the list granted
		if methodCheck != nil && methodList != nil {
			same := false
			eachInstr(fn, func(i ssa.Instruction) {
				k, kc, val, ok := headerWrite(i)
				if !ok || !kc || k != "Access-Control-Allow-Methods" {
					return
				}
				if call, ok := strip(val).(*ssa.Call); ok && calleeName(&call.Call) == "strings.Join" {
					a := strip(call.Call.Args[0])
					b := strip(methodList)
					if a == b {
						same = true
					}
					ba, fa, oka := fieldLoad(a)
					bb, fb, okb := fieldLoad(b)
					if oka && okb && fa == fb && strip(ba) == strip(bb) {
						same = true
					}
				}
			})
			c.check(same, name, "the method list tested is the list granted", p.ipos(methodCheck), "Allow-Methods = Join(<the list given to the method check>)", "Access-Control-Allow-Methods is built from a different list than the one the requested method was checked against")
		}
		// failed checks reach no grant
		for _, chk := range []*ssa.Call{methodCheck, headerCheck} {
			if chk == nil {
				continue
			}
			bad := false
			for _, b := range fn.Blocks {
				if facts[b][condFact{chk, false}] {
					for _, g := range grants {
						if g.Block() == b || reachableBlocks(b.Succs, nil)[g.Block()] {
							bad = true
						}
					}
				}
			}
			c.check(!bad, name, "a failed "+chk.Call.StaticCallee().Name()+" reaches no grant", p.ipos(chk), "the false edge leads to return only", "a grant is reachable after the check failed")
		}
	}
}

func maxGrantsAny(p *Program, fn *ssa.Function) int {
	n := 0
	for f := range p.callGraph().reach([]*ssa.Function{fn}, func(e Edge) bool { return e.Kind != EdgeStatic }) {
		eachInstr(f, func(i ssa.Instruction) {
			if k, kc, _, ok := headerWrite(i); ok && (!kc || strings.HasPrefix(k, "Access-Control-")) {
				n++
			}
		})
	}
	return n
}

func grantName(i ssa.Instruction) string {
	if k, kc, _, ok := headerWrite(i); ok {
		return keyOr(k, kc)
	}
	if cc := callCommon(i); cc != nil && cc.StaticCallee() != nil {
		return "via " + cc.StaticCallee().Name()
	}
	return "?"
}

func isBoolResult(call *ssa.Call) bool {
	b, ok := call.Type().Underlying().(*types.Basic)
	return ok && b.Kind() == types.Bool
}

// derivesFromSplitOfHeader: v is (a trim of) an element of strings.Split(req...Header.Get(name), sep).
func derivesFromSplitOfHeader(p *Program, v ssa.Value, name string, rq ssa.Value) bool {
	v = strip(v)
	for k := 0; k < 4; k++ {
		call, ok := v.(*ssa.Call)
		if !ok {
			break
		}
		n := calleeName(&call.Call)
		if strings.HasPrefix(n, "strings.Trim") || n == "strings.ToLower" {
			v = strip(call.Call.Args[0])
			continue
		}
		break
	}
	u, ok := v.(*ssa.UnOp)
	if !ok || u.Op != token.MUL {
		return false
	}
	ia, ok := u.X.(*ssa.IndexAddr)
	if !ok {
		return false
	}
	call, ok := strip(ia.X).(*ssa.Call)
	if !ok || calleeName(&call.Call) != "strings.Split" {
		return false
	}
	req, ok := requestHeaderGet(p, call.Call.Args[0], name)
	return ok && p.sameValue(req, rq)
}

// behindHeaderLoop: grant g can only be reached through the exhaustion exit of the loop that
// contains the header check (or without entering the loop at all).
func behindHeaderLoop(p *Program, fn *ssa.Function, check *ssa.Call, g ssa.Instruction) (bool, string) {
	cyc := blocksOnCycles(fn)
	body := check.Block()
	if !cyc[body] {
		return false, "the header check is not inside a loop over the requested headers: only one element is checked"
	}
	// loop header: the dominator of body on the same cycle that ends in an If with an exit edge
	var header, done *ssa.BasicBlock
	for b := body; b != nil; b = b.Idom() {
		if !cyc[b] {
			break
		}
		if _, ok := b.Instrs[len(b.Instrs)-1].(*ssa.If); ok {
			for _, s := range b.Succs {
				if !cyc[s] || !reachableBlocks([]*ssa.BasicBlock{s}, nil)[b] {
					header, done = b, s
				}
			}
		}
	}
	if header == nil {
		return false, "cannot find the loop's exhaustion exit"
	}
	if cyc[g.Block()] && reachableBlocks([]*ssa.BasicBlock{g.Block()}, nil)[header] && g.Block() != done {
		return false, "the grant is inside the header loop: it happens before all requested headers were checked"
	}
	// from the loop (entered), without passing `done`, the grant must be unreachable
	avoid := map[*ssa.BasicBlock]bool{done: true}
	r := reachableBlocks([]*ssa.BasicBlock{header}, avoid)
	if r[g.Block()] {
		return false, "the grant is reachable from inside the header loop without the loop running to exhaustion"
	}
	// and the grant must not precede the loop
	if reachableBlocks(g.Block().Succs, nil)[header] {
		return false, "the grant is executed before the requested headers are checked"
	}
	return true, ""
}

func ruleC09c(c *Ctx) {
	p := c.P
	// the header-validity predicate: callee of the header check in the preflight function(s)
	var preds []*ssa.Function
	for _, fn := range preflightFuncs(p) {
		rq := requestParam(fn)
		eachInstr(fn, func(i ssa.Instruction) {
			call, ok := i.(*ssa.Call)
			if !ok || call.Call.StaticCallee() == nil || !isBoolResult(call) {
				return
			}
			for _, a := range call.Call.Args {
				if derivesFromSplitOfHeader(p, a, "Access-Control-Request-Headers", rq) {
					preds = append(preds, call.Call.StaticCallee())
					// trimmed at the call site
					trimmed := false
					if tc, ok := strip(a).(*ssa.Call); ok && strings.HasPrefix(calleeName(&tc.Call), "strings.Trim") {
						trimmed = true
					}
					c.check(trimmed, p.fname(fn), "requested header name is trimmed before it is checked", p.ipos(i), "strings.Trim* of the split element", "optional whitespace after ',' makes an allowed header look unknown (or the trim was dropped)")
				}
			}
		})
	}
	preds = dedupFuncs(preds)
	if len(preds) == 0 {
		c.undecided("-", "header-name predicate", "-", "not found")
		return
	}
	for _, fn := range preds {
		name := p.fname(fn)
		hdr := fn.Params[len(fn.Params)-1]
		isEntry := func(v ssa.Value) bool {
			v = strip(v)
			if call, ok := v.(*ssa.Call); ok {
				if n := calleeName(&call.Call); n == "strings.ToLower" || n == "strings.ToUpper" {
					v = strip(call.Call.Args[0])
				}
			}
			return isElementOfField(v, "AllowedHeaders")
		}
		tainted, bad := wholeStringTaint(p, fn, hdr, func(o ssa.Value) bool { return isEntry(o) }, nil)
		if len(bad) == 0 {
			c.ok(name, "header name used through whole-string operations only", p.pos(fn.Pos()), "case mapping and equality with whole AllowedHeaders entries")
		}
		for _, b := range bad {
			c.bad(name, "header name used by a partial-match capable operation", p.ipos(b.Instr), b.What)
		}
		// the equality is case-insensitive: both sides lowered, or EqualFold
		facts := factsAt(fn)
		lowered := func(v ssa.Value) bool {
			call, ok := strip(v).(*ssa.Call)
			return ok && (calleeName(&call.Call) == "strings.ToLower" || calleeName(&call.Call) == "strings.ToUpper")
		}
		for _, r := range returnsOf(fn) {
			b, ok := constBool(r.Results[0])
			if !ok {
				c.undecided(name, "computed answer", p.ipos(r), "cannot justify "+r.Results[0].String())
				continue
			}
			if !b {
				continue
			}
			just := ""
			check := func(f condFact) {
				if !f.Pol {
					return
				}
				switch x := f.Cond.(type) {
				case *ssa.BinOp:
					if x.Op != token.EQL {
						return
					}
					if s, ok := constStr(x.Y); ok && s == "*" && isElementOfField(strip(x.X), "AllowedHeaders") {
						just = "the '*' entry"
					}
					if s, ok := constStr(x.X); ok && s == "*" && isElementOfField(strip(x.Y), "AllowedHeaders") {
						just = "the '*' entry"
					}
					if (tainted[strip(x.X)] && isEntry(x.Y)) || (tainted[strip(x.Y)] && isEntry(x.X)) {
						if lowered(x.X) && lowered(x.Y) {
							just = "case-insensitive whole-string equality"
						} else if just == "" {
							just = "!case-sensitive"
						}
					}
				case *ssa.Call:
					if calleeName(&x.Call) == "strings.EqualFold" {
						a, b := x.Call.Args[0], x.Call.Args[1]
						if (tainted[strip(a)] && isEntry(b)) || (tainted[strip(b)] && isEntry(a)) {
							just = "EqualFold with a whole entry"
						}
					}
				}
			}
			for f := range facts[r.Block()] {
				check(f)
			}
			if just == "" || just[0] == '!' {
				// every incoming edge individually
				all := len(r.Block().Preds) > 0
				for _, pr := range r.Block().Preds {
					j0 := just
					just = ""
					if iff, ok := pr.Instrs[len(pr.Instrs)-1].(*ssa.If); ok {
						m := map[condFact]bool{}
						addCondFacts(m, iff.Cond, pr.Succs[0] == r.Block())
						for f := range m {
							check(f)
						}
					}
					for f := range facts[pr] {
						check(f)
					}
					if just == "" || just[0] == '!' {
						all = false
						if just == "" {
							just = j0
						}
						break
					}
				}
				if !all {
					if just == "!case-sensitive" {
						c.bad(name, "header accepted by a case-sensitive comparison", p.ipos(r), "the property requires header names to be compared ignoring case: both operands must be case-mapped (or EqualFold)")
					} else {
						c.bad(name, "header accepted without a whitelisted reason", p.ipos(r), "'return true' is not justified by whole-string case-insensitive equality or the '*' entry")
					}
					continue
				}
			}
			c.ok(name, "header accepted for a whitelisted reason", p.ipos(r), just)
		}
	}
}

func ruleC09d(c *Ctx) {
	p := c.P
	_, reach := corsFuncs(p)
	n := 0
	for _, fn := range p.SrcFunc {
		if !reach[fn] {
			continue
		}
		eachInstr(fn, func(i ssa.Instruction) {
			st, ok := i.(*ssa.Store)
			if !ok {
				return
			}
			fa, ok := st.Addr.(*ssa.FieldAddr)
			if !ok || ownerOfFieldAddr(fa) != corsType {
				return
			}
			n++
			c.check(p.isFreshObject(fa.X), p.fname(fn), "store to "+corsType+"."+fieldOfAddr(fa).Name()+" goes to a local copy", p.ipos(i),
				"the base is a function-local copy of the configuration at every call site (value receiver)",
				"the filter configuration shared by all requests is modified while serving: what this request computed (e.g. the allowed methods for its URL) becomes the answer for later requests")
		})
	}
	if n == 0 {
		c.triv("-", "no store to the CORS configuration on the request path", "-", "nothing to decide")
	}
}

func ruleC09e(c *Ctx) {
	p := c.P
	_, reach := corsFuncs(p)
	n := 0
	for _, fn := range p.SrcFunc {
		if !reach[fn] {
			continue
		}
		rq := requestParam(fn)
		eachInstr(fn, func(i ssa.Instruction) {
			call, ok := i.(*ssa.Call)
			if !ok || call.Call.StaticCallee() == nil || call.Call.StaticCallee().Name() != "computeAllowedMethods" {
				return
			}
			n++
			okReq := len(call.Call.Args) == 2 && rq != nil && p.sameValue(call.Call.Args[1], rq)
			c.check(okReq, p.fname(fn), "allowed methods are computed for this request", p.ipos(i), "argument is the filter's own request", "the methods are computed for another request/URL")
			recv := strip(call.Call.Args[0])
			_, f, isField := fieldLoad(recv)
			okC := (isField && f.Name() == "Container") || isLoadOfGlobal(recv, "DefaultContainer")
			c.check(okC, p.fname(fn), "allowed methods are computed on the configured or default container", p.ipos(i), "receiver is c.Container or DefaultContainer", "the methods come from an unrelated container")
		})
	}
	if n == 0 {
		c.note("-", "the CORS filter never computes allowed methods", "-", "only configured methods are used")
	}
}
