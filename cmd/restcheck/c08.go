package main

import (
	"go/token"
	"go/types"
	"sort"
	"strings"

	"golang.org/x/tools/go/ssa"
)

func init() {
	register(&Property{
		ID:    "C08",
		Title: "CORS headers are granted only to allowed origins, echoing the origin",
		Decided: "C08.a every Access-Control-* grant reachable from the CORS filter is dominated - in its function or at every call site, transitively - by the true edge of the origin predicate applied to this request's Origin header; " +
			"C08.b the origin predicate decides on whole strings only: the origin flows only into len, ToLower/EqualFold, equality with a whole configured entry and the configured predicate, every 'true' answer is justified by 'nothing configured', the wildcard entry, whole-string equality or the predicate, and an empty origin is refused first; " +
			"C08.c the Allow-Origin value is the request's Origin header itself and at most one Allow-Origin is added on any path; credentials only under CookiesAllowed; C08.e the chain a request runs through is its own (fresh slice, local chain); C08.d without an Origin or for a refused origin the filter only passes the chain on, exactly once, with its own arguments.",
		NotDecided: "what a user-supplied AllowedDomainFunc accepts; headers added by other filters or handlers; the OPTIONSFilter (it has no origin configuration and is outside this property).",
		Rules: []Rule{
			{ID: "C08.a", Template: "T-GUARD", Required: true, Run: ruleC08a,
				Doc: "Every grant is guarded by the origin decision on the same request. A grant moved before the check or a helper called from an unguarded place hands CORS headers to a refused origin."},
			{ID: "C08.b", Template: "T-NOPARTIAL", Required: true, Run: ruleC08b,
				Doc: "Whole-string decision. strings.Contains/HasPrefix/HasSuffix/Index, regexp, slicing or indexing of the origin, or a 'true' not justified by the whitelist, is exactly the partial-match bypass of the 3.8.0 advisory; none of the suite's five fixtures is a near miss of an allowed entry."},
			{ID: "C08.c", Template: "T-PROV", Required: true, Run: ruleC08c,
				Doc: "Echo verbatim, once: Allow-Origin carries Header.Get(Origin) of this request (not a lowered copy, not '*'), is added at most once per request, and Allow-Credentials is dominated by the CookiesAllowed setting."},
			{ID: "C08.d", Template: "T-ONCE", Required: true, Run: ruleC08d,
				Doc: "Pass-through: on the no-Origin and refused-origin branches nothing but logging and exactly one chain.ProcessFilter(req, resp) runs; no grant is reachable."},
			{ID: "C08.e", Template: "T-FRESH", Required: true, Run: ruleC06c,
				Doc: "'Allowed by the filter's configuration' presupposes that the CORS filter which runs for a request is the one registered for its container, service or route: every chain is a function-local object over a fresh slice (same obligations as C06.c). A chain slice appended onto a shared list lets a concurrent request's filters - another route's laxer CORS filter - run in place of this route's."},
		},
	})
	register(&Property{
		ID:    "C09",
		Title: "CORS preflight is answered by the filter alone and grants only what is allowed",
		Decided: "C09.a on the preflight branch (OPTIONS with Access-Control-Request-Method, allowed origin) no ProcessFilter is reachable, on every other allowed-origin branch exactly one is, after the actual-request headers; " +
			"C09.b in the preflight function every grant is dominated by the true edge of the method check on this request's Access-Control-Request-Method and lies behind the exhaustion of the loop that checks every requested header, a failed check reaches no grant, and the method list tested is the list granted; " +
			"C09.c requested header names are compared whole and case-insensitively (or against the '*' entry) after trimming; C09.d the computed allowed methods are stored into a function-local copy of the filter configuration, never into shared state; C09.e the methods are computed for this request on the configured (or default) container. C09.g/h the computation behind an unconfigured AllowedMethods accepts routes as the router does, reads the live tables and keeps no memo (= C17.d/e); C09.i it matches the same text the routers use (= C02.l).",
		NotDecided: "which methods are routable at the URL (see C17); the exact header values beyond their provenance.",
		Rules: []Rule{
			{ID: "C09.a", Template: "T-ONCE", Required: true, Run: ruleC09a,
				Doc: "Preflight does not continue the chain; any other request from an allowed origin continues it exactly once."},
			{ID: "C09.b", Template: "T-ENFORCE", Required: true, Run: ruleC09b,
				Doc: "All checks before any grant: a refused method or a single refused header means no CORS header at all."},
			{ID: "C09.c", Template: "T-NOPARTIAL", Required: true, Run: ruleC09c,
				Doc: "Requested header names are decided by case-insensitive whole-string equality with a configured entry, or the '*' entry."},
			{ID: "C09.d", Template: "T-EFFECT", Required: true, Run: ruleC09d,
				Doc: "Computed methods do not stick: stores into the filter configuration on the request path go to a function-local copy (today: Filter has a value receiver). Turning Filter into a pointer-receiver method compiles, passes the single preflight test and makes the first preflight's methods the answer for every later URL."},
			{ID: "C09.g", Template: "T-SIBLING", Required: true, Run: ruleC17d,
				Doc: "'The methods routable at that URL': the computation behind an unconfigured AllowedMethods accepts a route exactly as the router does (route expression matched against the service remainder, final group empty or '/') and for the service the router would select (same obligations as C17.d)."},
			{ID: "C09.h", Template: "T-EFFECT", Required: true, Run: ruleC17e,
				Doc: "The computed methods are a function of this request and the live route tables: no memo on shared state (same obligations as C17.e). Route/RemoveRoute do not go through the container, so a cache keyed by URL grants methods that are no longer routable."},
			{ID: "C09.j", Template: "T-ONCE", Required: true, Run: ruleC06f,
				Doc: "A preflight for a URL no route serves is still answered by the CORS filter: on every path of the routing-failure branch the container filters run (same obligations as C06.f). An error written directly 'because there is no WebService to ask' answers the preflight with a bare 404 and strips the CORS headers from the 404 of an actual request."},
			{ID: "C09.i", Template: "T-SIBLING", Required: true, Run: ruleLiteralEncoding,
				Doc: "'The methods routable at that URL': the computation matches the compiled expressions against the same text the routers use (URL.Path, not its escaped form) - same obligations as C02.l."},
			{ID: "C09.e", Template: "T-PROV", Required: true, Run: ruleC09e,
				Doc: "The allowed methods are computed from this request (the filter's own req) on the configured container, or the default container when none is configured."},
		},
	})
}

// headerWrite recognises resp.AddHeader(k, v) and X.Header().Set/Add(k, v).
func headerWrite(i ssa.Instruction) (key string, keyConst bool, val ssa.Value, ok bool) {
	cc := callCommon(i)
	if cc == nil {
		return "", false, nil, false
	}
	if cal := cc.StaticCallee(); cal != nil && cal.Name() == "AddHeader" && recvTypeName(cal) == "Response" && len(cc.Args) == 3 {
		k, kc := constStr(cc.Args[1])
		return k, kc, cc.Args[2], true
	}
	switch calleeName(cc) {
	case "(net/http.Header).Set", "(net/http.Header).Add":
		k, kc := constStr(cc.Args[1])
		return k, kc, cc.Args[2], true
	}
	return "", false, nil, false
}

// headerRow is one (name, value) pair a header write can add.
type headerRow struct {
	Key string
	Val ssa.Value
}

// headerWriteRows: like headerWrite with a constant name, and additionally a write inside a loop over a local table
// of (name, value) structs - `for _, each := range [...]struct{name, value string}{{"Allow", m}, ...} { resp.AddHeader(each.name, each.value) }` -
// which is the rows of that table.
func headerWriteRows(i ssa.Instruction) ([]headerRow, bool) {
	k, kc, v, ok := headerWrite(i)
	if !ok {
		return nil, false
	}
	if kc {
		return []headerRow{{k, v}}, true
	}
	cc := callCommon(i)
	var keyV ssa.Value
	switch len(cc.Args) {
	case 3:
		keyV = cc.Args[1]
	default:
		return nil, false
	}
	elemField := func(x ssa.Value) (elem ssa.Value, field int, ok bool) {
		switch y := strip(x).(type) {
		case *ssa.Field:
			return y.X, y.Field, true
		case *ssa.UnOp:
			if fa, ok := y.X.(*ssa.FieldAddr); ok && y.Op == token.MUL {
				return fa.X, fa.Field, true
			}
		}
		return nil, 0, false
	}
	ke, kf, ok1 := elemField(keyV)
	ve, vf, ok2 := elemField(v)
	if !ok1 || !ok2 || ke != ve {
		return nil, false
	}
	// the element value: the struct itself, or the single value copied into the iteration variable
	ev := ke
	if a, ok := ke.(*ssa.Alloc); ok {
		var whole []*ssa.Store
		for _, r := range referrers(a) {
			if st, ok := r.(*ssa.Store); ok && st.Addr == ssa.Value(a) {
				whole = append(whole, st)
			}
		}
		if len(whole) != 1 {
			return nil, false
		}
		ev = strip(whole[0].Val)
	}
	// the table: *(&table[i]), &table[i], or (*table)[i]
	var tbl ssa.Value
	switch y := ev.(type) {
	case *ssa.UnOp:
		if ia, ok := y.X.(*ssa.IndexAddr); ok {
			tbl = strip(ia.X)
		}
	case *ssa.IndexAddr:
		tbl = strip(y.X)
	case *ssa.Index:
		if u, ok := strip(y.X).(*ssa.UnOp); ok && u.Op == token.MUL {
			tbl = strip(u.X)
		}
	}
	if sl, ok := tbl.(*ssa.Slice); ok {
		tbl = strip(sl.X)
	}
	alloc, ok := tbl.(*ssa.Alloc)
	if !ok {
		return nil, false
	}
	rows := map[int64]*headerRow{}
	fieldStores := func(obj ssa.Value, n int64) bool {
		for _, r2 := range referrers(obj) {
			fa, ok := r2.(*ssa.FieldAddr)
			if !ok {
				continue
			}
			for _, r3 := range referrers(fa) {
				st, ok := r3.(*ssa.Store)
				if !ok || st.Addr != ssa.Value(fa) {
					continue
				}
				if rows[n] == nil {
					rows[n] = &headerRow{}
				}
				switch fa.Field {
				case kf:
					s, isS := constStr(st.Val)
					if !isS {
						return false
					}
					rows[n].Key = s
				case vf:
					rows[n].Val = st.Val
				}
			}
		}
		return true
	}
	for _, r := range referrers(alloc) {
		ea, ok := r.(*ssa.IndexAddr)
		if !ok {
			continue
		}
		n, isC := constInt(ea.Index)
		if !isC {
			continue // the loop's own access
		}
		if !fieldStores(ea, n) {
			return nil, false
		}
		// element built as a literal of its own and stored whole
		for _, r2 := range referrers(ea) {
			st, ok := r2.(*ssa.Store)
			if !ok || st.Addr != ssa.Value(ea) {
				continue
			}
			u, ok := strip(st.Val).(*ssa.UnOp)
			if !ok || u.Op != token.MUL {
				return nil, false
			}
			lit, ok := u.X.(*ssa.Alloc)
			if !ok || !fieldStores(lit, n) {
				return nil, false
			}
		}
	}
	var out []headerRow
	for _, r := range rows {
		if r.Key == "" || r.Val == nil {
			return nil, false
		}
		out = append(out, *r)
	}
	sort.Slice(out, func(a, b int) bool { return out[a].Key < out[b].Key })
	return out, len(out) > 0
}

const corsType = "CrossOriginResourceSharing"

// corsFuncs: the filter entry (filter-shaped method of the CORS type) and what it reaches among the type's methods.
func corsFuncs(p *Program) (entries []*ssa.Function, reach map[*ssa.Function]bool) {
	for _, fn := range p.methodsOf(corsType) {
		if requestShape(fn.Signature) == "filter-function" {
			entries = append(entries, fn)
		}
	}
	reach = p.callGraph().reach(entries, func(e Edge) bool { return e.Kind != EdgeStatic && e.Kind != EdgeClosure })
	return
}

// originPredicates: methods of the CORS type func(string) bool that read AllowedDomains.
func originPredicates(p *Program) []*ssa.Function {
	var out []*ssa.Function
	for _, fn := range p.methodsOf(corsType) {
		sig := fn.Signature
		if sig.Params().Len() != 1 || sig.Results().Len() != 1 {
			continue
		}
		if b, ok := sig.Params().At(0).Type().Underlying().(*types.Basic); !ok || b.Kind() != types.String {
			continue
		}
		reads := false
		eachInstr(fn, func(i ssa.Instruction) {
			if fa, ok := i.(*ssa.FieldAddr); ok && fieldOfAddr(fa).Name() == "AllowedDomains" {
				reads = true
			}
			if f, ok := i.(*ssa.Field); ok {
				if st, ok := f.X.Type().Underlying().(*types.Struct); ok && st.Field(f.Field).Name() == "AllowedDomains" {
					reads = true
				}
			}
		})
		if reads {
			out = append(out, fn)
		}
	}
	// helpers of a predicate (only ever called by other predicates) are checked through their callers
	isPred := map[*ssa.Function]bool{}
	for _, f := range out {
		isPred[f] = true
	}
	var top []*ssa.Function
	for _, f := range out {
		onlyFromPreds, n := true, 0
		for _, e := range p.callGraph().In[f] {
			n++
			if !isPred[topFunc(e.Caller)] || e.Caller == f {
				onlyFromPreds = false
			}
		}
		if n == 0 || !onlyFromPreds {
			top = append(top, f)
		}
	}
	if len(top) == 0 {
		return out
	}
	return top
}

// requestHeaderGet: v is req.Request.Header.Get(name) for the *Request parameter/variable req of fn.
func requestHeaderGet(p *Program, v ssa.Value, name string) (req ssa.Value, ok bool) {
	owner, hname, ok := headerGet(v)
	if !ok || hname != name {
		return nil, false
	}
	// owner is *http.Request loaded from (*Request).Request
	b, f, ok := fieldLoad(strip(owner))
	if !ok || f.Name() != "Request" || !isPtrToRestful(b.Type(), "Request") {
		return nil, false
	}
	return strip(b), true
}

// originAllowedFact: fact f says "originPredicate(Header.Get(Origin) of req) == pol".
func originAllowedFact(p *Program, f condFact, preds []*ssa.Function) (req ssa.Value, ok bool) {
	call, isCall := f.Cond.(*ssa.Call)
	if !isCall {
		return nil, false
	}
	cal := call.Call.StaticCallee()
	match := false
	for _, pr := range preds {
		if cal == pr {
			match = true
		}
	}
	if !match || len(call.Call.Args) != 2 {
		return nil, false
	}
	return requestHeaderGet(p, call.Call.Args[1], "Origin")
}

// sameRequest: two *Request values denote the same request object (parameter identity through cells).
func (p *Program) sameValue(a, b ssa.Value) bool {
	if strip(a) == strip(b) {
		return true
	}
	sa, sb := p.sources(a, provDefault), p.sources(b, provDefault)
	return len(sa) == 1 && len(sb) == 1 && sa[0] == sb[0]
}

func requestParam(fn *ssa.Function) *ssa.Parameter {
	for _, prm := range fn.Params {
		if isPtrToRestful(prm.Type(), "Request") {
			return prm
		}
	}
	return nil
}

// guardedByOrigin decides whether instruction i of fn only executes for an allowed origin of the
// request denoted by fn's *Request parameter.
func guardedByOrigin(p *Program, i ssa.Instruction, preds []*ssa.Function, depth int, why *string) bool {
	fn := i.Parent()
	rq := requestParam(fn)
	for f := range factsAt(fn)[i.Block()] {
		if !f.Pol {
			continue
		}
		if req, ok := originAllowedFact(p, f, preds); ok && rq != nil && p.sameValue(req, rq) {
			return true
		}
	}
	if depth >= 4 {
		*why = "guard not found within 4 call levels"
		return false
	}
	if o := fn.Object(); o == nil || o.Exported() || p.addressTakenCached()[fn] {
		*why = p.fname(fn) + " can be called from outside the guarded region (exported or used as a value)"
		return false
	}
	ins := p.callGraph().In[fn]
	if len(ins) == 0 {
		*why = p.fname(fn) + " has no caller"
		return false
	}
	for _, e := range ins {
		if e.Kind != EdgeStatic {
			*why = p.fname(fn) + " is reached through an interface"
			return false
		}
		// the callee must be told about the same request
		cc := callCommon(e.Site)
		crq := requestParam(e.Caller)
		passes := rq == nil
		for k, prm := range fn.Params {
			if prm == rq && k < len(cc.Args) && crq != nil && p.sameValue(cc.Args[k], crq) {
				passes = true
			}
		}
		if !passes {
			*why = "call at " + p.ipos(e.Site) + " passes a different request"
			return false
		}
		if !guardedByOrigin(p, e.Site, preds, depth+1, why) {
			if *why == "" {
				*why = "call site " + p.ipos(e.Site) + " in " + p.fname(e.Caller) + " is not guarded"
			}
			return false
		}
	}
	return true
}

func ruleC08a(c *Ctx) {
	p := c.P
	_, reach := corsFuncs(p)
	preds := originPredicates(p)
	if len(preds) == 0 {
		c.undecided("-", "origin predicate", "-", "no method of the CORS type func(string) bool reading AllowedDomains found")
		return
	}
	n := 0
	for _, fn := range p.SrcFunc {
		if !reach[fn] || recvTypeName(topFunc(fn)) != corsType {
			continue
		}
		eachInstr(fn, func(i ssa.Instruction) {
			key, kc, _, ok := headerWrite(i)
			if !ok {
				return
			}
			if kc && !strings.HasPrefix(key, "Access-Control-") {
				return
			}
			n++
			why := ""
			g := guardedByOrigin(p, i, preds, 0, &why)
			c.check(g, p.fname(fn), "grant "+keyOr(key, kc)+" guarded by the origin decision", p.ipos(i),
				"dominated, here or at every call site, by the true edge of "+preds[0].Name()+"(Header.Get(Origin)) on this request",
				"a CORS grant is reachable for an origin that was not accepted: "+why)
		})
	}
	c.count("grant_sites", n)
}

func keyOr(k string, c bool) string {
	if c {
		return k
	}
	return "<computed header name>"
}

// ---------------------------------------------------------------------------

// stringTaint computes the values derived from param by case mapping (the only transformation
// that keeps "the whole string"), and lists every other use.
type taintUse struct {
	Instr ssa.Instruction
	What  string
}

func wholeStringTaint(p *Program, fn *ssa.Function, param ssa.Value, allowEq func(other ssa.Value) bool, allowCall func(cc *ssa.CallCommon, argIdx int) bool) (tainted map[ssa.Value]bool, bad []taintUse) {
	tainted = map[ssa.Value]bool{param: true}
	work := []ssa.Value{param}
	for len(work) > 0 {
		v := work[len(work)-1]
		work = work[:len(work)-1]
		for _, r := range referrers(v) {
			switch x := r.(type) {
			case *ssa.DebugRef:
			case *ssa.Phi:
				if !tainted[x] {
					tainted[x] = true
					work = append(work, x)
				}
			case *ssa.MakeInterface:
				// only for logging
				for _, rr := range referrers(x) {
					if _, ok := rr.(*ssa.Store); !ok {
						bad = append(bad, taintUse{rr, "the string escapes as an interface value"})
					}
				}
			case *ssa.BinOp:
				if x.Op == token.EQL || x.Op == token.NEQ {
					other := x.X
					if other == v {
						other = x.Y
					}
					if allowEq(other) {
						continue
					}
					bad = append(bad, taintUse{r, "compared with something that is not a whole configured entry"})
					continue
				}
				bad = append(bad, taintUse{r, "operator " + x.Op.String() + " applied to the string"})
			case *ssa.Slice:
				bad = append(bad, taintUse{r, "the string is sliced (partial match)"})
			case *ssa.Index, *ssa.Lookup:
				bad = append(bad, taintUse{r, "the string is indexed"})
			case *ssa.Convert:
				bad = append(bad, taintUse{r, "the string is converted (bytes/runes are inspected)"})
			case *ssa.Range:
				bad = append(bad, taintUse{r, "the string is iterated"})
			case *ssa.Store:
				// spilled to a local: follow loads
				if a, ok := x.Addr.(*ssa.Alloc); ok {
					for _, l := range referrers(a) {
						if u, ok := l.(*ssa.UnOp); ok && u.Op == token.MUL && !tainted[u] {
							tainted[u] = true
							work = append(work, u)
						}
					}
				} else if ia, ok := x.Addr.(*ssa.IndexAddr); ok {
					_ = ia // varargs for logging
				} else {
					bad = append(bad, taintUse{r, "the string is stored"})
				}
			case *ssa.Return:
				bad = append(bad, taintUse{r, "the string is returned"})
			default:
				cc := callCommon(r)
				if cc == nil {
					bad = append(bad, taintUse{r, "unrecognised use " + r.String()})
					continue
				}
				idx := -1
				for k, a := range cc.Args {
					if a == v {
						idx = k
					}
				}
				n := calleeName(cc)
				switch n {
				case "builtin.len":
				case "strings.ToLower", "strings.ToUpper":
					res := r.(ssa.Value)
					if !tainted[res] {
						tainted[res] = true
						work = append(work, res)
					}
				case "strings.EqualFold":
					other := cc.Args[0]
					if other == v {
						other = cc.Args[1]
					}
					if !allowEq(other) {
						bad = append(bad, taintUse{r, "EqualFold with something that is not a whole configured entry"})
					}
				default:
					if allowCall != nil && allowCall(cc, idx) {
						continue
					}
					what := n
					if what == "" {
						what = "a function value"
					}
					bad = append(bad, taintUse{r, "passed to " + what + " (a partial or pattern match is possible)"})
				}
			}
		}
	}
	return
}

func ruleC08b(c *Ctx) {
	p := c.P
	preds := originPredicates(p)
	if len(preds) == 0 {
		c.undecided("-", "origin predicate", "-", "not found")
		return
	}
	for _, fn := range preds {
		originPredicateCheck(c, fn, fn.Params[1], 0, map[*ssa.Function]bool{})
	}
}

// originPredicateCheck decides the whole-string discipline for one function that receives the origin
// (or its case-mapped copy) in `origin`; helpers of the CORS type that are handed the origin are
// checked recursively and their positive answers count as justified when they pass.
func originPredicateCheck(c *Ctx, fn *ssa.Function, origin *ssa.Parameter, depth int, verified map[*ssa.Function]bool) bool {
	p := c.P
	name := p.fname(fn)
	okAll := true
	isEntry := func(v ssa.Value) bool {
		v = strip(v)
		if call, ok := v.(*ssa.Call); ok {
			if n := calleeName(&call.Call); n == "strings.ToLower" || n == "strings.ToUpper" {
				v = strip(call.Call.Args[0])
			}
		}
		return isElementOfField(v, "AllowedDomains")
	}
	var tainted map[ssa.Value]bool
	allowEq := func(other ssa.Value) bool {
		if s, ok := constStr(other); ok && s == "" {
			return true
		}
		return isEntry(other)
	}
	helperCalls := map[*ssa.Call]bool{}
	allowCall := func(cc *ssa.CallCommon, idx int) bool {
		if isDynamicCall(cc) {
			if _, f, ok := fieldLoad(strip(cc.Value)); ok && f.Name() == "AllowedDomainFunc" {
				return true
			}
		}
		if cc.IsInvoke() && isNamed(cc.Value.Type(), modulePath+"/log", "StdLogger") {
			return true
		}
		// a helper of the CORS type: checked recursively
		if cal := cc.StaticCallee(); cal != nil && recvTypeName(cal) == corsType && depth < 3 && idx >= 0 && idx < len(cal.Params) && isBoolFunc(cal) {
			if _, done := verified[cal]; !done {
				verified[cal] = false
				verified[cal] = originPredicateCheck(c, cal, cal.Params[idx], depth+1, verified)
			}
			return verified[cal]
		}
		return false
	}
	tainted, bad := wholeStringTaint(p, fn, origin, allowEq, allowCall)
	eachInstr(fn, func(i ssa.Instruction) {
		if call, ok := i.(*ssa.Call); ok {
			if cal := call.Call.StaticCallee(); cal != nil && verified[cal] {
				for _, a := range call.Call.Args {
					if tainted[strip(a)] || tainted[a] {
						helperCalls[call] = true
					}
				}
			}
		}
	})
	if len(bad) == 0 {
		c.ok(name, "origin used through whole-string operations only", p.pos(fn.Pos()), itoa(len(tainted))+" derived value(s): len, case mapping, equality with a whole AllowedDomains entry, the configured predicate, verified helpers")
	}
	for _, b := range bad {
		okAll = false
		c.bad(name, "origin used by a partial-match capable operation", p.ipos(b.Instr), b.What+": an origin that merely contains, starts or ends with an allowed entry could be accepted")
	}
	facts := factsAt(fn)
	isWholeEq := func(f condFact) bool {
		if !f.Pol {
			return false
		}
		switch x := f.Cond.(type) {
		case *ssa.BinOp:
			if x.Op != token.EQL {
				return false
			}
			return (tainted[strip(x.X)] && isEntry(x.Y)) || (tainted[strip(x.Y)] && isEntry(x.X))
		case *ssa.Call:
			if calleeName(&x.Call) == "strings.EqualFold" {
				a, b := x.Call.Args[0], x.Call.Args[1]
				return (tainted[strip(a)] && isEntry(b)) || (tainted[strip(b)] && isEntry(a))
			}
			if helperCalls[x] {
				return true // a verified helper said "listed"
			}
		}
		return false
	}
	isWildcard := func(f condFact) bool {
		if !f.Pol {
			return false
		}
		x, ok := f.Cond.(*ssa.BinOp)
		if !ok || x.Op != token.EQL {
			return false
		}
		for _, pr := range [][2]ssa.Value{{x.X, x.Y}, {x.Y, x.X}} {
			if s, ok := constStr(pr[0]); ok && s == ".*" && isElementOfField(strip(pr[1]), "AllowedDomains") {
				return true
			}
		}
		return false
	}
	isNoList := func(f condFact) bool {
		x, ok := f.Cond.(*ssa.BinOp)
		if !ok || !f.Pol {
			return false
		}
		call, ok := strip(x.X).(*ssa.Call)
		if !ok || !isBuiltinCall(call, "len") {
			return false
		}
		if _, fld, ok := fieldLoad(strip(call.Call.Args[0])); !ok || fld.Name() != "AllowedDomains" {
			return false
		}
		n, ok := constInt(x.Y)
		if !ok {
			return false
		}
		return (x.Op == token.EQL && n == 0) || (x.Op == token.LEQ && n == 0) || (x.Op == token.LSS && n == 1)
	}
	isNoFunc := func(f condFact) bool {
		x, ok := f.Cond.(*ssa.BinOp)
		if !ok || !f.Pol || x.Op != token.EQL {
			return false
		}
		var v ssa.Value
		if isNilConst(x.Y) {
			v = x.X
		} else if isNilConst(x.X) {
			v = x.Y
		} else {
			return false
		}
		_, fld, ok := fieldLoad(strip(v))
		return ok && fld.Name() == "AllowedDomainFunc"
	}
	emptyRefusedIn := func(fs map[condFact]bool) bool {
		for f := range fs {
			x, ok := f.Cond.(*ssa.BinOp)
			if !ok || !f.Pol {
				continue
			}
			if call, ok := strip(x.X).(*ssa.Call); ok && isBuiltinCall(call, "len") && call.Call.Args[0] == ssa.Value(origin) {
				if n, ok := constInt(x.Y); ok && ((x.Op == token.NEQ && n == 0) || (x.Op == token.GTR && n == 0) || (x.Op == token.GEQ && n == 1)) {
					return true
				}
			}
			if x.X == ssa.Value(origin) && x.Op == token.NEQ {
				if s, ok := constStr(x.Y); ok && s == "" {
					return true
				}
			}
		}
		return false
	}
	sufficient := func(fs map[condFact]bool) (bool, string) {
		noList, noFunc := false, false
		for f := range fs {
			if isWholeEq(f) {
				return true, "whole-string equality with an AllowedDomains entry (or a verified helper's answer)"
			}
			if isWildcard(f) {
				return true, "the wildcard entry"
			}
			if isNoList(f) {
				noList = true
			}
			if isNoFunc(f) {
				noFunc = true
			}
		}
		if noList && noFunc {
			return true, "no restriction configured"
		}
		return false, ""
	}
	union := func(ms ...map[condFact]bool) map[condFact]bool {
		out := map[condFact]bool{}
		for _, m := range ms {
			for f := range m {
				out[f] = true
			}
		}
		return out
	}
	edgeFacts := func(pr, b *ssa.BasicBlock) map[condFact]bool {
		m := map[condFact]bool{}
		if iff, ok := pr.Instrs[len(pr.Instrs)-1].(*ssa.If); ok && pr.Succs[0] != pr.Succs[1] {
			addCondFacts(m, iff.Cond, pr.Succs[0] == b)
			deriveFacts(m)
		}
		return m
	}
	var justifiedBlock func(b *ssa.BasicBlock, extra map[condFact]bool, depth int) (bool, string)
	justifiedBlock = func(b *ssa.BasicBlock, extra map[condFact]bool, depth int) (bool, string) {
		if ok, why := sufficient(union(facts[b], extra)); ok {
			return true, why
		}
		if depth > 4 || len(b.Preds) == 0 {
			return false, "block " + b.String() + " is reachable without a whitelisted condition"
		}
		reason := ""
		known := union(facts[b], extra)
		for k, pr := range b.Preds {
			// an edge on which a boolean phi of this block would have the value known to be wrong was not taken
			infeasible := false
			for f := range known {
				if ph, ok := f.Cond.(*ssa.Phi); ok && ph.Block() == b && k < len(ph.Edges) {
					if v, isC := constBool(ph.Edges[k]); isC && v != f.Pol {
						infeasible = true
					}
				}
			}
			if infeasible {
				continue
			}
			// ... and where the edge carries a computed value, that value is what the phi is known to be
			viaPhi := map[condFact]bool{}
			for f := range known {
				if ph, ok := f.Cond.(*ssa.Phi); ok && ph.Block() == b && k < len(ph.Edges) {
					if _, isC := constBool(ph.Edges[k]); !isC {
						addCondFacts(viaPhi, ph.Edges[k], f.Pol)
					}
				}
			}
			if len(viaPhi) > 0 {
				deriveFacts(viaPhi)
				if ok, why := sufficient(viaPhi); ok {
					reason = why
					continue
				}
			}
			ok, why := justifiedBlock(pr, union(extra, viaPhi, edgeFacts(pr, b)), depth+1)
			if !ok {
				return false, why
			}
			reason = why
		}
		return true, reason
	}
	// the function is only entered for a non-empty origin when it is a helper (the caller refused empty first)
	needEmptyCheck := depth == 0
	var evalResult func(v ssa.Value, at *ssa.BasicBlock, extra map[condFact]bool, r *ssa.Return, visiting map[ssa.Value]bool) (bool, string)
	evalResult = func(v ssa.Value, at *ssa.BasicBlock, extra map[condFact]bool, r *ssa.Return, visiting map[ssa.Value]bool) (bool, string) {
		v = strip(v)
		if b, ok := constBool(v); ok {
			if !b {
				return true, "refusal"
			}
			ok, why := justifiedBlock(at, extra, 0)
			if ok && needEmptyCheck && !emptyRefusedIn(union(facts[at], extra, facts[r.Block()])) {
				return false, "'allowed' can be answered for an empty origin"
			}
			return ok, why
		}
		switch x := v.(type) {
		case *ssa.Call:
			if isDynamicCall(&x.Call) {
				if _, f, okf := fieldLoad(strip(x.Call.Value)); okf && f.Name() == "AllowedDomainFunc" && len(x.Call.Args) == 1 && (tainted[strip(x.Call.Args[0])] || tainted[x.Call.Args[0]]) {
					return true, "the configured predicate decides"
				}
				return false, "the answer comes from an unexpected call"
			}
			if helperCalls[x] {
				return true, "a verified helper decides"
			}
			if calleeName(&x.Call) == "strings.EqualFold" && isWholeEq(condFact{x, true}) {
				return true, "whole-string comparison"
			}
			return false, "the answer comes from " + shortCallee(&x.Call)
		case *ssa.BinOp:
			if isWholeEq(condFact{x, true}) {
				return true, "whole-string comparison"
			}
		case *ssa.Phi:
			if visiting[v] {
				return true, ""
			}
			visiting[v] = true
			reason := ""
			for k, e := range x.Edges {
				pr := x.Block().Preds[k]
				ok, why := evalResult(e, pr, union(extra, edgeFacts(pr, x.Block()), facts[r.Block()]), r, visiting)
				if !ok {
					return false, why
				}
				reason = why
			}
			return true, reason
		}
		// any other computed answer: it is 'allowed' exactly where the value is true
		if bt, ok := v.Type().Underlying().(*types.Basic); ok && bt.Kind() == types.Bool {
			m := map[condFact]bool{}
			addCondFacts(m, v, true)
			deriveFacts(m)
			if ok, why := justifiedBlock(at, union(extra, m), 0); ok {
				if needEmptyCheck && !emptyRefusedIn(union(facts[at], extra, facts[r.Block()])) {
					return false, "'allowed' can be answered for an empty origin"
				}
				return true, why
			}
		}
		return false, "cannot justify " + v.String()
	}
	for _, r := range returnsOf(fn) {
		ok, why := evalResult(r.Results[0], r.Block(), nil, r, map[ssa.Value]bool{})
		if b, isC := constBool(r.Results[0]); isC && !b {
			continue
		}
		if !ok {
			okAll = false
		}
		c.check(ok, name, "answer 'allowed' is justified", p.ipos(r), why, "'allowed' can be answered without a whitelisted reason ("+why+")")
	}
	return okAll
}

func isBoolFunc(fn *ssa.Function) bool {
	res := fn.Signature.Results()
	if res.Len() != 1 {
		return false
	}
	b, ok := res.At(0).Type().Underlying().(*types.Basic)
	return ok && b.Kind() == types.Bool
}

// isElementOfField: v is an element (by index or range) of a slice loaded from the named field.
func isElementOfField(v ssa.Value, field string) bool {
	u, ok := strip(v).(*ssa.UnOp)
	if !ok || u.Op != token.MUL {
		return false
	}
	ia, ok := u.X.(*ssa.IndexAddr)
	if !ok {
		return false
	}
	return isFieldOrBoundToField(strip(ia.X), field, 0)
}

// isFieldOrBoundToField: x is a load of the named field, or a parameter of an unexported function that every static
// call site binds to such a load (the list handed to a helper that was a method before).
func isFieldOrBoundToField(x ssa.Value, field string, depth int) bool {
	if _, f, ok := fieldLoad(x); ok {
		return f.Name() == field
	}
	prm, ok := x.(*ssa.Parameter)
	if !ok || depth > 2 || curProgram == nil || prm.Parent() == nil {
		return false
	}
	fn := prm.Parent()
	if fn.Object() == nil || fn.Object().Exported() || curProgram.addressTakenCached()[fn] {
		return false
	}
	k := -1
	for i, q := range fn.Params {
		if q == prm {
			k = i
		}
	}
	n := 0
	for _, e := range curProgram.callGraph().In[fn] {
		cc := callCommon(e.Site)
		if cc == nil || cc.StaticCallee() != fn || k < 0 || k >= len(cc.Args) {
			return false
		}
		if !isFieldOrBoundToField(strip(cc.Args[k]), field, depth+1) {
			return false
		}
		n++
	}
	return n > 0
}

// ---------------------------------------------------------------------------

// maxGrants computes the maximum number of writes of header `key` on any path through fn,
// including module callees (static), to a depth of 5.
func maxGrants(p *Program, fn *ssa.Function, key string, depth int, memo map[*ssa.Function]int) int {
	if v, ok := memo[fn]; ok {
		return v
	}
	memo[fn] = 0
	w := map[ssa.Instruction]int{}
	eachInstr(fn, func(i ssa.Instruction) {
		if k, kc, _, ok := headerWrite(i); ok && (!kc || k == key) {
			w[i] = 1
			return
		}
		if cc := callCommon(i); cc != nil && depth < 5 {
			if cal := cc.StaticCallee(); cal != nil && p.inModule(cal) && cal.Blocks != nil && recvTypeName(cal) == corsType {
				if n := maxGrants(p, cal, key, depth+1, memo); n > 0 {
					w[i] = n
				}
			}
		}
	})
	_, max, ok := countWeighted(fn, nil, nil, w, nil)
	if !ok {
		max = 0
	}
	memo[fn] = max
	return max
}

func ruleC08c(c *Ctx) {
	p := c.P
	entries, reach := corsFuncs(p)
	n := 0
	for _, fn := range p.SrcFunc {
		if !reach[fn] {
			continue
		}
		name := p.fname(fn)
		facts := factsAt(fn)
		eachInstr(fn, func(i ssa.Instruction) {
			key, kc, val, ok := headerWrite(i)
			if !ok || !kc {
				return
			}
			switch key {
			case "Access-Control-Allow-Origin":
				n++
				req, ok := requestHeaderGet(p, val, "Origin")
				rq := requestParam(fn)
				c.check(ok && rq != nil && p.sameValue(req, rq), name, "Allow-Origin echoes the request's Origin verbatim", p.ipos(i),
					"value = req.Request.Header.Get(Origin)", "Allow-Origin is not the request's own Origin header value (a lowered copy, a constant such as * or another string)")
			case "Access-Control-Allow-Credentials":
				g := false
				for f := range facts[i.Block()] {
					if _, fld, ok := fieldLoad(strip(f.Cond)); ok && fld.Name() == "CookiesAllowed" && f.Pol {
						g = true
					}
				}
				c.check(g, name, "Allow-Credentials only when configured", p.ipos(i), "dominated by the true edge of CookiesAllowed", "credentials are granted without the CookiesAllowed setting")
			}
		})
	}
	if n == 0 {
		c.bad("-", "Allow-Origin grant", "-", "no Access-Control-Allow-Origin write reachable from the CORS filter")
	}
	for _, e := range entries {
		m := maxGrants(p, e, "Access-Control-Allow-Origin", 0, map[*ssa.Function]int{})
		c.check(m <= 1, p.fname(e), "Allow-Origin added at most once per request", p.pos(e.Pos()), "maximum over all paths through the filter and its helpers: "+itoa(m), "some path adds Access-Control-Allow-Origin "+maxStr(m)+" times")
	}
}

// ---------------------------------------------------------------------------

// corsBranch classifies a block of the filter entry by the facts known there.
type corsBranch int

const (
	brUnknown corsBranch = iota
	brNoOrigin
	brRefused
	brPreflight
	brActual
)

func classifyCorsBlock(p *Program, fn *ssa.Function, b *ssa.BasicBlock, facts map[*ssa.BasicBlock]map[condFact]bool, preds []*ssa.Function) corsBranch {
	return classifyCorsFacts(p, fn, facts[b], preds)
}

func classifyCorsFacts(p *Program, fn *ssa.Function, fs map[condFact]bool, preds []*ssa.Function) corsBranch {
	rq := requestParam(fn)
	allowed, refused, noOrigin := false, false, false
	optFalse, optTrue := false, false // Method == OPTIONS known true / false
	acrm, noAcrm := false, false
	// a condition tested in a boolean helper (`isPreflightRequest(req)`) holds here when the helper said so
	ext := map[condFact]bool{}
	for f := range fs {
		ext[f] = true
		if call, ok := f.Cond.(*ssa.Call); ok {
			if _, isOrigin := originAllowedFact(p, f, preds); !isOrigin {
				for g := range calleeImpliedFacts(p, call, f.Pol) {
					ext[g] = true
				}
			}
		}
	}
	fs = ext
	for f := range fs {
		if req, ok := originAllowedFact(p, f, preds); ok && p.sameValue(req, rq) {
			if f.Pol {
				allowed = true
			} else {
				refused = true
			}
			continue
		}
		bo, ok := f.Cond.(*ssa.BinOp)
		if !ok {
			continue
		}
		// len(origin) == 0
		if call, ok := strip(bo.X).(*ssa.Call); ok && isBuiltinCall(call, "len") {
			if _, ok := requestHeaderGet(p, call.Call.Args[0], "Origin"); ok {
				if n, ok := constInt(bo.Y); ok && n == 0 && ((bo.Op == token.EQL && f.Pol) || (bo.Op == token.NEQ && !f.Pol) || (bo.Op == token.GTR && !f.Pol)) {
					noOrigin = true
				}
			}
		}
		for _, pr := range [][2]ssa.Value{{bo.X, bo.Y}, {bo.Y, bo.X}} {
			s, okc := constStr(pr[1])
			if !okc {
				continue
			}
			if _, ok := requestHeaderGet(p, pr[0], "Origin"); ok && s == "" {
				if (bo.Op == token.EQL && f.Pol) || (bo.Op == token.NEQ && !f.Pol) {
					noOrigin = true
				}
			}
			if _, ok := requestHeaderGet(p, pr[0], "Access-Control-Request-Method"); ok && s == "" {
				if (bo.Op == token.NEQ && f.Pol) || (bo.Op == token.EQL && !f.Pol) {
					acrm = true
				} else {
					noAcrm = true
				}
			}
			if _, fld, ok := fieldLoad(strip(pr[0])); ok && fld.Name() == "Method" && s == "OPTIONS" {
				if (bo.Op == token.EQL && f.Pol) || (bo.Op == token.NEQ && !f.Pol) {
					optTrue = true
				} else {
					optFalse = true
				}
			}
		}
	}
	switch {
	case noOrigin:
		return brNoOrigin
	case refused:
		return brRefused
	case optTrue && acrm:
		// the origin decision is C08's business; a preflight is a preflight
		return brPreflight
	case allowed:
		// allowed origin and not (known to be) a preflight
		_, _ = optFalse, noAcrm
		return brActual
	}
	return brUnknown
}

func isProcessFilterCall(i ssa.Instruction) bool {
	cc := callCommon(i)
	return cc != nil && cc.StaticCallee() != nil && cc.StaticCallee().Name() == "ProcessFilter" && recvTypeName(cc.StaticCallee()) == "FilterChain"
}

// corsPathInfo: one acyclic path through the filter entry, classified by the conditions along it.
type corsPathInfo struct {
	Path   cfgPath
	Branch corsBranch
	PF     []ssa.Instruction // ProcessFilter calls, in order
	Calls  []ssa.Instruction // other effectful calls (helpers of the CORS type, header writes, unknown calls)
	Ret    *ssa.Return
}

func corsPaths(p *Program, fn *ssa.Function, preds []*ssa.Function) ([]corsPathInfo, bool) {
	paths, ok := enumPaths(fn, nil, 4000)
	if !ok {
		return nil, false
	}
	var out []corsPathInfo
	for _, pa := range paths {
		info := corsPathInfo{Path: pa, Branch: classifyCorsFacts(p, fn, pa.Facts, preds)}
		for _, i := range pa.instrs() {
			if r, ok := i.(*ssa.Return); ok {
				info.Ret = r
			}
			cc := callCommon(i)
			if cc == nil {
				continue
			}
			if isProcessFilterCall(i) {
				info.PF = append(info.PF, i)
				continue
			}
			if cc.IsInvoke() && isNamed(cc.Value.Type(), modulePath+"/log", "StdLogger") {
				continue
			}
			if _, isB := cc.Value.(*ssa.Builtin); isB {
				continue
			}
			if n := calleeName(cc); n == "(net/http.Header).Get" || strings.HasPrefix(n, "strings.") {
				continue
			}
			// a statistics counter: an atomic update of a package variable that no function on the request path reads
			if isStatisticsCounter(p, cc) {
				continue
			}
			if cal := cc.StaticCallee(); cal != nil {
				isPred := false
				for _, pr := range preds {
					if cal == pr {
						isPred = true
					}
				}
				if isPred {
					continue
				}
			}
			info.Calls = append(info.Calls, i)
		}
		out = append(out, info)
	}
	return out, true
}

// callWritesHeaders: the call (or what it reaches in the module) writes a response header.
func callWritesHeaders(p *Program, i ssa.Instruction) bool {
	if _, _, _, ok := headerWrite(i); ok {
		return true
	}
	cc := callCommon(i)
	if cc == nil {
		return false
	}
	cal := cc.StaticCallee()
	if cal == nil || !p.inModule(cal) {
		return true // unknown effect
	}
	w := false
	for f := range p.callGraph().reach([]*ssa.Function{cal}, nil) {
		eachInstr(f, func(j ssa.Instruction) {
			if _, _, _, ok := headerWrite(j); ok {
				w = true
			}
		})
	}
	return w
}

func ruleC08d(c *Ctx) {
	p := c.P
	entries, _ := corsFuncs(p)
	preds := originPredicates(p)
	for _, fn := range entries {
		name := p.fname(fn)
		infos, ok := corsPaths(p, fn, preds)
		if !ok {
			c.undecided(name, "paths through the CORS filter", p.pos(fn.Pos()), "too many paths to enumerate")
			continue
		}
		for _, br := range []corsBranch{brNoOrigin, brRefused} {
			label := map[corsBranch]string{brNoOrigin: "no Origin header", brRefused: "refused origin"}[br]
			n, badCount, badEffect, badArgs := 0, "", "", ""
			for _, in := range infos {
				if in.Branch != br {
					continue
				}
				n++
				if len(in.PF) != 1 {
					badCount = "ProcessFilter runs " + itoa(len(in.PF)) + " times on the path ending at " + p.ipos(in.Ret)
				}
				for _, pf := range in.PF {
					for _, a := range callCommon(pf).Args {
						// the filter's own parameter, possibly held in the cell a closure captures it through
						isOwn := false
						if src := p.sources(a, provOpt{ThroughCells: true}); len(src) == 1 {
							if prm, ok := src[0].(*ssa.Parameter); ok && prm.Parent() == fn {
								isOwn = true
							}
						}
						if !isOwn {
							badArgs = "ProcessFilter at " + p.ipos(pf) + " does not receive the filter's own request/response/chain"
						}
					}
				}
				for _, cl := range in.Calls {
					if callWritesHeaders(p, cl) {
						badEffect = calleeOrValue(callCommon(cl)) + " at " + p.ipos(cl) + " runs on this branch"
					}
				}
			}
			if n == 0 {
				c.bad(name, "pass-through branch ("+label+") missing", p.pos(fn.Pos()), "no path through the filter is taken under the "+label+" condition: the filter does not behave as if absent there")
				continue
			}
			c.check(badCount == "", name, "pass-through ("+label+"): chain continued exactly once", p.pos(fn.Pos()), "exactly one ProcessFilter on each of the "+itoa(n)+" path(s)", badCount)
			c.check(badArgs == "", name, "pass-through ("+label+"): continues with the filter's own request, response and chain", p.pos(fn.Pos()), "ProcessFilter(req, resp) on the chain parameter", badArgs)
			c.check(badEffect == "", name, "pass-through ("+label+"): no other effect", p.pos(fn.Pos()), "only logging besides ProcessFilter", "a request without Origin or from a refused origin must be processed as if the filter were absent, but "+badEffect)
		}
	}
}

// ---------------------------------------------------------------------------
// C09

func ruleC09a(c *Ctx) {
	p := c.P
	entries, _ := corsFuncs(p)
	preds := originPredicates(p)
	cg := p.callGraph()
	for _, fn := range entries {
		name := p.fname(fn)
		infos, ok := corsPaths(p, fn, preds)
		if !ok {
			c.undecided(name, "paths through the CORS filter", p.pos(fn.Pos()), "too many paths to enumerate")
			continue
		}
		nPre, nAct := 0, 0
		badPre, badAct, badOrder, unknown := "", "", "", ""
		for _, in := range infos {
			switch in.Branch {
			case brPreflight:
				nPre++
				if len(in.PF) != 0 {
					badPre = "ProcessFilter at " + p.ipos(in.PF[0]) + " runs on a preflight path"
				}
				for _, cl := range in.Calls {
					if cal := callCommon(cl).StaticCallee(); cal != nil && p.inModule(cal) {
						for f := range cg.reach([]*ssa.Function{cal}, nil) {
							eachInstr(f, func(j ssa.Instruction) {
								if isProcessFilterCall(j) {
									badPre = p.fname(f) + " (called on the preflight path) continues the chain"
								}
							})
						}
					}
				}
				// one function decides whether the preflight is granted and writes the grant after its checks (C09.b); a
				// second granting call on the preflight path runs whether or not that function refused
				granting := map[*ssa.Function]bool{}
				for _, cl := range in.Calls {
					if cal := callCommon(cl).StaticCallee(); cal != nil && recvTypeName(cal) == corsType && maxGrantsAny(p, cal) > 0 {
						granting[cal] = true
					}
				}
				direct := ""
				for _, i := range in.Path.instrs() {
					if k, kc, _, ok := headerWrite(i); ok && kc && strings.HasPrefix(k, "Access-Control-") && i.Parent() == fn {
						direct = p.ipos(i)
					}
				}
				if direct != "" && len(granting) >= 1 {
					badPre = "on the preflight path the filter itself writes an Access-Control response header at " + direct + " next to the call that decides the preflight: that header is sent also when the preflight was refused"
				}
				if len(granting) > 1 {
					var names []string
					for g := range granting {
						names = append(names, g.Name())
					}
					sort.Strings(names)
					badPre = "on the preflight path the filter calls " + strings.Join(names, " and ") + ", which both write Access-Control response headers: what the second one grants is sent also when the first one refused the preflight"
				}
			case brActual:
				nAct++
				if len(in.PF) != 1 {
					badAct = "ProcessFilter runs " + itoa(len(in.PF)) + " times on the path ending at " + p.ipos(in.Ret)
					continue
				}
				// the helper that adds Allow-Origin runs before the chain continues
				before := false
				for _, cl := range in.Calls {
					if cal := callCommon(cl).StaticCallee(); cal != nil && recvTypeName(cal) == corsType {
						if maxGrants(p, cal, "Access-Control-Allow-Origin", 0, map[*ssa.Function]int{}) > 0 && instrBeforeOnPath(in.Path, cl, in.PF[0]) {
							before = true
						}
					}
				}
				if !before {
					badOrder = "on the path ending at " + p.ipos(in.Ret) + " the chain continues before the CORS headers are added (they are lost once the handler writes)"
				}
			case brUnknown:
				unknown = p.ipos(in.Ret)
			}
		}
		if unknown != "" {
			c.undecided(name, "unclassified path through the CORS filter", unknown, "cannot tell from the conditions along the path whether it is the no-origin, refused, preflight or actual-request case")
		}
		if nPre == 0 {
			c.bad(name, "preflight branch", p.pos(fn.Pos()), "no path is taken under OPTIONS + Access-Control-Request-Method")
		} else {
			c.check(badPre == "", name, "preflight is answered by the filter alone", p.pos(fn.Pos()), "no ProcessFilter on any of the "+itoa(nPre)+" preflight path(s), nor in the helpers called there", badPre+": later filters or a route function run for a preflight request")
		}
		if nAct == 0 {
			c.bad(name, "actual-request branch", p.pos(fn.Pos()), "no path is taken for a non-preflight request from an allowed origin")
		} else {
			c.check(badAct == "", name, "actual request from an allowed origin continues the chain exactly once", p.pos(fn.Pos()), "exactly one ProcessFilter on each of the "+itoa(nAct)+" path(s)", badAct)
			c.check(badOrder == "", name, "actual-request headers are added before the chain continues", p.pos(fn.Pos()), "the helper that adds Allow-Origin precedes ProcessFilter on every such path", badOrder)
		}
	}
}

func instrBeforeOnPath(pa cfgPath, a, b ssa.Instruction) bool {
	seenA := false
	for _, i := range pa.instrs() {
		if i == a {
			seenA = true
		}
		if i == b {
			return seenA
		}
	}
	return false
}

// preflightFuncs: methods of the CORS type called from a preflight-classified block of the entry.
func preflightFuncs(p *Program) []*ssa.Function {
	entries, _ := corsFuncs(p)
	preds := originPredicates(p)
	var out []*ssa.Function
	for _, fn := range entries {
		infos, ok := corsPaths(p, fn, preds)
		if !ok {
			continue
		}
		for _, in := range infos {
			if in.Branch != brPreflight {
				continue
			}
			for _, cl := range in.Calls {
				if cal := callCommon(cl).StaticCallee(); cal != nil && recvTypeName(cal) == corsType {
					out = append(out, cal)
				}
			}
		}
	}
	return dedupFuncs(out)
}

func ruleC09b(c *Ctx) {
	p := c.P
	for _, fn := range preflightFuncs(p) {
		name := p.fname(fn)
		facts := factsAt(fn)
		rq := requestParam(fn)
		// grant sites: direct header writes and calls of helpers that grant
		var grants []ssa.Instruction
		eachInstr(fn, func(i ssa.Instruction) {
			if k, kc, _, ok := headerWrite(i); ok && (!kc || strings.HasPrefix(k, "Access-Control-")) {
				grants = append(grants, i)
				return
			}
			if cc := callCommon(i); cc != nil {
				if cal := cc.StaticCallee(); cal != nil && recvTypeName(cal) == corsType && maxGrantsAny(p, cal) > 0 {
					grants = append(grants, i)
				}
			}
		})
		if len(grants) == 0 {
			c.bad(name, "preflight grants", p.pos(fn.Pos()), "the preflight function grants nothing")
			continue
		}
		// method check: call(bool) with an argument Header.Get(Access-Control-Request-Method) of this request
		var methodCheck *ssa.Call
		var methodList ssa.Value
		var headerCheck *ssa.Call
		eachInstr(fn, func(i ssa.Instruction) {
			call, ok := i.(*ssa.Call)
			if !ok || call.Call.StaticCallee() == nil || !isBoolResult(call) {
				return
			}
			for _, a := range call.Call.Args {
				if req, ok := requestHeaderGet(p, a, "Access-Control-Request-Method"); ok && p.sameValue(req, rq) {
					methodCheck = call
					for _, a2 := range call.Call.Args {
						if _, isSlice := a2.Type().Underlying().(*types.Slice); isSlice {
							methodList = a2
						}
					}
				}
				if derivesFromSplitOfHeader(p, a, "Access-Control-Request-Headers", rq) {
					headerCheck = call
				}
			}
		})
		// every requested header is looked at: the loop that checks them is left early only to refuse. A `break` for
		// an empty element (or any other reason that is not a failed check) leaves the names behind it unchecked.
		if headerCheck != nil {
			if h, loop := innermostLoop(headerCheck.Block()); h != nil {
				early := ""
				for b := range loop {
					if b == h {
						continue // exhaustion
					}
					for _, sc := range b.Succs {
						if loop[sc] {
							continue
						}
						r := reachableBlocks([]*ssa.BasicBlock{sc}, nil)
						for _, g := range grants {
							if r[g.Block()] || sc == g.Block() {
								early = p.ipos(b.Instrs[len(b.Instrs)-1])
							}
						}
					}
				}
				c.check(early == "", name, "the header loop is left early only to refuse", p.ipos(headerCheck), "every way out of the loop other than its exhaustion cannot reach a grant",
					"the loop over the requested headers is left at "+early+" before all names were checked, and a grant is still reachable from there: the names behind that point are granted unchecked")
			}
		}
		// the header loop may live in a helper given the whole header value
		var headerHelper *ssa.Call
		var acrhVal ssa.Value
		if headerCheck == nil {
			eachInstr(fn, func(i ssa.Instruction) {
				call, ok := i.(*ssa.Call)
				if !ok || call.Call.StaticCallee() == nil || !p.inModule(call.Call.StaticCallee()) || !isBoolResult(call) {
					return
				}
				h := call.Call.StaticCallee()
				for k, a := range call.Call.Args {
					if req, ok := requestHeaderGet(p, a, "Access-Control-Request-Headers"); ok && p.sameValue(req, rq) && k < len(h.Params) {
						if universalSplitScan(p, h, h.Params[k]) != nil {
							headerHelper, acrhVal = call, strip(a)
						}
					}
				}
			})
		}
		if methodCheck == nil {
			c.bad(name, "requested method is checked", p.pos(fn.Pos()), "no boolean check takes this request's Access-Control-Request-Method")
		}
		if headerCheck == nil && headerHelper == nil {
			c.bad(name, "requested headers are checked", p.pos(fn.Pos()), "no boolean check takes the elements of this request's Access-Control-Request-Headers (directly in a loop, or through a helper that checks every element)")
		}
		for _, g := range grants {
			construct := "grant " + grantName(g)
			if methodCheck != nil {
				c.check(facts[g.Block()][condFact{methodCheck, true}], name, construct+" after the method check", p.ipos(g),
					"dominated by the true edge of "+methodCheck.Call.StaticCallee().Name()+"(ACRM, methods)", "a CORS grant is reachable although the requested method was not accepted")
			}
			if headerCheck != nil {
				ok, why := behindHeaderLoop(p, fn, headerCheck, g)
				c.check(ok, name, construct+" after every requested header was checked", p.ipos(g), "only reachable through the exhaustion of the header loop (or when no header was requested)", why)
			}
			if headerHelper != nil {
				paths, okp := enumPaths(fn, g.Block(), 2000)
				okAll := okp
				why := "too many paths"
				for _, pa := range paths {
					if pa.Facts[condFact{headerHelper, true}] || emptyStringFact(pa.Facts, acrhVal) {
						continue
					}
					okAll = false
					why = "a path reaches the grant without " + headerHelper.Call.StaticCallee().Name() + "(...) having answered true and without the header being empty"
				}
				c.check(okAll, name, construct+" after every requested header was checked", p.ipos(g), "every path carries "+headerHelper.Call.StaticCallee().Name()+"(headers) == true, or the header is empty", why)
			}
		}
		// the method predicate answers true only for whole-string equality with an element of the list it is given
		if methodCheck != nil {
			h := methodCheck.Call.StaticCallee()
			var mp, lp *ssa.Parameter
			for k, a := range methodCheck.Call.Args {
				if k >= len(h.Params) {
					continue
				}
				if _, ok := requestHeaderGet(p, a, "Access-Control-Request-Method"); ok {
					mp = h.Params[k]
				}
				if _, isSlice := a.Type().Underlying().(*types.Slice); isSlice {
					lp = h.Params[k]
				}
			}
			okPred := false
			if mp != nil && lp != nil {
				okPred = positiveUnderEquality(p, h, func(x, y ssa.Value) bool {
					if strip(x) != ssa.Value(mp) {
						return false
					}
					u, ok := strip(y).(*ssa.UnOp)
					if !ok {
						return false
					}
					ia, ok := u.X.(*ssa.IndexAddr)
					return ok && strip(ia.X) == ssa.Value(lp)
				}) != nil
			}
			c.check(okPred, p.fname(h), "the requested method is accepted only when it equals an allowed method", p.pos(h.Pos()), "true only under method == <element of the list>, false otherwise", "the method check can answer true without the requested method being equal to an element of the allowed list")
		}
		// the list tested is the list granted
		if methodCheck != nil && methodList != nil {
			same := false
			eachInstr(fn, func(i ssa.Instruction) {
				k, kc, val, ok := headerWrite(i)
				if !ok || !kc || k != "Access-Control-Allow-Methods" {
					return
				}
				if call, ok := strip(val).(*ssa.Call); ok && calleeName(&call.Call) == "strings.Join" {
					a := strip(call.Call.Args[0])
					b := strip(methodList)
					if a == b {
						same = true
					}
					ba, fa, oka := fieldLoad(a)
					bb, fb, okb := fieldLoad(b)
					if oka && okb && fa == fb && strip(ba) == strip(bb) {
						same = true
					}
				}
				// the joined list behind a getter of the configuration: c.AllowedMethodsValue() = Join(c.AllowedMethods)
				if call, ok := strip(val).(*ssa.Call); ok && call.Call.StaticCallee() != nil && p.inModule(call.Call.StaticCallee()) && len(call.Call.Args) >= 1 {
					h := call.Call.StaticCallee()
					_, fb, okb := fieldLoad(strip(methodList))
					okGetter := okb && h.Blocks != nil && len(h.Params) >= 1
					nret := 0
					for _, r := range returnsOf(h) {
						nret++
						jc, ok := strip(r.Results[0]).(*ssa.Call)
						if !ok || calleeName(&jc.Call) != "strings.Join" {
							okGetter = false
							continue
						}
						_, fa, oka := fieldLoad(strip(jc.Call.Args[0]))
						if !oka || fa != fb {
							okGetter = false
						}
					}
					// called on the same configuration object (the pointer, or the value it points to)
					recvArg := strip(call.Call.Args[0])
					if u, ok := recvArg.(*ssa.UnOp); ok && u.Op == token.MUL {
						recvArg = strip(u.X)
					}
					bb, _, _ := fieldLoad(strip(methodList))
					if okGetter && nret > 0 && bb != nil && recvArg == strip(bb) {
						same = true
					}
				}
			})
			c.check(same, name, "the method list tested is the list granted", p.ipos(methodCheck), "Allow-Methods = Join(<the list given to the method check>)", "Access-Control-Allow-Methods is built from a different list than the one the requested method was checked against")
		}
		// failed checks reach no grant
		for _, chk := range []*ssa.Call{methodCheck, headerCheck, headerHelper} {
			if chk == nil {
				continue
			}
			bad := false
			for _, b := range fn.Blocks {
				if facts[b][condFact{chk, false}] {
					for _, g := range grants {
						if g.Block() == b || reachableAfter(b, nil)[g.Block()] {
							bad = true
						}
					}
				}
			}
			c.check(!bad, name, "a failed "+chk.Call.StaticCallee().Name()+" reaches no grant", p.ipos(chk), "the false edge leads to return only", "a grant is reachable after the check failed")
		}
	}
}

func maxGrantsAny(p *Program, fn *ssa.Function) int {
	n := 0
	for f := range p.callGraph().reach([]*ssa.Function{fn}, func(e Edge) bool { return e.Kind != EdgeStatic }) {
		eachInstr(f, func(i ssa.Instruction) {
			if k, kc, _, ok := headerWrite(i); ok && (!kc || strings.HasPrefix(k, "Access-Control-")) {
				n++
			}
		})
	}
	return n
}

func grantName(i ssa.Instruction) string {
	if k, kc, _, ok := headerWrite(i); ok {
		return keyOr(k, kc)
	}
	if cc := callCommon(i); cc != nil && cc.StaticCallee() != nil {
		return "via " + cc.StaticCallee().Name()
	}
	return "?"
}

func isBoolResult(call *ssa.Call) bool {
	b, ok := call.Type().Underlying().(*types.Basic)
	return ok && b.Kind() == types.Bool
}

// derivesFromSplitOfHeader: v is (a trim of) an element of strings.Split(req...Header.Get(name), sep).
// derivesFromSplitOf: v is (a trim of) an element of strings.Split(src, sep).
func derivesFromSplitOf(v ssa.Value, src ssa.Value) bool {
	v = strip(v)
	for k := 0; k < 4; k++ {
		call, ok := v.(*ssa.Call)
		if !ok {
			break
		}
		n := calleeName(&call.Call)
		if strings.HasPrefix(n, "strings.Trim") || n == "strings.ToLower" {
			v = strip(call.Call.Args[0])
			continue
		}
		break
	}
	u, ok := v.(*ssa.UnOp)
	if !ok || u.Op != token.MUL {
		return false
	}
	ia, ok := u.X.(*ssa.IndexAddr)
	if !ok {
		return false
	}
	call, ok := strip(ia.X).(*ssa.Call)
	if !ok || calleeName(&call.Call) != "strings.Split" {
		return false
	}
	return strip(call.Call.Args[0]) == strip(src)
}

// universalSplitScan: h answers true only when every element of strings.Split(<param>, sep) passed a
// boolean check: returns that check (the call inside the loop), or nil.
func universalSplitScan(p *Program, h *ssa.Function, param *ssa.Parameter) *ssa.Call {
	if h.Blocks == nil {
		return nil
	}
	cyc := blocksOnCycles(h)
	var check *ssa.Call
	eachInstr(h, func(i ssa.Instruction) {
		call, ok := i.(*ssa.Call)
		if !ok || call.Call.StaticCallee() == nil || !isBoolResult(call) || !cyc[i.Block()] {
			return
		}
		for _, a := range call.Call.Args {
			if derivesFromSplitOf(a, param) {
				check = call
			}
		}
	})
	if check == nil {
		return nil
	}
	iff, ok := check.Block().Instrs[len(check.Block().Instrs)-1].(*ssa.If)
	if !ok || condRoot(iff.Cond) != ssa.Value(check) {
		return nil
	}
	pol := true
	for cnd := iff.Cond; ; {
		u, ok := cnd.(*ssa.UnOp)
		if !ok || u.Op != token.NOT {
			break
		}
		cnd, pol = u.X, !pol
	}
	failSucc, passSucc := check.Block().Succs[1], check.Block().Succs[0]
	if !pol {
		failSucc, passSucc = passSucc, failSucc
	}
	if pos, _ := canReachPositive(failSucc, check.Block()); pos {
		return nil
	}
	var header *ssa.BasicBlock
	for b := check.Block().Idom(); b != nil; b = b.Idom() {
		if cyc[b] && reachableAfter(check.Block(), nil)[b] {
			if _, ok := b.Instrs[len(b.Instrs)-1].(*ssa.If); ok {
				header = b
				break
			}
		}
	}
	if header == nil {
		return nil
	}
	for b := range reachableBlocks([]*ssa.BasicBlock{passSucc}, map[*ssa.BasicBlock]bool{header: true}) {
		if r, ok := b.Instrs[len(b.Instrs)-1].(*ssa.Return); ok {
			if v, isC := constBool(r.Results[0]); !isC || v {
				return nil
			}
		}
	}
	return check
}

func derivesFromSplitOfHeader(p *Program, v ssa.Value, name string, rq ssa.Value) bool {
	v = strip(v)
	for k := 0; k < 4; k++ {
		call, ok := v.(*ssa.Call)
		if !ok {
			break
		}
		n := calleeName(&call.Call)
		if strings.HasPrefix(n, "strings.Trim") || n == "strings.ToLower" {
			v = strip(call.Call.Args[0])
			continue
		}
		break
	}
	u, ok := v.(*ssa.UnOp)
	if !ok || u.Op != token.MUL {
		return false
	}
	ia, ok := u.X.(*ssa.IndexAddr)
	if !ok {
		return false
	}
	call, ok := strip(ia.X).(*ssa.Call)
	if !ok || calleeName(&call.Call) != "strings.Split" {
		return false
	}
	req, ok := requestHeaderGet(p, call.Call.Args[0], name)
	return ok && p.sameValue(req, rq)
}

// behindHeaderLoop: grant g can only be reached through the exhaustion exit of the loop that
// contains the header check (or without entering the loop at all).
// singleElementChecked: the path knows that the header holds no separator (so it is its own single element) and
// passes the same validity predicate, answered true, on the whole header (or a trim of it).
func singleElementChecked(p *Program, pa cfgPath, hdr ssa.Value, check *ssa.Call) bool {
	noSep := false
	for f := range pa.Facts {
		switch x := f.Cond.(type) {
		case *ssa.Call:
			if n := calleeName(&x.Call); (n == "strings.Contains" || n == "strings.ContainsRune" || n == "strings.ContainsAny") && !f.Pol && strip(x.Call.Args[0]) == hdr {
				if isCommaConst(x.Call.Args[1]) {
					noSep = true
				}
			}
		case *ssa.BinOp:
			call, ok := strip(x.X).(*ssa.Call)
			if !ok {
				continue
			}
			n := calleeName(&call.Call)
			if (n != "strings.Index" && n != "strings.IndexByte" && n != "strings.IndexRune" && n != "strings.IndexAny") || strip(call.Call.Args[0]) != hdr || !isCommaConst(call.Call.Args[1]) {
				continue
			}
			k, ok := constInt(x.Y)
			if !ok {
				continue
			}
			op := x.Op
			if !f.Pol {
				op = complementOp[op]
			}
			if (op == token.LSS && k == 0) || (op == token.EQL && k == -1) || (op == token.LEQ && k == -1) {
				noSep = true
			}
		}
	}
	if !noSep {
		return false
	}
	for f := range pa.Facts {
		call, ok := f.Cond.(*ssa.Call)
		if !ok || !f.Pol || call == check || call.Call.StaticCallee() == nil || call.Call.StaticCallee() != check.Call.StaticCallee() {
			continue
		}
		for _, a := range call.Call.Args {
			for _, src := range p.sources(a, provDefault) {
				if strip(src) == hdr {
					return true
				}
				if tc, ok := strip(src).(*ssa.Call); ok && strings.HasPrefix(calleeName(&tc.Call), "strings.Trim") && strip(tc.Call.Args[0]) == hdr {
					return true
				}
			}
		}
	}
	return false
}

func isCommaConst(v ssa.Value) bool {
	if s, ok := constStr(v); ok {
		return s == ","
	}
	if n, ok := constInt(v); ok {
		return n == ','
	}
	return false
}

func behindHeaderLoop(p *Program, fn *ssa.Function, check *ssa.Call, g ssa.Instruction) (bool, string) {
	cyc := blocksOnCycles(fn)
	body := check.Block()
	if !cyc[body] {
		return false, "the header check is not inside a loop over the requested headers: only one element is checked"
	}
	// loop header: the dominator of body on the same cycle that ends in an If with an exit edge
	var header, done *ssa.BasicBlock
	for b := body; b != nil; b = b.Idom() {
		if !cyc[b] {
			break
		}
		if _, ok := b.Instrs[len(b.Instrs)-1].(*ssa.If); ok {
			for _, s := range b.Succs {
				if !cyc[s] || !reachableBlocks([]*ssa.BasicBlock{s}, nil)[b] {
					header, done = b, s
				}
			}
		}
	}
	if header == nil {
		return false, "cannot find the loop's exhaustion exit"
	}
	if cyc[g.Block()] && reachableBlocks([]*ssa.BasicBlock{g.Block()}, nil)[header] && g.Block() != done {
		return false, "the grant is inside the header loop: it happens before all requested headers were checked"
	}
	// from the loop (entered), without passing `done`, the grant must be unreachable
	avoid := map[*ssa.BasicBlock]bool{done: true}
	r := reachableBlocks([]*ssa.BasicBlock{header}, avoid)
	if r[g.Block()] {
		return false, "the grant is reachable from inside the header loop without the loop running to exhaustion"
	}
	// and the grant must not precede the loop
	if reachableAfter(g.Block(), nil)[header] {
		return false, "the grant is executed before the requested headers are checked"
	}
	// a path that bypasses the loop is only taken when no header was requested
	var hdr ssa.Value
	eachInstr(fn, func(i ssa.Instruction) {
		if call, ok := i.(*ssa.Call); ok && calleeName(&call.Call) == "strings.Split" {
			if _, ok := requestHeaderGet(p, call.Call.Args[0], "Access-Control-Request-Headers"); ok {
				hdr = strip(call.Call.Args[0])
			}
		}
	})
	if hdr != nil {
		paths, ok := enumPaths(fn, g.Block(), 3000)
		if !ok {
			return false, "too many paths to the grant"
		}
		for _, pa := range paths {
			if pa.has(done) && pa.has(header) {
				continue
			}
			if !emptyStringFact(pa.Facts, hdr) && !singleElementChecked(p, pa, hdr, check) {
				return false, "a path reaches the grant without running the header loop although the request may carry Access-Control-Request-Headers (the test that skips the loop is not 'the header is empty')"
			}
		}
	}
	return true, ""
}

func ruleC09c(c *Ctx) {
	p := c.P
	// the header-validity predicate: callee of the header check in the preflight function(s)
	var preds []*ssa.Function
	for _, fn := range preflightFuncs(p) {
		rq := requestParam(fn)
		// helper form: H(headerValue) scanning Split(param)
		eachInstr(fn, func(i ssa.Instruction) {
			call, ok := i.(*ssa.Call)
			if !ok || call.Call.StaticCallee() == nil || !p.inModule(call.Call.StaticCallee()) || !isBoolResult(call) {
				return
			}
			h := call.Call.StaticCallee()
			for k, a := range call.Call.Args {
				if req, ok := requestHeaderGet(p, a, "Access-Control-Request-Headers"); ok && p.sameValue(req, rq) && k < len(h.Params) {
					if chk := universalSplitScan(p, h, h.Params[k]); chk != nil {
						preds = append(preds, chk.Call.StaticCallee())
						trimmed := false
						for _, ca := range chk.Call.Args {
							if tc, ok := strip(ca).(*ssa.Call); ok && strings.HasPrefix(calleeName(&tc.Call), "strings.Trim") {
								trimmed = true
							}
						}
						c.check(trimmed, p.fname(h), "requested header name is trimmed before it is checked", p.ipos(chk), "strings.Trim* of the split element", "optional whitespace after ',' makes an allowed header look unknown (or the trim was dropped)")
					}
				}
			}
		})
		eachInstr(fn, func(i ssa.Instruction) {
			call, ok := i.(*ssa.Call)
			if !ok || call.Call.StaticCallee() == nil || !isBoolResult(call) {
				return
			}
			for _, a := range call.Call.Args {
				if derivesFromSplitOfHeader(p, a, "Access-Control-Request-Headers", rq) {
					preds = append(preds, call.Call.StaticCallee())
					// trimmed at the call site
					trimmed := false
					if tc, ok := strip(a).(*ssa.Call); ok && strings.HasPrefix(calleeName(&tc.Call), "strings.Trim") {
						trimmed = true
					}
					c.check(trimmed, p.fname(fn), "requested header name is trimmed before it is checked", p.ipos(i), "strings.Trim* of the split element", "optional whitespace after ',' makes an allowed header look unknown (or the trim was dropped)")
				}
			}
		})
	}
	preds = dedupFuncs(preds)
	if len(preds) == 0 {
		c.undecided("-", "header-name predicate", "-", "not found")
		return
	}
	for _, fn := range preds {
		name := p.fname(fn)
		hdr := fn.Params[len(fn.Params)-1]
		isEntry := func(v ssa.Value) bool {
			v = strip(v)
			if call, ok := v.(*ssa.Call); ok {
				if n := calleeName(&call.Call); n == "strings.ToLower" || n == "strings.ToUpper" {
					v = strip(call.Call.Args[0])
				}
			}
			return isElementOfField(v, "AllowedHeaders")
		}
		tainted, bad := wholeStringTaint(p, fn, hdr, func(o ssa.Value) bool { return isEntry(o) }, nil)
		if len(bad) == 0 {
			c.ok(name, "header name used through whole-string operations only", p.pos(fn.Pos()), "case mapping and equality with whole AllowedHeaders entries")
		}
		for _, b := range bad {
			c.bad(name, "header name used by a partial-match capable operation", p.ipos(b.Instr), b.What)
		}
		// the equality is case-insensitive: both sides lowered, or EqualFold
		facts := factsAt(fn)
		lowered := func(v ssa.Value) bool {
			call, ok := strip(v).(*ssa.Call)
			return ok && (calleeName(&call.Call) == "strings.ToLower" || calleeName(&call.Call) == "strings.ToUpper")
		}
		for _, vr := range virtualReturns(fn) {
			r := vr.Ret
			b, ok := constBool(vr.Results[0])
			if !ok {
				c.undecided(name, "computed answer", p.ipos(r), "cannot justify "+vr.Results[0].String())
				continue
			}
			if !b {
				continue
			}
			just := ""
			check := func(f condFact) {
				if !f.Pol {
					return
				}
				switch x := f.Cond.(type) {
				case *ssa.BinOp:
					if x.Op != token.EQL {
						return
					}
					if s, ok := constStr(x.Y); ok && s == "*" && isElementOfField(strip(x.X), "AllowedHeaders") {
						just = "the '*' entry"
					}
					if s, ok := constStr(x.X); ok && s == "*" && isElementOfField(strip(x.Y), "AllowedHeaders") {
						just = "the '*' entry"
					}
					if (tainted[strip(x.X)] && isEntry(x.Y)) || (tainted[strip(x.Y)] && isEntry(x.X)) {
						if lowered(x.X) && lowered(x.Y) {
							just = "case-insensitive whole-string equality"
						} else if just == "" {
							just = "!case-sensitive"
						}
					}
				case *ssa.Call:
					if calleeName(&x.Call) == "strings.EqualFold" {
						a, b := x.Call.Args[0], x.Call.Args[1]
						if (tainted[strip(a)] && isEntry(b)) || (tainted[strip(b)] && isEntry(a)) {
							just = "EqualFold with a whole entry"
						}
					}
				}
			}
			for f := range vr.Facts {
				check(f)
			}
			if just == "" || just[0] == '!' {
				// every incoming edge individually
				all := len(vr.Block.Preds) > 0
				for _, pr := range vr.Block.Preds {
					j0 := just
					just = ""
					if iff, ok := pr.Instrs[len(pr.Instrs)-1].(*ssa.If); ok {
						m := map[condFact]bool{}
						addCondFacts(m, iff.Cond, pr.Succs[0] == vr.Block)
						for f := range m {
							check(f)
						}
					}
					for f := range facts[pr] {
						check(f)
					}
					if just == "" || just[0] == '!' {
						all = false
						if just == "" {
							just = j0
						}
						break
					}
				}
				if !all {
					if just == "!case-sensitive" {
						c.bad(name, "header accepted by a case-sensitive comparison", p.ipos(r), "the property requires header names to be compared ignoring case: both operands must be case-mapped (or EqualFold)")
					} else {
						c.bad(name, "header accepted without a whitelisted reason", p.ipos(r), "'return true' is not justified by whole-string case-insensitive equality or the '*' entry")
					}
					continue
				}
			}
			c.ok(name, "header accepted for a whitelisted reason", p.ipos(r), just)
		}
	}
}

func ruleC09d(c *Ctx) {
	p := c.P
	_, reach := corsFuncs(p)
	n := 0
	for _, fn := range p.SrcFunc {
		if !reach[fn] {
			continue
		}
		eachInstr(fn, func(i ssa.Instruction) {
			st, ok := i.(*ssa.Store)
			if !ok {
				return
			}
			fa, ok := st.Addr.(*ssa.FieldAddr)
			if !ok || ownerOfFieldAddr(fa) != corsType {
				return
			}
			n++
			c.check(p.isFreshObject(fa.X), p.fname(fn), "store to "+corsType+"."+fieldOfAddr(fa).Name()+" goes to a local copy", p.ipos(i),
				"the base is a function-local copy of the configuration at every call site (value receiver)",
				"the filter configuration shared by all requests is modified while serving: what this request computed (e.g. the allowed methods for its URL) becomes the answer for later requests")
		})
	}
	if n == 0 {
		c.triv("-", "no store to the CORS configuration on the request path", "-", "nothing to decide")
	}
}

func ruleC09e(c *Ctx) {
	p := c.P
	_, reach := corsFuncs(p)
	n := 0
	for _, fn := range p.SrcFunc {
		if !reach[fn] {
			continue
		}
		rq := requestParam(fn)
		eachInstr(fn, func(i ssa.Instruction) {
			call, ok := i.(*ssa.Call)
			if !ok || call.Call.StaticCallee() == nil || call.Call.StaticCallee().Name() != "computeAllowedMethods" {
				return
			}
			n++
			// computed only when no methods are configured
			cfacts := factsAt(fn)
			onlyWhenNone := false
			noneFact := func(fs map[condFact]bool) bool {
				for f := range fs {
					bo, ok := f.Cond.(*ssa.BinOp)
					if !ok || !f.Pol {
						continue
					}
					if lc, ok := strip(bo.X).(*ssa.Call); ok && isBuiltinCall(lc, "len") {
						if _, fld, ok := fieldLoad(strip(lc.Call.Args[0])); ok && fld.Name() == "AllowedMethods" {
							if n0, ok := constInt(bo.Y); ok && ((bo.Op == token.EQL && n0 == 0) || (bo.Op == token.LEQ && n0 == 0) || (bo.Op == token.LSS && n0 == 1)) {
								return true
							}
						}
					}
				}
				return false
			}
			if noneFact(cfacts[i.Block()]) {
				onlyWhenNone = true
			} else {
				// the guard may sit at the call site of a helper
				all, nsite := true, 0
				for _, e := range p.callGraph().In[fn] {
					if e.Kind != EdgeStatic {
						continue
					}
					nsite++
					if !noneFact(factsAt(e.Caller)[e.Site.Block()]) {
						all = false
					}
				}
				onlyWhenNone = all && nsite > 0
			}
			c.check(onlyWhenNone, p.fname(fn), "allowed methods are computed only when none are configured", p.ipos(i), "under len(c.AllowedMethods) == 0", "the routable methods replace the configured AllowedMethods (the computation is not guarded by 'no methods configured')")
			// the container: the configured one when present, the default one only otherwise
			edgeCtx := func(v ssa.Value) []struct {
				val ssa.Value
				fs  map[condFact]bool
			} {
				var out []struct {
					val ssa.Value
					fs  map[condFact]bool
				}
				if phi, ok := strip(v).(*ssa.Phi); ok {
					for k, e := range phi.Edges {
						pr := phi.Block().Preds[k]
						fs := map[condFact]bool{}
						for f := range cfacts[pr] {
							fs[f] = true
						}
						if iff, ok := pr.Instrs[len(pr.Instrs)-1].(*ssa.If); ok && pr.Succs[0] != pr.Succs[1] {
							addCondFacts(fs, iff.Cond, pr.Succs[0] == phi.Block())
							deriveFacts(fs)
						}
						out = append(out, struct {
							val ssa.Value
							fs  map[condFact]bool
						}{e, fs})
					}
					return out
				}
				return append(out, struct {
					val ssa.Value
					fs  map[condFact]bool
				}{v, cfacts[i.Block()]})
			}
			containerNil := func(fs map[condFact]bool) (isNil, isNonNil bool) {
				for f := range fs {
					bo, ok := f.Cond.(*ssa.BinOp)
					if !ok || !f.Pol || !isNilConst(bo.Y) {
						continue
					}
					if _, fld, ok := fieldLoad(strip(bo.X)); ok && fld.Name() == "Container" {
						if bo.Op == token.EQL {
							isNil = true
						}
						if bo.Op == token.NEQ {
							isNonNil = true
						}
					}
				}
				return
			}
			okChoice := true
			for _, ec := range edgeCtx(call.Call.Args[0]) {
				isNil, isNonNil := containerNil(ec.fs)
				if isLoadOfGlobal(strip(ec.val), "DefaultContainer") && !isNil {
					okChoice = false
				}
				if _, fld, ok := fieldLoad(strip(ec.val)); ok && fld.Name() == "Container" && !isNonNil {
					okChoice = false
				}
			}
			c.check(okChoice, p.fname(fn), "the default container is used only when none is configured", p.ipos(i), "DefaultContainer under c.Container == nil, c.Container under != nil", "the container whose routes are consulted does not follow the configuration (the nil test is flipped or missing)")
			okReq := len(call.Call.Args) == 2 && rq != nil && p.sameValue(call.Call.Args[1], rq)
			c.check(okReq, p.fname(fn), "allowed methods are computed for this request", p.ipos(i), "argument is the filter's own request", "the methods are computed for another request/URL")
			okC := true
			nsrc := 0
			for _, recv := range p.sources(call.Call.Args[0], provDefault) {
				nsrc++
				_, f, isField := fieldLoad(recv)
				if !((isField && f.Name() == "Container") || isLoadOfGlobal(recv, "DefaultContainer")) {
					okC = false
				}
			}
			okC = okC && nsrc > 0
			c.check(okC, p.fname(fn), "allowed methods are computed on the configured or default container", p.ipos(i), "receiver is c.Container or DefaultContainer", "the methods come from an unrelated container")
		})
	}
	if n == 0 {
		c.note("-", "the CORS filter never computes allowed methods", "-", "only configured methods are used")
	}
}

// emptyStringFact: the facts say that string v is empty (len(v) == 0, len(v) > 0 false, v == "").
func emptyStringFact(fs map[condFact]bool, v ssa.Value) bool {
	for f := range fs {
		bo, ok := f.Cond.(*ssa.BinOp)
		if !ok || !f.Pol {
			continue
		}
		if call, ok := strip(bo.X).(*ssa.Call); ok && isBuiltinCall(call, "len") && strip(call.Call.Args[0]) == strip(v) {
			if n, ok := constInt(bo.Y); ok && ((bo.Op == token.EQL && n == 0) || (bo.Op == token.LEQ && n == 0) || (bo.Op == token.LSS && n == 1)) {
				return true
			}
		}
		if strip(bo.X) == strip(v) && bo.Op == token.EQL {
			if sv, ok := constStr(bo.Y); ok && sv == "" {
				return true
			}
		}
	}
	return false
}

// isStatisticsCounter: cc is sync/atomic.Add*/Store* on a package-level variable of the module that nothing on the
// request path loads (atomically or plainly): the update cannot influence any response.
func isStatisticsCounter(p *Program, cc *ssa.CallCommon) bool {
	n := calleeName(cc)
	if !strings.HasPrefix(n, "sync/atomic.Add") && !strings.HasPrefix(n, "sync/atomic.Store") {
		return false
	}
	if len(cc.Args) == 0 {
		return false
	}
	g, ok := strip(cc.Args[0]).(*ssa.Global)
	if !ok || (g.Pkg != p.Restful && g.Pkg != p.Log) {
		return false
	}
	for _, fn := range p.requestPathFuncs() {
		read := false
		eachInstr(fn, func(i ssa.Instruction) {
			if u, ok := i.(*ssa.UnOp); ok && u.Op == token.MUL && u.X == ssa.Value(g) {
				read = true
			}
			if c2 := callCommon(i); c2 != nil && strings.HasPrefix(calleeName(c2), "sync/atomic.Load") && len(c2.Args) > 0 && strip(c2.Args[0]) == ssa.Value(g) {
				read = true
			}
			if c2 := callCommon(i); c2 != nil && (strings.HasPrefix(calleeName(c2), "sync/atomic.CompareAndSwap") || strings.HasPrefix(calleeName(c2), "sync/atomic.Swap")) && len(c2.Args) > 0 && strip(c2.Args[0]) == ssa.Value(g) {
				read = true
			}
		})
		if read {
			return false
		}
	}
	return true
}
