package main

import (
	"fmt"
	"go/ast"
	"go/types"
	"sort"
	"strings"

	"golang.org/x/tools/go/ssa"
)

// Canonical names (DESIGN §12.5). Several rules name unexported fields, functions and types of the repository
// (Response.statusCode, wantsCompressedResponse, ...). Renaming an unexported identifier preserves behaviour, so a
// rule must not fail because of it. Each such identifier has a role that is found structurally - by its owner, its
// type, its signature, or the exported method that sets or returns it - never by its name. When the object that plays
// a role is not called by the canonical name, the program is rewritten (every identifier that denotes the object is
// replaced; a behaviour-preserving source transformation, re-type-checked through an overlay like the normal forms)
// and the rules run on the rewritten program. On a tree that uses the canonical names nothing is rewritten.

type roleSpec struct {
	Canon string // "Owner.name" for fields and methods, "name" for package-level objects
	Find  func(p *Program) types.Object
}

func (p *Program) pkgScope() *types.Scope { return p.Restful.Pkg.Scope() }

func (p *Program) structNamed(name string) (*types.Named, *types.Struct) {
	tn, ok := p.pkgScope().Lookup(name).(*types.TypeName)
	if !ok {
		return nil, nil
	}
	nt, ok := tn.Type().(*types.Named)
	if !ok {
		return nil, nil
	}
	st, ok := nt.Underlying().(*types.Struct)
	if !ok {
		return nil, nil
	}
	return nt, st
}

// uniqueField: the only unexported field of the named struct that satisfies pred.
func (p *Program) uniqueField(owner string, pred func(f *types.Var) bool) types.Object {
	_, st := p.structNamed(owner)
	if st == nil {
		return nil
	}
	var found *types.Var
	for i := 0; i < st.NumFields(); i++ {
		f := st.Field(i)
		if f.Exported() || f.Embedded() || !pred(f) {
			continue
		}
		if found != nil {
			return nil
		}
		found = f
	}
	if found == nil {
		return nil
	}
	return found
}

func typeIs(t types.Type, s string) bool {
	return types.TypeString(t, func(pk *types.Package) string {
		if pk.Path() == modulePath {
			return ""
		}
		return pk.Path()
	}) == s
}

func fieldOfType(s string) func(f *types.Var) bool {
	return func(f *types.Var) bool { return typeIs(f.Type(), s) }
}

// fieldTouchedBy: the unexported field of the receiver that the named (exported) method stores into (kind "store")
// or whose value it returns (kind "return"), restricted by pred.
func (p *Program) fieldTouchedBy(method string, kind string, pred func(f *types.Var) bool) types.Object {
	fn := p.fn(method)
	if fn == nil || len(fn.Params) == 0 {
		return nil
	}
	recv := fn.Params[0]
	isRecv := func(v ssa.Value) bool {
		v = strip(v)
		if v == ssa.Value(recv) {
			return true
		}
		// spilled value receiver
		if a, ok := v.(*ssa.Alloc); ok {
			for _, r := range referrers(a) {
				if st, ok := r.(*ssa.Store); ok && st.Addr == ssa.Value(a) && st.Val == ssa.Value(recv) {
					return true
				}
			}
		}
		return false
	}
	set := map[*types.Var]bool{}
	eachInstr(fn, func(i ssa.Instruction) {
		switch kind {
		case "store":
			if st, ok := i.(*ssa.Store); ok {
				if fa, ok := st.Addr.(*ssa.FieldAddr); ok && isRecv(fa.X) {
					if f := fieldOfAddr(fa); f != nil && !f.Exported() && pred(f) {
						set[f] = true
					}
				}
			}
		case "return":
			if r, ok := i.(*ssa.Return); ok {
				for _, res := range r.Results {
					if b, f, ok := fieldLoad(strip(res)); ok && isRecv(b) && !f.Exported() && pred(f) {
						set[f] = true
					}
				}
			}
		}
	})
	if len(set) != 1 {
		return nil
	}
	for f := range set {
		return f
	}
	return nil
}

// funcWhere: the only unexported function or method of the root package (receiver type name recv, "" for none,
// "*" for any) whose signature satisfies pred.
func (p *Program) funcWhere(recv string, pred func(fn *ssa.Function, sig *types.Signature) bool) types.Object {
	var found *ssa.Function
	for _, fn := range p.SrcFunc {
		if fn.Parent() != nil || fn.Pkg != p.Restful || fn.Synthetic != "" || fn.Object() == nil || fn.Object().Exported() {
			continue
		}
		rn := recvTypeName(fn)
		switch recv {
		case "*":
		case "":
			if fn.Signature.Recv() != nil {
				continue
			}
		default:
			if rn != recv {
				continue
			}
		}
		if !pred(fn, fn.Signature) {
			continue
		}
		if found != nil {
			return nil
		}
		found = fn
	}
	if found == nil {
		return nil
	}
	return found.Object()
}

func sigIs(sig *types.Signature, params, results []string) bool {
	if sig.Params().Len() != len(params) || sig.Results().Len() != len(results) {
		return false
	}
	for i, s := range params {
		if !typeIs(sig.Params().At(i).Type(), s) {
			return false
		}
	}
	for i, s := range results {
		if !typeIs(sig.Results().At(i).Type(), s) {
			return false
		}
	}
	return true
}

// readsRouteField: fn loads the (exported) field of a Route.
func readsRouteField(fn *ssa.Function, field string) bool {
	found := false
	for _, f := range withClosures(fn) {
		eachInstr(f, func(i ssa.Instruction) {
			if fa, ok := i.(*ssa.FieldAddr); ok && fieldOfAddr(fa).Name() == field && ownerOfFieldAddr(fa) == "Route" {
				found = true
			}
			if fl, ok := i.(*ssa.Field); ok {
				if st, ok := fl.X.Type().Underlying().(*types.Struct); ok && st.Field(fl.Field).Name() == field && isRestfulNamed(fl.X.Type(), "Route") {
					found = true
				}
			}
		})
	}
	return found
}

func callsPackage(fn *ssa.Function, pkgPath string) bool {
	found := false
	for _, f := range withClosures(fn) {
		eachInstr(f, func(i ssa.Instruction) {
			if cc := callCommon(i); cc != nil {
				if cal := cc.StaticCallee(); cal != nil && cal.Pkg != nil && cal.Pkg.Pkg.Path() == pkgPath {
					found = true
				}
			}
		})
	}
	return found
}

// pathExprType: the unexported struct type that holds a compiled path (it has a *regexp.Regexp field).
func (p *Program) pathExprType() *types.Named {
	var found *types.Named
	for _, n := range p.pkgScope().Names() {
		tn, ok := p.pkgScope().Lookup(n).(*types.TypeName)
		if !ok || tn.Exported() {
			continue
		}
		nt, ok := tn.Type().(*types.Named)
		if !ok {
			continue
		}
		st, ok := nt.Underlying().(*types.Struct)
		if !ok {
			continue
		}
		for i := 0; i < st.NumFields(); i++ {
			if typeIs(st.Field(i).Type(), "*regexp.Regexp") {
				if found != nil && found != nt {
					return nil
				}
				found = nt
			}
		}
	}
	return found
}

func (p *Program) isPathExprPtr(f *types.Var) bool {
	nt := p.pathExprType()
	if nt == nil {
		return false
	}
	pt, ok := f.Type().(*types.Pointer)
	return ok && types.Identical(pt.Elem(), nt)
}

var roleSpecs = []roleSpec{
	// types
	{"mime", func(p *Program) types.Object {
		// the unexported struct of a media range and its quality: exactly a string and a float64
		var found types.Object
		for _, n := range p.pkgScope().Names() {
			tn, ok := p.pkgScope().Lookup(n).(*types.TypeName)
			if !ok || tn.Exported() {
				continue
			}
			st, ok := tn.Type().Underlying().(*types.Struct)
			if !ok || st.NumFields() != 2 {
				continue
			}
			a, b := st.Field(0).Type(), st.Field(1).Type()
			if (typeIs(a, "string") && typeIs(b, "float64")) || (typeIs(a, "float64") && typeIs(b, "string")) {
				if found != nil {
					return nil
				}
				found = tn
			}
		}
		return found
	}},
	{"defaultPathProcessor", func(p *Program) types.Object {
		// the unexported type that implements PathProcessor
		it := p.namedType("PathProcessor")
		if it == nil {
			return nil
		}
		iface, ok := it.Underlying().(*types.Interface)
		if !ok {
			return nil
		}
		var found types.Object
		for _, n := range p.pkgScope().Names() {
			tn, ok := p.pkgScope().Lookup(n).(*types.TypeName)
			if !ok || tn.Exported() {
				continue
			}
			if _, isI := tn.Type().Underlying().(*types.Interface); isI {
				continue
			}
			if types.Implements(tn.Type(), iface) || types.Implements(types.NewPointer(tn.Type()), iface) {
				if found != nil {
					return nil
				}
				found = tn
			}
		}
		return found
	}},
	// Container
	{"Container.webServices", func(p *Program) types.Object { return p.uniqueField("Container", fieldOfType("[]*WebService")) }},
	{"Container.containerFilters", func(p *Program) types.Object { return p.uniqueField("Container", fieldOfType("[]FilterFunction")) }},
	{"Container.recoverHandleFunc", func(p *Program) types.Object {
		return p.uniqueField("Container", fieldOfType("RecoverHandleFunction"))
	}},
	{"Container.serviceErrorHandleFunc", func(p *Program) types.Object {
		return p.uniqueField("Container", fieldOfType("ServiceErrorHandleFunction"))
	}},
	{"Container.router", func(p *Program) types.Object { return p.uniqueField("Container", fieldOfType("RouteSelector")) }},
	{"Container.doNotRecover", func(p *Program) types.Object {
		return p.fieldTouchedBy("(*Container).DoNotRecover", "store", fieldOfType("bool"))
	}},
	{"Container.isRegisteredOnRoot", func(p *Program) types.Object {
		return p.fieldTouchedBy("(*Container).Add", "store", fieldOfType("bool"))
	}},
	{"Container.contentEncodingEnabled", func(p *Program) types.Object {
		return p.fieldTouchedBy("(*Container).EnableContentEncoding", "store", fieldOfType("bool"))
	}},
	// WebService
	{"WebService.routes", func(p *Program) types.Object { return p.uniqueField("WebService", fieldOfType("[]Route")) }},
	{"WebService.filters", func(p *Program) types.Object { return p.uniqueField("WebService", fieldOfType("[]FilterFunction")) }},
	{"WebService.rootPath", func(p *Program) types.Object {
		return p.fieldTouchedBy("(*WebService).RootPath", "return", fieldOfType("string"))
	}},
	{"WebService.dynamicRoutes", func(p *Program) types.Object {
		return p.fieldTouchedBy("(*WebService).SetDynamicRoutes", "store", fieldOfType("bool"))
	}},
	{"WebService.pathExpr", func(p *Program) types.Object { return p.uniqueField("WebService", p.isPathExprPtr) }},
	// Route
	{"Route.pathExpr", func(p *Program) types.Object { return p.uniqueField("Route", p.isPathExprPtr) }},
	{"Route.contentEncodingEnabled", func(p *Program) types.Object { return p.uniqueField("Route", fieldOfType("*bool")) }},
	{"Route.hasCustomVerb", func(p *Program) types.Object { return p.uniqueField("Route", fieldOfType("bool")) }},
	{"Route.pathParts", func(p *Program) types.Object {
		// the unexported []string of Route that a method of Route fills from a call on its Path
		_, st := p.structNamed("Route")
		if st == nil {
			return nil
		}
		set := map[*types.Var]bool{}
		for _, fn := range p.SrcFunc {
			if recvTypeName(fn) != "Route" || fn.Parent() != nil {
				continue
			}
			eachInstr(fn, func(i ssa.Instruction) {
				s, ok := i.(*ssa.Store)
				if !ok {
					return
				}
				fa, ok := s.Addr.(*ssa.FieldAddr)
				if !ok {
					return
				}
				f := fieldOfAddr(fa)
				if f == nil || f.Exported() || !typeIs(f.Type(), "[]string") {
					return
				}
				call, ok := strip(s.Val).(*ssa.Call)
				if !ok || len(call.Call.Args) != 1 {
					return
				}
				if _, af, ok := fieldLoad(strip(call.Call.Args[0])); ok && af.Name() == "Path" {
					set[f] = true
				}
			})
		}
		if len(set) != 1 {
			return nil
		}
		for f := range set {
			return f
		}
		return nil
	}},
	// Response
	{"Response.routeProduces", func(p *Program) types.Object { return p.uniqueField("Response", fieldOfType("[]string")) }},
	{"Response.requestAccept", func(p *Program) types.Object {
		return p.fieldTouchedBy("(*Response).SetRequestAccepts", "store", fieldOfType("string"))
	}},
	{"Response.statusCode", func(p *Program) types.Object {
		return p.fieldTouchedBy("(*Response).WriteHeader", "store", fieldOfType("int"))
	}},
	{"Response.contentLength", func(p *Program) types.Object {
		return p.fieldTouchedBy("(*Response).Write", "store", fieldOfType("int"))
	}},
	// Request
	{"Request.pathParameters", func(p *Program) types.Object { return p.uniqueField("Request", fieldOfType("map[string]string")) }},
	{"Request.selectedRoute", func(p *Program) types.Object { return p.uniqueField("Request", fieldOfType("*Route")) }},
	// CompressingResponseWriter
	{"CompressingResponseWriter.writer", func(p *Program) types.Object {
		return p.uniqueField("CompressingResponseWriter", fieldOfType("net/http.ResponseWriter"))
	}},
	{"CompressingResponseWriter.compressor", func(p *Program) types.Object {
		return p.uniqueField("CompressingResponseWriter", fieldOfType("io.WriteCloser"))
	}},
	{"CompressingResponseWriter.encoding", func(p *Program) types.Object {
		return p.uniqueField("CompressingResponseWriter", fieldOfType("string"))
	}},
	// the compiled path type and the media range type
	{"<pathExpr>.tokens", func(p *Program) types.Object {
		nt := p.pathExprType()
		if nt == nil {
			return nil
		}
		return p.uniqueField(nt.Obj().Name(), fieldOfType("[]string"))
	}},
	{"mime.media", func(p *Program) types.Object { return p.uniqueField("mime", fieldOfType("string")) }},
	// functions and methods
	{"wantsCompressedResponse", func(p *Program) types.Object {
		return p.funcWhere("", func(_ *ssa.Function, sig *types.Signature) bool {
			return sigIs(sig, []string{"*net/http.Request", "net/http.ResponseWriter"}, []string{"bool", "string"}) ||
				sigIs(sig, []string{"net/http.ResponseWriter", "*net/http.Request"}, []string{"bool", "string"})
		})
	}},
	{"tokenizePath", func(p *Program) types.Object {
		return p.funcWhere("", func(fn *ssa.Function, sig *types.Signature) bool {
			return sigIs(sig, []string{"string"}, []string{"[]string"}) && callsPackage(fn, "strings")
		})
	}},
	{"Route.matchesContentType", func(p *Program) types.Object {
		return p.funcWhere("Route", func(fn *ssa.Function, sig *types.Signature) bool {
			return sigIs(sig, []string{"string"}, []string{"bool"}) && readsRouteField(fn, "Consumes") && !readsRouteField(fn, "Produces")
		})
	}},
	{"Route.matchesAccept", func(p *Program) types.Object {
		return p.funcWhere("Route", func(fn *ssa.Function, sig *types.Signature) bool {
			return sigIs(sig, []string{"string"}, []string{"bool"}) && readsRouteField(fn, "Produces") && !readsRouteField(fn, "Consumes")
		})
	}},
	{"Container.computeAllowedMethods", func(p *Program) types.Object {
		return p.funcWhere("Container", func(_ *ssa.Function, sig *types.Signature) bool {
			return sigIs(sig, []string{"*Request"}, []string{"[]string"})
		})
	}},
	{"Container.addHandler", func(p *Program) types.Object {
		return p.funcWhere("Container", func(_ *ssa.Function, sig *types.Signature) bool {
			return sigIs(sig, []string{"*WebService", "*net/http.ServeMux"}, []string{"bool"})
		})
	}},
	{"Route.wrapRequestResponse", func(p *Program) types.Object {
		// a method of Route, or (after "method to function") a function that takes the route
		return p.funcWhere("*", func(fn *ssa.Function, sig *types.Signature) bool {
			if sig.Results().Len() != 2 || !typeIs(sig.Results().At(0).Type(), "*Request") || !typeIs(sig.Results().At(1).Type(), "*Response") {
				return false
			}
			for _, prm := range fn.Params {
				if isRouteish(prm.Type()) {
					return true
				}
			}
			return false
		})
	}},
	{"<registry>.accessorAt", func(p *Program) types.Object {
		return p.funcWhere("*", func(fn *ssa.Function, sig *types.Signature) bool {
			return fn.Signature.Recv() != nil && sigIs(sig, []string{"string"}, []string{"EntityReaderWriter", "bool"})
		})
	}},
	{"RouterJSR311.selectRoutes", func(p *Program) types.Object {
		return p.funcWhere("RouterJSR311", func(_ *ssa.Function, sig *types.Signature) bool {
			return sigIs(sig, []string{"*WebService", "string"}, []string{"[]Route"})
		})
	}},
	{"writeXML", func(p *Program) types.Object {
		return p.funcWhere("", func(fn *ssa.Function, sig *types.Signature) bool {
			return sigIs(sig, []string{"*Response", "int", "string", "interface{}"}, []string{"error"}) && callsPackage(fn, "encoding/xml")
		})
	}},
	{"writeJSON", func(p *Program) types.Object {
		return p.funcWhere("", func(fn *ssa.Function, sig *types.Signature) bool {
			return sigIs(sig, []string{"*Response", "int", "string", "interface{}"}, []string{"error"}) && !callsPackage(fn, "encoding/xml")
		})
	}},
}

func canonShort(c string) string {
	if k := strings.LastIndex(c, "."); k >= 0 {
		return c[k+1:]
	}
	return c
}

// canonicalRenames: the objects that play a role under another name than the canonical one, with the new name.
// A rename whose new name is already taken where the object lives is left out (the rule that needs it will say so).
func (p *Program) canonicalRenames() (map[types.Object]string, []string) {
	out := map[types.Object]string{}
	var notes []string
	for _, rs := range roleSpecs {
		obj := rs.Find(p)
		if obj == nil {
			continue
		}
		want := canonShort(rs.Canon)
		if obj.Name() == want {
			continue
		}
		// conflicts
		conflict := false
		switch o := obj.(type) {
		case *types.Var:
			if o.IsField() {
				// the owner struct must not already have a field or method of that name
				for _, n := range p.pkgScope().Names() {
					tn, ok := p.pkgScope().Lookup(n).(*types.TypeName)
					if !ok {
						continue
					}
					st, ok := tn.Type().Underlying().(*types.Struct)
					if !ok {
						continue
					}
					owns := false
					for i := 0; i < st.NumFields(); i++ {
						if st.Field(i) == o {
							owns = true
						}
					}
					if !owns {
						continue
					}
					if f, _, _ := types.LookupFieldOrMethod(tn.Type(), true, p.Restful.Pkg, want); f != nil {
						conflict = true
					}
				}
			}
		case *types.Func:
			sig := o.Type().(*types.Signature)
			if sig.Recv() == nil {
				if p.pkgScope().Lookup(want) != nil {
					conflict = true
				}
			} else if f, _, _ := types.LookupFieldOrMethod(sig.Recv().Type(), true, p.Restful.Pkg, want); f != nil {
				conflict = true
			}
		case *types.TypeName:
			if p.pkgScope().Lookup(want) != nil {
				conflict = true
			}
		}
		if conflict {
			notes = append(notes, fmt.Sprintf("%s is called %s here; the canonical name is taken, not rewritten", rs.Canon, obj.Name()))
			continue
		}
		out[obj] = want
		notes = append(notes, fmt.Sprintf("%s is called %s here: rewritten to the canonical name for the analysis", rs.Canon, obj.Name()))
	}
	sort.Strings(notes)
	return out, notes
}

// canonicalise returns the program with canonical names (p itself when nothing has another name).
func canonicalise(p *Program) (*Program, []string, error) {
	ren, notes := p.canonicalRenames()
	if len(ren) == 0 {
		return p, notes, nil
	}
	pk := p.rootPackage()
	if pk == nil {
		return p, notes, fmt.Errorf("root package not loaded")
	}
	overlay := map[string][]byte{}
	for k, v := range p.Overlay {
		overlay[k] = v
	}
	for _, f := range pk.Syntax {
		name := p.Fset.Position(f.Pos()).Filename
		if strings.HasSuffix(name, "_test.go") {
			continue
		}
		var eds []textEdit
		seen := map[int]bool{}
		ast.Inspect(f, func(n ast.Node) bool {
			id, ok := n.(*ast.Ident)
			if !ok {
				return true
			}
			obj := pk.TypesInfo.Uses[id]
			if obj == nil {
				obj = pk.TypesInfo.Defs[id]
			}
			if obj == nil {
				return true
			}
			if nn, ok := ren[obj]; ok {
				so := p.Fset.Position(id.Pos()).Offset
				if !seen[so] {
					seen[so] = true
					eds = append(eds, textEdit{so, p.Fset.Position(id.End()).Offset, nn})
				}
			}
			return true
		})
		if len(eds) == 0 {
			continue
		}
		src, err := p.fileBytes(name)
		if err != nil {
			return p, notes, err
		}
		nb, err := applyEdits(src, eds)
		if err != nil {
			return p, notes, err
		}
		overlay[name] = nb
	}
	opt := p.Opt
	opt.Overlay = overlay
	np, err := load(p.Repo, opt)
	if err != nil {
		return p, notes, err
	}
	np.Canonical = notes
	return np, notes, nil
}

// canonicaliseAll repeats canonicalise until nothing is left to rename (a renamed type is the owner of fields that
// are looked up by the type's canonical name).
func canonicaliseAll(p *Program) (*Program, error) {
	var all []string
	for pass := 0; pass < 3; pass++ {
		np, notes, err := canonicalise(p)
		if err != nil {
			return p, err
		}
		all = append(all, notes...)
		if np == p {
			break
		}
		p = np
	}
	p.Canonical = all
	return p, nil
}

// pairWrapper: the function that builds the per-request *Request/*Response pair for a selected route, and the
// positions of its route, writer, request and parameter-map parameters (-1 when absent). Found by its role, so
// that it may be a method of Route or a plain function, with its parameters in any order.
type pairWrapperInfo struct {
	Fn                           *ssa.Function
	Route, Writer, Req, PathVars int
}

func (p *Program) pairWrapper() *pairWrapperInfo {
	var spec *roleSpec
	for i := range roleSpecs {
		if roleSpecs[i].Canon == "Route.wrapRequestResponse" {
			spec = &roleSpecs[i]
		}
	}
	if spec == nil {
		return nil
	}
	obj, _ := spec.Find(p).(*types.Func)
	if obj == nil {
		return nil
	}
	fn := p.Prog.FuncValue(obj)
	if fn == nil {
		return nil
	}
	w := &pairWrapperInfo{Fn: fn, Route: -1, Writer: -1, Req: -1, PathVars: -1}
	for k, prm := range fn.Params {
		switch {
		case isRouteish(prm.Type()):
			w.Route = k
		case isHTTPResponseWriter(prm.Type()):
			w.Writer = k
		case isHTTPRequestPtr(prm.Type()):
			w.Req = k
		case typeIs(prm.Type(), "map[string]string"):
			w.PathVars = k
		}
	}
	return w
}
