package main

import (
	"go/token"
	"go/types"
	"sort"
	"strings"

	"golang.org/x/tools/go/ssa"
)

// T-SIBLING (encoding agreement): the text a matcher is compiled from and the text it is run against
// must have gone through the same character-rewriting functions. Cutting functions (Trim*, slicing,
// splitting) do not rewrite characters and are ignored; everything else that maps a string to a
// string and is not part of the module is a rewriting function.

var cuttingFuncs = map[string]bool{
	"strings.Trim": true, "strings.TrimSpace": true, "strings.TrimLeft": true, "strings.TrimRight": true,
	"strings.TrimPrefix": true, "strings.TrimSuffix": true, "strings.TrimFunc": true, "strings.Clone": true,
	"regexp.QuoteMeta": true, // quoting for the regexp syntax is undone by the regexp compiler
}

type xformWalk struct {
	p      *Program
	seen   map[ssa.Value]bool
	found  map[string]bool
	stop   func(v ssa.Value) bool
	all    bool // record cutting functions as well
	local  bool // do not leave the function through its parameters
	fields bool // follow string fields of module structs to the values stored into them
}

func (w *xformWalk) walk(v ssa.Value, depth int) {
	if v == nil || depth > 6 {
		return
	}
	v = strip(v)
	if w.seen[v] {
		return
	}
	w.seen[v] = true
	if w.stop != nil && w.stop(v) {
		return
	}
	p := w.p
	switch x := v.(type) {
	case *ssa.Phi:
		for _, e := range x.Edges {
			w.walk(e, depth)
		}
	case *ssa.Slice:
		w.walk(x.X, depth)
	case *ssa.BinOp:
		if x.Op == token.ADD && isStringType(x.Type()) {
			w.walk(x.X, depth)
			w.walk(x.Y, depth)
		}
	case *ssa.UnOp:
		if x.Op != token.MUL {
			return
		}
		switch a := x.X.(type) {
		case *ssa.IndexAddr:
			w.walk(a.X, depth)
		case *ssa.FieldAddr:
			if w.fields {
				// a string field of a module struct: everything the module stores into that field
				for _, st := range p.storesToField(fieldOfAddr(a)) {
					w.walk(st.Val, depth+1)
				}
				// the struct may itself be an element of a list returned by a module function
				w.walk(a.X, depth)
			}
		case *ssa.Alloc, *ssa.FreeVar:
			for _, root := range p.cellRoots(a) {
				for _, st := range p.cellStores(root) {
					w.walk(st.Val, depth)
				}
			}
		}
	case *ssa.Index:
		w.walk(x.X, depth)
	case *ssa.Extract:
		if call, ok := x.Tuple.(*ssa.Call); ok {
			if cal := call.Call.StaticCallee(); cal != nil && p.inModule(cal) && cal.Blocks != nil {
				for _, r := range returnsOf(cal) {
					if x.Index < len(r.Results) {
						w.walk(r.Results[x.Index], depth+1)
					}
				}
				return
			}
		}
	case *ssa.Call:
		if cal := x.Call.StaticCallee(); cal != nil && p.inModule(cal) && cal.Blocks != nil {
			for _, r := range returnsOf(cal) {
				for _, res := range r.Results {
					if isStringType(res.Type()) || isStringSlice(res.Type()) {
						w.walk(res, depth+1)
					}
				}
			}
			return
		}
		n := calleeName(&x.Call)
		if strings.HasPrefix(n, "(*regexp.Regexp).Find") {
			// substrings of the searched text
			if len(x.Call.Args) >= 2 {
				w.walk(x.Call.Args[1], depth)
			}
			return
		}
		if n == "strings.Split" || n == "strings.SplitN" || n == "strings.Fields" || n == "strings.SplitAfter" {
			w.walk(x.Call.Args[0], depth)
			return
		}
		if !(isStringType(x.Type()) || isStringSlice(x.Type())) {
			return
		}
		if (w.all || !cuttingFuncs[n]) && n != "" {
			w.found[n] = true
		}
		for _, a := range x.Call.Args {
			if isStringType(a.Type()) {
				w.walk(a, depth)
			}
			// variadic ...interface{} of Sprintf
			if sl, ok := strip(a).(*ssa.Slice); ok {
				if al, ok := sl.X.(*ssa.Alloc); ok {
					for _, r := range referrers(al) {
						if ia, ok := r.(*ssa.IndexAddr); ok {
							for _, r2 := range referrers(ia) {
								if st, ok := r2.(*ssa.Store); ok {
									w.walk(st.Val, depth)
								}
							}
						}
					}
				}
			}
		}
	case *ssa.Parameter:
		if w.local {
			return
		}
		fn := x.Parent()
		k := -1
		for i, prm := range fn.Params {
			if prm == x {
				k = i
			}
		}
		for _, e := range p.callGraph().In[fn] {
			cc := callCommon(e.Site)
			if cc == nil {
				continue
			}
			args := cc.Args
			if cc.IsInvoke() {
				// interface call: receiver is not in Args
				if k-1 >= 0 && k-1 < len(args) {
					w.walk(args[k-1], depth+1)
				}
				continue
			}
			if cc.StaticCallee() == fn && k >= 0 && k < len(args) {
				w.walk(args[k], depth+1)
			}
		}
	}
}

func ruleLiteralEncoding(c *Ctx) {
	p := c.P
	// template side: arguments of regexp.QuoteMeta in functions that build a matcher source
	tmpl := map[string]bool{}
	nT := 0
	isToken := func(v ssa.Value) bool {
		// an element of a []string: the tokenised template
		if u, ok := v.(*ssa.UnOp); ok && u.Op == token.MUL {
			if ia, ok := u.X.(*ssa.IndexAddr); ok && isStringSlice(ia.X.Type()) {
				return true
			}
		}
		return false
	}
	for _, fn := range p.SrcFunc {
		eachInstr(fn, func(i ssa.Instruction) {
			call, ok := i.(*ssa.Call)
			if !ok || calleeName(&call.Call) != "regexp.QuoteMeta" {
				return
			}
			nT++
			w := &xformWalk{p: p, seen: map[ssa.Value]bool{}, found: map[string]bool{}, stop: isToken}
			w.walk(call.Call.Args[0], 0)
			for k := range w.found {
				tmpl[k] = true
			}
			if len(w.found) == 0 {
				c.ok(p.fname(fn), "template literal reaches the matcher source unchanged", p.ipos(i), "only regexp quoting between the template token and the expression")
			} else {
				c.note(p.fname(fn), "template literal is rewritten before it is quoted", p.ipos(i), "by "+strings.Join(sortedKeys(w.found), ", ")+" (compared with the request side below)")
			}
		})
	}
	if nT == 0 {
		c.note("-", "no matcher is compiled from template literals", "-", "nothing to decide")
		return
	}
	// request side: the text the compiled path matchers run against
	req := map[string]bool{}
	nR := 0
	isURLPath := func(v ssa.Value) bool {
		if b, f, ok := fieldLoad(v); ok && f.Name() == "Path" && isNamed(b.Type(), "net/url", "URL") {
			return true
		}
		return false
	}
	for _, fn := range p.requestPathFuncs() {
		eachInstr(fn, func(i ssa.Instruction) {
			call, ok := i.(*ssa.Call)
			if !ok {
				return
			}
			n := calleeName(&call.Call)
			if n != "(*regexp.Regexp).FindStringSubmatch" && n != "(*regexp.Regexp).MatchString" {
				return
			}
			if _, f, ok := fieldLoad(strip(call.Call.Args[0])); !ok || f.Name() != "Matcher" {
				return
			}
			nR++
			w := &xformWalk{p: p, seen: map[ssa.Value]bool{}, found: map[string]bool{}, stop: isURLPath}
			w.walk(call.Call.Args[1], 0)
			for k := range w.found {
				req[k] = true
			}
		})
	}
	c.count("template_literal_sites", nT)
	c.count("matcher_run_sites", nR)
	if nR == 0 {
		c.undecided("-", "request side of the compiled matchers", "-", "no call of a path expression's Matcher found on the request path")
		return
	}
	same := len(tmpl) == len(req)
	for k := range tmpl {
		if !req[k] {
			same = false
		}
	}
	c.check(same, "-", "template literals and request paths are encoded alike", "-",
		"rewriting functions on the template side {"+strings.Join(sortedKeys(tmpl), ", ")+"} = on the request side {"+strings.Join(sortedKeys(req), ", ")+"}",
		"the matcher is compiled from literals rewritten by {"+strings.Join(sortedKeys(tmpl), ", ")+"} but run against request text rewritten by {"+strings.Join(sortedKeys(req), ", ")+"}: a literal containing a character those functions change can never match the request that spells it")
}

var _ = types.Typ

// ruleKeyAgreement: a registry (a map with string keys held in a field or a package variable) is written and read
// under the same key normalisation: the functions applied to the key between the function's parameter and the map
// must be the same for every update and every lookup.
func ruleKeyAgreement(c *Ctx) {
	p := c.P
	type use struct {
		fn    *ssa.Function
		at    ssa.Instruction
		xf    string
		write bool
	}
	uses := map[string][]use{}
	mapName := func(m ssa.Value) (string, bool) {
		m = strip(m)
		if _, f, ok := fieldLoad(m); ok {
			return f.Name(), true
		}
		if u, ok := m.(*ssa.UnOp); ok && u.Op == token.MUL {
			if g, ok := u.X.(*ssa.Global); ok {
				return g.Name(), true
			}
		}
		return "", false
	}
	keyXf := func(k ssa.Value) string {
		w := &xformWalk{p: p, seen: map[ssa.Value]bool{}, found: map[string]bool{}, all: true, local: true}
		w.walk(k, 0)
		return strings.Join(sortedKeys(w.found), ", ")
	}
	for _, fn := range p.SrcFunc {
		eachInstr(fn, func(i ssa.Instruction) {
			switch x := i.(type) {
			case *ssa.MapUpdate:
				if !isStringType(x.Key.Type()) {
					return
				}
				if n, ok := mapName(x.Map); ok {
					uses[n] = append(uses[n], use{fn, i, keyXf(x.Key), true})
				}
			case *ssa.Lookup:
				mt, ok := x.X.Type().Underlying().(*types.Map)
				if !ok || !isStringType(mt.Key()) {
					return
				}
				if n, ok := mapName(x.X); ok {
					uses[n] = append(uses[n], use{fn, i, keyXf(x.Index), false})
				}
			}
		})
	}
	n := 0
	for _, name := range sortedKeysOf(uses) {
		us := uses[name]
		var wr, rd []use
		for _, u := range us {
			if u.write {
				wr = append(wr, u)
			} else {
				rd = append(rd, u)
			}
		}
		if len(wr) == 0 || len(rd) == 0 {
			continue
		}
		onPath := false
		for _, fn := range p.requestPathFuncs() {
			for _, u := range rd {
				if u.fn == fn {
					onPath = true
				}
			}
		}
		if !onPath {
			continue
		}
		n++
		ref := rd[0]
		for _, u := range append(rd[1:], wr...) {
			kind := "lookup"
			if u.write {
				kind = "update"
			}
			c.check(u.xf == ref.xf, p.fname(u.fn), kind+" of "+name+" uses the key as the lookups do", p.ipos(u.at),
				"key normalisation {"+u.xf+"} on both sides",
				"the "+kind+" normalises the key with {"+u.xf+"} but the lookup in "+p.fname(ref.fn)+" with {"+ref.xf+"}: an entry registered under a key the normalisation changes is never found by the exact lookup")
		}
	}
	c.count("registries", n)
}

func sortedKeysOf[T any](m map[string]T) []string {
	var ks []string
	for k := range m {
		ks = append(ks, k)
	}
	sort.Strings(ks)
	return ks
}

// storesToField: every store into field f in the module (struct literals included), cached.
func (p *Program) storesToField(f *types.Var) []*ssa.Store {
	if p.fieldStoreCache == nil {
		p.fieldStoreCache = map[*types.Var][]*ssa.Store{}
		for _, fn := range p.SrcFunc {
			eachInstr(fn, func(i ssa.Instruction) {
				if st, ok := i.(*ssa.Store); ok {
					if fa, ok := st.Addr.(*ssa.FieldAddr); ok {
						p.fieldStoreCache[fieldOfAddr(fa)] = append(p.fieldStoreCache[fieldOfAddr(fa)], st)
					}
				}
			})
		}
	}
	return p.fieldStoreCache[f]
}

// Case folding agreement (C05.i). Where a token of Accept or Content-Type is compared for equality with a declared
// media type, both operands were case-folded by the same functions, or neither was. Lower-casing the header's media
// ranges while the declared Produces entries are compared as written makes a declared `application/vnd.Acme+json`
// unselectable, and the writer answers with a lower-ranked type than the router admitted the request for.
var foldingFuncs = map[string]bool{"strings.ToLower": true, "strings.ToUpper": true, "strings.Title": true, "strings.ToTitle": true}

func ruleFoldingAgreement(c *Ctx) {
	p := c.P
	ta := p.tokenAnalysisCached()
	n := 0
	for _, fn := range p.requestPathFuncs() {
		name := p.fname(fn)
		eachInstr(fn, func(i ssa.Instruction) {
			bo, ok := i.(*ssa.BinOp)
			if !ok || (bo.Op != token.EQL && bo.Op != token.NEQ) || !isStringType(bo.X.Type()) {
				return
			}
			if _, isC := constStr(bo.X); isC {
				return
			}
			if _, isC := constStr(bo.Y); isC {
				return
			}
			folds := func(v ssa.Value) (string, bool) {
				w := &xformWalk{p: p, seen: map[ssa.Value]bool{}, found: map[string]bool{}, all: true, fields: true}
				w.walk(v, 0)
				var out []string
				for k := range w.found {
					if foldingFuncs[k] {
						out = append(out, k)
					}
				}
				sort.Strings(out)
				hdr := false
				for x := range w.seen {
					if ta.val[x] != tokNone {
						hdr = true
					}
				}
				return strings.Join(out, ", "), hdr
			}
			a, ha := folds(bo.X)
			b, hb := folds(bo.Y)
			if !(ha || hb) || (ha && hb) {
				return // not a comparison of a header token with a declared value
			}
			n++
			c.check(a == b, name, "a header token and the declared value it is compared with are case-folded alike", p.ipos(i), "{"+a+"} on both sides",
				"one operand went through {"+a+"}, the other through {"+b+"}: a declared media type with upper-case letters can never be equal to the folded header token, although the router (or the writer) admits it by another comparison")
		})
	}
	if n == 0 {
		c.undecided("-", "equalities between header tokens and declared values", "-", "none found on the request path")
	}
}
