package main

import (
	"go/token"
	"go/types"
	"strconv"
	"strings"

	"golang.org/x/tools/go/ssa"
)

// T-TOKEN (DESIGN §3): a piece cut from a header value is trimmed after its last cut and
// before it is compared, looked up or parsed.

type tokState uint8

const (
	tokNone    tokState = iota // not header-derived
	tokTrimmed                 // header-derived, no cut since the last trim (or never cut)
	tokCut                     // header-derived, cut since the last trim
)

func joinTok(a, b tokState) tokState {
	if a > b {
		return a
	}
	return b
}

var tokenHeaders = map[string]bool{"Accept": true, "Content-Type": true, "Access-Control-Request-Headers": true}

type tokenAnalysis struct {
	p      *Program
	val    map[ssa.Value]tokState
	field  map[*types.Var]tokState
	param  map[*ssa.Parameter]tokState
	cutAt  map[ssa.Value]ssa.Instruction // where the value was last cut
	tuple  map[ssa.Value][]tokState      // per-result state of module calls returning tuples
	findAt map[ssa.Value]bool
}

func isStringType(t types.Type) bool {
	b, ok := t.Underlying().(*types.Basic)
	return ok && b.Info()&types.IsString != 0
}

func isStringSlice(t types.Type) bool {
	sl, ok := t.Underlying().(*types.Slice)
	return ok && isStringType(sl.Elem())
}

func (p *Program) tokenAnalysisCached() *tokenAnalysis {
	if p.tokCache == nil {
		p.tokCache = p.tokenAnalysis()
	}
	return p.tokCache
}

func (p *Program) tokenAnalysis() *tokenAnalysis {
	ta := &tokenAnalysis{p: p, val: map[ssa.Value]tokState{}, field: map[*types.Var]tokState{}, param: map[*ssa.Parameter]tokState{}, cutAt: map[ssa.Value]ssa.Instruction{}, tuple: map[ssa.Value][]tokState{}}
	cg := p.callGraph()
	for iter := 0; iter < 12; iter++ {
		changed := false
		set := func(v ssa.Value, s tokState, at ssa.Instruction) {
			if s > ta.val[v] {
				ta.val[v] = s
				changed = true
				if s == tokCut && at != nil {
					ta.cutAt[v] = at
				}
			}
		}
		for _, fn := range p.SrcFunc {
			for _, prm := range fn.Params {
				if s := ta.param[prm]; s > tokNone {
					set(prm, s, nil)
				}
			}
			eachInstr(fn, func(i ssa.Instruction) {
				v, ok := i.(ssa.Value)
				if !ok {
					// stores into fields
					if st, ok := i.(*ssa.Store); ok {
						if fa, ok := st.Addr.(*ssa.FieldAddr); ok && isStringType(st.Val.Type()) {
							if s := ta.val[st.Val]; s > ta.field[fieldOfAddr(fa)] {
								ta.field[fieldOfAddr(fa)] = s
								changed = true
							}
						}
						// element of a local array/slice (struct literal, varargs)
						if ia, ok := st.Addr.(*ssa.IndexAddr); ok && isStringType(st.Val.Type()) {
							if s := ta.val[st.Val]; s > tokNone {
								set(ia.X, s, ta.cutAt[st.Val])
							}
						}
					}
					return
				}
				switch x := i.(type) {
				case *ssa.Phi:
					var s tokState
					var at ssa.Instruction
					for _, e := range x.Edges {
						if ta.val[e] > s {
							s = ta.val[e]
							at = ta.cutAt[e]
						}
					}
					set(v, s, at)
				case *ssa.Slice:
					if ta.val[x.X] > tokNone && isStringType(x.Type()) {
						set(v, tokCut, i)
					} else if ta.val[x.X] > tokNone {
						set(v, ta.val[x.X], ta.cutAt[x.X])
					}
				case *ssa.UnOp:
					if x.Op != token.MUL {
						return
					}
					switch a := x.X.(type) {
					case *ssa.IndexAddr:
						// element of a split result / of a tainted slice
						if s := ta.val[a.X]; s > tokNone {
							set(v, s, ta.cutAt[a.X])
						}
					case *ssa.FieldAddr:
						if s := ta.field[fieldOfAddr(a)]; s > tokNone {
							set(v, s, nil)
						}
					case *ssa.Alloc:
						// local variable: union of stores
						for _, r := range referrers(a) {
							if st, ok := r.(*ssa.Store); ok && st.Addr == ssa.Value(a) {
								if s := ta.val[st.Val]; s > tokNone {
									set(v, s, ta.cutAt[st.Val])
								}
							}
						}
					}
				case *ssa.Field:
					st := x.X.Type().Underlying().(*types.Struct)
					if s := ta.field[st.Field(x.Field)]; s > tokNone {
						set(v, s, nil)
					}
				case *ssa.Extract:
					if per, ok := ta.tuple[x.Tuple]; ok {
						if x.Index < len(per) && per[x.Index] > tokNone {
							set(v, per[x.Index], x.Tuple.(ssa.Instruction))
						}
					} else if s := ta.val[x.Tuple]; s > tokNone {
						set(v, s, ta.cutAt[x.Tuple])
					}
				case *ssa.Call:
					n := calleeName(&x.Call)
					switch {
					case n == "(net/http.Header).Get":
						if h, ok := constStr(x.Call.Args[1]); ok && tokenHeaders[h] {
							set(v, tokTrimmed, nil)
						}
					case n == "strings.Split" || n == "strings.SplitN" || n == "strings.Fields" || n == "strings.Cut" || n == "strings.SplitAfter":
						if ta.val[x.Call.Args[0]] > tokNone {
							set(v, tokCut, i)
						}
					case n == "strings.Trim" || n == "strings.TrimSpace" || n == "strings.TrimFunc":
						if ta.val[x.Call.Args[0]] > tokNone {
							// a trim ends the "cut since trim" state
							if ta.val[v] == tokNone {
								ta.val[v] = tokTrimmed
								changed = true
							}
						}
					case n == "strings.ToLower" || n == "strings.ToUpper" || n == "strings.TrimLeft" || n == "strings.TrimRight" || n == "strings.TrimPrefix" || n == "strings.TrimSuffix":
						if s := ta.val[x.Call.Args[0]]; s > tokNone {
							set(v, s, ta.cutAt[x.Call.Args[0]])
						}
					default:
						// module helpers: string results derived from string params are evaluated through their own body
						if cal := x.Call.StaticCallee(); cal != nil && p.inModule(cal) && cal.Blocks != nil {
							for k, a := range x.Call.Args {
								if k < len(cal.Params) && ta.val[a] > ta.param[cal.Params[k]] {
									ta.param[cal.Params[k]] = ta.val[a]
									changed = true
								}
							}
							if isStringType(x.Type()) || isStringSlice(x.Type()) {
								var s tokState
								for _, r := range returnsOf(cal) {
									if len(r.Results) == 1 {
										s = joinTok(s, ta.val[r.Results[0]])
									}
								}
								if s > tokNone {
									set(v, s, i)
								}
							} else if tup, ok := x.Type().(*types.Tuple); ok {
								per := ta.tuple[v]
								if per == nil {
									per = make([]tokState, tup.Len())
									ta.tuple[v] = per
								}
								for _, r := range returnsOf(cal) {
									for k, res := range r.Results {
										if k < len(per) && ta.val[res] > per[k] {
											per[k] = ta.val[res]
											changed = true
										}
									}
								}
							}
						}
					}
					if isBuiltinCall(x, "append") {
						var s tokState
						for _, a := range x.Call.Args {
							s = joinTok(s, ta.val[a])
						}
						if s > tokNone {
							set(v, s, nil)
						}
					}
				case *ssa.MakeInterface, *ssa.ChangeType, *ssa.Convert:
				}
			})
		}
		_ = cg
		if !changed {
			break
		}
	}
	return ta
}

type tokenSink struct {
	Fn    *ssa.Function
	Instr ssa.Instruction
	What  string
	Val   ssa.Value
}

// sinks: comparisons with configured values/constants, map lookups, numeric parsing.
func (ta *tokenAnalysis) sinks(fn *ssa.Function) []tokenSink {
	var out []tokenSink
	eachInstr(fn, func(i ssa.Instruction) {
		switch x := i.(type) {
		case *ssa.BinOp:
			if x.Op != token.EQL && x.Op != token.NEQ {
				return
			}
			if !isStringType(x.X.Type()) {
				return
			}
			for _, pr := range [][2]ssa.Value{{x.X, x.Y}, {x.Y, x.X}} {
				if ta.val[pr[0]] == tokNone {
					continue
				}
				if s, ok := constStr(pr[1]); ok && s == "" {
					continue // emptiness test
				}
				if ta.val[pr[1]] != tokNone {
					continue // two header-derived values
				}
				out = append(out, tokenSink{fn, i, "comparison with " + operandDesc(pr[1]), pr[0]})
			}
		case *ssa.Lookup:
			if ta.val[x.Index] != tokNone {
				out = append(out, tokenSink{fn, i, "map lookup", x.Index})
			}
		case *ssa.Call:
			switch calleeName(&x.Call) {
			case "strconv.ParseFloat", "strconv.Atoi", "strconv.ParseInt":
				if ta.val[x.Call.Args[0]] != tokNone {
					out = append(out, tokenSink{fn, i, "number parsing", x.Call.Args[0]})
				}
			case "strings.Contains", "strings.Index", "strings.LastIndex", "strings.HasPrefix", "strings.HasSuffix", "strings.Count":
				// a literal that spans more than one grammar token ("q=", ";q", ", ") is matched against header text:
				// optional whitespace between the tokens makes the test miss
				if lit, ok := constStr(x.Call.Args[1]); ok && ta.val[x.Call.Args[0]] != tokNone && spansTokens(lit) {
					out = append(out, tokenSink{fn, i, "multi-token literal \"" + lit + "\"", x.Call.Args[0]})
				}
			case "strings.EqualFold":
				for _, pr := range [][2]ssa.Value{{x.Call.Args[0], x.Call.Args[1]}, {x.Call.Args[1], x.Call.Args[0]}} {
					if ta.val[pr[0]] != tokNone && ta.val[pr[1]] == tokNone {
						out = append(out, tokenSink{fn, i, "EqualFold with " + operandDesc(pr[1]), pr[0]})
					}
				}
			}
		}
	})
	return out
}

func operandDesc(v ssa.Value) string {
	if s, ok := constStr(v); ok {
		return "\"" + s + "\""
	}
	if u, ok := strip(v).(*ssa.UnOp); ok {
		if ia, ok := u.X.(*ssa.IndexAddr); ok {
			if _, f, ok := fieldLoad(strip(ia.X)); ok {
				return "an element of " + f.Name()
			}
		}
	}
	if _, f, ok := fieldLoad(strip(v)); ok {
		return f.Name()
	}
	return "a configured value"
}

func tokenRule(c *Ctx, fns []*ssa.Function) {
	p := c.P
	ta := p.tokenAnalysis()
	n := 0
	for _, fn := range fns {
		for _, s := range ta.sinks(fn) {
			n++
			st := ta.val[s.Val]
			construct := "header token reaches a " + s.What
			if strings.HasPrefix(s.What, "multi-token literal") {
				c.bad(p.fname(fn), "header text is not searched for a "+s.What, p.ipos(s.Instr),
					"text taken from a header is searched for a literal that spans a separator and a neighbouring token: optional whitespace around ',' ';' '=' (legal in the header grammar) makes the search miss, so the branch taken depends on whitespace")
				continue
			}
			if st == tokCut {
				where := ""
				if at := ta.cutAt[s.Val]; at != nil {
					where = " (last cut at " + p.ipos(at) + ")"
				}
				c.bad(p.fname(fn), construct+" untrimmed", p.ipos(s.Instr),
					"the value was cut out of a header"+where+" and not trimmed afterwards: optional whitespace around ',' ';' '=' (legal in the header grammar) makes it differ from the configured value")
			} else {
				c.ok(p.fname(fn), construct+" trimmed", p.ipos(s.Instr), "no cut since the last trim on any def-use path")
			}
		}
	}
	c.count("token_sinks", n)
}

// router side: functions reachable from the selectors
func ruleTokenRouter(c *Ctx) {
	p := c.P
	reach := p.callGraph().reach(selectorImpls(p), func(e Edge) bool { return e.Kind == EdgeEscape })
	var fns []*ssa.Function
	for _, fn := range p.SrcFunc {
		if reach[fn] {
			fns = append(fns, fn)
		}
	}
	tokenRule(c, fns)
}

func ruleTokenAll(c *Ctx) {
	tokenRule(c, c.P.requestPathFuncs())
}

// spansTokens: the literal holds a separator of the header grammar next to something that is not a separator or
// a blank (it can only match when no optional whitespace was written there).
func spansTokens(lit string) bool {
	hasSep, hasOther := false, false
	for _, r := range lit {
		switch r {
		case ',', ';', '=':
			hasSep = true
		case ' ', '\t':
		default:
			hasOther = true
		}
	}
	return hasSep && hasOther
}

// ---------------------------------------------------------------------------
// C05.j: a parameter value that is parsed as a number was cut out of the header at every separator of its level.
// `SplitN(piece, ";", 2)[1]` (or the part after strings.Cut) is "everything behind the first ;": for
// `application/json;q=0.2;ext=1` it is `q=0.2;ext=1`, the q-value does not parse and the range silently counts as
// q=1. Walking back from the operand of strconv.ParseFloat/Atoi/ParseInt: a remainder of a cut at separator s is
// only acceptable if a cut nearer to the parse already removed s.
func ruleNumberFullyCut(c *Ctx) {
	p := c.P
	n := 0
	for _, fn := range p.requestPathFuncs() {
		if fn.Blocks == nil || !p.inModule(fn) {
			continue
		}
		name := p.fname(fn)
		eachInstr(fn, func(i ssa.Instruction) {
			call, ok := i.(*ssa.Call)
			if !ok {
				return
			}
			switch calleeName(&call.Call) {
			case "strconv.ParseFloat", "strconv.Atoi", "strconv.ParseInt", "strconv.ParseUint":
			default:
				return
			}
			freed := map[string]bool{}
			bad := ""
			cuts := 0
			seen := map[ssa.Value]bool{}
			var walk func(v ssa.Value, d int)
			walk = func(v ssa.Value, d int) {
				v = strip(v)
				if d > 12 || v == nil || seen[v] || bad != "" {
					return
				}
				seen[v] = true
				switch x := v.(type) {
				case *ssa.Call:
					switch calleeName(&x.Call) {
					case "strings.Trim", "strings.TrimSpace", "strings.TrimLeft", "strings.TrimRight", "strings.TrimPrefix", "strings.TrimSuffix", "strings.TrimFunc", "strings.ToLower":
						walk(x.Call.Args[0], d+1)
					}
				case *ssa.Slice:
					walk(x.X, d+1)
				case *ssa.Phi:
					for _, e := range x.Edges {
						walk(e, d+1)
					}
				case *ssa.Extract:
					if cc, ok := x.Tuple.(*ssa.Call); ok && calleeName(&cc.Call) == "strings.Cut" {
						sep, isC := constStr(cc.Call.Args[1])
						if !isC {
							return
						}
						cuts++
						if x.Index == 0 {
							freed[sep] = true
						} else if x.Index == 1 && !freed[sep] {
							bad = "the part after strings.Cut at " + strconv.Quote(sep) + " (" + p.ipos(cc) + ")"
							return
						}
						walk(cc.Call.Args[0], d+1)
					}
				case *ssa.UnOp:
					if x.Op != token.MUL {
						return
					}
					if ia, ok := x.X.(*ssa.IndexAddr); ok {
						for _, src := range p.sources(ia.X, provDefault) {
							sc, ok := src.(*ssa.Call)
							if !ok {
								continue
							}
							switch calleeName(&sc.Call) {
							case "strings.Split":
								if sep, isC := constStr(sc.Call.Args[1]); isC {
									cuts++
									freed[sep] = true
								}
								walk(sc.Call.Args[0], d+1)
							case "strings.SplitN":
								sep, isC := constStr(sc.Call.Args[1])
								nn, isN := constInt(sc.Call.Args[2])
								k, isK := constInt(ia.Index)
								if isC && isN && isK && nn >= 2 {
									cuts++
									if k < nn-1 {
										freed[sep] = true
									} else if !freed[sep] {
										bad = "the last element of strings.SplitN at " + strconv.Quote(sep) + " (" + p.ipos(sc) + ")"
										return
									}
								}
								walk(sc.Call.Args[0], d+1)
							}
						}
						return
					}
					for _, a := range p.loadOfCell(x) {
						for _, st := range p.cellStores(a) {
							walk(st.Val, d+1)
						}
					}
				}
			}
			walk(call.Call.Args[0], 0)
			if cuts == 0 {
				return // not a piece of a separated list
			}
			n++
			c.check(bad == "", name, "a number is parsed from a piece cut at every separator of its level", p.ipos(call), "no remainder of a one-time cut reaches the parse uncut",
				"the text parsed here is "+bad+", i.e. everything behind the first separator: with a further parameter behind it (`;q=0.2;ext=1`) the number does not parse and the default is used instead")
		})
	}
	if n == 0 {
		c.note("-", "no number is parsed from a piece of a separated list", "-", "nothing to decide")
	}
}
