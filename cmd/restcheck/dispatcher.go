package main

import (
	"fmt"
	"go/token"
	"go/types"

	"golang.org/x/tools/go/ssa"
)

// Var is "a variable" for T-PROV rules: a cell (Alloc shared with closures) or a plain SSA value.
type Var struct {
	Cell *ssa.Alloc
	Val  ssa.Value
}

func (p *Program) varOfStoreTarget(addr ssa.Value) (Var, bool) {
	roots := p.cellRoots(addr)
	if len(roots) == 1 {
		return Var{Cell: roots[0]}, true
	}
	return Var{}, false
}

// isVar reports whether v denotes the variable (a load of the cell, or the value itself).
func (p *Program) isVar(v ssa.Value, x Var) bool {
	v = strip(v)
	if x.Cell != nil {
		return p.isLoadOf(v, x.Cell)
	}
	if x.Val == nil {
		return false
	}
	if v == strip(x.Val) {
		return true
	}
	// a register variable: the value merged with whatever the variable held before
	for _, s := range p.sources(v, provOpt{ThroughCells: true}) {
		if s == strip(x.Val) {
			return true
		}
	}
	return false
}

func (x Var) String() string {
	if x.Cell != nil {
		return "variable " + x.Cell.Comment
	}
	if x.Val != nil {
		return "value " + x.Val.Name()
	}
	return "<none>"
}

// Dispatcher describes the function that selects a route and runs it.
type Dispatcher struct {
	Fn         *ssa.Function // outermost function (today (*Container).dispatch)
	SelectCall *ssa.Call     // the invoke of RouteSelector.SelectRoute
	Service    Var
	Route      Var
	Err        Var
	Router     ssa.Value // the RouteSelector value SelectRoute is invoked on
}

// findDispatchers locates every function that invokes RouteSelector.SelectRoute and the
// variables receiving its three results.
func findDispatchers(p *Program) ([]*Dispatcher, error) {
	var out []*Dispatcher
	for _, call := range selectRouteInvokes(p) {
		d := &Dispatcher{Fn: topFunc(call.Parent()), SelectCall: call, Router: call.Call.Value}
		vars := make([]Var, 3)
		for _, r := range referrers(call) {
			ex, ok := r.(*ssa.Extract)
			if !ok {
				continue
			}
			v := Var{Val: ex}
			// stored into a cell?
			for _, rr := range referrers(ex) {
				if st, ok := rr.(*ssa.Store); ok && st.Val == ssa.Value(ex) {
					if cv, ok := p.varOfStoreTarget(st.Addr); ok {
						v = cv
					}
				}
			}
			if ex.Index < 3 {
				vars[ex.Index] = v
			}
		}
		d.Service, d.Route, d.Err = vars[0], vars[1], vars[2]
		if d.Route.Cell == nil && d.Route.Val == nil {
			return nil, fmt.Errorf("SelectRoute result #1 unused in %s", p.fname(call.Parent()))
		}
		out = append(out, d)
	}
	return out, nil
}

// structInits collects, for a struct variable obj (an Alloc), the values stored into its
// fields, looking through the "complit then copy" shape go/ssa produces for literals.
func (p *Program) structInits(obj *ssa.Alloc) map[string][]*ssa.Store {
	out := map[string][]*ssa.Store{}
	var collect func(a *ssa.Alloc, depth int)
	collect = func(a *ssa.Alloc, depth int) {
		for _, r := range referrers(a) {
			switch x := r.(type) {
			case *ssa.FieldAddr:
				for _, rr := range referrers(x) {
					if st, ok := rr.(*ssa.Store); ok && st.Addr == ssa.Value(x) {
						out[fieldOfAddr(x).Name()] = append(out[fieldOfAddr(x).Name()], st)
					}
				}
			case *ssa.Store:
				if x.Addr == ssa.Value(a) && depth < 2 {
					// *obj = *complit
					if u, ok := x.Val.(*ssa.UnOp); ok && u.Op == token.MUL {
						if lit, ok := u.X.(*ssa.Alloc); ok {
							collect(lit, depth+1)
						}
					}
				}
			}
		}
	}
	collect(obj, 0)
	return out
}

// allocsOfType returns the Allocs in fn (and its closures) whose element type is restful.<name>.
func (p *Program) allocsOfType(fn *ssa.Function, name string) []*ssa.Alloc {
	var out []*ssa.Alloc
	eachInstr(fn, func(i ssa.Instruction) {
		if a, ok := i.(*ssa.Alloc); ok {
			if isRestfulNamed(a.Type().(*types.Pointer).Elem(), name) {
				out = append(out, a)
			}
		}
	})
	return out
}

// methodCallsOn returns calls of the named method whose receiver is the given pointer value.
func methodCallsOn(fn *ssa.Function, recv ssa.Value, method string) []ssa.CallInstruction {
	var out []ssa.CallInstruction
	eachInstr(fn, func(i ssa.Instruction) {
		ci, ok := i.(ssa.CallInstruction)
		if !ok {
			return
		}
		c := ci.Common()
		if c.IsInvoke() {
			return
		}
		if cal := c.StaticCallee(); cal != nil && cal.Name() == method && len(c.Args) > 0 && strip(c.Args[0]) == recv {
			out = append(out, ci)
		}
	})
	return out
}

// fieldLoadOn: v is a load of field `field` whose base object satisfies pred.
func fieldLoadIs(v ssa.Value, owner, field string) (base ssa.Value, ok bool) {
	b, f, ok := fieldLoad(strip(v))
	if !ok || f.Name() != field {
		return nil, false
	}
	t := b.Type()
	if pt, isPtr := t.Underlying().(*types.Pointer); isPtr {
		t = pt.Elem()
	}
	if !isRestfulNamed(t, owner) {
		return nil, false
	}
	return b, true
}
