package main

import (
	"fmt"
	"go/token"
	"go/types"

	"golang.org/x/tools/go/ssa"
)

// Var is "a variable" for T-PROV rules: a cell (Alloc shared with closures) or a plain SSA value.
type Var struct {
	Cell *ssa.Alloc
	Val  ssa.Value
}

func (p *Program) varOfStoreTarget(addr ssa.Value) (Var, bool) {
	roots := p.cellRoots(addr)
	if len(roots) == 1 {
		return Var{Cell: roots[0]}, true
	}
	return Var{}, false
}

// isVar reports whether v denotes the variable (a load of the cell, or the value itself).
func (p *Program) isVar(v ssa.Value, x Var) bool {
	v = strip(v)
	if x.Cell != nil {
		return p.isLoadOf(v, x.Cell)
	}
	if x.Val == nil {
		return false
	}
	if v == strip(x.Val) {
		return true
	}
	// a register variable: the value merged with whatever the variable held before
	for _, s := range p.sources(v, provOpt{ThroughCells: true}) {
		if s == strip(x.Val) {
			return true
		}
	}
	return false
}

func (x Var) String() string {
	if x.Cell != nil {
		return "variable " + x.Cell.Comment
	}
	if x.Val != nil {
		return "value " + x.Val.Name()
	}
	return "<none>"
}

// Dispatcher describes the function that selects a route and runs it.
type Dispatcher struct {
	Fn         *ssa.Function // outermost function (today (*Container).dispatch)
	SelectCall *ssa.Call     // the invoke of RouteSelector.SelectRoute
	Service    Var
	Route      Var
	Err        Var
	Router     ssa.Value       // the RouteSelector value SelectRoute is invoked on
	Site       ssa.Instruction // the instruction of Fn at which selection happens (the invoke, or the call of the closure/helper holding it)
}

// findDispatchers locates every function that invokes RouteSelector.SelectRoute and the
// variables receiving its three results.
func findDispatchers(p *Program) ([]*Dispatcher, error) {
	var out []*Dispatcher
	for _, call := range selectRouteInvokes(p) {
		if delegatingSelector(p, topFunc(call.Parent())) {
			continue // a wrapper around another selector: it dispatches nothing
		}
		// pass-through helper: `return c.router.SelectRoute(...)` - the dispatchers are its callers
		if g := call.Parent(); g.Parent() == nil && passesThroughP(p, g, call) {
			n := 0
			for _, e := range p.callGraph().In[g] {
				if e.Kind != EdgeStatic {
					continue
				}
				site, ok := e.Site.(*ssa.Call)
				if !ok {
					continue
				}
				n++
				d := &Dispatcher{Fn: topFunc(site.Parent()), SelectCall: call, Router: call.Call.Value, Site: site}
				vars := resultVars(p, site)
				d.Service, d.Route, d.Err = vars[0], vars[1], vars[2]
				if d.Route.Cell == nil && d.Route.Val == nil {
					return nil, fmt.Errorf("selection result #1 unused in %s", p.fname(site.Parent()))
				}
				out = append(out, d)
			}
			if n > 0 {
				continue
			}
		}
		d := &Dispatcher{Fn: topFunc(call.Parent()), SelectCall: call, Router: call.Call.Value}
		d.Site = call
		if call.Parent() != d.Fn {
			eachInstr(d.Fn, func(i ssa.Instruction) {
				if cc := callCommon(i); cc != nil {
					if f := p.funcValue(cc.Value); f != nil && f == call.Parent() {
						d.Site = i
					}
				}
			})
		}
		vars := make([]Var, 3)
		for _, r := range referrers(call) {
			ex, ok := r.(*ssa.Extract)
			if !ok {
				continue
			}
			v := Var{Val: ex}
			// stored into a cell?
			for _, rr := range referrers(ex) {
				if st, ok := rr.(*ssa.Store); ok && st.Val == ssa.Value(ex) {
					if cv, ok := p.varOfStoreTarget(st.Addr); ok {
						v = cv
					}
				}
			}
			if ex.Index < 3 {
				vars[ex.Index] = v
			}
		}
		d.Service, d.Route, d.Err = vars[0], vars[1], vars[2]
		if d.Route.Cell == nil && (d.Route.Val == nil || len(referrers(d.Route.Val)) == 0) {
			// the selected route is discarded: a lookup of the service that serves a path (computeAllowedMethods),
			// not a dispatch. If this was the only invoke, no dispatcher is found and the callers report that.
			continue
		}
		out = append(out, d)
	}
	return out, nil
}

// structInits collects, for a struct variable obj (an Alloc), the values stored into its
// fields, looking through the "complit then copy" shape go/ssa produces for literals.
func (p *Program) structInits(obj *ssa.Alloc) map[string][]*ssa.Store {
	out := map[string][]*ssa.Store{}
	var collect func(a *ssa.Alloc, depth int)
	collect = func(a *ssa.Alloc, depth int) {
		for _, r := range referrers(a) {
			switch x := r.(type) {
			case *ssa.FieldAddr:
				for _, rr := range referrers(x) {
					if st, ok := rr.(*ssa.Store); ok && st.Addr == ssa.Value(x) {
						out[fieldOfAddr(x).Name()] = append(out[fieldOfAddr(x).Name()], st)
					}
				}
			case *ssa.Store:
				if x.Addr == ssa.Value(a) && depth < 2 {
					// *obj = *complit
					if u, ok := x.Val.(*ssa.UnOp); ok && u.Op == token.MUL {
						if lit, ok := u.X.(*ssa.Alloc); ok {
							collect(lit, depth+1)
						}
					}
				}
			}
		}
	}
	collect(obj, 0)
	return out
}

// allocsOfType returns the Allocs in fn (and its closures) whose element type is restful.<name>.
func (p *Program) allocsOfType(fn *ssa.Function, name string) []*ssa.Alloc {
	var out []*ssa.Alloc
	eachInstr(fn, func(i ssa.Instruction) {
		if a, ok := i.(*ssa.Alloc); ok {
			if isRestfulNamed(a.Type().(*types.Pointer).Elem(), name) {
				out = append(out, a)
			}
		}
	})
	return out
}

// methodCallsOn returns calls of the named method whose receiver is the given pointer value.
func methodCallsOn(fn *ssa.Function, recv ssa.Value, method string) []ssa.CallInstruction {
	var out []ssa.CallInstruction
	eachInstr(fn, func(i ssa.Instruction) {
		ci, ok := i.(ssa.CallInstruction)
		if !ok {
			return
		}
		c := ci.Common()
		if c.IsInvoke() {
			return
		}
		if cal := c.StaticCallee(); cal != nil && cal.Name() == method && len(c.Args) > 0 && strip(c.Args[0]) == recv {
			out = append(out, ci)
		}
	})
	return out
}

// fieldLoadOn: v is a load of field `field` whose base object satisfies pred.
func fieldLoadIs(v ssa.Value, owner, field string) (base ssa.Value, ok bool) {
	b, f, ok := fieldLoad(strip(v))
	if !ok || f.Name() != field {
		return nil, false
	}
	t := b.Type()
	if pt, isPtr := t.Underlying().(*types.Pointer); isPtr {
		t = pt.Elem()
	}
	if !isRestfulNamed(t, owner) {
		return nil, false
	}
	return b, true
}

// passesThrough: g returns the three results of the invoke unchanged.
func passesThrough(g *ssa.Function, call *ssa.Call) bool {
	return passesThroughP(nil, g, call)
}

func passesThroughP(p *Program, g *ssa.Function, call *ssa.Call) bool {
	rets := returnsOf(g)
	if len(rets) == 0 {
		return false
	}
	for _, r := range rets {
		if r.Block().Comment == "recover" {
			continue
		}
		if len(r.Results) != 3 {
			return false
		}
		for k, res := range r.Results {
			var src []ssa.Value
			if p != nil {
				src = p.sources(res, provOpt{ThroughCells: true}) // results are spilled to locals when the function defers
			} else {
				src = []ssa.Value{strip(res)}
			}
			if len(src) != 1 {
				return false
			}
			ex, ok := src[0].(*ssa.Extract)
			if !ok || ex.Tuple != ssa.Value(call) || ex.Index != k {
				return false
			}
		}
	}
	return true
}

// resultVars: the variables receiving the three results of a call (cells when stored, else the extracts).
func resultVars(p *Program, call *ssa.Call) []Var {
	vars := make([]Var, 3)
	for _, r := range referrers(call) {
		ex, ok := r.(*ssa.Extract)
		if !ok || ex.Index >= 3 {
			continue
		}
		v := Var{Val: ex}
		for _, rr := range referrers(ex) {
			if st, ok := rr.(*ssa.Store); ok && st.Val == ssa.Value(ex) {
				if cv, ok := p.varOfStoreTarget(st.Addr); ok {
					v = cv
				}
			}
		}
		vars[ex.Index] = v
	}
	return vars
}
