package main

import (
	"go/token"
	"go/types"
	"sort"
	"strings"

	"golang.org/x/tools/go/ssa"
)

// Derived copies of the registration state (C11.l = C02.o). The authoritative state is WebService.routes and
// Container.webServices. A second place that holds routes or services (a snapshot field, an atomic.Value or sync.Map
// that is given a []Route) and is read on the request path answers requests from what was registered when it was
// filled. It agrees with a freshly built container only if every function that changes the authoritative field
// also writes the copy (clears, replaces) on the same paths, or stamps a version field that every reader of the
// copy compares. A check of the copy against the length of the list is not such a stamp: RemoveRoute followed by
// Route leaves the length unchanged.

type stateLoc struct {
	f *types.Var
	g *ssa.Global
}

func (l stateLoc) name() string {
	if l.f != nil {
		return l.f.Name()
	}
	return l.g.Name()
}

func locOfAddr(v ssa.Value) (stateLoc, bool) {
	switch x := v.(type) {
	case *ssa.FieldAddr:
		return stateLoc{f: fieldOfAddr(x)}, true
	case *ssa.Global:
		return stateLoc{g: x}, true
	}
	return stateLoc{}, false
}

func carriesRegistration(t types.Type, depth int) bool {
	if depth > 3 {
		return false
	}
	switch u := t.Underlying().(type) {
	case *types.Slice:
		return isRegElem(u.Elem()) || carriesRegistration(u.Elem(), depth+1)
	case *types.Array:
		return isRegElem(u.Elem()) || carriesRegistration(u.Elem(), depth+1)
	case *types.Map:
		return isRegElem(u.Elem()) || carriesRegistration(u.Elem(), depth+1)
	case *types.Pointer:
		return carriesRegistration(u.Elem(), depth+1)
	}
	return false
}

func isRegElem(t types.Type) bool {
	if pt, ok := t.Underlying().(*types.Pointer); ok {
		t = pt.Elem()
	}
	return isRestfulNamed(t, "Route") || isRestfulNamed(t, "WebService")
}

type locWrite struct {
	fn  *ssa.Function
	at  ssa.Instruction
	val ssa.Value // nil for a method call on the location
}

// writesAndReads of shared locations (fields of module structs, package variables).
func (p *Program) locWritesReads() (writes map[stateLoc][]locWrite, reads map[stateLoc][]ssa.Instruction) {
	writes = map[stateLoc][]locWrite{}
	reads = map[stateLoc][]ssa.Instruction{}
	for _, fn := range p.SrcFunc {
		if fn.Name() == "init" {
			continue
		}
		eachInstr(fn, func(i ssa.Instruction) {
			switch x := i.(type) {
			case *ssa.Store:
				if l, ok := locOfAddr(x.Addr); ok {
					if fa, isFA := x.Addr.(*ssa.FieldAddr); isFA && p.freshBase(fa) {
						return // initialising an object nobody else sees yet
					}
					writes[l] = append(writes[l], locWrite{fn, i, x.Val})
				}
			case *ssa.UnOp:
				if x.Op == token.MUL {
					if l, ok := locOfAddr(x.X); ok {
						reads[l] = append(reads[l], i)
					}
				}
			case *ssa.MapUpdate:
				if u, ok := x.Map.(*ssa.UnOp); ok {
					if l, ok := locOfAddr(u.X); ok {
						writes[l] = append(writes[l], locWrite{fn, i, x.Value})
					}
				}
			}
			if cc := callCommon(i); cc != nil && !cc.IsInvoke() && len(cc.Args) > 0 {
				// a method of a container type (atomic.Value, sync.Map) called on the location itself
				if l, ok := locOfAddr(cc.Args[0]); ok {
					n := calleeName(cc)
					if strings.HasPrefix(n, "(*sync") {
						m := n[strings.LastIndex(n, ".")+1:]
						switch m {
						case "Load", "Range":
							reads[l] = append(reads[l], i)
						case "Store", "Swap", "CompareAndSwap", "Delete", "LoadAndDelete", "LoadOrStore", "Clear":
							var val ssa.Value
							if len(cc.Args) > 1 {
								val = cc.Args[len(cc.Args)-1]
							}
							writes[l] = append(writes[l], locWrite{fn, i, val})
							if m == "LoadOrStore" || m == "LoadAndDelete" || m == "Swap" {
								reads[l] = append(reads[l], i)
							}
						}
					}
				}
			}
		})
	}
	return
}

type derivedCheck struct {
	d, a    stateLoc
	m       locWrite
	follows bool
}

type derivedInfo struct {
	noAuth   bool
	derived  []stateLoc
	unread   map[stateLoc]bool
	checks   []derivedCheck
	inStepBy map[stateLoc]bool // every mutator of the source keeps this copy in step
}

var derivedCache = map[*Program]*derivedInfo{}

func (p *Program) derivedState() *derivedInfo {
	if di, ok := derivedCache[p]; ok {
		return di
	}
	di := &derivedInfo{unread: map[stateLoc]bool{}, inStepBy: map[stateLoc]bool{}}
	derivedCache[p] = di
	writes, reads := p.locWritesReads()
	// authoritative fields
	auth := map[stateLoc]bool{}
	for l := range writes {
		if l.f != nil && ((l.f.Name() == "routes" && fieldOwnerIs(p, l.f, "WebService")) || (l.f.Name() == "webServices" && fieldOwnerIs(p, l.f, "Container"))) {
			auth[l] = true
		}
	}
	if len(auth) == 0 {
		di.noAuth = true
		return di
	}
	onReq := map[*ssa.Function]bool{}
	for _, fn := range p.requestPathFuncs() {
		onReq[fn] = true
	}
	// derived copies: shared locations that are given a value carrying routes or services
	for l, ws := range writes {
		if auth[l] {
			continue
		}
		if l.f != nil && !p.sharedOwner(l.f) {
			continue
		}
		is := false
		for _, w := range ws {
			if w.val != nil && carriesRegistration(strip(w.val).Type(), 0) {
				is = true
			}
		}
		if l.f != nil && carriesRegistration(l.f.Type(), 0) {
			is = true
		}
		if is {
			di.derived = append(di.derived, l)
		}
	}
	sort.Slice(di.derived, func(i, j int) bool { return di.derived[i].name() < di.derived[j].name() })
	for _, d := range di.derived {
		readOnReq := false
		var readers []*ssa.Function
		for _, r := range reads[d] {
			if onReq[r.Parent()] || onReq[topFunc(r.Parent())] {
				readOnReq = true
			}
			readers = append(readers, r.Parent())
		}
		if !readOnReq {
			di.unread[d] = true
			continue
		}
		di.inStepBy[d] = true
		nchecks := 0
		// which authoritative field is it a copy of: the one whose element type it carries
		for a := range auth {
			elemA := "Route"
			if a.f.Name() == "webServices" {
				elemA = "WebService"
			}
			carries := false
			for _, w := range writes[d] {
				if w.val != nil && strings.Contains(strip(w.val).Type().String(), "."+elemA) {
					carries = true
				}
			}
			if d.f != nil && strings.Contains(d.f.Type().String(), "."+elemA) {
				carries = true
			}
			if !carries {
				continue
			}
			for _, m := range writes[a] {
				follows := false
				for _, w := range writes[d] {
					if w.fn == m.fn && alwaysTogether(m.at, w.at) {
						follows = true
					}
				}
				// ... or calls, on the same paths, a module function that writes the copy on all of its paths; a call
				// deferred before the change runs after it on every exit
				if !follows {
					eachInstr(m.fn, func(i ssa.Instruction) {
						cc := callCommon(i)
						if cc == nil || follows {
							return
						}
						g := cc.StaticCallee()
						if g == nil || !p.inModule(g) || g.Blocks == nil || !alwaysWrites(g, writes[d], 0) {
							return
						}
						switch i.(type) {
						case *ssa.Defer:
							if instrDominates(i, m.at) {
								follows = true
							}
						case *ssa.Call:
							if alwaysTogether(m.at, i) {
								follows = true
							}
						}
					})
				}
				// a version stamp: the mutator writes another field on the same paths and every reader of the copy compares it
				if !follows {
					for v, vs := range writes {
						if v == a || v == d || auth[v] {
							continue
						}
						stamped := false
						for _, w := range vs {
							if w.fn == m.fn && alwaysTogether(m.at, w.at) {
								stamped = true
							}
						}
						if !stamped {
							continue
						}
						all := len(readers) > 0
						for _, rf := range readers {
							compares := false
							eachInstr(rf, func(i ssa.Instruction) {
								bo, ok := i.(*ssa.BinOp)
								if !ok || (bo.Op != token.EQL && bo.Op != token.NEQ) {
									return
								}
								for _, o := range []ssa.Value{bo.X, bo.Y} {
									if u, ok := strip(o).(*ssa.UnOp); ok {
										if l, ok := locOfAddr(u.X); ok && l == v {
											compares = true
										}
									}
								}
							})
							if !compares {
								all = false
							}
						}
						if all {
							follows = true
						}
					}
				}
				nchecks++
				if !follows {
					di.inStepBy[d] = false
				}
				di.checks = append(di.checks, derivedCheck{d, a, m, follows})
			}
		}
		if nchecks == 0 {
			di.inStepBy[d] = false
		}
	}
	return di
}

// alwaysWrites: every path through g executes one of the writes (directly, or through a module callee: one level).
func alwaysWrites(g *ssa.Function, ws []locWrite, depth int) bool {
	var stops []ssa.Instruction
	for _, w := range ws {
		if w.fn == g {
			stops = append(stops, w.at)
		}
	}
	if depth < 1 {
		eachInstr(g, func(i ssa.Instruction) {
			if call, ok := i.(*ssa.Call); ok {
				if h := call.Call.StaticCallee(); h != nil && h != g && h.Blocks != nil && alwaysWrites(h, ws, depth+1) {
					stops = append(stops, i)
				}
			}
		})
	}
	if len(stops) == 0 || len(g.Blocks) == 0 || len(g.Blocks[0].Instrs) == 0 {
		return false
	}
	first := g.Blocks[0].Instrs[0]
	for _, st := range stops {
		if st == first {
			return true
		}
	}
	for _, r := range returnsOf(g) {
		if r.Block().Comment == "recover" {
			continue
		}
		if canReachAvoiding(first, r, stops) {
			return false
		}
	}
	return true
}

func ruleDerivedRegistrationState(c *Ctx) {
	p := c.P
	di := p.derivedState()
	if di.noAuth {
		c.undecided("-", "authoritative registration fields", "-", "no store to WebService.routes / Container.webServices found")
		return
	}
	if len(di.derived) == 0 {
		c.triv("-", "derived copies of the registration state follow every change", "-", "routes and services are held in WebService.routes / Container.webServices only")
		return
	}
	for _, d := range di.derived {
		if di.unread[d] {
			c.note("-", "derived copy "+d.name(), "-", "not read on the request path")
		}
	}
	for _, k := range di.checks {
		name := p.fname(k.m.fn)
		construct := "the copy of " + k.a.f.Name() + " in " + k.d.name() + " is written wherever " + k.a.f.Name() + " changes"
		c.check(k.follows, name, construct, p.ipos(k.m.at),
			"the function writes the copy (or a version stamp its readers compare) on the same paths as the list",
			k.a.f.Name()+" is changed here but "+k.d.name()+", which holds a copy that requests are answered from, is left as it was: after this call the container answers from routes/services that are no longer (or not yet) registered, unlike a freshly built one")
	}
}

// requestIndependent: the value (and, for a container built in this function, what is stored into it) is computed
// from the receiver's state, constants and fresh allocations only: no other parameter, captured variable, package
// variable or call result flows into it.
func (p *Program) requestIndependent(v ssa.Value) bool {
	seen := map[ssa.Value]bool{}
	ok := true
	var visit func(x ssa.Value, depth int)
	visit = func(x ssa.Value, depth int) {
		if x == nil || seen[x] || !ok {
			return
		}
		seen[x] = true
		if depth > 40 {
			ok = false
			return
		}
		switch y := x.(type) {
		case *ssa.Const:
		case *ssa.Parameter:
			fn := y.Parent()
			if fn.Signature.Recv() == nil || len(fn.Params) == 0 || fn.Params[0] != y {
				ok = false
			}
		case *ssa.Alloc, *ssa.MakeSlice, *ssa.MakeMap:
			// what is stored into the container
			var ops []*ssa.Value
			for _, op := range x.(ssa.Instruction).Operands(ops) {
				visit(*op, depth+1)
			}
			for _, r := range referrers(x) {
				switch z := r.(type) {
				case *ssa.IndexAddr:
					for _, rr := range referrers(z) {
						if st, isSt := rr.(*ssa.Store); isSt && st.Addr == ssa.Value(z) {
							visit(st.Val, depth+1)
						}
					}
				case *ssa.Store:
					if z.Addr == x {
						visit(z.Val, depth+1)
					}
				case *ssa.MapUpdate:
					visit(z.Key, depth+1)
					visit(z.Value, depth+1)
				case *ssa.Slice:
					for _, rr := range referrers(z) {
						if call, isCall := rr.(*ssa.Call); isCall && isBuiltinCall(call, "copy") && call.Call.Args[0] == ssa.Value(z) {
							visit(call.Call.Args[1], depth+1)
						}
					}
				}
			}
		case *ssa.Call:
			if b, isB := y.Call.Value.(*ssa.Builtin); isB {
				switch b.Name() {
				case "len", "cap", "append", "min", "max":
					for _, a := range y.Call.Args {
						visit(a, depth+1)
					}
					return
				}
			}
			ok = false
		case *ssa.FreeVar, *ssa.Global, *ssa.Extract, *ssa.Next, *ssa.Lookup, *ssa.TypeAssert:
			ok = false
		case ssa.Instruction:
			var ops []*ssa.Value
			for _, op := range y.Operands(ops) {
				visit(*op, depth+1)
			}
		default:
			ok = false
		}
	}
	visit(v, 0)
	return ok
}

// keptCopyWrite: the write at `addr` with value val is a write of a derived copy of the registration state that
// every mutator keeps in step and whose content does not depend on the request. Such a write, made while serving a
// request, is not a trace of that request.
func (p *Program) keptCopyWrite(addr, val ssa.Value) bool {
	l, ok := locOfAddr(addr)
	if !ok {
		return false
	}
	di := p.derivedState()
	if !di.inStepBy[l] {
		return false
	}
	return val == nil || isNilConst(val) || p.requestIndependent(val)
}

func fieldOwnerIs(p *Program, f *types.Var, owner string) bool {
	nt := p.namedType(owner)
	if nt == nil {
		return false
	}
	st, ok := nt.Underlying().(*types.Struct)
	if !ok {
		return false
	}
	for i := 0; i < st.NumFields(); i++ {
		if st.Field(i) == f {
			return true
		}
	}
	return false
}

// sharedOwner: the field belongs to a module struct type that outlives a request (WebService, Container, Route,
// RouteBuilder and other package-level configuration), not to the per-request Request/Response.
func (p *Program) sharedOwner(f *types.Var) bool {
	for _, n := range []string{"Request", "Response"} {
		if fieldOwnerIs(p, f, n) {
			return false
		}
	}
	return f.Pkg() != nil && f.Pkg().Path() == modulePath
}

// pureMemoUpdate: m[k] = v where v is computed from k alone by deterministic library functions (a compiled regular
// expression remembered under its source text, a parsed value under its spelling). What such a table holds for a key
// never changes and does not depend on which request filled it: it is not a trace of a request.
var pureLibraryPrefixes = []string{"regexp.Compile", "regexp.MustCompile", "regexp.QuoteMeta", "strings.", "strconv.", "path.", "mime.ParseMediaType", "net/url.Parse", "net/url.PathEscape", "net/url.QueryEscape", "unicode.", "unicode/utf8.", "bytes.", "sort.SearchStrings", "net/textproto.CanonicalMIMEHeaderKey", "net/http.CanonicalHeaderKey"}

func (p *Program) pureMemoUpdate(mu *ssa.MapUpdate) bool {
	return p.pureFunctionOf(mu.Key, mu.Value)
}

// pureSyncMap: m is a package-level sync.Map every Store/LoadOrStore of which, anywhere in the module, stores a
// pure function of the key (a memo table: compiled expressions by their source). Nothing deletes from it.
func (p *Program) pureSyncMap(m ssa.Value) bool {
	g, ok := strip(m).(*ssa.Global)
	if !ok {
		return false
	}
	stores := 0
	pure := true
	for _, fn := range p.SrcFunc {
		eachInstr(fn, func(i ssa.Instruction) {
			cc := callCommon(i)
			if cc == nil || len(cc.Args) == 0 || strip(cc.Args[0]) != ssa.Value(g) {
				return
			}
			switch calleeName(cc) {
			case "(*sync.Map).Store", "(*sync.Map).LoadOrStore":
				stores++
				if len(cc.Args) < 3 || !p.pureFunctionOf(cc.Args[1], cc.Args[2]) {
					pure = false
				}
			case "(*sync.Map).Load", "(*sync.Map).Range":
			default:
				pure = false // Delete, Swap, CompareAndSwap ...: not a memo
			}
		})
	}
	return stores > 0 && pure
}

// pureFunctionOf: value is computed from key alone, by pure library functions.
func (p *Program) pureFunctionOf(keyV, value ssa.Value) bool {
	key := strip(keyV)
	seen := map[ssa.Value]bool{}
	ok := true
	var visit func(x ssa.Value, depth int)
	visit = func(x ssa.Value, depth int) {
		if x == nil || !ok {
			return
		}
		x = strip(x)
		if seen[x] {
			return
		}
		seen[x] = true
		if x == key || p.sameVar(x, key) {
			return
		}
		if depth > 30 {
			ok = false
			return
		}
		switch y := x.(type) {
		case *ssa.Const:
		case *ssa.Phi:
			for _, e := range y.Edges {
				visit(e, depth+1)
			}
		case *ssa.Extract:
			visit(y.Tuple, depth+1)
		case *ssa.Call:
			n := calleeName(&y.Call)
			pure := false
			for _, pre := range pureLibraryPrefixes {
				if strings.HasPrefix(n, pre) {
					pure = true
				}
			}
			if !pure {
				ok = false
				return
			}
			for _, a := range y.Call.Args {
				visit(a, depth+1)
			}
		case *ssa.UnOp:
			if y.Op == token.MUL {
				a, isA := y.X.(*ssa.Alloc)
				if !isA {
					ok = false
					return
				}
				for _, st := range p.cellStores(a) {
					visit(st.Val, depth+1)
				}
				return
			}
			visit(y.X, depth+1)
		case *ssa.BinOp:
			visit(y.X, depth+1)
			visit(y.Y, depth+1)
		case *ssa.Convert:
			visit(y.X, depth+1)
		case *ssa.Slice:
			visit(y.X, depth+1)
			visit(y.Low, depth+1)
			visit(y.High, depth+1)
		default:
			ok = false
		}
	}
	visit(value, 0)
	return ok
}
