package main

import (
	"go/token"
	"go/types"
	"sort"
	"strings"

	"golang.org/x/tools/go/ssa"
)

func init() {
	register(&Property{
		ID:    "C19",
		Title: "Serving a request is a pure function of configuration and request",
		Decided: "C19.a no function on the request path stores, map-updates, appends in place or copies into a shared object (Container, WebService, Route, CORS configuration, ...), a package-level variable or a variable captured from configuration-time code, unless the base is a request-local copy; " +
			"C19.b NewRequest/NewResponse build fresh objects with fresh maps and no per-request object (Request, Response, FilterChain, their maps) is ever stored into a shared-type field or a global; C19.c selected routes are per-request copies; " +
			"C19.d everything controlled by the trace flag only logs (no return, no store, nothing computed there is used afterwards); C19.e no result-affecting nondeterminism source on the request path (map iteration order, multi-way select, time, math/rand); " +
			"C19.f the package-level configuration variables read on the request path are written only by configuration code. C19.g = C13.a (pooled objects are used exclusively between acquire and release). C19.h = C16.g (pooled byte containers are empty on reuse). C19.i a struct of the module that goes through a sync.Pool has every field overwritten before each Put or after each Get. C19.j every call through traceLogger is controlled by the trace flag. C19.k = C04.b (a parameter map is made per call).",
		NotDecided:  "byte-equality of responses (a runtime comparison); races inside user callbacks; net/http's own state; caches inside the compressor providers (their content is unobservable given C13.b).",
		Assumptions: []string{"objects of external types reached on the request path (http.Request, bytes.Buffer, http.Header of this request/response) are per request"},
		Rules: []Rule{
			{ID: "C19.a", Template: "T-EFFECT", Required: true,
				Doc: "Every Store, MapUpdate, in-place append, copy destination and in-place sort in a request-path function has a request-local base: a local variable, a request-scoped object, a fresh allocation, or a parameter every in-package caller binds to such. A write to shared state is a hidden channel between requests (a cached chain, cached allowed methods, a reused parameter map), invisible to a suite that sends one request per container.",
				Run: ruleC19a},
			{ID: "C19.b", Template: "T-FRESH", Required: true,
				Doc: "NewRequest/NewResponse return newly allocated objects with newly allocated maps/slices, and no value of type Request/Response/FilterChain (or pointer to one) is stored into a field of a shared type, a global, or a variable captured from configuration-time code.",
				Run: ruleC19b},
			{ID: "C19.c", Template: "T-FRESH", Required: true,
				Doc: "Candidate routes are copied per request before a pointer to one is handed out (same obligation as C12.c): path parameters and the selected route of one request can then not be seen through another's pointer.",
				Run: ruleC12c},
			{ID: "C19.d", Template: "T-GUARD", Required: true,
				Doc: "Every region controlled by the package-level trace flag contains only loads, argument construction and logging calls; it neither returns nor stores to non-local memory, and no value computed there is used after the region. Otherwise switching tracing on changes responses.",
				Run: ruleC19d},
			{ID: "C19.e", Template: "T-DETERMINISM", Required: true,
				Doc: "On the request path there is no result-affecting early exit or last-writer-wins assignment in a range over a map (unless it selects an extremum under a strict total order on the keys), no select with more than one communication case, and no call into time or math/rand that feeds a result.",
				Run: ruleC19e},
			{ID: "C19.f", Template: "T-OWN", Required: true,
				Doc: "Package-level variables read on the request path (trace, traceLogger, default MIME types, the compressor provider, the accessor registry, encoder hooks, DefaultContainer, the logger) have no store reachable from a request root: they are configuration, not per-request state.",
				Run: ruleC19f},
			{ID: "C19.h", Template: "T-FRESH", Required: true, Run: rulePooledBytesClean,
				Doc: "No request leaves bytes behind for the next: pooled byte containers are emptied before Put or after Get (same obligations as C16.g)."},
			{ID: "C19.l", Template: "T-FRESH", Required: true, Run: ruleC06c,
				Doc: "A FilterChain is an object of one request (same obligations as C06.c): the effect rules treat stores into a FilterChain as request-local, which holds only while every chain is a local object of the function that builds it. A chain composed once at Build time and shared by all requests of the route makes its Index a counter two requests in flight both advance."},
			{ID: "C19.k", Template: "T-FRESH", Required: true, Run: ruleC04b,
				Doc: "The path parameter map a request gets is made for that request (same obligations as C04.b): a package-level 'empty' map handed to every request of a parameter-less route carries what one request's filter or function wrote into it over to the next."},
			{ID: "C19.j", Template: "T-GUARD", Required: true, Run: ruleTraceLoggerGuarded,
				Doc: "'Whether or not trace logging is enabled': every call through the package-level traceLogger is controlled by the trace flag. TraceLogger(nil) stores a nil logger and switches the flag off; an unguarded call is then a call on a nil interface (and with the default logger it logs although tracing is off)."},
			{ID: "C19.i", Template: "T-FRESH", Required: true, Run: rulePooledStructsReset,
				Doc: "A struct of the module that is recycled through a sync.Pool (a pooled *Request, *Response, FilterChain) has every field overwritten before each Put or after each Get: a field nobody resets (the attributes map of a pooled Request) is what the previous request left and is read by the next."},
			{ID: "C19.g", Template: "T-TYPESTATE", Required: true,
				Doc: "Objects shared between requests through a pool (compressors, decompressors) are used exclusively between acquire and release, released once, and not used afterwards (same obligations as C13.a): otherwise one request's output or input is another's.",
				Run: ruleC13a},
		},
	})
}

func ruleC19a(c *Ctx) { effectRule(c, c.P.requestPathFuncs()) }

// effectRule decides T-EFFECT for the given functions.
func effectRule(c *Ctx, fns []*ssa.Function) {
	p := c.P
	e := newEffectCtx(p)
	nfn := 0
	for _, fn := range fns {
		nfn++
		name := p.fname(fn)
		eachInstr(fn, func(i ssa.Instruction) {
			switch x := i.(type) {
			case *ssa.Store:
				if _, isAlloc := x.Addr.(*ssa.Alloc); isAlloc {
					c.count("stores_to_locals", 1)
					return
				}
				r := e.classifyAddr(x.Addr, 0)
				construct := "store through " + addrDesc(x.Addr)
				if !r.OK && p.keptCopyWrite(x.Addr, x.Val) {
					r = effectVerdict{true, "a copy of the registration state that every function changing the registration keeps in step (C11.l) and whose content is computed from that state alone: it says nothing about this request"}
				}
				if r.OK {
					c.ok(name, construct, p.ipos(i), r.Why)
				} else {
					c.bad(name, construct, p.ipos(i), "request-path code writes to "+r.Why+": state that outlives the request and is visible to other requests")
				}
			case *ssa.MapUpdate:
				r := e.classifyMap(x.Map, 0)
				construct := "map update of " + valueDesc(p, x.Map)
				if !r.OK && p.pureMemoUpdate(x) {
					r = effectVerdict{true, "a table that remembers, under its complete input, the result of deterministic library functions: what it holds for a key does not depend on the request that filled it"}
				}
				if r.OK {
					c.ok(name, construct, p.ipos(i), r.Why)
				} else {
					c.bad(name, construct, p.ipos(i), "request-path code updates "+r.Why)
				}
			case *ssa.Send:
				// channels are the providers' cache; anything else is a hidden channel between requests
				if recvTypeName(topFunc(fn)) == "BoundedCachedCompressors" {
					c.triv(name, "channel send in a compressor provider", p.ipos(i), "frozen exemption: the provider's pool is a cache whose content is unobservable given Reset-before-use (C13.b)")
				} else {
					c.bad(name, "channel send", p.ipos(i), "request-path code sends on a channel outside the compressor providers")
				}
			}
			cc := callCommon(i)
			if cc == nil {
				return
			}
			if b, ok := cc.Value.(*ssa.Builtin); ok {
				switch b.Name() {
				case "append":
					r := e.classifySlice(cc.Args[0], 0)
					construct := "append onto " + valueDesc(p, cc.Args[0])
					if r.OK {
						c.ok(name, construct, p.ipos(i), r.Why)
					} else {
						c.bad(name, construct, p.ipos(i), "append may write into the spare capacity of a shared backing array: "+r.Why)
					}
				case "copy":
					r := e.classifySlice(cc.Args[0], 0)
					if r.OK {
						c.ok(name, "copy into "+valueDesc(p, cc.Args[0]), p.ipos(i), r.Why)
					} else {
						c.bad(name, "copy into "+valueDesc(p, cc.Args[0]), p.ipos(i), r.Why)
					}
				case "delete":
					r := e.classifyMap(cc.Args[0], 0)
					if r.OK {
						c.ok(name, "delete from "+valueDesc(p, cc.Args[0]), p.ipos(i), r.Why)
					} else {
						c.bad(name, "delete from "+valueDesc(p, cc.Args[0]), p.ipos(i), r.Why)
					}
				}
				return
			}
			switch calleeName(cc) {
			case "sort.Sort", "sort.Stable", "sort.Slice", "sort.SliceStable", "sort.Strings", "sort.Ints":
				// in-place reordering of the argument
				arg := cc.Args[0]
				if call, ok := strip(arg).(*ssa.Call); ok && calleeName(&call.Call) == "sort.Reverse" {
					arg = call.Call.Args[0]
				}
				ok, why := sortTargetLocal(p, e, arg)
				if ok {
					c.ok(name, shortCallee(cc)+" of "+valueDesc(p, strip(arg)), p.ipos(i), why)
				} else {
					c.bad(name, shortCallee(cc)+" of "+valueDesc(p, strip(arg)), p.ipos(i), "in-place sort of shared storage: "+why)
				}
			case "(*sync.Map).Store", "(*sync.Map).LoadOrStore", "(*sync.Map).Delete", "(*sync/atomic.Value).Store":
				if calleeName(cc) == "(*sync/atomic.Value).Store" && p.keptCopyWrite(cc.Args[0], cc.Args[1]) {
					c.ok(name, shortCallee(cc), p.ipos(i), "a copy of the registration state that every function changing the registration keeps in step (C11.l), computed from that state alone")
					return
				}
				if strings.HasPrefix(calleeName(cc), "(*sync.Map).") && p.pureSyncMap(cc.Args[0]) {
					c.ok(name, shortCallee(cc), p.ipos(i), "a package-level memo table: every entry is a pure function of its key, nothing is deleted; a second computation stores an equal value")
					return
				}
				c.bad(name, shortCallee(cc), p.ipos(i), "request-path code writes a synchronised cache: state shared between requests")
			}
		})
	}
	c.count("request_path_functions", nfn)
}

// sortTargetLocal: the collection handed to sort.* is allocated in this activation.
func sortTargetLocal(p *Program, e *effectCtx, arg ssa.Value) (bool, string) {
	arg = strip(arg)
	t := arg.Type()
	if _, isSlice := t.Underlying().(*types.Slice); isSlice {
		r := e.classifySlice(arg, 0)
		return r.OK, r.Why
	}
	if _, isPtr := t.Underlying().(*types.Pointer); isPtr {
		if p.isFreshObject(arg) {
			return true, "collection object allocated in this activation"
		}
		r := e.classifyObject(arg, 0)
		return r.OK, r.Why
	}
	return true, "value copy"
}

func addrDesc(a ssa.Value) string {
	switch x := a.(type) {
	case *ssa.FieldAddr:
		return "field " + ownerOfFieldAddr(x) + "." + fieldOfAddr(x).Name()
	case *ssa.IndexAddr:
		return "element of " + typeShort(x.X.Type())
	case *ssa.FreeVar:
		return "captured variable " + x.Name()
	case *ssa.Global:
		return "global " + x.Name()
	case *ssa.Parameter:
		return "pointer parameter " + x.Name()
	}
	return typeShort(a.Type())
}

func valueDesc(p *Program, v ssa.Value) string {
	v = strip(v)
	if b, f, ok := fieldLoad(v); ok {
		return fieldKey(b, f)
	}
	switch x := v.(type) {
	case *ssa.Parameter:
		return "parameter " + x.Name()
	case *ssa.Global:
		return "global " + x.Name()
	case *ssa.UnOp:
		if g, ok := x.X.(*ssa.Global); ok {
			return "global " + g.Name()
		}
		if roots := p.cellRoots(x.X); len(roots) > 0 {
			return "local " + roots[0].Comment
		}
	case *ssa.Phi:
		if x.Comment != "" {
			return "local " + x.Comment
		}
	}
	return "a " + typeShort(v.Type())
}

// ---------------------------------------------------------------------------

func ruleC19b(c *Ctx) {
	p := c.P
	e := newEffectCtx(p)
	// constructors
	for _, cn := range []string{"NewRequest", "NewResponse"} {
		fn := p.fn(cn)
		if fn == nil {
			c.bad("-", "constructor "+cn, "-", "not found")
			continue
		}
		okAll := true
		why := ""
		for _, r := range returnsOf(fn) {
			for _, s := range p.sources(r.Results[0], provDefault) {
				a, ok := s.(*ssa.Alloc)
				if !ok || !a.Heap {
					okAll, why = false, "returns "+s.String()+", not a new object"
				}
			}
		}
		// maps and slices stored into the new object are fresh
		eachInstr(fn, func(i ssa.Instruction) {
			st, ok := i.(*ssa.Store)
			if !ok {
				return
			}
			fa, ok := st.Addr.(*ssa.FieldAddr)
			if !ok {
				return
			}
			switch st.Val.Type().Underlying().(type) {
			case *types.Map:
				if _, ok := strip(st.Val).(*ssa.MakeMap); !ok {
					okAll, why = false, "field "+fieldOfAddr(fa).Name()+" is not initialised with a new map"
				}
			}
		})
		c.check(okAll, cn, "fresh wrapper", p.pos(fn.Pos()), "returns a newly allocated object whose maps are newly made", why)
	}
	// no per-request object is parked in shared state, anywhere in the package
	perRequest := func(t types.Type) bool {
		n := namedOf(t)
		if n == nil || n.Obj().Pkg() != p.Restful.Pkg {
			return false
		}
		switch n.Obj().Name() {
		case "Request", "Response", "FilterChain", "CompressingResponseWriter":
			return true
		}
		return false
	}
	nchecked := 0
	for _, fn := range p.SrcFunc {
		name := p.fname(fn)
		eachInstr(fn, func(i ssa.Instruction) {
			var val, addr ssa.Value
			switch x := i.(type) {
			case *ssa.Store:
				val, addr = x.Val, x.Addr
			case *ssa.MapUpdate:
				if perRequest(x.Value.Type()) {
					nchecked++
					r := e.classifyMap(x.Map, 0)
					c.check(r.OK, name, "per-request object put into a map", p.ipos(i), r.Why, "a "+typeShort(x.Value.Type())+" is parked in "+r.Why)
				}
				return
			case *ssa.Send:
				if perRequest(x.X.Type()) {
					nchecked++
					c.bad(name, "per-request object sent on a channel", p.ipos(i), "a "+typeShort(x.X.Type())+" leaves the request")
				}
				return
			default:
				return
			}
			if !perRequest(val.Type()) {
				// maps of a request (path parameters, attributes)
				if _, isMap := val.Type().Underlying().(*types.Map); !isMap {
					return
				}
				fromReq := false
				for _, s := range p.sources(val, provDefault) {
					if b, _, ok := fieldLoad(s); ok && perRequest(b.Type()) {
						fromReq = true
					}
				}
				if !fromReq {
					return
				}
			}
			if _, isAlloc := addr.(*ssa.Alloc); isAlloc {
				return
			}
			nchecked++
			r := e.classifyAddr(addr, 0)
			c.check(r.OK, name, "per-request object stored through "+addrDesc(addr), p.ipos(i), r.Why,
				"a "+typeShort(val.Type())+" is stored into "+r.Why+": a later or concurrent request can reach it")
		})
	}
	c.count("per_request_stores_examined", nchecked)
}

// ---------------------------------------------------------------------------

func isLoadOfGlobal(v ssa.Value, name string) bool {
	u, ok := strip(v).(*ssa.UnOp)
	if !ok || u.Op != token.MUL {
		return false
	}
	g, ok := u.X.(*ssa.Global)
	return ok && g.Name() == name
}

// traceCond: cond is the trace flag, possibly negated.
func traceCond(v ssa.Value) (isTrace bool, pol bool) {
	if isLoadOfGlobal(v, "trace") {
		return true, true
	}
	if u, ok := v.(*ssa.UnOp); ok && u.Op == token.NOT {
		if t, pl := traceCond(u.X); t {
			return true, !pl
		}
	}
	return false, false
}

var pureCalls = map[string]bool{
	"fmt.Sprintf": true, "fmt.Sprint": true, "strings.Join": true, "builtin.len": true, "builtin.cap": true,
	"strconv.Itoa": true, "fmt.Sprintln": true, "builtin.min": true, "builtin.max": true,
	// read-only accessors of the request
	"(net/http.Header).Get": true, "(net/http.Header).Values": true, "(*net/url.URL).String": true, "(*net/url.URL).EscapedPath": true,
	"(*net/url.URL).Query": true, "(net/url.Values).Get": true, "(*net/http.Request).UserAgent": true, "(*net/http.Request).Referer": true,
	"strings.Repeat": true, "strings.ToLower": true, "strings.ToUpper": true, "strings.TrimSpace": true, "strings.Trim": true, "strings.Split": true,
	"strings.Contains": true, "strings.HasPrefix": true, "strings.HasSuffix": true, "strings.Index": true, "strconv.Quote": true, "strconv.FormatInt": true,
	"time.Now": true, "time.Since": true, "(time.Time).Sub": true, "(time.Duration).String": true,
}

// inTraceRegion: b is only reached through the "tracing is on" edge of a test of the trace flag.
func inTraceRegion(b *ssa.BasicBlock) bool {
	for d := b.Idom(); d != nil; d = d.Idom() {
		iff, ok := d.Instrs[len(d.Instrs)-1].(*ssa.If)
		if !ok {
			continue
		}
		isT, pol := traceCond(iff.Cond)
		if !isT {
			continue
		}
		on := d.Succs[0]
		if !pol {
			on = d.Succs[1]
		}
		if len(on.Preds) == 1 && on.Dominates(b) {
			return true
		}
	}
	return false
}

// logOnlyClosure: the function literal only reads, formats and calls the logger. Returns the reason when it does more.
func logOnlyClosure(p *Program, cl *ssa.Function) string {
	local := map[ssa.Value]bool{}
	eachInstr(cl, func(i ssa.Instruction) {
		if a, ok := i.(*ssa.Alloc); ok {
			local[a] = true
		}
	})
	bad := ""
	for _, b := range cl.Blocks {
		for _, ins := range b.Instrs {
			switch y := ins.(type) {
			case *ssa.Alloc, *ssa.FieldAddr, *ssa.Field, *ssa.IndexAddr, *ssa.Index, *ssa.MakeInterface, *ssa.ChangeInterface,
				*ssa.ChangeType, *ssa.Convert, *ssa.Slice, *ssa.Extract, *ssa.BinOp, *ssa.Jump, *ssa.Phi, *ssa.DebugRef, *ssa.TypeAssert, *ssa.Lookup, *ssa.If, *ssa.Return:
			case *ssa.UnOp:
				if y.Op == token.ARROW {
					bad = "channel receive"
				}
			case *ssa.Store:
				root := y.Addr
				for {
					if ia, ok := root.(*ssa.IndexAddr); ok {
						root = ia.X
						continue
					}
					if fa, ok := root.(*ssa.FieldAddr); ok {
						root = fa.X
						continue
					}
					break
				}
				if !local[root] {
					bad = "store to memory outside the closure at " + p.ipos(ins)
				}
			case *ssa.Call:
				cn := calleeName(&y.Call)
				switch {
				case y.Call.IsInvoke() && isNamed(y.Call.Value.Type(), modulePath+"/log", "StdLogger"):
				case strings.HasPrefix(cn, modulePath+"/log."):
				case pureCalls[cn]:
				case y.Call.IsInvoke() && (y.Call.Method.Name() == "String" || y.Call.Method.Name() == "Error") && y.Call.Signature().Params().Len() == 0:
				default:
					if cal := y.Call.StaticCallee(); cal != nil && p.inModule(cal) && (isPureLogger(p, cal) || isPureFunc(p, cal, 0, map[*ssa.Function]bool{})) {
						break
					}
					bad = "call of " + shortCallee(&y.Call) + " at " + p.ipos(ins)
				}
			default:
				bad = "instruction " + ins.String() + " at " + p.ipos(ins)
			}
		}
	}
	return bad
}

func ruleC19d(c *Ctx) {
	p := c.P
	n := 0
	for _, fn := range p.SrcFunc {
		name := p.fname(fn)
		for _, b := range fn.Blocks {
			iff, ok := b.Instrs[len(b.Instrs)-1].(*ssa.If)
			if !ok {
				continue
			}
			isT, pol := traceCond(iff.Cond)
			if !isT {
				// trace may be combined: `x && trace` compiles to nested Ifs, so each If is seen separately
				continue
			}
			n++
			on := b.Succs[0]
			off := b.Succs[1]
			if !pol {
				on, off = off, on
			}
			// region: blocks dominated by the trace-on successor (it has b as its only predecessor)
			construct := "region controlled by trace"
			if len(on.Preds) != 1 {
				c.undecided(name, construct, p.ipos(iff), "the tracing branch joins other control flow; cannot delimit the region")
				continue
			}
			var region []*ssa.BasicBlock
			for _, x := range fn.Blocks {
				if on.Dominates(x) {
					region = append(region, x)
				}
			}
			bad := ""
			inRegion := map[*ssa.BasicBlock]bool{}
			for _, x := range region {
				inRegion[x] = true
			}
			localAlloc := map[ssa.Value]bool{}
			for _, x := range region {
				for _, ins := range x.Instrs {
					switch y := ins.(type) {
					case *ssa.Alloc:
						localAlloc[y] = true
					case *ssa.UnOp, *ssa.FieldAddr, *ssa.Field, *ssa.IndexAddr, *ssa.Index, *ssa.MakeInterface, *ssa.ChangeInterface,
						*ssa.ChangeType, *ssa.Convert, *ssa.Slice, *ssa.Extract, *ssa.BinOp, *ssa.Jump, *ssa.Phi, *ssa.DebugRef, *ssa.TypeAssert, *ssa.Lookup, *ssa.MakeSlice:
						if u, ok := y.(*ssa.UnOp); ok && u.Op == token.ARROW {
							bad = "channel receive"
						}
						if ta, ok := y.(*ssa.TypeAssert); ok && !ta.CommaOk {
							bad = "type assertion without comma-ok at " + p.ipos(ins) + " (panics when the type differs)"
						}
					case *ssa.If:
						// nested decisions inside a tracing region are fine as long as the rest holds
					case *ssa.Store:
						root := y.Addr
						for {
							if ia, ok := root.(*ssa.IndexAddr); ok {
								root = ia.X
								continue
							}
							if fa, ok := root.(*ssa.FieldAddr); ok {
								root = fa.X
								continue
							}
							break
						}
						if !localAlloc[root] {
							bad = "store to memory that lives outside the tracing region at " + p.ipos(ins)
						}
					case *ssa.Return, *ssa.Panic:
						bad = "the tracing region leaves the function at " + p.ipos(ins)
					case *ssa.RunDefers:
						bad = "the tracing region leaves the function at " + p.ipos(ins)
					case *ssa.MakeClosure:
						// a function literal: fine when it is only deferred (checked at the defer)
						for _, r := range referrers(y) {
							if _, isDefer := r.(*ssa.Defer); !isDefer {
								if _, isDbg := r.(*ssa.DebugRef); !isDbg {
									bad = "a function literal made under tracing is used other than by defer at " + p.ipos(ins)
								}
							}
						}
					case *ssa.Defer:
						// a deferred trace line: the closure only logs (reads, formats, calls the logger; no recover, no writes to what it captures)
						mc, isMC := y.Call.Value.(*ssa.MakeClosure)
						cl, _ := func() (*ssa.Function, bool) {
							if !isMC {
								return nil, false
							}
							f, ok := mc.Fn.(*ssa.Function)
							return f, ok
						}()
						if cl == nil || len(y.Call.Args) != 0 {
							bad = "deferred call at " + p.ipos(ins) + " is not a logging closure"
							break
						}
						if why := logOnlyClosure(p, cl); why != "" {
							bad = "the closure deferred at " + p.ipos(ins) + " does more than log: " + why
						}
					case *ssa.Call:
						cn := calleeName(&y.Call)
						switch {
						case y.Call.IsInvoke() && isNamed(y.Call.Value.Type(), modulePath+"/log", "StdLogger"):
						case strings.HasPrefix(cn, modulePath+"/log."):
						case pureCalls[cn]:
						case y.Call.IsInvoke() && (y.Call.Method.Name() == "String" || y.Call.Method.Name() == "Error") && y.Call.Signature().Params().Len() == 0:
						case (cn == "builtin.append" || cn == "builtin.copy") && newEffectCtx(p).classifySlice(y.Call.Args[0], 0).OK:
							// building the text of the message in a slice allocated for it
						default:
							if cal := y.Call.StaticCallee(); cal != nil && p.inModule(cal) && (isPureLogger(p, cal) || isPureFunc(p, cal, 0, map[*ssa.Function]bool{})) {
								break // logging, or a function that only computes a value (Len(), a String() for the message)
							}
							bad = "call of " + shortCallee(&y.Call) + " at " + p.ipos(ins) + " is not a logging call"
						}
					default:
						bad = "instruction " + ins.String() + " at " + p.ipos(ins)
					}
				}
			}
			// nothing computed in the region is used after it
			for _, x := range region {
				for _, s := range x.Succs {
					if inRegion[s] {
						continue
					}
					for _, ins := range s.Instrs {
						phi, ok := ins.(*ssa.Phi)
						if !ok {
							break
						}
						// the value arriving from the region must equal the value arriving from the trace-off edge
						var fromRegion, fromOff ssa.Value
						for k, pr := range s.Preds {
							if pr == x {
								fromRegion = phi.Edges[k]
							}
							if pr == b || (off != s && off.Dominates(pr)) {
								fromOff = phi.Edges[k]
							}
						}
						if fromRegion != nil && fromOff != nil && fromRegion != fromOff {
							bad = "variable " + phi.Comment + " has a different value after the tracing branch (phi at " + p.ipos(phi) + ")"
						}
						if fromRegion != nil {
							if vi, ok := fromRegion.(ssa.Instruction); ok && inRegion[vi.Block()] {
								bad = "a value computed under tracing is used afterwards (" + phi.Comment + ")"
							}
						}
					}
				}
				for _, ins := range x.Instrs {
					v, ok := ins.(ssa.Value)
					if !ok {
						continue
					}
					for _, r := range referrers(v) {
						if r.Block() != nil && !inRegion[r.Block()] {
							if _, isPhi := r.(*ssa.Phi); !isPhi {
								bad = "a value computed under tracing is used afterwards at " + p.ipos(r)
							}
						}
					}
				}
			}
			_ = off
			c.check(bad == "", name, construct, p.ipos(iff), "only loads, argument construction and logging ("+itoa(len(region))+" block(s)); nothing flows out", bad)
		}
	}
	c.count("trace_regions", n)
}

// isPureLogger: a module function whose body only forwards to a logger (package log helpers).
// isPureFunc: fn only computes a value from its arguments and what they point to: no store outside its own
// locals, no channel operation, no go/defer, no panic, and every call is of a function that is pure in the same
// sense (len, fmt.Sprint*, strings.*, strconv.*, other pure module functions).
func isPureFunc(p *Program, fn *ssa.Function, depth int, seen map[*ssa.Function]bool) bool {
	if fn == nil || fn.Blocks == nil || depth > 3 {
		return false
	}
	if seen[fn] {
		return true
	}
	seen[fn] = true
	local := map[ssa.Value]bool{}
	eachInstr(fn, func(i ssa.Instruction) {
		if a, ok := i.(*ssa.Alloc); ok {
			local[a] = true
		}
	})
	pure := true
	eachInstr(fn, func(i ssa.Instruction) {
		switch x := i.(type) {
		case *ssa.Store:
			root := x.Addr
			for {
				if ia, ok := root.(*ssa.IndexAddr); ok {
					root = ia.X
					continue
				}
				if fa, ok := root.(*ssa.FieldAddr); ok {
					root = fa.X
					continue
				}
				break
			}
			if !local[root] {
				pure = false
			}
		case *ssa.MapUpdate, *ssa.Send, *ssa.Go, *ssa.Defer, *ssa.Panic, *ssa.Select:
			pure = false
		case *ssa.UnOp:
			if x.Op == token.ARROW {
				pure = false
			}
		case *ssa.Call:
			if _, isB := x.Call.Value.(*ssa.Builtin); isB {
				switch x.Call.Value.Name() {
				case "len", "cap", "append", "copy", "min", "max":
				default:
					pure = false
				}
				return
			}
			cn := calleeName(&x.Call)
			switch {
			case strings.HasPrefix(cn, "fmt.Sprint"), strings.HasPrefix(cn, "strings."), strings.HasPrefix(cn, "strconv."):
			case x.Call.IsInvoke() && (x.Call.Method.Name() == "String" || x.Call.Method.Name() == "Error") && x.Call.Signature().Params().Len() == 0:
			default:
				if cal := x.Call.StaticCallee(); cal != nil && p.inModule(cal) && isPureFunc(p, cal, depth+1, seen) {
					return
				}
				pure = false
			}
		}
	})
	return pure
}

func isPureLogger(p *Program, fn *ssa.Function) bool {
	return fn.Pkg == p.Log
}

// ---------------------------------------------------------------------------

func ruleC19e(c *Ctx) {
	p := c.P
	roles := p.Roles()
	nmr := 0
	for _, mr := range p.mapRanges() {
		if mr.Fn == nil {
			c.undecided("-", "range over a map in an unresolved function", p.pos(mr.Stmt.Pos()), "cannot relate the statement to an SSA function")
			continue
		}
		if !roles.RequestPath[mr.Fn] {
			continue
		}
		nmr++
		name := p.fname(mr.Fn)
		findings, accepted := analyseMapRange(mr)
		construct := "range over " + exprString(mr.Stmt.X)
		if len(findings) == 0 {
			sort.Strings(accepted)
			c.ok(name, construct, p.pos(mr.Stmt.Pos()), "order-independent: "+strings.Join(uniq(accepted), "; "))
		}
		for _, f := range findings {
			c.bad(name, construct, p.pos(f.Pos), f.What)
		}
	}
	c.count("map_ranges_on_request_path", nmr)
	for _, fn := range p.requestPathFuncs() {
		name := p.fname(fn)
		eachInstr(fn, func(i ssa.Instruction) {
			if s, ok := i.(*ssa.Select); ok {
				if len(s.States) > 1 {
					c.bad(name, "select with "+itoa(len(s.States))+" communication cases", p.ipos(i), "when several cases are ready the runtime picks one at random")
				} else {
					c.triv(name, "select with one communication case", p.ipos(i), "no choice between ready cases")
				}
			}
			if cc := callCommon(i); cc != nil {
				n := calleeName(cc)
				if strings.HasPrefix(n, "math/rand.") || strings.HasPrefix(n, "math/rand/v2.") || strings.HasPrefix(n, "crypto/rand.") ||
					n == "time.Now" || n == "time.Since" || n == "time.Until" {
					c.bad(name, "call of "+n, p.ipos(i), "a time- or randomness-dependent value on the request path makes the response depend on more than configuration and request")
				}
			}
		})
	}
}

func uniq(in []string) []string {
	var out []string
	for i, s := range in {
		if i == 0 || s != in[i-1] {
			out = append(out, s)
		}
	}
	return out
}

// ---------------------------------------------------------------------------

func ruleC19f(c *Ctx) {
	p := c.P
	roles := p.Roles()
	read := map[*ssa.Global][]string{}
	written := map[*ssa.Global][]string{}
	for _, fn := range p.SrcFunc {
		if !roles.RequestPath[fn] {
			continue
		}
		eachInstr(fn, func(i ssa.Instruction) {
			switch x := i.(type) {
			case *ssa.UnOp:
				if g, ok := x.X.(*ssa.Global); ok && x.Op == token.MUL {
					read[g] = append(read[g], p.fname(fn))
				}
			case *ssa.Store:
				if g, ok := x.Addr.(*ssa.Global); ok {
					written[g] = append(written[g], p.fname(fn)+" at "+p.ipos(i))
				}
			}
		})
	}
	var gs []*ssa.Global
	for g := range read {
		gs = append(gs, g)
	}
	for g := range written {
		if _, ok := read[g]; !ok {
			gs = append(gs, g)
		}
	}
	sort.Slice(gs, func(i, j int) bool { return gs[i].Name() < gs[j].Name() })
	for _, g := range gs {
		if w := written[g]; len(w) > 0 {
			c.bad("-", "global "+g.Name(), p.pos(g.Pos()), "written on the request path: "+strings.Join(w, ", "))
		} else {
			c.ok("-", "global "+g.Name(), p.pos(g.Pos()), "read by "+itoa(len(read[g]))+" request-path site(s); no store reachable from a request root")
		}
	}
}
