package main

import (
	"go/token"
	"go/types"
	"strings"

	"golang.org/x/tools/go/ssa"
)

func init() {
	register(&Property{
		ID:    "C04",
		Title: "Path parameters are bound to exactly the URL text they stand for",
		Decided: "C04.a the binder used for a request is the PathProcessor of the very router that selected the route (comma-ok assertion on the same Container.router value), else the default one; it is given the selected route, the selected service and this request's URL path, and its result reaches Request.pathParameters unmodified - nothing else stores that field; " +
			"C04.b each binder returns a map made during that call; C04.c the binder rewrites or slices a URL value only under the template guards the matcher verified, a literal affix it strips is verified by the matcher, and its subtracted slice bound is guarded; C04.d a route's tokens and custom-verb flag are derived from its full path (root + route path) at build time and stored nowhere else; C04.e the JSR311 binder applies the route expression to the remainder left by the service expression, as the JSR311 selection does. C04.f = C01.g. C04.g nothing writes into the token slice of the request path after tokenisation (element store, copy, truncating append, in-place sort), in the tokenising function or in a module function the slice is handed to. C04.h a value stored in a parameter map is not cut out of the URL path string by slicing, searching or trimming it (it comes from the tokens or from a match group); C04.i a literal around a variable is cut off by position, not located by searching the request token.",
		NotDecided: "index alignment of the token walk and the round-trip law (value-level); the regular expressions; untokenizePath's join.",
		Rules: []Rule{
			{ID: "C04.a", Template: "T-PROV", Required: true, Run: ruleC04a,
				Doc: "The right binder with the right inputs. A binder cached on the container, chosen from a different router, or fed another route binds names the template does not have."},
			{ID: "C04.b", Template: "T-FRESH", Required: true, Run: ruleC04b,
				Doc: "A fresh parameter map per request (no caching on the route or the processor)."},
			{ID: "C04.c", Template: "T-SIBLING", Required: true, Run: ruleC04c,
				Doc: "Binder within the matcher's guards (same obligations as C01.d and C02.e)."},
			{ID: "C04.d", Template: "T-OWN", Required: true, Run: ruleC04d,
				Doc: "Route tokens come from the full path: pathParts/hasCustomVerb are computed from Route.Path, which Build assigns from root path + route path."},
			{ID: "C04.e", Template: "T-SIBLING", Required: true, Run: ruleC04e,
				Doc: "The JSR311 binder reads the same match the JSR311 router made: service expression on the URL path, route expression on the final group of that match."},
			{ID: "C04.i", Template: "T-NOPARTIAL", Required: false, Run: ruleAffixByPosition,
				Doc: "The literal text around a variable inside one segment is cut off by position (the template says how long it is), not by searching the request token for it: the first occurrence of the suffix is not the end of the value, the last occurrence of the prefix not its start. `{name}.js` against app.json.js must bind app.json."},
			{ID: "C04.h", Template: "T-PROV", Required: false, Run: ruleBoundFromTokens,
				Doc: "What is bound comes from the pieces the path was cut into: a value stored in a parameter map is an element of the token slice (or joined from elements) or a group of a path expression's match, never a piece of the URL path string the binder finds again by searching or slicing it. strings.Index finds the first occurrence of the text, not the segment's position."},
			{ID: "C04.g", Template: "T-OWN", Required: true, Run: ruleC04g,
				Doc: "The token slice the values are bound from is read-only after tokenisation: no element store, copy(), truncating append or in-place sort on it or a sub-slice, in the tokenising function or in a module function it is handed to (a trace helper that abbreviates tokens in place changes the bound values when tracing is on)."},
			{ID: "C04.f", Template: "T-ARGS", Required: false, SourceOnly: true, Run: ruleArgumentOrder,
				Doc: "Crossed same-typed arguments (same obligations as C01.g): the binder and its helpers take template text and URL text side by side."},
		},
	})
}

func ruleC04a(c *Ctx) {
	p := c.P
	ds, _ := findDispatchers(p)
	if len(ds) == 0 {
		c.undecided("-", "dispatching function", "-", "not found")
		return
	}
	for _, d := range ds {
		var rq *ssa.Parameter
		for _, prm := range d.Fn.Params {
			if isHTTPRequestPtr(prm.Type()) {
				rq = prm
			}
		}
		for _, fn := range withClosures(d.Fn) {
			name := p.fname(fn)
			eachInstr(fn, func(i ssa.Instruction) {
				call, ok := i.(*ssa.Call)
				if !ok || !call.Call.IsInvoke() || call.Call.Method.Name() != "ExtractParameters" {
					return
				}
				// the processor
				okProc := true
				why := ""
				sawRouter, sawDefault := false, false
				for _, s := range p.sources(call.Call.Value, provOpt{ThroughCells: true}) {
					switch x := s.(type) {
					case *ssa.Extract:
						ta, isTA := x.Tuple.(*ssa.TypeAssert)
						if !isTA || x.Index != 0 {
							okProc, why = false, "unexpected source "+s.String()
							continue
						}
						_, f1, ok1 := fieldLoad(strip(ta.X))
						_, f2, ok2 := fieldLoad(strip(d.Router))
						if ok1 && ok2 && f1 == f2 && f1.Name() == "router" {
							sawRouter = true
						} else {
							okProc, why = false, "the processor is asserted from something other than the container's router"
						}
					case *ssa.TypeAssert:
						_, f1, ok1 := fieldLoad(strip(x.X))
						if ok1 && f1.Name() == "router" {
							sawRouter = true
						} else {
							okProc, why = false, "the processor is asserted from something other than the container's router"
						}
					case *ssa.Const:
						if isRestfulNamed(x.Type(), "defaultPathProcessor") {
							sawDefault = true
						} else {
							okProc, why = false, "constant of unexpected type"
						}
					default:
						if _, f, ok := fieldLoad(s); ok {
							okProc, why = false, "the processor is read from field "+f.Name()+": a value cached at configuration time can be stale when the router is changed"
						} else {
							okProc, why = false, "unexpected source "+s.String()
						}
					}
				}
				c.check(okProc && sawRouter && sawDefault, name, "the binder is the selecting router's PathProcessor, else the default", p.ipos(i),
					"c.router.(PathProcessor) on the ok edge, defaultPathProcessor{} otherwise", "the binder does not follow from the router that selected the route ("+why+"): routes chosen by one matching engine get their parameters extracted by another")
				// inputs
				okPath := false
				if len(call.Call.Args) == 3 {
					if b, f, ok := fieldLoad(strip(call.Call.Args[2])); ok && f.Name() == "Path" {
						if b2, f2, ok := fieldLoad(strip(b)); ok && f2.Name() == "URL" && rq != nil && p.isParam(b2, rq) {
							okPath = true
						}
					}
				}
				c.check(okPath, name, "the binder reads this request's URL path", p.ipos(i), "httpRequest.URL.Path", "the binder is given a different path than the one that was routed")
				// result feeds wrapRequestResponse
				fed := false
				for _, r := range referrers(call) {
					if pw := p.pairWrapper(); pw != nil {
						if cc := callCommon(r); cc != nil && cc.StaticCallee() == pw.Fn && pw.PathVars >= 0 && pw.PathVars < len(cc.Args) && cc.Args[pw.PathVars] == ssa.Value(call) {
							fed = true
						}
					}
				}
				c.check(fed, name, "the extracted parameters are the ones the request is wrapped with", p.ipos(i), "result is the pathParams argument of wrapRequestResponse", "the extracted map is not what the handler sees")
			})
		}
	}
	// carriers: parameters that hold the binder's result - the wrapper's pathParams, and a parameter of a module helper
	// that every call of the helper binds to such a parameter (`acquireRequest(httpRequest, pathParams, r)`)
	type carrierKey struct {
		fn  *ssa.Function
		idx int
	}
	carriers := map[carrierKey]bool{}
	pw := p.pairWrapper()
	if pw != nil && pw.PathVars >= 0 {
		carriers[carrierKey{pw.Fn, pw.PathVars}] = true
	}
	isCarrier := func(v ssa.Value) bool {
		prm, ok := strip(v).(*ssa.Parameter)
		if !ok || prm.Parent() == nil {
			return false
		}
		for k, q := range prm.Parent().Params {
			if q == prm && carriers[carrierKey{prm.Parent(), k}] {
				return true
			}
		}
		return false
	}
	for changed := true; changed; {
		changed = false
		for _, g := range p.SrcFunc {
			if !p.inModule(g) || g.Blocks == nil {
				continue
			}
			for k := range g.Params {
				if carriers[carrierKey{g, k}] || !types.Identical(g.Params[k].Type(), types.NewMap(types.Typ[types.String], types.Typ[types.String])) {
					continue
				}
				sitesN, all := 0, true
				for _, e := range p.callGraph().In[g] {
					if e.Kind != EdgeStatic || e.Site == nil {
						all = false
						continue
					}
					cc := callCommon(e.Site)
					if cc == nil || k >= len(cc.Args) {
						all = false
						continue
					}
					sitesN++
					if !isCarrier(cc.Args[k]) {
						all = false
					}
				}
				if sitesN > 0 && all {
					carriers[carrierKey{g, k}] = true
					changed = true
				}
			}
		}
	}
	storesParamsOnEveryPath := func(g *ssa.Function) bool {
		sites := map[ssa.Instruction]bool{}
		eachInstr(g, func(i ssa.Instruction) {
			if st, ok := i.(*ssa.Store); ok {
				if fa, ok := st.Addr.(*ssa.FieldAddr); ok && ownerOfFieldAddr(fa) == "Request" && fieldOfAddr(fa).Name() == "pathParameters" && isCarrier(st.Val) {
					sites[i] = true
				}
			}
		})
		min, _, ok := countOnPaths(g, nil, sites)
		return ok && min >= 1
	}
	// the wrapper stores the binder's result on every path
	if pw != nil {
		w := pw.Fn
		sites := map[ssa.Instruction]bool{}
		eachInstr(w, func(i ssa.Instruction) {
			if st, ok := i.(*ssa.Store); ok {
				if fa, ok := st.Addr.(*ssa.FieldAddr); ok && ownerOfFieldAddr(fa) == "Request" && fieldOfAddr(fa).Name() == "pathParameters" {
					if _, isParam := strip(st.Val).(*ssa.Parameter); isParam {
						sites[i] = true
					}
				}
			}
			// or hands them to a helper that does
			if cc := callCommon(i); cc != nil {
				if g := cc.StaticCallee(); g != nil && p.inModule(g) && g.Blocks != nil {
					for k, a := range cc.Args {
						if isCarrier(a) && carriers[carrierKey{g, k}] && storesParamsOnEveryPath(g) {
							sites[i] = true
						}
					}
				}
			}
		})
		min, _, ok := countOnPaths(w, nil, sites)
		c.check(ok && min >= 1, p.fname(w), "the wrapped Request receives the extracted parameters", p.pos(w.Pos()), "pathParameters = pathParams on every path", "the wrapper does not store the extracted parameters into the Request: handlers see an empty map")
	}
	// stores to Request.pathParameters
	for _, fn := range p.SrcFunc {
		eachInstr(fn, func(i ssa.Instruction) {
			st, ok := i.(*ssa.Store)
			if !ok {
				return
			}
			fa, ok := st.Addr.(*ssa.FieldAddr)
			if !ok || ownerOfFieldAddr(fa) != "Request" || fieldOfAddr(fa).Name() != "pathParameters" {
				return
			}
			name := p.fname(fn)
			if _, isMake := strip(st.Val).(*ssa.MakeMap); isMake && p.freshBase(fa) {
				c.triv(name, "new Request starts with an empty parameter map", p.ipos(i), "constructor")
				return
			}
			// a Request on its way back to a pool drops its parameters
			if isNilConst(st.Val) {
				released := false
				eachInstr(fn, func(j ssa.Instruction) {
					if cc := callCommon(j); cc != nil && calleeName(cc) == "(*sync.Pool).Put" && len(cc.Args) == 2 && p.sameVar(cc.Args[1], fa.X) && instrDominates(i, j) {
						released = true
					}
				})
				if released {
					c.triv(name, "a Request that goes back to a pool drops its parameter map", p.ipos(i), "pathParameters = nil before Put")
					return
				}
			}
			prm, isParam := strip(st.Val).(*ssa.Parameter)
			c.check(isParam && isCarrier(st.Val) && prm.Name() != "", name, "Request.pathParameters is the binder's result, unmodified", p.ipos(i), "stored from the pathParams parameter", "path parameters are assigned from somewhere else than the binder's result")
		})
	}
}

func pathProcessorImpls(p *Program) []*ssa.Function {
	nt := p.namedType("PathProcessor")
	if nt == nil {
		return nil
	}
	it := nt.Underlying().(*types.Interface)
	var out []*ssa.Function
	for _, f := range p.implementations(nt, it.Method(0)) {
		f = p.unwrap(f)
		if f.Synthetic == "" {
			out = append(out, f)
		}
	}
	return dedupFuncs(out)
}

func ruleC04b(c *Ctx) {
	p := c.P
	for _, fn := range pathProcessorImpls(p) {
		name := p.fname(fn)
		ok := true
		why := ""
		for _, r := range returnsOf(fn) {
			for _, s := range p.sources(r.Results[0], provOpt{ThroughCells: true, ThroughCalls: 2}) {
				if _, isMake := s.(*ssa.MakeMap); !isMake {
					// the result of another PathProcessor's ExtractParameters, handed on (a wrapper): that one is examined itself
					if call, isCall := s.(*ssa.Call); isCall && call.Call.IsInvoke() && call.Call.Method.Name() == "ExtractParameters" {
						continue
					}
					ok, why = false, "returns "+s.String()
				}
			}
		}
		c.check(ok, name, "returns a map made during this call", p.pos(fn.Pos()), "every returned map is a MakeMap of this activation (or of a helper it calls)", "the parameter map is not allocated per call ("+why+"): two requests can share (and overwrite) one map")
	}
}

func ruleC04c(c *Ctx) {
	ruleC01d(c)
	ruleC02e(c)
}

func ruleC04d(c *Ctx) {
	p := c.P
	n := 0
	for _, fn := range p.SrcFunc {
		name := p.fname(fn)
		eachInstr(fn, func(i ssa.Instruction) {
			st, ok := i.(*ssa.Store)
			if !ok {
				return
			}
			fa, ok := st.Addr.(*ssa.FieldAddr)
			if !ok || ownerOfFieldAddr(fa) != "Route" {
				return
			}
			f := fieldOfAddr(fa).Name()
			switch f {
			case "pathParts", "hasCustomVerb":
				n++
				okSrc := false
				if call, ok := strip(st.Val).(*ssa.Call); ok && call.Call.StaticCallee() != nil && len(call.Call.Args) == 1 {
					if b, fld, ok := fieldLoad(strip(call.Call.Args[0])); ok && fld.Name() == "Path" && strip(b) == strip(fa.X) {
						okSrc = true
					}
				}
				c.check(okSrc, name, "Route."+f+" is computed from the route's own full Path", p.ipos(i), "f(r.Path) on the same route", "Route."+f+" is not derived from this route's Path: matcher and binder walk tokens of a different template")
			case "Path":
				n++
				// the value is built (through module helpers, concatenation and strings/path functions) from two
				// different string fields of the builder: the service's root path and the route's own path
				leaves := map[*types.Var]bool{}
				stringFieldLeaves(p, st.Val, nil, 0, map[ssa.Value]bool{}, leaves)
				okSrc := len(leaves) >= 2
				c.check(okSrc, name, "Route.Path is root path joined with route path", p.ipos(i), "concat(rootPath, currentPath)", "Route.Path is not the join of the service root and the route path: root variables are not part of the tokens")
			}
		})
	}
	if n == 0 {
		c.bad("-", "Route.pathParts / Route.Path initialisation", "-", "no store found")
	}
	// postBuild is called by Build on the route it returns
	if b := p.fn("(*RouteBuilder).Build"); b != nil {
		called := false
		eachInstr(b, func(i ssa.Instruction) {
			if cc := callCommon(i); cc != nil && cc.StaticCallee() != nil {
				for _, a := range p.fieldAccesses(cc.StaticCallee()) {
					if a.Kind == "store" && a.Field.Name() == "pathParts" {
						called = true
					}
				}
			}
		})
		c.check(called, p.fname(b), "Build derives the tokens of the route it builds", p.pos(b.Pos()), "the token-computing method is called by Build", "Build does not compute the route's tokens")
	}
}

func ruleC04e(c *Ctx) {
	p := c.P
	for _, fn := range pathProcessorImpls(p) {
		var svc, rt *ssa.Call
		eachInstr(fn, func(i ssa.Instruction) {
			call, ok := i.(*ssa.Call)
			if !ok || calleeName(&call.Call) != "(*regexp.Regexp).FindStringSubmatch" {
				return
			}
			// level by the type the expression is loaded from
			for _, s := range p.sources(call.Call.Args[0], provDefault) {
				b, f, ok := fieldLoad(s)
				if !ok || f.Name() != "Matcher" {
					continue
				}
				for _, s2 := range p.sources(b, provDefault) {
					b2, f2, ok := fieldLoad(s2)
					if ok && f2.Name() == "pathExpr" {
						if isPtrToRestful(b2.Type(), "WebService") {
							svc = call
						}
						if isPtrToRestful(b2.Type(), "Route") {
							rt = call
						}
					}
				}
			}
		})
		if svc == nil && rt == nil {
			continue // not a regex-based binder
		}
		name := p.fname(fn)
		if svc == nil || rt == nil {
			c.bad(name, "service and route expressions are both applied", p.pos(fn.Pos()), "the regex binder applies only one of the two expressions")
			continue
		}
		_, isParam := strip(svc.Call.Args[1]).(*ssa.Parameter)
		c.check(isParam, name, "the service expression is applied to the URL path", p.ipos(svc), "FindStringSubmatch(urlPath)", "the service expression is applied to something else")
		src, ok := lastElementOf(rt.Call.Args[1])
		c.check(ok && src == ssa.Value(svc), name, "the route expression is applied to the remainder of the service match", p.ipos(rt), "final group of the service expression's match", "the route expression is applied to something other than the remainder the router matched it against: groups bind the wrong text")
	}
	_ = token.ADD
}

// stringFieldLeaves collects the string-typed struct fields v is computed from, through module calls (parameters are
// replaced by the call's arguments), string concatenation and the string functions of the standard library.
func stringFieldLeaves(p *Program, v ssa.Value, subst map[*ssa.Parameter]ssa.Value, depth int, seen map[ssa.Value]bool, out map[*types.Var]bool) {
	v = strip(v)
	if depth > 4 || seen[v] {
		return
	}
	seen[v] = true
	if _, f, ok := fieldLoad(v); ok {
		if isStringType(f.Type()) {
			out[f] = true
		}
		return
	}
	switch x := v.(type) {
	case *ssa.Parameter:
		if a, ok := subst[x]; ok {
			stringFieldLeaves(p, a, nil, depth, seen, out)
		}
	case *ssa.Phi:
		for _, e := range x.Edges {
			stringFieldLeaves(p, e, subst, depth, seen, out)
		}
	case *ssa.BinOp:
		if x.Op == token.ADD {
			stringFieldLeaves(p, x.X, subst, depth, seen, out)
			stringFieldLeaves(p, x.Y, subst, depth, seen, out)
		}
	case *ssa.Call:
		if cal := x.Call.StaticCallee(); cal != nil && p.inModule(cal) && cal.Blocks != nil {
			ns := map[*ssa.Parameter]ssa.Value{}
			for k, a := range x.Call.Args {
				if k < len(cal.Params) {
					// arguments are values of the caller's context: resolve them there first
					if prm, isP := strip(a).(*ssa.Parameter); isP && subst != nil {
						if aa, ok := subst[prm]; ok {
							a = aa
						}
					}
					ns[cal.Params[k]] = a
				}
			}
			for _, r := range returnsOf(cal) {
				for _, res := range r.Results {
					if isStringType(res.Type()) {
						stringFieldLeaves(p, res, ns, depth+1, seen, out)
					}
				}
			}
			// a method reading fields of its receiver: fields are leaves whatever the receiver is
			return
		}
		n := calleeName(&x.Call)
		if strings.HasPrefix(n, "strings.") || strings.HasPrefix(n, "path.") || n == "fmt.Sprintf" {
			for _, a := range x.Call.Args {
				if isStringType(a.Type()) {
					stringFieldLeaves(p, a, subst, depth, seen, out)
				}
			}
		}
	}
}
