package main

import (
	"golang.org/x/tools/go/ssa"
)

// The trace logger is used only where tracing is on (C19.j = C02.r). TraceLogger(nil) is the documented way to
// switch tracing off: it stores nil in traceLogger and clears the trace flag. A call through traceLogger that is not
// controlled by the flag is then a call on a nil interface - the dispatch panics for the input that reaches it - and,
// with the default logger, it writes to the log although tracing is off.
func ruleTraceLoggerGuarded(c *Ctx) {
	p := c.P
	n := 0
	for _, fn := range p.SrcFunc {
		if !p.inModule(fn) || fn.Blocks == nil {
			continue
		}
		name := p.fname(fn)
		var facts map[*ssa.BasicBlock]map[condFact]bool
		eachInstr(fn, func(i ssa.Instruction) {
			cc := callCommon(i)
			if cc == nil || !cc.IsInvoke() || !isLoadOfGlobal(strip(cc.Value), "traceLogger") {
				return
			}
			n++
			ok := inTraceRegion(i.Block())
			if !ok {
				if facts == nil {
					facts = factsAt(fn)
				}
				for f := range facts[i.Block()] {
					if isT, pol := traceCond(f.Cond); isT && pol == f.Pol {
						ok = true
					}
				}
			}
			// a function literal made (and only made) where tracing is on
			if !ok && fn.Parent() != nil {
				made, all := 0, true
				eachInstr(fn.Parent(), func(j ssa.Instruction) {
					if mc, isMC := j.(*ssa.MakeClosure); isMC && mc.Fn == ssa.Value(fn) {
						made++
						if !inTraceRegion(j.Block()) {
							all = false
						}
					}
				})
				ok = made > 0 && all
			}
			c.check(ok, name, "the trace logger is called only where tracing is on", p.ipos(i), "controlled by the true edge of a test of the trace flag",
				"traceLogger."+cc.Method.Name()+" is called whether or not tracing is on: after TraceLogger(nil) the logger is nil and this call panics for the request that reaches it; with the default logger it logs although tracing is off")
		})
	}
	if n == 0 {
		c.note("-", "no call through traceLogger", "-", "nothing to decide")
	}
}
