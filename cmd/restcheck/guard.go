package main

import (
	"go/token"
	"go/types"
	"strings"

	"golang.org/x/tools/go/ssa"
)

// Guard-set dataflow (DESIGN §5 C01.b): for every collection of route candidates in the
// selection code, the set of admission predicates guaranteed for ALL its elements.

type predSet uint8

const (
	pPath predSet = 1 << iota
	pIf
	pMethod
	pCtype
	pAccept
	pAll = pPath | pIf | pMethod | pCtype | pAccept
)

func (s predSet) String() string {
	var out []string
	for _, x := range []struct {
		b predSet
		n string
	}{{pPath, "path"}, {pIf, "conditions"}, {pMethod, "method"}, {pCtype, "content-type"}, {pAccept, "accept"}} {
		if s&x.b != 0 {
			out = append(out, x.n)
		}
	}
	return "{" + strings.Join(out, ",") + "}"
}

// elemKey identifies "the current element" of an iteration.
type elemKey struct {
	Alloc *ssa.Alloc
	Slice ssa.Value
	Idx   ssa.Value
}

func (k elemKey) valid() bool { return k.Alloc != nil || k.Slice != nil }

type guardEnv struct {
	p     *Program
	fn    *ssa.Function
	facts map[*ssa.BasicBlock]map[condFact]bool
	req   *ssa.Parameter
	ctx   map[*ssa.Parameter]predSet
	depth int
	memo  map[ssa.Value]predSet
	busy  map[ssa.Value]bool
	notes *[]string
}

func newGuardEnv(p *Program, fn *ssa.Function, ctx map[*ssa.Parameter]predSet, depth int, notes *[]string) *guardEnv {
	g := &guardEnv{p: p, fn: fn, facts: factsAt(fn), ctx: ctx, depth: depth, memo: map[ssa.Value]predSet{}, busy: map[ssa.Value]bool{}, notes: notes}
	for _, prm := range fn.Params {
		if isHTTPRequestPtr(prm.Type()) {
			g.req = prm
		}
	}
	return g
}

func isCandidateSliceType(t types.Type) bool {
	sl, ok := t.Underlying().(*types.Slice)
	if !ok {
		return false
	}
	return mentionsRoute(sl.Elem(), 0)
}

func mentionsRoute(t types.Type, depth int) bool {
	if depth > 3 {
		return false
	}
	if isRestfulNamed(t, "Route") {
		return true
	}
	if pt, ok := t.Underlying().(*types.Pointer); ok {
		return mentionsRoute(pt.Elem(), depth+1)
	}
	if st, ok := t.Underlying().(*types.Struct); ok {
		for i := 0; i < st.NumFields(); i++ {
			if mentionsRoute(st.Field(i).Type(), depth+1) {
				return true
			}
		}
	}
	return false
}

// resolveKey maps a value that denotes (part of) the current element to its key.
func (g *guardEnv) resolveKey(v ssa.Value) elemKey {
	for hop := 0; hop < 8; hop++ {
		v = strip(v)
		switch x := v.(type) {
		case *ssa.IndexAddr:
			return elemKey{Slice: strip(x.X), Idx: x.Index}
		case *ssa.Field:
			v = x.X
			continue
		case *ssa.FieldAddr:
			v = x.X
			continue
		case *ssa.Alloc:
			// a local copy of an element, or a literal wrapping one
			var whole []*ssa.Store
			var routeField []*ssa.Store
			for _, r := range referrers(x) {
				switch y := r.(type) {
				case *ssa.Store:
					if y.Addr == ssa.Value(x) {
						whole = append(whole, y)
					}
				case *ssa.FieldAddr:
					if mentionsRoute(fieldOfAddr(y).Type(), 0) {
						for _, rr := range referrers(y) {
							if st, ok := rr.(*ssa.Store); ok && st.Addr == ssa.Value(y) {
								routeField = append(routeField, st)
							}
						}
					}
				}
			}
			if len(whole) == 1 && len(routeField) == 0 {
				v = whole[0].Val
				continue
			}
			if len(whole) == 0 && len(routeField) == 1 {
				v = routeField[0].Val
				continue
			}
			return elemKey{Alloc: x}
		case *ssa.UnOp:
			if x.Op != token.MUL {
				return elemKey{}
			}
			v = x.X
			continue
		default:
			return elemKey{}
		}
	}
	return elemKey{}
}

func sameKey(a, b elemKey) bool {
	if !a.valid() || !b.valid() {
		return false
	}
	if a.Alloc != nil || b.Alloc != nil {
		return a.Alloc == b.Alloc
	}
	return a.Slice == b.Slice && a.Idx == b.Idx
}

// isReq: v is the function's *http.Request parameter (possibly through its cell).
func (g *guardEnv) isReq(v ssa.Value) bool {
	return g.req != nil && g.p.isParam(v, g.req)
}

// reqHeader: v = httpRequest.Header.Get(name) on the function's request.
func (g *guardEnv) reqHeader(v ssa.Value) (string, bool) {
	owner, name, ok := headerGet(v)
	if !ok {
		return "", false
	}
	b, f, ok := fieldLoad(strip(owner))
	if ok && f.Name() == "Header" && g.isReq(b) {
		return name, true
	}
	if g.isReq(owner) {
		return name, true
	}
	return "", false
}

// predsAt returns the predicates about element k that are known on entry to block b.
func (g *guardEnv) predsAt(b *ssa.BasicBlock, k elemKey) predSet {
	var out predSet
	for f := range g.facts[b] {
		out |= g.predOfFact(f, k, b)
	}
	if out&pIf == 0 && g.conditionsExhausted(k, b) {
		out |= pIf
	}
	return out
}

// conditionsExhausted: block `at` lies behind a loop over the If list of element k that calls every condition with
// the request and leaves the iteration of the outer loop as soon as one answers false (a labelled continue, no
// flag): `at` is reached only through the exhaustion of that loop.
func (g *guardEnv) conditionsExhausted(k elemKey, at *ssa.BasicBlock) bool {
	fn := g.fn
	var cond *ssa.Call
	eachInstr(fn, func(i ssa.Instruction) {
		call, ok := i.(*ssa.Call)
		if !ok || !isDynamicCall(&call.Call) || len(call.Call.Args) != 1 || !g.isReq(call.Call.Args[0]) {
			return
		}
		u, ok := strip(call.Call.Value).(*ssa.UnOp)
		if !ok {
			return
		}
		ia, ok := u.X.(*ssa.IndexAddr)
		if !ok {
			return
		}
		b, f, ok := fieldLoad(strip(ia.X))
		if ok && f.Name() == "If" && sameKey(g.resolveKey(b), k) {
			cond = call
		}
	})
	if cond == nil {
		return false
	}
	header, loop := innermostLoop(cond.Block())
	if header == nil || loop[at] || !header.Dominates(at) {
		return false
	}
	iff, ok := cond.Block().Instrs[len(cond.Block().Instrs)-1].(*ssa.If)
	if !ok {
		return false
	}
	pol := true
	c := iff.Cond
	for {
		u, ok := c.(*ssa.UnOp)
		if !ok || u.Op != token.NOT {
			break
		}
		c, pol = u.X, !pol
	}
	if c != ssa.Value(cond) {
		return false
	}
	failSucc, passSucc := cond.Block().Succs[1], cond.Block().Succs[0]
	if !pol {
		failSucc, passSucc = passSucc, failSucc
	}
	var barrier *ssa.BasicBlock
	if k.Idx != nil {
		if ins, ok := k.Idx.(ssa.Instruction); ok {
			barrier = ins.Block()
		}
	}
	if barrier == nil {
		return false
	}
	if reachEdgeSensitiveAvoid(failSucc, cond.Block(), barrier)[at] {
		return false
	}
	// a passing condition goes on to the next one: it does not reach `at` except through the header
	for b := range reachableBlocks([]*ssa.BasicBlock{passSucc}, map[*ssa.BasicBlock]bool{header: true}) {
		if b == at {
			return false
		}
	}
	return true
}

func (g *guardEnv) predOfFact(f condFact, k elemKey, at *ssa.BasicBlock) predSet {
	p := g.p
	switch x := f.Cond.(type) {
	case *ssa.BinOp:
		if x.Op == token.EQL && f.Pol {
			for _, pr := range [][2]ssa.Value{{x.X, x.Y}, {x.Y, x.X}} {
				b1, f1, ok1 := fieldLoad(strip(pr[0]))
				b2, f2, ok2 := fieldLoad(strip(pr[1]))
				if ok1 && ok2 && f1.Name() == "Method" && f2.Name() == "Method" && g.isReq(b1) && isRouteish(b2.Type()) && sameKey(g.resolveKey(b2), k) {
					return pMethod
				}
			}
		}
		if x.Op == token.NEQ && f.Pol && isNilConst(x.Y) {
			// JSR311: matches := each.pathExpr.Matcher.FindStringSubmatch(remainder); matches != nil
			if call, ok := strip(x.X).(*ssa.Call); ok && calleeName(&call.Call) == "(*regexp.Regexp).FindStringSubmatch" {
				if g.matcherOf(call.Call.Args[0], k) {
					return pPath
				}
			}
		}
	case *ssa.Call:
		if !f.Pol {
			return 0
		}
		cal := x.Call.StaticCallee()
		if cal == nil || !p.inModule(cal) || len(x.Call.Args) < 2 {
			return 0
		}
		// the conditions loop extracted into a helper: allPass(each.If, request)
		for li, a := range x.Call.Args {
			b, fld, ok := fieldLoad(strip(a))
			if !ok || fld.Name() != "If" || !sameKey(g.resolveKey(b), k) || li >= len(cal.Params) {
				continue
			}
			for ri, ra := range x.Call.Args {
				if g.isReq(ra) && ri < len(cal.Params) && universalCallScan(p, cal, cal.Params[li], cal.Params[ri]) {
					return pIf
				}
			}
		}
		// ... or the candidate itself is handed over and the helper walks its If list: allPass(each, request)
		for li, a := range x.Call.Args {
			if li >= len(cal.Params) || !isRouteish(a.Type()) || !sameKey(g.resolveKey(a), k) {
				continue
			}
			rp := cal.Params[li]
			for ri, ra := range x.Call.Args {
				if !g.isReq(ra) || ri >= len(cal.Params) {
					continue
				}
				isIfOf := func(v ssa.Value) bool {
					b, fld, ok := fieldLoad(strip(v))
					return ok && fld.Name() == "If" && (strip(b) == ssa.Value(rp) || p.sameVar(b, rp))
				}
				if universalCallScanOver(p, cal, isIfOf, cal.Params[ri]) {
					return pIf
				}
			}
		}
		// a predicate method on the candidate taking a header-derived string
		if !sameKey(g.resolveKey(x.Call.Args[0]), k) || !isRouteish(x.Call.Args[0].Type()) {
			return 0
		}
		arg := x.Call.Args[1]
		if name, ok := g.reqHeader(arg); ok && name == "Content-Type" {
			return pCtype
		}
		// the header value held in a variable a closure captures
		if srcs := p.sources(arg, provDefault); len(srcs) > 0 {
			all := true
			for _, s := range srcs {
				if name, ok := g.reqHeader(s); !ok || name != "Content-Type" {
					all = false
				}
			}
			if all {
				return pCtype
			}
		}
		// accept: the header, or the "*/*" default when the header is empty
		okAccept := true
		sawHeader := false
		for _, s := range p.sources(arg, provDefault) {
			if name, ok := g.reqHeader(s); ok && name == "Accept" {
				sawHeader = true
				continue
			}
			if c, ok := constStr(s); ok && c == "*/*" {
				continue
			}
			okAccept = false
		}
		if okAccept && sawHeader {
			return pAccept
		}
	case *ssa.Extract:
		if !f.Pol || x.Index != 0 {
			return 0
		}
		// Curly: matches, _, _ := c.matchesRouteByPathTokens(each.pathParts, requestTokens, each.hasCustomVerb)
		if call, ok := x.Tuple.(*ssa.Call); ok && call.Call.StaticCallee() != nil && p.inModule(call.Call.StaticCallee()) {
			for _, a := range call.Call.Args {
				if b, fld, ok := fieldLoad(strip(a)); ok && fld.Name() == "pathParts" && sameKey(g.resolveKey(b), k) {
					return pPath
				}
			}
		}
	case *ssa.Phi:
		// `ok` (true = all conditions passed) or its negation `rejected` (false = all passed)
		if g.conditionsFlag(x, k, at, f.Pol) {
			return pIf
		}
	}
	return 0
}

func isRouteish(t types.Type) bool {
	return isRestfulNamed(t, "Route") || isPtrToRestful(t, "Route")
}

// matcherOf: v = <k>.pathExpr.Matcher (possibly through a local `pathExpr := each.pathExpr`).
func (g *guardEnv) matcherOf(v ssa.Value, k elemKey) bool {
	b, f, ok := fieldLoad(strip(v))
	if !ok || f.Name() != "Matcher" {
		return false
	}
	b2, f2, ok := fieldLoad(strip(b))
	if !ok || f2.Name() != "pathExpr" {
		return false
	}
	return sameKey(g.resolveKey(b2), k)
}

// conditionsFlag recognises the `ok := true; for _, fn := range each.If { if !fn(req) { ok = false; break } }; if ok`
// idiom: phi is true only when the loop over the candidate's If list ran to exhaustion, and every
// element of that list was called with the request.
func (g *guardEnv) conditionsFlag(phi *ssa.Phi, k elemKey, at *ssa.BasicBlock, passed bool) bool {
	_, vals, ok := phiBoolConsts(phi)
	if !ok {
		return false
	}
	fn := g.fn
	cyc := blocksOnCycles(fn)
	// the call of a condition
	var cond *ssa.Call
	eachInstr(fn, func(i ssa.Instruction) {
		call, ok := i.(*ssa.Call)
		if !ok || !isDynamicCall(&call.Call) || len(call.Call.Args) != 1 || !g.isReq(call.Call.Args[0]) {
			return
		}
		u, ok := strip(call.Call.Value).(*ssa.UnOp)
		if !ok {
			return
		}
		ia, ok := u.X.(*ssa.IndexAddr)
		if !ok {
			return
		}
		b, f, ok := fieldLoad(strip(ia.X))
		if ok && f.Name() == "If" && sameKey(g.resolveKey(b), k) && cyc[i.Block()] {
			cond = call
		}
	})
	if cond == nil {
		return false
	}
	// inner loop header: the block that tests the range index of the If list and dominates the call
	var header *ssa.BasicBlock
	for b := cond.Block().Idom(); b != nil; b = b.Idom() {
		if cyc[b] && reachableAfter(cond.Block(), nil)[b] {
			if _, ok := b.Instrs[len(b.Instrs)-1].(*ssa.If); ok {
				header = b
				break
			}
		}
	}
	if header == nil {
		return false
	}
	// every true edge of the flag comes from the header's exhaustion; every false edge from the failing condition
	for e, v := range vals {
		pred := phi.Block().Preds[e]
		// straight-line blocks between the loop's exhaustion exit and the flag (an assignment of the result) do not count
		for pred != header && len(pred.Preds) == 1 && len(pred.Succs) == 1 {
			pred = pred.Preds[0]
		}
		if v == passed && pred != header {
			return false
		}
	}
	// the failing condition cannot reach the append within this iteration
	iff, ok := cond.Block().Instrs[len(cond.Block().Instrs)-1].(*ssa.If)
	if !ok {
		return false
	}
	pol := true
	c := iff.Cond
	for {
		u, ok := c.(*ssa.UnOp)
		if !ok || u.Op != token.NOT {
			break
		}
		c, pol = u.X, !pol
	}
	if c != ssa.Value(cond) {
		return false
	}
	failSucc := cond.Block().Succs[1]
	passSucc := cond.Block().Succs[0]
	if !pol {
		failSucc, passSucc = passSucc, failSucc
	}
	// barrier: the outer iteration's header (where the element index advances)
	var barrier *ssa.BasicBlock
	if k.Idx != nil {
		if ins, ok := k.Idx.(ssa.Instruction); ok {
			barrier = ins.Block()
		}
	}
	reach := reachEdgeSensitiveAvoid(failSucc, cond.Block(), barrier)
	if reach[at] {
		return false
	}
	// a passing condition goes back to the header (the next condition), nowhere else
	for b := range reachableBlocks([]*ssa.BasicBlock{passSucc}, map[*ssa.BasicBlock]bool{header: true}) {
		if b == at || b == phi.Block() {
			return false
		}
	}
	return true
}

func reachEdgeSensitiveAvoid(start, pred, barrier *ssa.BasicBlock) map[*ssa.BasicBlock]bool {
	if barrier == nil {
		return reachEdgeSensitive(start, pred)
	}
	type node struct{ b, from *ssa.BasicBlock }
	seen := map[node]bool{}
	out := map[*ssa.BasicBlock]bool{}
	stack := []node{{start, pred}}
	for len(stack) > 0 {
		n := stack[len(stack)-1]
		stack = stack[:len(stack)-1]
		if seen[n] || n.b == barrier {
			continue
		}
		seen[n] = true
		out[n.b] = true
		succs := n.b.Succs
		if iff, ok := n.b.Instrs[len(n.b.Instrs)-1].(*ssa.If); ok && n.from != nil {
			cond := iff.Cond
			neg := false
			for {
				u, ok := cond.(*ssa.UnOp)
				if !ok || u.Op != token.NOT {
					break
				}
				cond, neg = u.X, !neg
			}
			if phi, vals, ok := phiBoolConsts(cond); ok && phi.Block() == n.b {
				for k, p := range n.b.Preds {
					if p == n.from {
						if vals[k] != neg {
							succs = []*ssa.BasicBlock{n.b.Succs[0]}
						} else {
							succs = []*ssa.BasicBlock{n.b.Succs[1]}
						}
					}
				}
			}
		}
		for _, s := range succs {
			stack = append(stack, node{s, n.b})
		}
	}
	return out
}

// elemGuar: what is guaranteed for an element value appended/stored at block `at`.
func (g *guardEnv) elemGuar(v ssa.Value, at *ssa.BasicBlock) predSet {
	k := g.resolveKey(v)
	if !k.valid() {
		// a *Route / Route computed otherwise (call result...)
		return g.routeGuar(v)
	}
	var base predSet
	if k.Slice != nil {
		base = g.sliceGuar(k.Slice)
	}
	return base | g.predsAt(at, k)
}

func (g *guardEnv) note(s string) {
	if g.notes != nil {
		*g.notes = append(*g.notes, s)
	}
}

// sliceGuar: predicates guaranteed for every element of the collection v.
func (g *guardEnv) sliceGuar(v ssa.Value) predSet {
	v = strip(v)
	if r, ok := g.memo[v]; ok {
		return r
	}
	if g.busy[v] {
		return pAll // coinductive: a cycle adds no element of its own
	}
	g.busy[v] = true
	r := g.sliceGuar1(v)
	g.busy[v] = false
	g.memo[v] = r
	return r
}

func (g *guardEnv) sliceGuar1(v ssa.Value) predSet {
	p := g.p
	switch x := v.(type) {
	case *ssa.Const:
		if x.Value == nil {
			return pAll
		}
		return 0
	case *ssa.MakeSlice:
		if n, ok := constInt(x.Len); ok && n == 0 {
			return pAll
		}
		// make([]T, len(src)) filled position by position: what holds for every element stored. (That every
		// position is stored is not looked at: an unfilled position is a zero Route, which no request selects
		// through a function it does not have.)
		r := pAll
		stored := false
		for _, ref := range referrers(x) {
			ia, ok := ref.(*ssa.IndexAddr)
			if !ok || ia.X != ssa.Value(x) {
				continue
			}
			for _, rr := range referrers(ia) {
				if st, ok := rr.(*ssa.Store); ok && st.Addr == ssa.Value(ia) {
					stored = true
					r &= g.elemGuar(st.Val, st.Block())
				}
			}
		}
		if stored {
			return r
		}
		return 0
	case *ssa.Phi:
		r := pAll
		for _, e := range x.Edges {
			r &= g.sliceGuar(e)
		}
		return r
	case *ssa.Slice:
		if x.High != nil {
			if n, ok := constInt(x.High); ok && n == 0 {
				return pAll // emptied
			}
		}
		if a, ok := x.X.(*ssa.Alloc); ok {
			// array literal: the stored elements
			r := pAll
			for _, ref := range referrers(a) {
				if ia, ok := ref.(*ssa.IndexAddr); ok {
					for _, rr := range referrers(ia) {
						if st, ok := rr.(*ssa.Store); ok && st.Addr == ssa.Value(ia) {
							r &= g.elemGuar(st.Val, st.Block())
						}
					}
				}
			}
			return r
		}
		return g.sliceGuar(x.X)
	case *ssa.Parameter:
		if r, ok := g.ctx[x]; ok {
			return r
		}
		return 0
	case *ssa.Call:
		if isBuiltinCall(x, "append") {
			r := g.sliceGuar(x.Call.Args[0])
			if len(x.Call.Args) > 1 {
				arg := strip(x.Call.Args[1])
				if sl, ok := arg.(*ssa.Slice); ok {
					if a, ok := sl.X.(*ssa.Alloc); ok && strings.Contains(a.Comment, "varargs") {
						for _, ref := range referrers(a) {
							if ia, ok := ref.(*ssa.IndexAddr); ok {
								for _, rr := range referrers(ia) {
									if st, ok := rr.(*ssa.Store); ok && st.Addr == ssa.Value(ia) {
										r &= g.elemGuar(st.Val, x.Block())
									}
								}
							}
						}
						return r
					}
				}
				r &= g.sliceGuar(arg)
			}
			return r
		}
		if cal := x.Call.StaticCallee(); cal != nil && p.inModule(cal) && cal.Blocks != nil && g.depth < 5 {
			return g.summarise(cal, &x.Call, -1, true)
		}
		return 0
	case *ssa.Extract:
		if call, ok := x.Tuple.(*ssa.Call); ok {
			if cal := call.Call.StaticCallee(); cal != nil && p.inModule(cal) && cal.Blocks != nil && g.depth < 5 {
				return g.summarise(cal, &call.Call, x.Index, true)
			}
		}
		return 0
	case *ssa.UnOp:
		if x.Op != token.MUL {
			return 0
		}
		// a local variable that only this function assigns (it lives in memory because a deferred function literal
		// reads it): the stores that reach this load
		if a, ok := x.X.(*ssa.Alloc); ok {
			if sts, zero, ok := p.reachingStores(x, a); ok {
				r := pAll
				if zero && len(sts) == 0 {
					return pAll // the zero value: an empty list
				}
				for _, st := range sts {
					r &= g.sliceGuar(st.Val)
				}
				return r
			}
		}
		// a cell: everything ever stored into it, plus appends made through its address by helper methods
		if roots := p.cellRoots(x.X); len(roots) > 0 {
			r := pAll
			for _, root := range roots {
				for _, st := range p.cellStores(root) {
					r &= g.sliceGuar(st.Val)
				}
				for _, ref := range referrers(root) {
					call, ok := ref.(*ssa.Call)
					if !ok {
						continue
					}
					cal := call.Call.StaticCallee()
					if cal == nil || !p.inModule(cal) || len(call.Call.Args) < 2 || call.Call.Args[0] != ssa.Value(root) {
						continue
					}
					if appendsParamToReceiver(cal) {
						r &= g.elemGuar(call.Call.Args[1], call.Block())
					} else {
						r = 0
					}
				}
			}
			return r
		}
		// a slice field of a struct allocated here
		if fa, ok := x.X.(*ssa.FieldAddr); ok && p.isFreshObject(fa.X) {
			fld := fieldOfAddr(fa)
			r := pAll
			eachInstr(g.fn, func(i ssa.Instruction) {
				if st, ok := i.(*ssa.Store); ok {
					if fa2, ok := st.Addr.(*ssa.FieldAddr); ok && fieldOfAddr(fa2) == fld {
						r &= g.sliceGuar(st.Val)
					}
				}
			})
			return r
		}
		return 0
	}
	return 0
}

// appendsParamToReceiver: func (s *T) add(x E) { *s = append(*s, x) }
func appendsParamToReceiver(fn *ssa.Function) bool {
	if len(fn.Params) != 2 || fn.Blocks == nil {
		return false
	}
	ok := false
	eachInstr(fn, func(i ssa.Instruction) {
		st, isSt := i.(*ssa.Store)
		if !isSt || st.Addr != ssa.Value(fn.Params[0]) {
			return
		}
		call, isCall := strip(st.Val).(*ssa.Call)
		if !isCall || !isBuiltinCall(call, "append") {
			return
		}
		if u, isU := strip(call.Call.Args[0]).(*ssa.UnOp); !isU || u.X != ssa.Value(fn.Params[0]) {
			return
		}
		if sl, isSl := strip(call.Call.Args[1]).(*ssa.Slice); isSl {
			if a, isA := sl.X.(*ssa.Alloc); isA {
				for _, ref := range referrers(a) {
					if ia, isIA := ref.(*ssa.IndexAddr); isIA {
						for _, rr := range referrers(ia) {
							if s2, isS2 := rr.(*ssa.Store); isS2 && s2.Val == ssa.Value(fn.Params[1]) {
								ok = true
							}
						}
					}
				}
			}
		}
	})
	return ok
}

// summarise evaluates the callee's returned collection (wantSlice) or returned route under the
// guarantees of the actual arguments.
func (g *guardEnv) summarise(cal *ssa.Function, call *ssa.CallCommon, resultIdx int, wantSlice bool) predSet {
	ctx := map[*ssa.Parameter]predSet{}
	for k, prm := range cal.Params {
		if k < len(call.Args) && isCandidateSliceType(prm.Type()) {
			ctx[prm] = g.sliceGuar(call.Args[k])
		}
	}
	sub := newGuardEnv(g.p, cal, ctx, g.depth+1, g.notes)
	r := pAll
	for _, ret := range returnsOf(cal) {
		idx := resultIdx
		if idx < 0 {
			idx = 0
		}
		if idx >= len(ret.Results) {
			continue
		}
		if wantSlice {
			r &= sub.sliceGuar(ret.Results[idx])
		} else {
			r &= sub.routeGuar(ret.Results[idx])
		}
	}
	return r
}

// routeGuar: predicates guaranteed for a single route value (a *Route or Route).
func (g *guardEnv) routeGuar(v ssa.Value) predSet {
	p := g.p
	v = strip(v)
	switch x := v.(type) {
	case *ssa.Const:
		if x.Value == nil {
			return pAll
		}
		return 0
	case *ssa.Phi:
		if g.busy[v] {
			return pAll
		}
		g.busy[v] = true
		r := pAll
		for _, e := range x.Edges {
			r &= g.routeGuar(e)
		}
		g.busy[v] = false
		return r
	case *ssa.Extract:
		if call, ok := x.Tuple.(*ssa.Call); ok {
			if cal := call.Call.StaticCallee(); cal != nil && p.inModule(cal) && cal.Blocks != nil && g.depth < 5 {
				return g.summarise(cal, &call.Call, x.Index, false)
			}
		}
		return 0
	case *ssa.Call:
		if cal := x.Call.StaticCallee(); cal != nil && p.inModule(cal) && cal.Blocks != nil && g.depth < 5 {
			return g.summarise(cal, &x.Call, 0, false)
		}
		return 0
	case *ssa.IndexAddr:
		return g.sliceGuar(x.X)
	case *ssa.UnOp:
		if x.Op != token.MUL {
			return 0
		}
		if ia, ok := x.X.(*ssa.IndexAddr); ok {
			return g.sliceGuar(ia.X)
		}
		if roots := p.cellRoots(x.X); len(roots) > 0 {
			r := pAll
			for _, root := range roots {
				for _, st := range p.cellStores(root) {
					r &= g.routeGuar(st.Val)
				}
			}
			return r
		}
	}
	return 0
}

// universalCallScan: h answers true only when every element of its parameter `list` (a slice of
// functions) was called with parameter `arg` and returned true: the failing call cannot reach a
// positive return, and a passing call only leads back to the loop.
func universalCallScan(p *Program, h *ssa.Function, list, arg *ssa.Parameter) bool {
	return universalCallScanOver(p, h, func(v ssa.Value) bool { return strip(v) == ssa.Value(list) }, arg)
}

// universalCallScanOver: as universalCallScan, with the scanned list given by a predicate (the list parameter, or
// the field of a parameter that holds the list).
func universalCallScanOver(p *Program, h *ssa.Function, isList func(ssa.Value) bool, arg *ssa.Parameter) bool {
	if h.Blocks == nil {
		return false
	}
	cyc := blocksOnCycles(h)
	var cond *ssa.Call
	eachInstr(h, func(i ssa.Instruction) {
		call, ok := i.(*ssa.Call)
		if !ok || !isDynamicCall(&call.Call) || len(call.Call.Args) != 1 || call.Call.Args[0] != ssa.Value(arg) || !cyc[i.Block()] {
			return
		}
		u, ok := strip(call.Call.Value).(*ssa.UnOp)
		if !ok {
			return
		}
		if ia, ok := u.X.(*ssa.IndexAddr); ok && isList(ia.X) {
			cond = call
		}
	})
	if cond == nil {
		return false
	}
	iff, ok := cond.Block().Instrs[len(cond.Block().Instrs)-1].(*ssa.If)
	if !ok || condRoot(iff.Cond) != ssa.Value(cond) {
		return false
	}
	pol := true
	for c := iff.Cond; ; {
		u, ok := c.(*ssa.UnOp)
		if !ok || u.Op != token.NOT {
			break
		}
		c, pol = u.X, !pol
	}
	failSucc, passSucc := cond.Block().Succs[1], cond.Block().Succs[0]
	if !pol {
		failSucc, passSucc = passSucc, failSucc
	}
	if pos, _ := canReachPositive(failSucc, cond.Block()); pos {
		return false
	}
	// the loop header
	var header *ssa.BasicBlock
	for b := cond.Block().Idom(); b != nil; b = b.Idom() {
		if cyc[b] && reachableAfter(cond.Block(), nil)[b] {
			if _, ok := b.Instrs[len(b.Instrs)-1].(*ssa.If); ok {
				header = b
				break
			}
		}
	}
	if header == nil {
		return false
	}
	// after a passing call, a positive return is reachable only through the header (the next element / exhaustion)
	for b := range reachableBlocks([]*ssa.BasicBlock{passSucc}, map[*ssa.BasicBlock]bool{header: true}) {
		if r, ok := b.Instrs[len(b.Instrs)-1].(*ssa.Return); ok {
			if v, isC := constBool(r.Results[0]); !isC || v {
				return false
			}
		}
	}
	// and there is a positive return at all
	has := false
	for _, r := range returnsOf(h) {
		if v, isC := constBool(r.Results[0]); !isC || v {
			has = true
		}
	}
	return has
}
