package main

import (
	"go/token"
	"go/types"
	"strings"

	"golang.org/x/tools/go/ssa"
)

func init() {
	register(&Property{
		ID:    "C11",
		Title: "Registration state equals what a fresh container with the same content has",
		Decided: "C11.a the container's registration state (service list, mux, root flag) is written only by constructors on fresh objects, package init, Add and Remove, the latter two under the write lock, and Remove's success path replaces all of it; C11.b Add scans for a duplicate root before it registers on the mux and appends, exits only on root-path equality, and appends after the mux registration; " +
			"C11.c every mux registration made for a WebService is suppressed only by an equality on the very key that is registered (or a normalisation of it), computed the same way on both sides, never by a partial match or by a key from before a truncating step; C11.d the rebuild in Remove never asks the membership scan about an element of the list it is still holding; C11.e every kind of registration made on the container's mux is replayed by Remove's rebuild. C11.i every request-path lock is released on all exits, also when user code under it panics (= C10.c); C11.j a computed mux pattern is registered only where the value it is trimmed from was tested against \"\" and \"/\"; C11.k both operands of a registration-time string equality went through the same rewriting functions. C11.l every derived holder of routes or services that the request path reads is written (or version-stamped) by every function that changes WebService.routes / Container.webServices, on the same paths.",
		NotDecided: "equality of responses between the edited and the fresh container (behavioural); agreement of Dispatch and ServeHTTP beyond the mux registrations; RemoveRoute's choice of routes (value-level).",
		Rules: []Rule{
			{ID: "C11.a", Template: "T-OWN", Required: true, Run: ruleC11a,
				Doc: "Who writes the registration state, under which lock, and that Remove replaces list, mux and root flag together in one critical section."},
			{ID: "C11.b", Template: "T-ORDER", Required: true, Run: ruleC11b,
				Doc: "Add's order of effects: duplicate scan, then mux registration, then append; os.Exit only under root-path equality, so pairwise different roots never exit."},
			{ID: "C11.c", Template: "T-SIBLING", Required: true, Run: ruleC11c,
				Doc: "Check and use agree on the value: http.ServeMux panics on a duplicate pattern, so the guard that suppresses a registration must compare exactly the pattern that is registered; comparing something the pattern was truncated from lets two different roots register one pattern (panic), and a partial match leaves a service unregistered (404 through ServeHTTP)."},
			{ID: "C11.d", Template: "T-SIBLING", Required: true, Run: ruleC11d,
				Doc: "The helper that registers a service scans the container's service list for an earlier registration; a caller that passes an element of that same list while the list is unchanged makes the scan vacuously true: nothing is registered on the new mux and every remaining service answers 404 through ServeHTTP after any Remove."},
			{ID: "C11.f", Template: "T-ENFORCE", Required: true, Run: ruleC11f,
				Doc: "Removal scans run to exhaustion: in Remove and RemoveRoute the loop over the registered services/routes has the exhaustion of the list as its only exit - no return and no store of the new list from inside the loop. A scan that stops at the first match leaves later entries with the same key reachable."},
			{ID: "C11.g", Template: "T-GUARD", Required: true, Run: ruleC11g,
				Doc: "An entry is dropped by a removal only when its whole key equals the argument's (Method and Path for RemoveRoute, root path for Remove); every other entry is appended to the new list before the scan moves on. A weakened condition (|| for &&, a constant) removes routes nobody asked to remove."},
			{ID: "C11.h", Template: "T-ORDER", Required: true, Run: ruleC11h,
				Doc: "The registration helper registers on the mux on every path on which no earlier registration was found, and reports 'registered on root' only after it registered \"/\": otherwise a service is reachable through Dispatch but answers 404 through ServeHTTP, or all later services are never registered."},
			{ID: "C11.n", Template: "T-GUARD", Required: false, Run: ruleRootRegisteredOnce,
				Doc: "The root pattern is registered at most once per mux: the function that may register \"/\" and reports it is called only where the flag that receives its result is false - in Add (the Container's field) and in the rebuild loop of Remove (its local). Without the guard a second root-prefixed service registers \"/\" again and http.ServeMux panics, in Remove in the middle of the rebuild."},
			{ID: "C11.m", Template: "T-EFFECT", Required: false, Run: ruleReplayDoesNotRecord,
				Doc: "Replaying is not recording: a loop over a list of records kept on the Container (what Handle registered) calls nothing that appends to that same list. A shared register-and-remember helper used by the replay doubles the list on every Remove; the next replay registers a pattern twice and the mux panics."},
			{ID: "C11.l", Template: "T-SIBLING", Required: true, Run: ruleDerivedRegistrationState,
				Doc: "A second holder of routes or services (snapshot field, atomic.Value, sync.Map given a []Route) that the request path reads is written by every function that changes WebService.routes / Container.webServices, on the same paths, or guarded by a version stamp all its readers compare. A cache cleared by Route but not by RemoveRoute, or validated by the length of the list, keeps answering from removed routes."},
			{ID: "C11.e", Template: "T-SIBLING", Required: true, Run: ruleC11e,
				Doc: "Remove builds a new mux; whatever registers on the container's mux must be replayed onto it, otherwise that kind of registration vanishes after any Remove."},
			{ID: "C11.i", Template: "T-LOCK", Required: true, Run: ruleC10c,
				Doc: "Registration operations must be able to run after any request: every lock taken on the request path is released on all exits including panics raised by user code that runs under it (route conditions, custom routers) - same obligations as C10.c. A leaked read lock blocks the next Add/Remove forever, so the container no longer reaches the state a fresh one would have."},
			{ID: "C11.j", Template: "T-GUARD", Required: true, Run: rulePatternNonEmpty,
				Doc: "'Adding WebServices never panics': a computed ServeMux pattern is registered only where the very value it is trimmed from was found different from \"\" and \"/\". Testing another expression (the whole root path instead of its fixed prefix) lets /{tenant}/items through with an empty pattern, on which http.ServeMux panics - in Add, or later in Remove's rebuild."},
			{ID: "C11.k", Template: "T-SIBLING", Required: true, Run: ruleBothSidesNormalised,
				Doc: "Registration-time equalities (duplicate root, pattern already mapped, route to remove) compare values that went through the same rewriting functions on both sides. Trimming only the argument of RemoveRoute makes a route whose stored Path ends in '/' unremovable."},
		},
	})
}

// registrationFields: Container fields stored by Add/Remove on the receiver.
func registrationFields(p *Program) []*types.Var {
	set := map[*types.Var]bool{}
	var out []*types.Var
	for _, n := range []string{"(*Container).Add", "(*Container).Remove"} {
		fn := p.fn(n)
		if fn == nil {
			continue
		}
		for _, a := range p.fieldAccesses(fn) {
			if a.Kind == "store" && a.Owner == "Container" && !p.freshBase(a.Addr) && !set[a.Field] {
				set[a.Field] = true
				out = append(out, a.Field)
			}
		}
	}
	return out
}

func ruleC11a(c *Ctx) {
	p := c.P
	li := p.lockInfo()
	fields := registrationFields(p)
	if len(fields) == 0 {
		c.undecided("-", "registration state", "-", "Add/Remove store no Container field")
		return
	}
	isReg := map[*types.Var]bool{}
	for _, f := range fields {
		isReg[f] = true
	}
	var lock *types.Var
	for _, m := range mutableFields(p, li) {
		if isReg[m.Field] && m.Lock != nil {
			lock = m.Lock
		}
	}
	for _, fn := range p.SrcFunc {
		name := p.fname(fn)
		for _, a := range p.fieldAccesses(fn) {
			if a.Kind != "store" || !isReg[a.Field] {
				continue
			}
			construct := "store to Container." + a.Field.Name()
			switch {
			case p.freshBase(a.Addr):
				c.triv(name, construct+" on a fresh container", p.ipos(a.Instr), "constructor")
			case strings.HasPrefix(fn.Name(), "init"):
				c.ok(name, construct+" in package initialisation", p.ipos(a.Instr), "runs before any request")
			case lock != nil && li.heldAt(a.Instr)[lock] == lockW:
				top := topFunc(fn) // a function literal inside a registration operation belongs to it
				ok := top.Name() == "Add" || top.Name() == "Remove" || top.Name() == "addHandler"
				// any other operation of the container that is not part of serving a request (a new RemoveAll, Replace...)
				if recvTypeName(top) == "Container" && !p.Roles().RequestPath[top] {
					ok = true
				}
				// any operation that itself registers on the container's mux is a registration operation (Handle)
				for _, reg := range muxRegistrations(p) {
					if (reg.Fn == fn || reg.Fn == top) && recvTypeName(top) == "Container" {
						ok = true
					}
				}
				c.check(ok, name, construct+" by a registration operation under the write lock", p.ipos(a.Instr), "held: "+lockSetString(li.heldAt(a.Instr)),
					"the registration state is written while a request is served (by a function on the request path), or by a function that is not an operation of the container")
			default:
				c.bad(name, construct+" outside Add/Remove's critical section", p.ipos(a.Instr), "registration state changed without the write lock (held: "+lockSetString(li.heldAt(a.Instr))+")")
			}
		}
	}
	// Remove's success path replaces all of it
	if rm := p.fn("(*Container).Remove"); rm != nil {
		first := rm.Blocks[0].Instrs[0]
		for _, r := range returnsOf(rm) {
			if r.Block().Comment == "recover" {
				continue
			}
			success := true
			for _, s := range p.sources(r.Results[0], provDefault) {
				if !isNilConst(s) {
					success = false
				}
			}
			if !success {
				continue
			}
			for _, f := range fields {
				var stores []ssa.Instruction
				for _, a := range p.fieldAccesses(rm) {
					if a.Kind == "store" && a.Field == f {
						stores = append(stores, a.Instr)
					}
				}
				c.check(len(stores) > 0 && !canReachAvoiding(first, r, stores), p.fname(rm), "Remove's success path replaces Container."+f.Name(), p.ipos(r),
					"every path to the success return stores the field", "Remove can succeed without replacing "+f.Name()+": the list, the mux and the root flag get out of step")
			}
		}
	} else {
		c.undecided("-", "(*Container).Remove", "-", "not found")
	}
}

// exprShape renders the computation of v as a term over one designated root ("§").
func exprShape(p *Program, v ssa.Value, isRoot func(ssa.Value) bool, depth int) string {
	v = strip(v)
	if isRoot(v) {
		return "§"
	}
	if depth > 8 {
		return "…"
	}
	switch x := v.(type) {
	case *ssa.Const:
		if s, ok := constStr(x); ok {
			return "\"" + s + "\""
		}
		return x.String()
	case *ssa.Call:
		name := shortCallee(&x.Call)
		var args []string
		for _, a := range x.Call.Args {
			args = append(args, exprShape(p, a, isRoot, depth+1))
		}
		return name + "(" + strings.Join(args, ",") + ")"
	case *ssa.BinOp:
		return "(" + exprShape(p, x.X, isRoot, depth+1) + x.Op.String() + exprShape(p, x.Y, isRoot, depth+1) + ")"
	case *ssa.UnOp:
		if b, f, ok := fieldLoad(x); ok {
			return exprShape(p, b, isRoot, depth+1) + "." + f.Name()
		}
		if x.Op == token.MUL {
			return "*" + exprShape(p, x.X, isRoot, depth+1)
		}
	case *ssa.Slice:
		return "slice(" + exprShape(p, x.X, isRoot, depth+1) + ")"
	case *ssa.Phi:
		return "phi"
	case *ssa.Parameter:
		return "param:" + x.Name()
	}
	return v.Name()
}

// truncates reports whether the term contains a step that is not injective on strings (slicing or a
// module function that slices), looking only at calls.
func isNormalisation(name string) bool {
	return strings.HasPrefix(name, "strings.Trim") || name == "strings.ToLower" || name == "path.Clean"
}

type muxRegistration struct {
	Fn   *ssa.Function
	Call ssa.Instruction
	Key  ssa.Value
}

func muxRegistrations(p *Program) []muxRegistration {
	var out []muxRegistration
	for _, fn := range p.SrcFunc {
		eachInstr(fn, func(i ssa.Instruction) {
			cc := callCommon(i)
			if cc == nil {
				return
			}
			switch calleeName(cc) {
			case "(*net/http.ServeMux).HandleFunc", "(*net/http.ServeMux).Handle":
				out = append(out, muxRegistration{fn, i, cc.Args[1]})
			}
		})
	}
	return out
}

// isElementOfFieldLoad: v is an element of a slice loaded from Container.<some registration field>; returns the load.
func elementOfContainerList(p *Program, v ssa.Value) (*ssa.UnOp, bool) {
	u, ok := strip(v).(*ssa.UnOp)
	if !ok || u.Op != token.MUL {
		return nil, false
	}
	ia, ok := u.X.(*ssa.IndexAddr)
	if !ok {
		return nil, false
	}
	for _, s := range p.sources(ia.X, provDefault) {
		if l, ok := s.(*ssa.UnOp); ok {
			if fa, ok := l.X.(*ssa.FieldAddr); ok && ownerOfFieldAddr(fa) == "Container" {
				if _, isSlice := fieldOfAddr(fa).Type().Underlying().(*types.Slice); isSlice {
					return l, true
				}
			}
		}
	}
	return nil, false
}

func ruleC11c(c *Ctx) {
	p := c.P
	roles := p.Roles()
	n := 0
	for _, reg := range serviceRegistrations(p) {
		fn := reg.Fn
		if !roles.MutatorPath[fn] {
			continue // Handle(): the pattern is the caller's; nothing is suppressed
		}
		if _, isConst := constStr(reg.Key); isConst {
			continue // the root registration "/" is decided by the root flag (C11.a/b)
		}
		n++
		name := p.fname(fn)
		// the service the key is computed from: the *WebService parameter
		var svc *ssa.Parameter
		for _, prm := range fn.Params {
			if isPtrToRestful(prm.Type(), "WebService") {
				svc = prm
			}
		}
		if svc == nil {
			c.undecided(name, "mux registration", p.ipos(reg.Call), "no *WebService parameter to relate the pattern to")
			continue
		}
		isSvc := func(v ssa.Value) bool { return v == ssa.Value(svc) }
		isEach := func(v ssa.Value) bool { _, ok := elementOfContainerList(p, v); return ok }
		// key, possibly key = base + const
		keyBase := strip(reg.Key)
		if bo, ok := keyBase.(*ssa.BinOp); ok && bo.Op == token.ADD {
			if _, isC := constStr(bo.Y); isC {
				keyBase = strip(bo.X)
			}
		}
		keyShape := exprShape(p, keyBase, isSvc, 0)
		// suppressing conditions: conditions inside a loop whose one edge cannot reach the registration
		cyc := blocksOnCycles(fn)
		var suppress []struct {
			cond ssa.Value
			pol  bool
		}
		for _, b := range fn.Blocks {
			iff, ok := b.Instrs[len(b.Instrs)-1].(*ssa.If)
			if !ok {
				continue
			}
			if !cyc[b] {
				// outside a scan loop only a membership helper applied to the registered key counts
				call, isCall := condRoot(iff.Cond).(*ssa.Call)
				if !isCall || call.Call.StaticCallee() == nil || !p.inModule(call.Call.StaticCallee()) {
					continue
				}
				takesKey := false
				for _, a := range call.Call.Args {
					if strip(a) == keyBase || exprShape(p, a, isSvc, 0) == keyShape {
						takesKey = true
					}
				}
				if !takesKey {
					continue
				}
			}
			// loop control (index < len) is not a membership condition
			if bo, ok := iff.Cond.(*ssa.BinOp); ok && (bo.Op == token.LSS || bo.Op == token.GTR || bo.Op == token.LEQ || bo.Op == token.GEQ) {
				continue
			}
			rT := reachEdgeSensitive(b.Succs[0], b)[reg.Call.Block()]
			rF := reachEdgeSensitive(b.Succs[1], b)[reg.Call.Block()]
			if rT && !rF {
				suppress = append(suppress, struct {
					cond ssa.Value
					pol  bool
				}{iff.Cond, false})
			}
			if rF && !rT {
				suppress = append(suppress, struct {
					cond ssa.Value
					pol  bool
				}{iff.Cond, true})
			}
		}
		construct := "registration of " + exprShape(p, reg.Key, isSvc, 0)
		if len(suppress) == 0 {
			c.bad(name, construct+" has no duplicate guard", p.ipos(reg.Call), "nothing suppresses a second registration of the same pattern: http.ServeMux panics on it")
			continue
		}
		for _, s := range suppress {
			cond := s.cond
			pol := s.pol
			for {
				u, ok := cond.(*ssa.UnOp)
				if !ok || u.Op != token.NOT {
					break
				}
				cond, pol = u.X, !pol
			}
			if call, isCall := cond.(*ssa.Call); isCall && pol && call.Call.StaticCallee() != nil && p.inModule(call.Call.StaticCallee()) {
				// membership helper: `if !c.isPatternMapped(pattern) { register }`
				h := call.Call.StaticCallee()
				okHelper := false
				for k, a := range call.Call.Args {
					if k >= len(h.Params) || !(strip(a) == keyBase || exprShape(p, a, isSvc, 0) == keyShape) {
						continue
					}
					hp := h.Params[k]
					if eq := positiveUnderEquality(p, h, func(x, y ssa.Value) bool {
						if strip(x) != ssa.Value(hp) {
							return false
						}
						return exprShape(p, y, isEach, 0) == keyShape
					}); eq != nil {
						okHelper = true
					}
				}
				c.check(okHelper, name, construct+": the guard compares the registered key", p.ipos(reg.Call),
					"membership helper "+h.Name()+" is given the registered pattern and answers true only for an element whose pattern, computed the same way, equals it",
					"the registration is suppressed by "+h.Name()+"(...), which does not answer by whole equality on the registered pattern computed the same way for registered services")
				continue
			}
			bo, ok := cond.(*ssa.BinOp)
			if !ok || !((bo.Op == token.EQL && pol) || (bo.Op == token.NEQ && !pol)) {
				c.bad(name, construct+" suppressed by a condition that is not an equality", p.ipos(reg.Call),
					"the registration is skipped when "+exprShape(p, cond, func(v ssa.Value) bool { return isSvc(v) || isEach(v) }, 0)+" holds: a partial match skips services whose pattern was never registered (they answer 404 through ServeHTTP), or misses real duplicates")
				continue
			}
			// one operand over the new service, the other over an element of the list
			var sideSvc, sideEach ssa.Value
			for _, pr := range [][2]ssa.Value{{bo.X, bo.Y}, {bo.Y, bo.X}} {
				if strings.Contains(exprShape(p, pr[0], isSvc, 0), "§") && strings.Contains(exprShape(p, pr[1], isEach, 0), "§") {
					sideSvc, sideEach = pr[0], pr[1]
				}
			}
			if sideSvc == nil {
				c.bad(name, construct+" suppressed by an unrelated equality", p.ipos(reg.Call), "the equality does not compare the new service with a registered one")
				continue
			}
			shSvc, shEach := exprShape(p, sideSvc, isSvc, 0), exprShape(p, sideEach, isEach, 0)
			okKey := strip(sideSvc) == keyBase || shSvc == keyShape
			if !okKey {
				// a normalisation of the key is fine; an ancestor from before a truncating step is not
				if call, ok := strip(sideSvc).(*ssa.Call); ok && isNormalisation(calleeName(&call.Call)) && strip(call.Call.Args[0]) == keyBase {
					okKey = true
				}
			}
			c.check(okKey, name, construct+": the guard compares the registered key", p.ipos(reg.Call),
				"guard operand "+shSvc+" is the registered pattern",
				"the guard compares "+shSvc+" but registers "+keyShape+": different values of the former can give the same pattern (the step between them truncates), so the same pattern is registered twice and http.ServeMux panics")
			c.check(shSvc == shEach, name, construct+": both sides of the guard are computed the same way", p.ipos(reg.Call),
				"both operands are "+shSvc, "the guard compares "+shSvc+" of the new service with "+shEach+" of a registered one")
		}
	}
	c.count("service_mux_registrations", n)
}

func ruleC11b(c *Ctx) {
	p := c.P
	add := p.fn("(*Container).Add")
	if add == nil {
		c.undecided("-", "(*Container).Add", "-", "not found")
		return
	}
	// the function that does the adding: the one that appends its *WebService parameter to the list (Add itself, or
	// a helper Add shares with another way of adding)
	appendsParam := func(fn *ssa.Function) bool {
		found := false
		for _, a := range p.fieldAccesses(fn) {
			if a.Kind != "store" || a.Owner != "Container" || a.Field.Name() != "webServices" {
				continue
			}
			call, ok := strip(a.Instr.(*ssa.Store).Val).(*ssa.Call)
			if !ok || !isBuiltinCall(call, "append") || len(call.Call.Args) != 2 {
				continue
			}
			if sl, ok := call.Call.Args[1].(*ssa.Slice); ok {
				if arr, ok := sl.X.(*ssa.Alloc); ok {
					for _, r := range referrers(arr) {
						if ia, ok := r.(*ssa.IndexAddr); ok {
							for _, rr := range referrers(ia) {
								if st, ok := rr.(*ssa.Store); ok && st.Addr == ssa.Value(ia) {
									if prm, ok := strip(st.Val).(*ssa.Parameter); ok && isPtrToRestful(prm.Type(), "WebService") {
										found = true
									}
								}
							}
						}
					}
				}
			}
		}
		return found
	}
	if !appendsParam(add) {
		for _, e := range p.callGraph().Out[add] {
			if e.Kind == EdgeStatic && recvTypeName(e.Callee) == "Container" && appendsParam(e.Callee) {
				add = e.Callee
			}
		}
	}
	name := p.fname(add)
	var svc *ssa.Parameter
	for _, prm := range add.Params {
		if isPtrToRestful(prm.Type(), "WebService") {
			svc = prm
		}
	}
	isSvc := func(v ssa.Value) bool { return v == ssa.Value(svc) }
	isEach := func(v ssa.Value) bool { _, ok := elementOfContainerList(p, v); return ok }
	facts := factsAt(add)
	// os.Exit only under whole-root-path equality
	var dupCond *ssa.BinOp
	var dupCall *ssa.Call
	nExit := 0
	eachInstr(add, func(i ssa.Instruction) {
		if !isCallTo(i, "os.Exit") {
			return
		}
		nExit++
		ok := false
		for f := range facts[i.Block()] {
			bo, isB := f.Cond.(*ssa.BinOp)
			if !isB || bo.Op != token.EQL || !f.Pol {
				continue
			}
			for _, pr := range [][2]ssa.Value{{bo.X, bo.Y}, {bo.Y, bo.X}} {
				a, b := exprShape(p, pr[0], isSvc, 0), exprShape(p, pr[1], isEach, 0)
				if a == b && strings.Contains(a, "§") && rootPathShape(a) {
					ok = true
					dupCond = bo
				}
			}
		}
		if !ok {
			// the scan may live in a helper: `if dup := c.find(service); dup != nil { exit }`
			for f := range facts[i.Block()] {
				bo, isB := f.Cond.(*ssa.BinOp)
				if !isB || bo.Op != token.NEQ || !f.Pol || !isNilConst(bo.Y) {
					continue
				}
				call, isCall := strip(bo.X).(*ssa.Call)
				if !isCall || call.Call.StaticCallee() == nil || !p.inModule(call.Call.StaticCallee()) {
					continue
				}
				h := call.Call.StaticCallee()
				for k, a := range call.Call.Args {
					// the new service itself, or something computed from it (`c.find(service.RootPath())`)
					sa := exprShape(p, a, isSvc, 0)
					if !strings.Contains(sa, "§") || k >= len(h.Params) {
						continue
					}
					hp := h.Params[k]
					if eq := positiveUnderEquality(p, h, func(x, y ssa.Value) bool {
						a := strings.ReplaceAll(exprShape(p, x, func(v ssa.Value) bool { return v == ssa.Value(hp) }, 0), "§", sa)
						b := exprShape(p, y, isEach, 0)
						return a == b && strings.Contains(a, "§") && rootPathShape(a)
					}); eq != nil {
						ok = true
						dupCond = eq
						dupCall = call
					}
				}
			}
		}
		c.check(ok, name, "exit only for a duplicate root path", p.ipos(i), "dominated by RootPath(existing) == RootPath(new)", "Add can exit although the new root path differs from every registered one")
	})
	if nExit == 0 {
		c.note(name, "Add never exits", "-", "no os.Exit")
	}
	// order: scan -> mux registration -> append
	var regCall, appendStore ssa.Instruction
	eachInstr(add, func(i ssa.Instruction) {
		if cc := callCommon(i); cc != nil {
			if cal := cc.StaticCallee(); cal != nil && p.inModule(cal) {
				for _, r := range muxRegistrations(p) {
					if r.Fn == cal {
						regCall = i
					}
				}
			}
		}
		if st, ok := i.(*ssa.Store); ok {
			if fa, ok := st.Addr.(*ssa.FieldAddr); ok && ownerOfFieldAddr(fa) == "Container" {
				if call, ok := strip(st.Val).(*ssa.Call); ok && isBuiltinCall(call, "append") {
					appendStore = i
				}
			}
		}
	})
	if regCall == nil || appendStore == nil {
		c.undecided(name, "mux registration and append", p.pos(add.Pos()), "cannot find the registration call or the append of the new service")
		return
	}
	c.check(!canReach(appendStore, regCall), name, "the service is appended after the mux registration", p.ipos(appendStore),
		"the append cannot precede the registration helper (whose membership scan must not yet see the new service)", "the new service is in the list before the registration helper scans it: the scan finds it and registers nothing")
	if dupCall != nil {
		c.check(!canReach(appendStore, dupCall) && !canReach(regCall, dupCall), name, "the duplicate scan comes first", p.ipos(dupCall),
			"neither the registration nor the append can precede the scan", "the service is registered or appended before the duplicate scan ran")
	} else if dupCond != nil {
		c.check(!canReach(appendStore, dupCond) && !canReach(regCall, dupCond), name, "the duplicate scan comes first", p.ipos(dupCond),
			"neither the registration nor the append can precede the scan", "the service is registered or appended before the duplicate scan ran")
	}
	// the appended value is the parameter
	st := appendStore.(*ssa.Store)
	call := strip(st.Val).(*ssa.Call)
	okVal := false
	if sl, ok := strip(call.Call.Args[1]).(*ssa.Slice); ok {
		if a, ok := sl.X.(*ssa.Alloc); ok {
			for _, r := range referrers(a) {
				if ia, ok := r.(*ssa.IndexAddr); ok {
					for _, rr := range referrers(ia) {
						if s2, ok := rr.(*ssa.Store); ok && strip(s2.Val) == ssa.Value(svc) {
							okVal = true
						}
					}
				}
			}
		}
	}
	c.check(okVal, name, "the service appended is the one that was checked and registered", p.ipos(appendStore), "append(c.webServices, service)", "another value is appended")
}

func rootPathShape(s string) bool {
	return strings.Contains(s, "RootPath(§)") || strings.Contains(s, "§.rootPath")
}

func ruleC11d(c *Ctx) {
	p := c.P
	cg := p.callGraph()
	n := 0
	for _, g := range p.SrcFunc {
		// g scans a Container list for its *WebService parameter?
		var svc *ssa.Parameter
		for _, prm := range g.Params {
			if isPtrToRestful(prm.Type(), "WebService") {
				svc = prm
			}
		}
		if svc == nil || g.Signature.Recv() == nil || recvTypeName(g) != "Container" {
			continue
		}
		var scanned *types.Var
		cyc := blocksOnCycles(g)
		eachInstr(g, func(i ssa.Instruction) {
			bo, ok := i.(*ssa.BinOp)
			if !ok || bo.Op != token.EQL || !cyc[i.Block()] {
				return
			}
			for _, pr := range [][2]ssa.Value{{bo.X, bo.Y}, {bo.Y, bo.X}} {
				a := exprShape(p, pr[0], func(v ssa.Value) bool { return v == ssa.Value(svc) }, 0)
				if !strings.Contains(a, "§") {
					continue
				}
				// other side: over an element of a Container list loaded in g
				var fld *types.Var
				exprShape(p, pr[1], func(v ssa.Value) bool {
					if l, ok := elementOfContainerList(p, v); ok {
						fld = fieldOfAddr(l.X.(*ssa.FieldAddr))
						return true
					}
					return false
				}, 0)
				if fld != nil {
					scanned = fld
				}
			}
		})
		if scanned == nil {
			continue
		}
		// only helpers (called from elsewhere in the module)
		for _, e := range cg.In[g] {
			if e.Kind != EdgeStatic {
				continue
			}
			cc := callCommon(e.Site)
			var arg ssa.Value
			for k, prm := range g.Params {
				if prm == svc && k < len(cc.Args) {
					arg = cc.Args[k]
				}
			}
			if arg == nil {
				continue
			}
			n++
			name := p.fname(e.Caller)
			construct := "argument of " + p.fname(g) + " (which scans Container." + scanned.Name() + ")"
			// called repeatedly (in a loop): what one call registered must be in the scanned list before the next call
			// asks "is this pattern registered already" - the service is appended between two calls on every path
			if ccyc := blocksOnCycles(e.Caller); ccyc[e.Site.Block()] && g.Name() != e.Caller.Name() {
				appended := func(i ssa.Instruction) bool {
					st, ok := i.(*ssa.Store)
					if !ok {
						return false
					}
					fa, ok := st.Addr.(*ssa.FieldAddr)
					return ok && fieldOfAddr(fa) == scanned
				}
				// search: from the call back to the call without passing a store to the list
				again := false
				seenB := map[*ssa.BasicBlock]bool{}
				var walk func(b *ssa.BasicBlock, from int) bool
				walk = func(b *ssa.BasicBlock, from int) bool {
					for k := from; k < len(b.Instrs); k++ {
						if appended(b.Instrs[k]) {
							return false
						}
						if b.Instrs[k] == e.Site && !(b == e.Site.Block() && from == indexInBlock(e.Site)+1 && k < from) {
							return true
						}
					}
					for _, sc := range b.Succs {
						if seenB[sc] {
							continue
						}
						seenB[sc] = true
						if walk(sc, 0) {
							return true
						}
					}
					return false
				}
				again = walk(e.Site.Block(), indexInBlock(e.Site)+1)
				c.check(!again, name, "what "+p.fname(g)+" registered is in Container."+scanned.Name()+" before it is called again", p.ipos(e.Site),
					"every path from this call back to it appends to the list the helper scans",
					"the helper is called again before the service it has just registered was appended to Container."+scanned.Name()+": its scan cannot see that registration, so two services that share a mux pattern are both registered and http.ServeMux panics (or the second one is taken for registered and is not)")
			}
			l, isElem := elementOfContainerList(p, arg)
			if !isElem || fieldOfAddr(l.X.(*ssa.FieldAddr)) != scanned {
				c.ok(name, construct, p.ipos(e.Site), "the argument is not taken from the scanned list")
				continue
			}
			// a store to the field between the load and the call, on every path
			replaced := false
			eachInstr(e.Caller, func(i ssa.Instruction) {
				st, ok := i.(*ssa.Store)
				if !ok {
					return
				}
				fa, ok := st.Addr.(*ssa.FieldAddr)
				if !ok || fieldOfAddr(fa) != scanned {
					return
				}
				if instrDominates(l, st) && instrDominates(st, e.Site) {
					// and the new value does not contain the argument: it is a fresh (empty) list
					if p.isFreshObject(st.Val) || isEmptySliceLiteral(st.Val) {
						replaced = true
					}
				}
			})
			c.check(replaced, name, construct, p.ipos(e.Site), "the argument comes from an earlier snapshot of the list; the field was replaced by a fresh list before the call",
				"the argument is an element of Container."+scanned.Name()+" and the field still holds that list: the membership scan in "+p.fname(g)+" finds the element itself, concludes 'already registered' and registers nothing")
		}
	}
	if n == 0 {
		c.note("-", "no registration helper scans a container list", "-", "nothing to decide")
	}
}

func isEmptySliceLiteral(v ssa.Value) bool {
	sl, ok := strip(v).(*ssa.Slice)
	if !ok {
		return false
	}
	a, ok := sl.X.(*ssa.Alloc)
	if !ok {
		return false
	}
	if arr, ok := a.Type().(*types.Pointer).Elem().Underlying().(*types.Array); ok {
		return arr.Len() == 0
	}
	return false
}

func ruleC11e(c *Ctx) {
	p := c.P
	rm := p.fn("(*Container).Remove")
	if rm == nil {
		c.undecided("-", "(*Container).Remove", "-", "not found")
		return
	}
	cg := p.callGraph()
	// the functions that install another mux on an existing container (Remove, a helper it delegates to, a new RemoveAll)
	var rebuilders []*ssa.Function
	for _, fn := range p.SrcFunc {
		if strings.HasPrefix(fn.Name(), "init") {
			continue // package initialisation gives the default container its mux: nothing is registered yet
		}
		for _, a := range p.fieldAccesses(fn) {
			if a.Kind == "store" && a.Owner == "Container" && a.Field.Name() == "ServeMux" && !p.freshBase(a.Addr) {
				rebuilders = append(rebuilders, fn)
				break
			}
		}
	}
	if len(rebuilders) == 0 {
		c.triv(p.fname(rm), "Remove keeps the mux", p.pos(rm.Pos()), "nothing to replay")
		return
	}
	// the flag "a service is registered on /" describes the installed mux: whoever installs a mux assigns the flag with it
	for _, rb := range rebuilders {
		var muxStores, flagStores []ssa.Instruction
		for _, a := range p.fieldAccesses(rb) {
			if a.Kind != "store" || a.Owner != "Container" {
				continue
			}
			switch a.Field.Name() {
			case "ServeMux":
				muxStores = append(muxStores, a.Instr)
			case "isRegisteredOnRoot":
				flagStores = append(flagStores, a.Instr)
			}
		}
		for _, ms := range muxStores {
			together := false
			for _, fs := range flagStores {
				if alwaysTogether(ms, fs) {
					together = true
				}
			}
			c.check(together, p.fname(rb), "the root flag is assigned together with the mux it describes", p.ipos(ms),
				"isRegisteredOnRoot is stored on the same paths as ServeMux",
				p.fname(rb)+" installs another ServeMux but leaves isRegisteredOnRoot as it was: if a service had been registered on / the flag stays true, every later Add skips the mux registration, and the added services answer 404 through ServeHTTP while Dispatch reaches them")
		}
	}
	for _, rb := range rebuilders {
		replayed := cg.reach([]*ssa.Function{rb}, func(e Edge) bool { return e.Kind != EdgeStatic })
		seen := map[*ssa.Function]bool{}
		for _, reg := range muxRegistrations(p) {
			if seen[reg.Fn] {
				continue
			}
			if p.isRecordReplay(reg) {
				continue // the replay itself
			}
			seen[reg.Fn] = true
			// registrations on the container's own mux: receiver mux derives from Container.ServeMux or a mux parameter
			top := topFunc(reg.Fn)
			if recvTypeName(top) != "Container" {
				continue
			}
			construct := "registrations by " + p.fname(reg.Fn) + " are replayed"
			if replayed[reg.Fn] {
				c.ok(p.fname(rb), construct, p.ipos(reg.Call), "reached from the rebuild")
			} else if ok, how, why := p.replayedByRecord(rb, reg); ok {
				c.ok(p.fname(rb), construct, p.ipos(reg.Call), how)
			} else if hasServiceParam(reg.Fn) && emptiesServiceList(p, rb) {
				c.ok(p.fname(rb), construct, p.ipos(reg.Call), "the rebuild leaves no WebService registered (the list is replaced by an empty one and nothing is appended): there is no service pattern to register again")
			} else {
				msg := p.fname(rb) + " installs a new http.ServeMux and replays only what it reaches; patterns registered through " + p.fname(reg.Fn) + " are lost after it ran"
				if why != "" {
					msg += " (" + why + ")"
				}
				c.bad(p.fname(rb), "registrations by "+p.fname(reg.Fn)+" are not replayed", p.ipos(reg.Call), msg)
			}
		}
	}
}

func hasServiceParam(fn *ssa.Function) bool {
	for _, prm := range fn.Params {
		if isPtrToRestful(prm.Type(), "WebService") {
			return true
		}
	}
	return false
}

// emptiesServiceList: fn stores an empty list into Container.webServices and never a non-empty one.
func emptiesServiceList(p *Program, fn *ssa.Function) bool {
	empties, grows := false, false
	for _, a := range p.fieldAccesses(fn) {
		if a.Kind != "store" || a.Owner != "Container" || a.Field.Name() != "webServices" {
			continue
		}
		v := a.Instr.(*ssa.Store).Val
		if isNilConst(v) || isEmptySliceLiteral(v) {
			empties = true
		} else {
			grows = true
		}
	}
	return empties && !grows
}

func ruleC11f(c *Ctx) {
	p := c.P
	for _, spec := range []struct{ fn, owner, field string }{{"(*Container).Remove", "Container", "webServices"}, {"(*WebService).RemoveRoute", "WebService", "routes"}} {
		fn := p.fn(spec.fn)
		if fn == nil {
			c.undecided("-", spec.fn, "-", "not found")
			continue
		}
		name := p.fname(fn)
		cyc := blocksOnCycles(fn)
		// loops that index a slice loaded from the list field
		headers := map[*ssa.BasicBlock]bool{}
		eachInstr(fn, func(i ssa.Instruction) {
			ia, ok := i.(*ssa.IndexAddr)
			if !ok || !cyc[i.Block()] {
				return
			}
			fromList := false
			for _, s := range p.sources(ia.X, provDefault) {
				if _, ok := fieldLoadIs(s, spec.owner, spec.field); ok {
					fromList = true
				}
				// the list read through an accessor method of the owner
				if call, ok := s.(*ssa.Call); ok && call.Call.StaticCallee() != nil && recvTypeName(call.Call.StaticCallee()) == spec.owner {
					for _, a := range p.fieldAccesses(call.Call.StaticCallee()) {
						if a.Kind == "load" && a.Field.Name() == spec.field {
							fromList = true
						}
					}
				}
			}
			if !fromList {
				return
			}
			// loop header: nearest dominator on the cycle ending in an If with an edge that leaves the cycle
			for b := i.Block(); b != nil; b = b.Idom() {
				if !cyc[b] {
					break
				}
				if _, ok := b.Instrs[len(b.Instrs)-1].(*ssa.If); ok {
					for _, s := range b.Succs {
						if !reachableBlocks([]*ssa.BasicBlock{s}, nil)[b] {
							headers[b] = true
						}
					}
				}
			}
		})
		if len(headers) == 0 {
			c.bad(name, "scan over "+spec.owner+"."+spec.field, p.pos(fn.Pos()), "the removal operation does not iterate over the registered "+spec.field)
			continue
		}
		for h := range headers {
			// blocks of this loop: on a cycle through h
			var body []*ssa.BasicBlock
			fromH := reachableAfter(h, nil)
			for _, b := range fn.Blocks {
				if b != h && cyc[b] && fromH[b] && reachableAfter(b, nil)[h] {
					body = append(body, b)
				}
			}
			early := ""
			avoid := map[*ssa.BasicBlock]bool{h: true}
			for b := range reachableBlocks(body, avoid) {
				for _, ins := range b.Instrs {
					switch x := ins.(type) {
					case *ssa.Return:
						early = "a return at " + p.ipos(x) + " is reachable from inside the loop without exhausting the list"
					case *ssa.Store:
						if fa, ok := x.Addr.(*ssa.FieldAddr); ok && fieldOfAddr(fa).Name() == spec.field && ownerOfFieldAddr(fa) == spec.owner && !cyc[b] {
							early = "the new list is stored at " + p.ipos(x) + " from inside the loop, before the scan is complete"
						}
					}
				}
			}
			c.check(early == "", name, "the scan over "+spec.owner+"."+spec.field+" runs to exhaustion", p.ipos(h.Instrs[len(h.Instrs)-1]),
				"the loop's only exit is the exhaustion of the list", early+": entries after the first match are not examined and stay registered")
		}
	}
}

// positiveUnderEquality: every positive return of h (a result that is not the constant false / nil)
// lies in a block where an equality accepted by `accept(x, y)` (operands in either order) is known true,
// and h has a negative return as well. Returns one such equality, or nil.
func positiveUnderEquality(p *Program, h *ssa.Function, accept func(x, y ssa.Value) bool) *ssa.BinOp {
	if h.Blocks == nil {
		return nil
	}
	facts := factsAt(h)
	var found *ssa.BinOp
	pos, neg := 0, 0
	for _, r := range returnsOf(h) {
		if len(r.Results) == 0 {
			return nil
		}
		v := r.Results[0]
		if b, ok := constBool(v); (ok && !b) || isNilConst(v) {
			neg++
			continue
		}
		pos++
		okRet := false
		for f := range facts[r.Block()] {
			bo, isB := f.Cond.(*ssa.BinOp)
			if !isB || bo.Op != token.EQL || !f.Pol {
				continue
			}
			if accept(bo.X, bo.Y) || accept(bo.Y, bo.X) {
				okRet = true
				found = bo
			}
		}
		if !okRet {
			return nil
		}
	}
	if pos == 0 || neg == 0 {
		return nil
	}
	return found
}

func ruleC11g(c *Ctx) {
	p := c.P
	for _, spec := range []struct {
		fn, owner, field string
		keys             []string
	}{{"(*Container).Remove", "Container", "webServices", []string{"rootPath"}}, {"(*WebService).RemoveRoute", "WebService", "routes", []string{"Method", "Path"}}} {
		fn := p.fn(spec.fn)
		if fn == nil {
			c.undecided("-", spec.fn, "-", "not found")
			continue
		}
		name := p.fname(fn)
		cyc := blocksOnCycles(fn)
		var listFieldType types.Type
		if nt := p.namedType(spec.owner); nt != nil {
			if st, ok := nt.Underlying().(*types.Struct); ok {
				for k := 0; k < st.NumFields(); k++ {
					if st.Field(k).Name() == spec.field {
						listFieldType = st.Field(k).Type()
					}
				}
			}
		}
		// the keep-appends: appends (to a list of the scanned kind) inside a loop. A removal may be one scan or a scan
		// followed by loops that copy what was kept; in every such loop an element is skipped only under the key equality.
		var keeps []ssa.Instruction
		eachInstr(fn, func(i ssa.Instruction) {
			if isBuiltinCall(i, "append") && cyc[i.Block()] {
				// an append to a list of the kind that is scanned (not a log, a pattern list, ...)
				if v, ok := i.(ssa.Value); ok && listFieldType != nil && !types.Identical(v.Type().Underlying(), listFieldType.Underlying()) {
					return
				}
				keeps = append(keeps, i)
			}
		})
		if len(keeps) == 0 {
			c.bad(name, "kept entries are appended to the new list", p.pos(fn.Pos()), "no append inside the removal scan: every entry is dropped")
			continue
		}
		totalSkip := 0
		bad := ""
		var at ssa.Instruction
		undecided := false
		for _, keep := range keeps {
			// loop header of the scan
			var header *ssa.BasicBlock
			for b := keep.Block(); b != nil; b = b.Idom() {
				if cyc[b] && reachableAfter(keep.Block(), nil)[b] {
					if _, ok := b.Instrs[len(b.Instrs)-1].(*ssa.If); ok {
						for _, s := range b.Succs {
							if !reachableBlocks([]*ssa.BasicBlock{s}, nil)[b] {
								header = b
							}
						}
					}
				}
				if header != nil {
					break
				}
			}
			if header == nil {
				c.undecided(name, "removal scan", p.ipos(keep), "cannot find the loop of the scan")
				undecided = true
				continue
			}
			var bodyEntry *ssa.BasicBlock
			for _, s := range header.Succs {
				if reachableBlocks([]*ssa.BasicBlock{s}, nil)[header] {
					bodyEntry = s
				}
			}
			paths, ok := enumPathsBetween(fn, bodyEntry, header, 500)
			if !ok || len(paths) == 0 {
				c.undecided(name, "removal scan", p.ipos(keep), "cannot enumerate the paths of one iteration")
				undecided = true
				continue
			}
			if at == nil {
				at = keep
			}
			for _, pa := range paths {
				// another keep-append of the same loop on this path keeps the element as well
				kept := false
				for _, k2 := range keeps {
					if pa.has(k2.Block()) {
						kept = true
					}
				}
				if kept {
					continue
				}
				totalSkip++
				for _, k := range spec.keys {
					found := false
					for f := range pa.Facts {
						bo, ok := f.Cond.(*ssa.BinOp)
						if !ok || !f.Pol || bo.Op != token.EQL {
							continue
						}
						_, f1, ok1 := fieldLoad(strip(bo.X))
						_, f2, ok2 := fieldLoad(strip(bo.Y))
						n1, n2 := "", ""
						if ok1 {
							n1 = f1.Name()
						}
						if ok2 {
							n2 = f2.Name()
						}
						if call, ok := strip(bo.X).(*ssa.Call); ok && call.Call.StaticCallee() != nil {
							n1 = call.Call.StaticCallee().Name()
						}
						if call, ok := strip(bo.Y).(*ssa.Call); ok && call.Call.StaticCallee() != nil {
							n2 = call.Call.StaticCallee().Name()
						}
						if strings.EqualFold(n1, k) || strings.EqualFold(n2, k) {
							found = true
						}
					}
					if !found {
						bad = "an entry can be dropped without its " + k + " being equal to the argument's"
						at = keep
					}
				}
			}
		}
		if undecided && at == nil {
			continue
		}
		c.check(totalSkip > 0 && bad == "", name, "an entry is dropped only when its whole key matches", p.ipos(at), "every dropping path carries equality on "+strings.Join(spec.keys, " and "),
			bad+": entries nobody asked to remove disappear")
	}
}

func ruleC11h(c *Ctx) {
	p := c.P
	roles := p.Roles()
	seen := map[*ssa.Function]bool{}
	for _, reg := range serviceRegistrations(p) {
		fn := reg.Fn
		if seen[fn] || !roles.MutatorPath[fn] {
			continue
		}
		seen[fn] = true
		name := p.fname(fn)
		var regs []muxRegistration
		for _, r := range serviceRegistrations(p) {
			if r.Fn == fn {
				regs = append(regs, r)
			}
		}
		paths, ok := enumPaths(fn, nil, 2000)
		if !ok {
			c.undecided(name, "paths through the registration helper", p.pos(fn.Pos()), "too many paths")
			continue
		}
		// suppression: a scan equality or a membership helper answered "already registered"
		isSuppression := func(f condFact) bool {
			if !f.Pol {
				return false
			}
			switch x := f.Cond.(type) {
			case *ssa.BinOp:
				if x.Op == token.EQL && isStringType(x.X.Type()) {
					_, okX := elementRooted(p, x.X)
					_, okY := elementRooted(p, x.Y)
					return okX || okY
				}
			case *ssa.Call:
				return x.Call.StaticCallee() != nil && p.inModule(x.Call.StaticCallee()) && isBoolFunc(x.Call.StaticCallee())
			}
			return false
		}
		badNone, badRoot := "", ""
		for _, pa := range paths {
			nreg, root := 0, false
			var ret *ssa.Return
			for _, i := range pa.instrs() {
				for _, r := range regs {
					if r.Call == i {
						nreg++
						if k, ok := constStr(r.Key); ok && k == "/" {
							root = true
						}
					}
				}
				if r, ok := i.(*ssa.Return); ok {
					ret = r
				}
			}
			if ret == nil {
				continue
			}
			if nreg == 0 {
				sup := false
				for f := range pa.Facts {
					if isSuppression(f) {
						sup = true
					}
				}
				if !sup {
					badNone = "a path to the return at " + p.ipos(ret) + " registers nothing although no earlier registration was found"
				}
			}
			if len(ret.Results) == 1 {
				if b, ok := constBool(ret.Results[0]); ok && b && !root {
					badRoot = "the return at " + p.ipos(ret) + " reports 'registered on root' on a path that did not register \"/\""
				}
			}
		}
		c.check(badNone == "", name, "every path registers unless an earlier registration was found", p.pos(fn.Pos()), itoa(len(paths))+" paths", badNone+": the service answers 404 through ServeHTTP")
		c.check(badRoot == "", name, "'registered on root' is reported only after registering \"/\"", p.pos(fn.Pos()), "every `return true` path contains the \"/\" registration", badRoot+": later services are never registered on the mux")
	}
}

// elementRooted: the expression is computed from an element of a container list.
func elementRooted(p *Program, v ssa.Value) (ssa.Value, bool) {
	found := false
	exprShape(p, v, func(x ssa.Value) bool {
		if _, ok := elementOfContainerList(p, x); ok {
			found = true
			return true
		}
		return false
	}, 0)
	return v, found
}
