package main

import (
	"go/ast"
	"go/token"
	"go/types"
	"regexp/syntax"
	"strconv"
	"strings"

	"golang.org/x/tools/go/ssa"
)

// Rules added after the second round of seeded changes.

// ruleNoDeclaredLength: framework code on the request path never declares a body length. The writer it holds may
// apply a content coding (dispatch hands the encoding writer to filters, handlers, the error writer and the recover
// handler), whose Header() is the underlying header map: a Content-Length computed from the plain bytes is wrong
// for the encoded body, and the client reads a truncated stream.
func ruleNoDeclaredLength(c *Ctx) {
	p := c.P
	n, bad := 0, 0
	for _, fn := range p.requestPathFuncs() {
		eachInstr(fn, func(i ssa.Instruction) {
			k, kc, _, ok := headerWrite(i)
			if !ok {
				return
			}
			n++
			if kc && strings.EqualFold(k, "Content-Length") {
				bad++
				c.bad(p.fname(fn), "Content-Length declared by framework code", p.ipos(i),
					"the writer may be the encoding writer (its Header() is the underlying header map, its Write goes through gzip/deflate): a length computed from the plain bytes truncates the encoded body at the client")
			}
		})
	}
	c.count("header_writes_examined", n)
	if bad == 0 {
		c.ok("-", "no framework header write declares a body length", "-", itoa(n)+" header writes on the request path, none with the key Content-Length")
	}
}

// ruleGlobalsUnderInstanceLocks: a package-level variable written on the mutator or request path is shared by all
// containers and services; a lock that is a field of one instance does not protect it.
func ruleGlobalsUnderInstanceLocks(c *Ctx) {
	p := c.P
	li := p.lockInfo()
	roles := p.Roles()
	n := 0
	for _, fn := range p.SrcFunc {
		if !roles.RequestPath[fn] && !roles.MutatorPath[fn] {
			continue
		}
		if fn.Name() == "init" || strings.HasPrefix(fn.Name(), "init#") {
			continue
		}
		eachInstr(fn, func(i ssa.Instruction) {
			st, ok := i.(*ssa.Store)
			if !ok {
				return
			}
			g, ok := st.Addr.(*ssa.Global)
			if !ok || g.Pkg != p.Restful && g.Pkg != p.Log {
				return
			}
			n++
			global := false
			for l, mode := range li.heldAt(i) {
				if mode == lockW && !l.IsField() {
					global = true
				}
			}
			which := "the mutator path (Add/Remove/Route/RemoveRoute)"
			if roles.RequestPath[fn] {
				which = "the request path"
			}
			c.check(global, p.fname(fn), "plain store to package variable "+g.Name(), p.ipos(i), "under a package-level write lock",
				"package variable "+g.Name()+" is written on "+which+" holding "+lockSetString(li.heldAt(i))+": locks that are fields protect one instance, goroutines working on different containers or services race on the variable (use sync/atomic or a package-level lock)")
		})
	}
	if n == 0 {
		c.ok("-", "no plain store to a package variable on the request or mutator path", "-", "package-level state is only changed through sync/atomic or outside these paths")
	}
	c.count("global_stores", n)
}

// ruleNoCompressorCopy: compressors and decompressors are used through the pointer their constructor returned. A
// struct copy shares the internal state (flate decompressor, buffers) between the copies.
func isCompressorStruct(t types.Type) bool {
	n, ok := types.Unalias(t).(*types.Named)
	if !ok || n.Obj().Pkg() == nil {
		return false
	}
	switch n.Obj().Pkg().Path() {
	case "compress/gzip", "compress/zlib", "compress/flate", "bufio", "bytes", "strings", "sync":
	default:
		return false
	}
	_, isStruct := n.Underlying().(*types.Struct)
	return isStruct
}

func ruleNoCompressorCopy(c *Ctx) {
	p := c.P
	n, bad := 0, 0
	for _, fn := range p.SrcFunc {
		eachInstr(fn, func(i ssa.Instruction) {
			u, ok := i.(*ssa.UnOp)
			if !ok || u.Op != token.MUL || !isCompressorStruct(u.Type()) {
				return
			}
			pkg := types.Unalias(u.Type()).(*types.Named).Obj().Pkg().Path()
			if !strings.HasPrefix(pkg, "compress/") {
				return
			}
			n++
			bad++
			c.bad(p.fname(fn), "struct copy of "+typeShort(u.Type()), p.ipos(i),
				"a compressor is copied by value: the copies are distinct pointers for the pool but share the inner (de)compressor state, so two requests holding 'different' objects corrupt each other's stream")
		})
		eachInstr(fn, func(i ssa.Instruction) {
			if v, ok := i.(ssa.Value); ok {
				if pt, ok := v.Type().Underlying().(*types.Pointer); ok && isCompressorStruct(pt.Elem()) {
					if n2 := types.Unalias(pt.Elem()).(*types.Named); strings.HasPrefix(n2.Obj().Pkg().Path(), "compress/") {
						n++
					}
				}
			}
		})
	}
	c.count("compressor_values_examined", n)
	if bad == 0 {
		c.ok("-", "compressors are only handled through the pointers their constructors return", "-", itoa(n)+" values of a compress/* pointer type, no dereferencing copy")
	}
}

// ruleServiceListAgreement: the computation behind OPTIONS/preflight iterates the service list through an accessor;
// that accessor must read the very field the dispatcher hands to the router, or the two answer from different states.
func ruleServiceListAgreement(c *Ctx) {
	p := c.P
	ds, err := findDispatchers(p)
	if err != nil || len(ds) == 0 {
		c.undecided("-", "dispatching function", "-", "not found")
		return
	}
	routed := map[*types.Var]bool{}
	for _, d := range ds {
		for _, a := range d.SelectCall.Call.Args {
			for _, s := range p.sources(a, provOpt{ThroughCells: true, ThroughCalls: 2}) {
				if _, f, ok := fieldLoad(s); ok {
					routed[f] = true
				}
			}
		}
	}
	acc := p.fn("(*Container).RegisteredWebServices")
	if acc == nil || len(routed) == 0 {
		c.undecided("-", "service list accessor / routed list", "-", "RegisteredWebServices or the list handed to SelectRoute not found")
		return
	}
	read := map[*types.Var]bool{}
	for _, fn := range withClosures(acc) {
		eachInstr(fn, func(i ssa.Instruction) {
			if v, ok := i.(ssa.Value); ok {
				if _, f, ok := fieldLoad(v); ok {
					if sl, ok := f.Type().Underlying().(*types.Slice); ok && isPtrToRestful(sl.Elem(), "WebService") {
						read[f] = true
					}
				}
			}
		})
	}
	same := len(read) > 0
	var names []string
	for f := range read {
		names = append(names, f.Name())
		if !routed[f] {
			same = false
		}
	}
	var rn []string
	for f := range routed {
		rn = append(rn, f.Name())
	}
	c.check(same, p.fname(acc), "the accessor reads the list the dispatcher routes on", p.pos(acc.Pos()),
		"both use Container."+strings.Join(rn, ","),
		"RegisteredWebServices reads {"+strings.Join(names, ",")+"} but the dispatcher hands {"+strings.Join(rn, ",")+"} to SelectRoute: what OPTIONS and preflights announce is computed from a different state than what is routed (a copy that Add or Remove does not refresh)")
}

// ---------------------------------------------------------------------------
// ruleSubmatchContext: a capture group taken from a package-level pattern is the text between the literals the
// pattern requires around it. When that text is used to test ANOTHER string, the literals have to be put back
// (`:([A-Za-z]+)$` captures "cancel" out of ":cancel"; testing a request token against "cancel" alone admits
// "nocancel").
func literalBeforeGroups(pattern string) map[int]string {
	re, err := syntax.Parse(pattern, syntax.Perl)
	if err != nil {
		return nil
	}
	out := map[int]string{}
	var walk func(r *syntax.Regexp, before string)
	walk = func(r *syntax.Regexp, before string) {
		switch r.Op {
		case syntax.OpCapture:
			out[r.Cap] = before
			if len(r.Sub) == 1 {
				walk(r.Sub[0], "")
			}
		case syntax.OpConcat:
			prev := before
			for _, s := range r.Sub {
				walk(s, prev)
				if s.Op == syntax.OpLiteral {
					prev = string(s.Rune)
				} else {
					prev = ""
				}
			}
		}
	}
	walk(re, "")
	return out
}

func ruleSubmatchContext(c *Ctx) {
	p := c.P
	// package-level patterns: global = regexp.MustCompile(const)
	patterns := map[*ssa.Global]string{}
	var inits []*ssa.Function
	if f := p.Restful.Func("init"); f != nil {
		inits = append(inits, f)
	}
	for _, fn := range p.Funcs {
		if strings.HasPrefix(fn.Name(), "init#") {
			inits = append(inits, fn)
		}
	}
	for _, fn := range inits {
		eachInstr(fn, func(i ssa.Instruction) {
			st, ok := i.(*ssa.Store)
			if !ok {
				return
			}
			g, ok := st.Addr.(*ssa.Global)
			if !ok {
				return
			}
			if call, ok := strip(st.Val).(*ssa.Call); ok && (calleeName(&call.Call) == "regexp.MustCompile") {
				if s, ok := constStr(call.Call.Args[0]); ok {
					patterns[g] = s
				}
			}
		})
	}
	n := 0
	for _, fn := range p.requestPathFuncs() {
		name := p.fname(fn)
		eachInstr(fn, func(i ssa.Instruction) {
			call, ok := i.(*ssa.Call)
			cnm := ""
			if ok {
				cnm = calleeName(&call.Call)
			}
			if !ok || (cnm != "(*regexp.Regexp).FindStringSubmatch" && cnm != "(*regexp.Regexp).FindStringSubmatchIndex") {
				return
			}
			u, ok := strip(call.Call.Args[0]).(*ssa.UnOp)
			if !ok {
				return
			}
			g, ok := u.X.(*ssa.Global)
			if !ok {
				return
			}
			pat, ok := patterns[g]
			if !ok {
				return
			}
			lits := literalBeforeGroups(pat)
			searched := strip(call.Call.Args[1])
			// the text of group k >= 1: element k of the match, or searched[idx[2k]:idx[2k+1]] of the index form
			type groupText struct {
				v ssa.Value
				k int64
			}
			var groups []groupText
			for _, r := range referrers(call) {
				ia, ok := r.(*ssa.IndexAddr)
				if !ok {
					continue
				}
				k, isC := constInt(ia.Index)
				if !isC {
					continue
				}
				for _, r2 := range referrers(ia) {
					ld, ok := r2.(*ssa.UnOp)
					if !ok || ld.Op != token.MUL {
						continue
					}
					if cnm == "(*regexp.Regexp).FindStringSubmatch" {
						groups = append(groups, groupText{ld, k})
						continue
					}
					// index form: a slice expression whose low bound is idx[2k]
					if k%2 != 0 {
						continue
					}
					for _, r3 := range referrers(ld) {
						if sl, ok := r3.(*ssa.Slice); ok && sl.Low == ssa.Value(ld) && isStringType(sl.Type()) {
							groups = append(groups, groupText{sl, k / 2})
						}
					}
				}
			}
			for _, gt := range groups {
				k := gt.k
				if k < 1 || lits[int(k)] == "" {
					continue
				}
				lit := lits[int(k)]
				{
					ld := gt.v
					// where the group text goes
					for _, use := range referrers(ld) {
						switch x := use.(type) {
						case *ssa.Call:
							cn := calleeName(&x.Call)
							switch cn {
							case "strings.HasSuffix", "strings.HasPrefix", "strings.Contains", "strings.EqualFold", "strings.Index":
								other := x.Call.Args[0]
								if strip(other) == ssa.Value(ld) {
									other = x.Call.Args[1]
								}
								if strip(other) == searched {
									continue
								}
								n++
								c.bad(name, "group "+itoa(int(k))+" of "+g.Name()+" used to test another string without its literal context", p.ipos(x),
									"the pattern "+strconv.Quote(pat)+" only captures what follows "+strconv.Quote(lit)+"; "+shortCallee(&x.Call)+" tests a different string against the captured text alone, so a value that merely ends in (contains) the same letters is accepted")
							}
						case *ssa.BinOp:
							if x.Op == token.EQL || x.Op == token.NEQ {
								other := x.X
								if strip(other) == ssa.Value(ld) {
									other = x.Y
								}
								if strip(other) == searched {
									continue
								}
								n++
								c.bad(name, "group "+itoa(int(k))+" of "+g.Name()+" compared with another string without its literal context", p.ipos(x),
									"the pattern "+strconv.Quote(pat)+" only captures what follows "+strconv.Quote(lit))
							}
						case *ssa.MakeInterface:
							// fmt.Sprintf(format, group): the format must put the literal back right before the verb
							for _, u3 := range referrers(x) {
								st, ok := u3.(*ssa.Store)
								if !ok {
									continue
								}
								ia2, ok := st.Addr.(*ssa.IndexAddr)
								if !ok {
									continue
								}
								for _, u4 := range referrers(ia2.X) {
									sl, ok := u4.(*ssa.Slice)
									if !ok {
										continue
									}
									for _, u5 := range referrers(sl) {
										sp, ok := u5.(*ssa.Call)
										if !ok || calleeName(&sp.Call) != "fmt.Sprintf" {
											continue
										}
										n++
										format, okF := constStr(sp.Call.Args[0])
										c.check(okF && strings.Contains(format, lit+"%"), name, "group "+itoa(int(k))+" of "+g.Name()+" is put back into its literal context", p.ipos(sp),
											"format "+strconv.Quote(format)+" restores "+strconv.Quote(lit)+" in front of the captured text",
											"the text built from the captured group does not restore "+strconv.Quote(lit)+" in front of it: the test it is used for accepts values without that literal")
									}
								}
							}
						}
					}
				}
			}
		})
	}
	c.count("submatch_group_uses", n)
	if n == 0 {
		c.note("-", "no capture group of a package-level pattern is used to test another string", "-", "nothing to decide")
	}
}

// rulePatternNonEmpty: http.ServeMux panics on an empty pattern. A computed pattern is registered only where the
// value it is trimmed from was found different from "" and from "/" (the root case is registered separately).
func rulePatternNonEmpty(c *Ctx) {
	p := c.P
	roles := p.Roles()
	n := 0
	for _, reg := range serviceRegistrations(p) {
		if !roles.MutatorPath[reg.Fn] {
			continue
		}
		if _, isConst := constStr(reg.Key); isConst {
			continue
		}
		key := strip(reg.Key)
		if bo, ok := key.(*ssa.BinOp); ok && bo.Op == token.ADD {
			if _, isC := constStr(bo.Y); isC {
				key = strip(bo.X)
			}
		}
		var srcs []ssa.Value
		var collect func(v ssa.Value, depth int)
		seen := map[ssa.Value]bool{}
		collect = func(v ssa.Value, depth int) {
			v = strip(v)
			if seen[v] || depth > 4 {
				return
			}
			seen[v] = true
			switch x := v.(type) {
			case *ssa.Phi:
				for _, e := range x.Edges {
					collect(e, depth+1)
				}
				return
			case *ssa.Call:
				if cn := calleeName(&x.Call); cn == "strings.TrimRight" || cn == "strings.TrimSuffix" {
					collect(x.Call.Args[0], depth+1)
					return
				}
			}
			srcs = append(srcs, v)
		}
		collect(key, 0)
		n++
		facts := factsAt(reg.Fn)[reg.Call.Block()]
		notEq := func(v ssa.Value, s string) bool {
			for f := range facts {
				bo, ok := f.Cond.(*ssa.BinOp)
				if !ok {
					continue
				}
				neq := (bo.Op == token.NEQ && f.Pol) || (bo.Op == token.EQL && !f.Pol)
				if !neq {
					continue
				}
				for _, pr := range [][2]ssa.Value{{bo.X, bo.Y}, {bo.Y, bo.X}} {
					if k, ok := constStr(pr[1]); ok && k == s && strip(pr[0]) == v {
						return true
					}
				}
			}
			return false
		}
		okAll := len(srcs) > 0
		for _, v := range srcs {
			if !notEq(v, "") || !notEq(v, "/") {
				okAll = false
			}
		}
		c.check(okAll, p.fname(reg.Fn), "a computed mux pattern is registered only where it cannot be empty", p.ipos(reg.Call),
			"the value the pattern is trimmed from was compared with \"\" and \"/\" on every path here",
			"the registered pattern is the trimmed form of a value that was not itself tested against \"\" and \"/\" (the root test looks at another expression): for a root path whose fixed prefix is \"/\" the pattern is empty and http.ServeMux panics")
	}
	if n == 0 {
		c.note("-", "no computed mux pattern", "-", "nothing to decide")
	}
}

// ruleBothSidesNormalised: in registration code a string equality decides whether two things are "the same"
// (duplicate root path, route to remove, pattern already mapped). Both operands must have gone through the same
// rewriting functions; trimming one side only makes stored values that the trim changes unmatchable.
func ruleBothSidesNormalised(c *Ctx) {
	p := c.P
	roles := p.Roles()
	n := 0
	for _, fn := range p.SrcFunc {
		if !roles.MutatorPath[fn] {
			continue
		}
		name := p.fname(fn)
		eachInstr(fn, func(i ssa.Instruction) {
			bo, ok := i.(*ssa.BinOp)
			if !ok || (bo.Op != token.EQL && bo.Op != token.NEQ) || !isStringType(bo.X.Type()) {
				return
			}
			if _, isC := constStr(bo.X); isC {
				return
			}
			if _, isC := constStr(bo.Y); isC {
				return
			}
			side := func(v ssa.Value) string {
				w := &xformWalk{p: p, seen: map[ssa.Value]bool{}, found: map[string]bool{}, all: true, local: true}
				w.walk(v, 0)
				return strings.Join(sortedKeys(w.found), ", ")
			}
			a, b := side(bo.X), side(bo.Y)
			if a == "" && b == "" {
				return
			}
			n++
			c.check(a == b, name, "both operands of a registration-time equality are normalised alike", p.ipos(i), "{"+a+"} on both sides",
				"one operand went through {"+a+"}, the other through {"+b+"}: a stored value that the one-sided normalisation changes can never be equal (a route whose Path ends in '/' cannot be removed, a duplicate is not recognised)")
		})
	}
	c.count("normalised_equalities", n)
	if n == 0 {
		c.ok("-", "registration-time equalities compare values as stored", "-", "no operand of a string equality on the mutator path is rewritten")
	}
}

// ruleFillWithinCapacity: outside the providers' Acquire/Release methods (C13.c) the module sends on a channel only
// while it fills a cache it has just made; such a plain send never blocks only if the loop that sends is bounded by
// the very capacity the channel was made with.
func ruleFillWithinCapacity(c *Ctx) {
	p := c.P
	methods := map[*ssa.Function]bool{}
	for _, m := range providerMethods(p) {
		methods[m] = true
	}
	n := 0
	for _, fn := range p.SrcFunc {
		if methods[fn] || !p.inModule(fn) {
			continue
		}
		name := p.fname(fn)
		facts := factsAt(fn)
		eachInstr(fn, func(i ssa.Instruction) {
			snd, ok := i.(*ssa.Send)
			if !ok {
				return
			}
			n++
			// the channel: a local make, or a field whose only store in the module is a make
			var mk *ssa.MakeChan
			ch := strip(snd.Chan)
			if m, ok := ch.(*ssa.MakeChan); ok {
				mk = m
			} else if _, f, ok := fieldLoad(ch); ok {
				stores := 0
				for _, g := range p.SrcFunc {
					eachInstr(g, func(j ssa.Instruction) {
						st, ok := j.(*ssa.Store)
						if !ok {
							return
						}
						fa, ok := st.Addr.(*ssa.FieldAddr)
						if !ok || fieldOfAddr(fa) != f {
							return
						}
						stores++
						if m, ok := strip(st.Val).(*ssa.MakeChan); ok {
							mk = m
						}
					})
				}
				if stores != 1 {
					mk = nil
				}
			}
			if mk == nil {
				c.bad(name, "channel send outside a provider method", p.ipos(i), "a plain send on a channel that was not made with a known capacity (one make, stored once) may block forever")
				return
			}
			// M is the capacity: the same value, or a field that the function making the channel sets to that value
			isCapacity := func(m ssa.Value) bool {
				m = strip(m)
				if m == strip(mk.Size) {
					return true
				}
				// cap(ch) of the channel the send is on
				if cl, ok := m.(*ssa.Call); ok {
					if b, ok := cl.Call.Value.(*ssa.Builtin); ok && b.Name() == "cap" && len(cl.Call.Args) == 1 {
						a := strip(cl.Call.Args[0])
						if a == ch {
							return true
						}
						_, fa, ok1 := fieldLoad(a)
						_, fc, ok2 := fieldLoad(ch)
						if ok1 && ok2 && fa == fc && p.sameObjectPath(a, ch, 0) {
							return true
						}
					}
				}
				_, f, ok := fieldLoad(m)
				if !ok {
					return false
				}
				stores, same := 0, 0
				for _, g := range p.SrcFunc {
					eachInstr(g, func(j ssa.Instruction) {
						st, ok := j.(*ssa.Store)
						if !ok {
							return
						}
						fa, ok := st.Addr.(*ssa.FieldAddr)
						if !ok || fieldOfAddr(fa) != f {
							return
						}
						stores++
						if g == mk.Parent() && strip(st.Val) == strip(mk.Size) {
							same++
						}
					})
				}
				return stores == 1 && same == 1
			}
			// the loop: idx < M counting up from 0, or room > 0 counting down from M
			bounded := false
			for f := range facts[i.Block()] {
				bo, ok := f.Cond.(*ssa.BinOp)
				if !ok || !f.Pol {
					continue
				}
				switch bo.Op {
				case token.LSS:
					if isCapacity(bo.Y) && countsUpFromZero(bo.X) {
						bounded = true
					}
				case token.GTR:
					if n0, isC := constInt(bo.Y); isC && n0 == 0 {
						if ph, ok := strip(bo.X).(*ssa.Phi); ok {
							init, step := ssa.Value(nil), false
							for _, e := range ph.Edges {
								le := linearOf(e)
								if le.base == ssa.Value(ph) && le.off == -1 {
									step = true
								} else {
									init = e
								}
							}
							if step && init != nil && isCapacity(init) {
								bounded = true
							}
						}
					}
				}
			}
			c.check(bounded, name, "a cache is filled with at most as many objects as its channel holds", p.ipos(i),
				"the sending loop counts from 0 to the capacity the channel was made with", "the loop that fills the channel is not bounded by the capacity the channel was made with (another variable): when it is larger the constructor blocks forever on the send")
		})
	}
	if n == 0 {
		c.note("-", "no channel send outside the provider methods", "-", "nothing to decide")
	}
}

// ruleArgumentOrder: a call that passes the variable named like the callee's j-th parameter in position i and the one
// named like the i-th in position j, both of the same type, has its arguments crossed (the compiler cannot tell:
// the types agree). Names are the only evidence there is; the rule fires on an exact crosswise match only.
func ruleArgumentOrder(c *Ctx) {
	p := c.P
	onPath := map[*ssa.Function]bool{}
	for _, fn := range p.requestPathFuncs() {
		onPath[topFunc(fn)] = true
	}
	for fn, ok := range p.Roles().MutatorPath {
		if ok {
			onPath[topFunc(fn)] = true
		}
	}
	n := 0
	for _, pk := range p.modulePackages() {
		info := pk.TypesInfo
		for _, file := range pk.Syntax {
			if strings.HasSuffix(p.Fset.Position(file.Pos()).Filename, "_test.go") {
				continue
			}
			for _, d := range file.Decls {
				fd, ok := d.(*ast.FuncDecl)
				if !ok || fd.Body == nil {
					continue
				}
				obj, _ := info.Defs[fd.Name].(*types.Func)
				if obj == nil {
					continue
				}
				sf := p.Prog.FuncValue(obj)
				if sf == nil || !onPath[sf] {
					continue
				}
				ast.Inspect(fd.Body, func(nd ast.Node) bool {
					call, ok := nd.(*ast.CallExpr)
					if !ok {
						return true
					}
					var callee *types.Func
					switch f := unparen(call.Fun).(type) {
					case *ast.Ident:
						callee, _ = info.Uses[f].(*types.Func)
					case *ast.SelectorExpr:
						if sel, ok := info.Selections[f]; ok && sel.Kind() == types.MethodVal {
							callee, _ = sel.Obj().(*types.Func)
						}
					}
					if callee == nil || callee.Pkg() == nil || callee.Pkg().Path() != modulePath {
						return true
					}
					sig := callee.Type().(*types.Signature)
					if sig.Variadic() || sig.Params().Len() != len(call.Args) || sig.Params().Len() < 2 {
						return true
					}
					n++
					for i := 0; i < len(call.Args); i++ {
						ai, ok := unparen(call.Args[i]).(*ast.Ident)
						if !ok {
							continue
						}
						for j := i + 1; j < len(call.Args); j++ {
							aj, ok := unparen(call.Args[j]).(*ast.Ident)
							if !ok {
								continue
							}
							pi, pj := sig.Params().At(i), sig.Params().At(j)
							if !types.Identical(pi.Type(), pj.Type()) || pi.Name() == "" || pj.Name() == "" || pi.Name() == pj.Name() {
								continue
							}
							// crosswise, or one-sided: the variable named like parameter j sits in position i (or the one
							// named like i in position j) while the other position is not named like its own parameter
							crossed := ai.Name == pj.Name() && aj.Name == pi.Name()
							if !crossed && ai.Name == pj.Name() && aj.Name != pj.Name() && ai.Name != pi.Name() {
								crossed = true
							}
							if !crossed && aj.Name == pi.Name() && ai.Name != pi.Name() && aj.Name != pj.Name() {
								crossed = true
							}
							if crossed {
								c.bad(declDisplayName(fd), "arguments "+ai.Name+" and "+aj.Name+" of "+callee.Name()+" are crossed", p.pos(call.Pos()),
									callee.Name()+" declares ("+pi.Name()+", "+pj.Name()+") and is called with ("+ai.Name+", "+aj.Name+"): both have type "+types.TypeString(pi.Type(), nil)+", so the compiler accepts the swap; the template is then matched against the request (or the other way round)")
							}
						}
					}
					return true
				})
			}
		}
	}
	c.count("calls_examined", n)
	c.ok("-", "calls examined for crossed same-typed arguments", "-", itoa(n)+" calls of module functions with two or more parameters")
}
