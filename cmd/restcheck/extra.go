package main

import (
	"go/token"
	"go/types"
	"strings"

	"golang.org/x/tools/go/ssa"
)

// Rules added after the second round of seeded changes.

// ruleNoDeclaredLength: framework code on the request path never declares a body length. The writer it holds may
// apply a content coding (dispatch hands the encoding writer to filters, handlers, the error writer and the recover
// handler), whose Header() is the underlying header map: a Content-Length computed from the plain bytes is wrong
// for the encoded body, and the client reads a truncated stream.
func ruleNoDeclaredLength(c *Ctx) {
	p := c.P
	n, bad := 0, 0
	for _, fn := range p.requestPathFuncs() {
		eachInstr(fn, func(i ssa.Instruction) {
			k, kc, _, ok := headerWrite(i)
			if !ok {
				return
			}
			n++
			if kc && strings.EqualFold(k, "Content-Length") {
				bad++
				c.bad(p.fname(fn), "Content-Length declared by framework code", p.ipos(i),
					"the writer may be the encoding writer (its Header() is the underlying header map, its Write goes through gzip/deflate): a length computed from the plain bytes truncates the encoded body at the client")
			}
		})
	}
	c.count("header_writes_examined", n)
	if bad == 0 {
		c.ok("-", "no framework header write declares a body length", "-", itoa(n)+" header writes on the request path, none with the key Content-Length")
	}
}

// ruleGlobalsUnderInstanceLocks: a package-level variable written on the mutator or request path is shared by all
// containers and services; a lock that is a field of one instance does not protect it.
func ruleGlobalsUnderInstanceLocks(c *Ctx) {
	p := c.P
	li := p.lockInfo()
	roles := p.Roles()
	n := 0
	for _, fn := range p.SrcFunc {
		if !roles.RequestPath[fn] && !roles.MutatorPath[fn] {
			continue
		}
		if fn.Name() == "init" || strings.HasPrefix(fn.Name(), "init#") {
			continue
		}
		eachInstr(fn, func(i ssa.Instruction) {
			st, ok := i.(*ssa.Store)
			if !ok {
				return
			}
			g, ok := st.Addr.(*ssa.Global)
			if !ok || g.Pkg != p.Restful && g.Pkg != p.Log {
				return
			}
			n++
			global := false
			for l, mode := range li.heldAt(i) {
				if mode == lockW && !l.IsField() {
					global = true
				}
			}
			which := "the mutator path (Add/Remove/Route/RemoveRoute)"
			if roles.RequestPath[fn] {
				which = "the request path"
			}
			c.check(global, p.fname(fn), "plain store to package variable "+g.Name(), p.ipos(i), "under a package-level write lock",
				"package variable "+g.Name()+" is written on "+which+" holding "+lockSetString(li.heldAt(i))+": locks that are fields protect one instance, goroutines working on different containers or services race on the variable (use sync/atomic or a package-level lock)")
		})
	}
	if n == 0 {
		c.ok("-", "no plain store to a package variable on the request or mutator path", "-", "package-level state is only changed through sync/atomic or outside these paths")
	}
	c.count("global_stores", n)
}

// ruleNoCompressorCopy: compressors and decompressors are used through the pointer their constructor returned. A
// struct copy shares the internal state (flate decompressor, buffers) between the copies.
func isCompressorStruct(t types.Type) bool {
	n, ok := types.Unalias(t).(*types.Named)
	if !ok || n.Obj().Pkg() == nil {
		return false
	}
	switch n.Obj().Pkg().Path() {
	case "compress/gzip", "compress/zlib", "compress/flate", "bufio", "bytes", "strings", "sync":
	default:
		return false
	}
	_, isStruct := n.Underlying().(*types.Struct)
	return isStruct
}

func ruleNoCompressorCopy(c *Ctx) {
	p := c.P
	n, bad := 0, 0
	for _, fn := range p.SrcFunc {
		eachInstr(fn, func(i ssa.Instruction) {
			u, ok := i.(*ssa.UnOp)
			if !ok || u.Op != token.MUL || !isCompressorStruct(u.Type()) {
				return
			}
			pkg := types.Unalias(u.Type()).(*types.Named).Obj().Pkg().Path()
			if !strings.HasPrefix(pkg, "compress/") {
				return
			}
			n++
			bad++
			c.bad(p.fname(fn), "struct copy of "+typeShort(u.Type()), p.ipos(i),
				"a compressor is copied by value: the copies are distinct pointers for the pool but share the inner (de)compressor state, so two requests holding 'different' objects corrupt each other's stream")
		})
		eachInstr(fn, func(i ssa.Instruction) {
			if v, ok := i.(ssa.Value); ok {
				if pt, ok := v.Type().Underlying().(*types.Pointer); ok && isCompressorStruct(pt.Elem()) {
					if n2 := types.Unalias(pt.Elem()).(*types.Named); strings.HasPrefix(n2.Obj().Pkg().Path(), "compress/") {
						n++
					}
				}
			}
		})
	}
	c.count("compressor_values_examined", n)
	if bad == 0 {
		c.ok("-", "compressors are only handled through the pointers their constructors return", "-", itoa(n)+" values of a compress/* pointer type, no dereferencing copy")
	}
}

// ruleServiceListAgreement: the computation behind OPTIONS/preflight iterates the service list through an accessor;
// that accessor must read the very field the dispatcher hands to the router, or the two answer from different states.
func ruleServiceListAgreement(c *Ctx) {
	p := c.P
	ds, err := findDispatchers(p)
	if err != nil || len(ds) == 0 {
		c.undecided("-", "dispatching function", "-", "not found")
		return
	}
	routed := map[*types.Var]bool{}
	for _, d := range ds {
		for _, a := range d.SelectCall.Call.Args {
			for _, s := range p.sources(a, provOpt{ThroughCells: true, ThroughCalls: 2}) {
				if _, f, ok := fieldLoad(s); ok {
					routed[f] = true
				}
			}
		}
	}
	acc := p.fn("(*Container).RegisteredWebServices")
	if acc == nil || len(routed) == 0 {
		c.undecided("-", "service list accessor / routed list", "-", "RegisteredWebServices or the list handed to SelectRoute not found")
		return
	}
	read := map[*types.Var]bool{}
	for _, fn := range withClosures(acc) {
		eachInstr(fn, func(i ssa.Instruction) {
			if v, ok := i.(ssa.Value); ok {
				if _, f, ok := fieldLoad(v); ok {
					if sl, ok := f.Type().Underlying().(*types.Slice); ok && isPtrToRestful(sl.Elem(), "WebService") {
						read[f] = true
					}
				}
			}
		})
	}
	same := len(read) > 0
	var names []string
	for f := range read {
		names = append(names, f.Name())
		if !routed[f] {
			same = false
		}
	}
	var rn []string
	for f := range routed {
		rn = append(rn, f.Name())
	}
	c.check(same, p.fname(acc), "the accessor reads the list the dispatcher routes on", p.pos(acc.Pos()),
		"both use Container."+strings.Join(rn, ","),
		"RegisteredWebServices reads {"+strings.Join(names, ",")+"} but the dispatcher hands {"+strings.Join(rn, ",")+"} to SelectRoute: what OPTIONS and preflights announce is computed from a different state than what is routed (a copy that Add or Remove does not refresh)")
}
