package main

import (
	"go/ast"
	"go/token"
	"go/types"
	"sort"
	"strings"

	"golang.org/x/tools/go/ssa"
)

func init() {
	register(&Property{
		ID:    "C03",
		Title: "Best match: literals beat variables, independent of registration order",
		Decided: "C03.a each comparator used to rank candidates is, over all 3^m order relations between its m keys, exactly a lexicographic comparison with one fixed direction per key and 'false' when all keys are equal (hence a strict weak order), its primary key for route candidates is the literal measure ordered so that more literal comes first (taking sort.Reverse at the call site into account), and the route comparators end in a strict comparison of Route.Path (a total tie-break, which makes the sorted order independent of registration order for distinct templates); " +
			"C03.d a mux registration is suppressed only by whole-pattern equality (reachability independent of Add order); C03.e the counters returned by a token matcher classify each segment once; C03.g a function that takes routes of the service's table into a candidate collection sorts that collection; C03.f inside a candidate-collecting loop no branch reads a variable carried from one iteration to the next; C03.b the candidates are sorted after the last candidate was added and before they are handed on, and the stage function returns element 0 of its final, order-preserving list; C03.c in the root-path scorer every literal token adds strictly more than any variable token and all increments are positive, the best root is replaced only on a strictly greater score, and the scan over the services runs to exhaustion. After a candidate was added, no element of the collection is read outside the adding loop on a path that skipped sort.Sort, unless fewer than two candidates exist. Between the sort and the selection the functions the selectors reach only filter: no append joins two lists of candidates unless the first is empty.",
		NotDecided: "that the counts (static, literal, parameter) are computed correctly per template; the full 'never less specific' relation over arbitrary overlapping templates; stability issues of sort.Sort beyond totality of the order.",
		Rules: []Rule{
			{ID: "C03.a", Template: "T-CMP", Required: true, Run: ruleC03a,
				Doc: "Comparator shape. A flipped secondary comparison, `<=` in a tie-break, an asymmetric branch or a removed tie-break makes the result depend on input order (sort.Sort is not stable); none is reached by the two ISSUE_34 fixtures."},
			{ID: "C03.b", Template: "T-ORDER", Required: true, Run: ruleC03b,
				Doc: "Sorted before selected; first of the sorted survivors wins."},
			{ID: "C03.c", Template: "T-ENFORCE", Required: true, Run: ruleC03c,
				Doc: "Root score monotonicity: a literal and a variable root must not tie, and every service must be considered."},
			{ID: "C03.d", Template: "T-SIBLING", Required: true, Run: ruleC11c,
				Doc: "Which WebServices are reachable through the ServeMux must not depend on the order they were added: a mux registration is suppressed only by whole equality of the registered pattern with the pattern, computed the same way, of an already registered service. A prefix test drops the entry of /pq when /p was added first and keeps it otherwise."},
			{ID: "C03.g", Template: "T-ORDER", Required: true, Run: ruleCandidatesRanked,
				Doc: "The candidates a selector takes from the service's route table are ranked as a whole before they are handed on: the collecting function sorts the collection. Moving only the best candidate to the front leaves the rest in registration order, and the first survivor of the method and media stage then depends on it."},
			{ID: "C03.f", Template: "T-EFFECT", Required: true, Run: ruleCandidateLoopStateless,
				Doc: "Candidates are admitted one by one: inside a loop that collects route candidates no branch is decided by a variable carried over from earlier iterations (a 'seen an all-literal route' flag, a counter). Such memory makes the candidate set, and with it the outcome, depend on the order the routes were registered in."},
			{ID: "C03.e", Template: "T-ENFORCE", Required: false, Run: ruleC03e,
				Doc: "The token matcher returns the counters the candidates are ranked by. A segment is classified once: no increment of one counter lies under the condition that distinguishes the increments of another (the variable test). Counting a {var}suffix segment as static as well ties it with a literal segment on the first key, and the second key (more parameters first) then prefers the variable route."},
		},
	})
}

// ---------------------------------------------------------------------------
// comparator evaluator

type cmpKey struct{ path string }

type cmpOperand struct {
	side string // "i" or "j"
	key  string
}

type comparator struct {
	fn      *ssa.Function
	body    *ast.BlockStmt
	info    *types.Info
	locals  map[string]string // local name -> side
	prefix  map[string]string // local name -> key path the local stands for (bound parameters of a followed call)
	prog    *Program
	depth   int
	jStrip  string // leading field of j-side operands that stands for the key itself (carried struct's key field)
	ident   bool   // an operand may be the element itself (identity measure "")
	params  [2]string
	recv    string
	keys    []string
	strict  map[string]bool
	problem string
	bools   map[string]bool // boolean locals of the body, as evaluated so far (less := a.x < b.x; return less)
	// arg-max guards only: a conjunct that does not look at the carried element (`strings.Contains(mime, k)`) filters
	// the candidates and is taken for true; only in positive conjunctive position
	allowOpaque bool
	neg         bool
	disj        int
}

// mentionsJ: the expression names the j side (the carried element) somewhere.
func (cm *comparator) mentionsJ(e ast.Expr) bool {
	found := false
	ast.Inspect(e, func(n ast.Node) bool {
		switch x := n.(type) {
		case *ast.Ident:
			if cm.locals[x.Name] == "j" || (cm.params[1] != "\x00" && x.Name == cm.params[1]) {
				found = true
			}
		case *ast.FuncLit:
			found = true
		}
		return !found
	})
	return found
}

func (cm *comparator) evalCond(e ast.Expr, rel map[string]int) (bool, bool) {
	v, ok := cm.evalCond0(e, rel)
	if !ok && cm.allowOpaque && !cm.neg && cm.disj == 0 && !cm.mentionsJ(e) {
		cm.problem = ""
		return true, true
	}
	return v, ok
}

func (p *Program) infoFor(fn *ssa.Function) *types.Info {
	for _, pk := range p.modulePackages() {
		if pk.Types == fn.Pkg.Pkg {
			return pk.TypesInfo
		}
	}
	return nil
}

// operand resolves `a.staticCount`, `s[i].paramCount`, `ci.route.Path`, `rcs.candidates[i].literalCount`.
func (cm *comparator) operand(e ast.Expr) (cmpOperand, bool) {
	op, ok := cm.operand0(e)
	if op.side == "j" && cm.jStrip != "" {
		if op.key == cm.jStrip {
			op.key = ""
		} else if strings.HasPrefix(op.key, cm.jStrip+".") {
			op.key = op.key[len(cm.jStrip)+1:]
		} else if strings.HasPrefix(op.key, cm.jStrip+"#") {
			op.key = op.key[len(cm.jStrip):]
		}
	}
	if cm.ident && op.side != "" {
		ok = true
	}
	return op, ok
}

func (cm *comparator) operand0(e ast.Expr) (cmpOperand, bool) {
	var path []string
	// len(x): the length measure of x
	if call, ok := unparen(e).(*ast.CallExpr); ok && len(call.Args) == 1 {
		if id, ok := unparen(call.Fun).(*ast.Ident); ok && id.Name == "len" {
			op, _ := cm.operand0(call.Args[0])
			if op.side == "" {
				return cmpOperand{}, false
			}
			op.key += "#len"
			return op, true
		}
	}
	for {
		e = unparen(e)
		switch x := e.(type) {
		case *ast.CallExpr:
			// ci.expressionToMatch(): an accessor method stands for the field path it returns
			if recv, sub, ok := cm.accessorPath(x); ok {
				path = append(append([]string{}, sub...), path...)
				e = recv
				continue
			}
			return cmpOperand{}, false
		case *ast.SelectorExpr:
			path = append([]string{x.Sel.Name}, path...)
			e = x.X
			continue
		case *ast.Ident:
			if side, ok := cm.locals[x.Name]; ok {
				if pre := cm.prefix[x.Name]; pre != "" {
					path = append(strings.Split(pre, "."), path...)
				}
				return cmpOperand{side, strings.Join(path, ".")}, len(path) > 0
			}
			return cmpOperand{}, false
		case *ast.IndexExpr:
			if id, ok := unparen(x.Index).(*ast.Ident); ok {
				if id.Name == cm.params[0] {
					return cmpOperand{"i", strings.Join(path, ".")}, len(path) > 0
				}
				if id.Name == cm.params[1] {
					return cmpOperand{"j", strings.Join(path, ".")}, len(path) > 0
				}
			}
			return cmpOperand{}, false
		}
		return cmpOperand{}, false
	}
}

// eval evaluates the body for a relation vector rel[key] in {-1,0,+1} (key at i compared with key at j).
// It returns the boolean result, or ok=false for an unsupported construct.
func (cm *comparator) evalBlock(stmts []ast.Stmt, rel map[string]int) (res bool, returned bool, ok bool) {
	for _, s := range stmts {
		switch x := s.(type) {
		case *ast.AssignStmt:
			// a boolean local: evaluated here, read later
			if len(x.Lhs) == 1 && len(x.Rhs) == 1 && (x.Tok == token.DEFINE || x.Tok == token.ASSIGN) {
				if id, isId := x.Lhs[0].(*ast.Ident); isId && cm.info != nil {
					if tv, has := cm.info.Types[x.Rhs[0]]; has && tv.Type != nil {
						if bt, isB := tv.Type.Underlying().(*types.Basic); isB && bt.Info()&types.IsBoolean != 0 {
							v, ok := cm.evalCond(x.Rhs[0], rel)
							if !ok {
								return false, false, false
							}
							if cm.bools == nil {
								cm.bools = map[string]bool{}
							}
							cm.bools[id.Name] = v
							continue
						}
					}
				}
			}
			// local bindings handled in setup; anything else unsupported
			if x.Tok != token.DEFINE {
				cm.problem = "assignment in comparator body"
				return false, false, false
			}
		case *ast.IfStmt:
			if x.Init != nil {
				cm.problem = "if with init statement"
				return false, false, false
			}
			v, ok := cm.evalCond(x.Cond, rel)
			if !ok {
				return false, false, false
			}
			if v {
				r, ret, ok := cm.evalBlock(x.Body.List, rel)
				if !ok {
					return false, false, false
				}
				if ret {
					return r, true, true
				}
			} else if x.Else != nil {
				var list []ast.Stmt
				switch e := x.Else.(type) {
				case *ast.BlockStmt:
					list = e.List
				case *ast.IfStmt:
					list = []ast.Stmt{e}
				}
				r, ret, ok := cm.evalBlock(list, rel)
				if !ok {
					return false, false, false
				}
				if ret {
					return r, true, true
				}
			}
		case *ast.ReturnStmt:
			if len(x.Results) != 1 {
				cm.problem = "return with other than one result"
				return false, false, false
			}
			v, ok := cm.evalCond(x.Results[0], rel)
			if !ok {
				return false, false, false
			}
			return v, true, true
		case *ast.SwitchStmt:
			if x.Tag != nil || x.Init != nil {
				cm.problem = "switch with tag"
				return false, false, false
			}
			matched := false
			for _, cl := range x.Body.List {
				cc := cl.(*ast.CaseClause)
				hit := cc.List == nil
				for _, e := range cc.List {
					v, ok := cm.evalCond(e, rel)
					if !ok {
						return false, false, false
					}
					if v {
						hit = true
					}
				}
				if hit && !matched {
					matched = true
					r, ret, ok := cm.evalBlock(cc.Body, rel)
					if !ok {
						return false, false, false
					}
					if ret {
						return r, true, true
					}
				}
			}
		case *ast.ExprStmt, *ast.DeclStmt, *ast.EmptyStmt:
		default:
			cm.problem = "unsupported statement in comparator"
			return false, false, false
		}
	}
	return false, false, true
}

func (cm *comparator) evalCond0(e ast.Expr, rel map[string]int) (bool, bool) {
	e = unparen(e)
	switch x := e.(type) {
	case *ast.Ident:
		if x.Name == "true" {
			return true, true
		}
		if x.Name == "false" {
			return false, true
		}
		if v, has := cm.bools[x.Name]; has {
			return v, true
		}
	case *ast.UnaryExpr:
		if x.Op == token.NOT {
			cm.neg = !cm.neg
			v, ok := cm.evalCond(x.X, rel)
			cm.neg = !cm.neg
			return !v, ok
		}
	case *ast.BinaryExpr:
		switch x.Op {
		case token.LAND:
			if cm.neg {
				cm.disj++
			}
			a, ok1 := cm.evalCond(x.X, rel)
			b, ok2 := cm.evalCond(x.Y, rel)
			if cm.neg {
				cm.disj--
			}
			return a && b, ok1 && ok2
		case token.LOR:
			if !cm.neg {
				cm.disj++
			}
			a, ok1 := cm.evalCond(x.X, rel)
			b, ok2 := cm.evalCond(x.Y, rel)
			if !cm.neg {
				cm.disj--
			}
			return a || b, ok1 && ok2
		case token.LSS, token.GTR, token.LEQ, token.GEQ, token.EQL, token.NEQ:
			l, okl := cm.operand(x.X)
			r, okr := cm.operand(x.Y)
			if !okl || !okr || l.key != r.key {
				cm.problem = "comparison of different keys or unrecognised operands: " + types.ExprString(e)
				return false, false
			}
			if l.side == r.side {
				cm.problem = "comparison of a key with itself: " + types.ExprString(e)
				return false, false
			}
			known := false
			for _, k := range cm.keys {
				if k == l.key {
					known = true
				}
			}
			if !known {
				cm.keys = append(cm.keys, l.key)
			}
			if x.Op == token.LSS || x.Op == token.GTR {
				if _, seen := cm.strict[l.key]; !seen {
					cm.strict[l.key] = true
				}
			} else if x.Op == token.LEQ || x.Op == token.GEQ {
				cm.strict[l.key] = false
			}
			rv, has := rel[l.key]
			if !has {
				rv = 0
			}
			if l.side == "j" {
				rv = -rv
			}
			switch x.Op {
			case token.LSS:
				return rv < 0, true
			case token.GTR:
				return rv > 0, true
			case token.LEQ:
				return rv <= 0, true
			case token.GEQ:
				return rv >= 0, true
			case token.EQL:
				return rv == 0, true
			case token.NEQ:
				return rv != 0, true
			}
		}
	}
	if call, ok := e.(*ast.CallExpr); ok {
		if v, ok := cm.evalCall(call, rel); ok {
			return v, true
		}
		if cm.problem != "" {
			return false, false
		}
	}
	cm.problem = "unsupported expression " + types.ExprString(e)
	return false, false
}

// evalCall follows a call of a module function or method whose arguments are elements (or parts of elements) of
// the two sides: the callee's body is evaluated with its parameters bound to those operands.
func (cm *comparator) evalCall(call *ast.CallExpr, rel map[string]int) (bool, bool) {
	if cm.depth > 3 || cm.info == nil || cm.prog == nil {
		return false, false
	}
	var fn *types.Func
	var recvExpr ast.Expr
	switch f := unparen(call.Fun).(type) {
	case *ast.Ident:
		fn, _ = cm.info.Uses[f].(*types.Func)
	case *ast.SelectorExpr:
		if sel, ok := cm.info.Selections[f]; ok && sel.Kind() == types.MethodVal {
			fn, _ = sel.Obj().(*types.Func)
			recvExpr = f.X
		}
	}
	if fn == nil {
		return false, false
	}
	var decl *ast.FuncDecl
	for _, pk := range cm.prog.modulePackages() {
		for _, file := range pk.Syntax {
			for _, d := range file.Decls {
				if fd, ok := d.(*ast.FuncDecl); ok && pk.TypesInfo.Defs[fd.Name] == types.Object(fn) {
					decl = fd
				}
			}
		}
	}
	if decl == nil || decl.Body == nil {
		return false, false
	}
	sub := &comparator{fn: cm.fn, body: decl.Body, info: cm.info, locals: map[string]string{}, prefix: map[string]string{}, strict: cm.strict, keys: cm.keys, prog: cm.prog, depth: cm.depth + 1, jStrip: cm.jStrip, ident: cm.ident,
		allowOpaque: cm.allowOpaque, neg: cm.neg, disj: cm.disj}
	sub.params = [2]string{"\x00", "\x00"}
	bind := func(name string, e ast.Expr) bool {
		if name == "" || name == "_" {
			return true
		}
		// strip & and *
		for {
			e = unparen(e)
			if u, ok := e.(*ast.UnaryExpr); ok && u.Op == token.AND {
				e = u.X
				continue
			}
			if st, ok := e.(*ast.StarExpr); ok {
				e = st.X
				continue
			}
			break
		}
		op, _ := cm.operandAny(e)
		if op.side == "" {
			// something that is neither element: the helper may use it to filter (arg-max guards only)
			return cm.allowOpaque && !cm.mentionsJ(e)
		}
		sub.locals[name] = op.side
		sub.prefix[name] = op.key
		return true
	}
	if recvExpr != nil && decl.Recv != nil && len(decl.Recv.List) == 1 && len(decl.Recv.List[0].Names) == 1 {
		if !bind(decl.Recv.List[0].Names[0].Name, recvExpr) {
			return false, false
		}
	}
	k := 0
	for _, f := range decl.Type.Params.List {
		for _, n := range f.Names {
			if k >= len(call.Args) || !bind(n.Name, call.Args[k]) {
				return false, false
			}
			k++
		}
	}
	r, ret, ok := sub.evalBlock(decl.Body.List, rel)
	cm.keys = sub.keys
	if !ok {
		cm.problem = sub.problem
		return false, false
	}
	if !ret {
		cm.problem = "followed comparator helper can fall off its end"
		return false, false
	}
	return r, true
}

// operandAny is operand without the requirement that a key path follows the element.
func (cm *comparator) operandAny(e ast.Expr) (cmpOperand, bool) {
	op, _ := cm.operand(e)
	return op, op.side != ""
}

func newComparator(p *Program, fn *ssa.Function) *comparator {
	var body *ast.BlockStmt
	var ftype *ast.FuncType
	switch fd := fn.Syntax().(type) {
	case *ast.FuncDecl:
		body, ftype = fd.Body, fd.Type
	case *ast.FuncLit: // the less function handed to sort.Slice / sort.SliceStable
		body, ftype = fd.Body, fd.Type
	}
	if body == nil {
		return nil
	}
	cm := &comparator{fn: fn, body: body, info: p.infoFor(fn), locals: map[string]string{}, prefix: map[string]string{}, strict: map[string]bool{}, prog: p}
	var names []string
	for _, f := range ftype.Params.List {
		for _, n := range f.Names {
			names = append(names, n.Name)
		}
	}
	if len(names) != 2 {
		return nil
	}
	cm.params = [2]string{names[0], names[1]}
	// local bindings  x := <recv...>[i|j]
	for _, s := range body.List {
		as, ok := s.(*ast.AssignStmt)
		if !ok || as.Tok != token.DEFINE || len(as.Lhs) != len(as.Rhs) {
			continue
		}
		for k := range as.Lhs { // a, b := s[i], s[j] binds like two statements
			id, ok := as.Lhs[k].(*ast.Ident)
			if !ok {
				continue
			}
			rhs := unparen(as.Rhs[k])
			if ue, ok := rhs.(*ast.UnaryExpr); ok && ue.Op == token.AND {
				rhs = unparen(ue.X) // a := &s[i]: the element, read in place
			}
			if ix, ok := rhs.(*ast.IndexExpr); ok {
				if idx, ok := unparen(ix.Index).(*ast.Ident); ok {
					if idx.Name == names[0] {
						cm.locals[id.Name] = "i"
					}
					if idx.Name == names[1] {
						cm.locals[id.Name] = "j"
					}
				}
			} else if op, ok := cm.operand0(rhs); ok && op.side != "" && op.key != "" {
				// pi := ci.route.Path: the local stands for that key of that side
				cm.locals[id.Name] = op.side
				cm.prefix[id.Name] = op.key
			}
		}
	}
	return cm
}

// accessorPath: call is x.m() of a module method without parameters whose body is `return recv.a.b`; it returns x
// and the field path, so that the call reads like the selector it stands for.
func (cm *comparator) accessorPath(call *ast.CallExpr) (ast.Expr, []string, bool) {
	if len(call.Args) != 0 || cm.info == nil {
		return nil, nil, false
	}
	sel, ok := unparen(call.Fun).(*ast.SelectorExpr)
	if !ok {
		return nil, nil, false
	}
	obj, _ := cm.info.Uses[sel.Sel].(*types.Func)
	if obj == nil {
		return nil, nil, false
	}
	fn := cm.prog.Prog.FuncValue(obj)
	if fn == nil || !cm.prog.inModule(fn) {
		return nil, nil, false
	}
	fd, ok := fn.Syntax().(*ast.FuncDecl)
	if !ok || fd.Body == nil || len(fd.Body.List) != 1 || fd.Recv == nil || len(fd.Recv.List) != 1 || len(fd.Recv.List[0].Names) != 1 {
		return nil, nil, false
	}
	ret, ok := fd.Body.List[0].(*ast.ReturnStmt)
	if !ok || len(ret.Results) != 1 {
		return nil, nil, false
	}
	var path []string
	e := unparen(ret.Results[0])
	for {
		switch x := e.(type) {
		case *ast.SelectorExpr:
			path = append([]string{x.Sel.Name}, path...)
			e = unparen(x.X)
			continue
		case *ast.Ident:
			if x.Name == fd.Recv.List[0].Names[0].Name && len(path) > 0 {
				return sel.X, path, true
			}
		}
		return nil, nil, false
	}
}

// less evaluates Less(i,j) under rel.
func (cm *comparator) less(rel map[string]int) (bool, bool) {
	r, ret, ok := cm.evalBlock(cm.body.List, rel)
	if !ok {
		return false, false
	}
	if !ret {
		cm.problem = "comparator can fall off its end"
		return false, false
	}
	return r, true
}

// sortCallSites: where a module type is handed to sort.Sort/sort.Stable, and whether through sort.Reverse.
type sortSite struct {
	Fn       *ssa.Function
	Call     *ssa.Call
	Less     *ssa.Function
	Reversed bool
	Coll     ssa.Value
}

func sortSites(p *Program) []sortSite {
	var out []sortSite
	for _, fn := range p.requestPathFuncs() {
		eachInstr(fn, func(i ssa.Instruction) {
			call, ok := i.(*ssa.Call)
			if !ok {
				return
			}
			n := calleeName(&call.Call)
			if n == "sort.Slice" || n == "sort.SliceStable" {
				// the comparator is a function value; the collection is the first argument
				if mi, ok := call.Call.Args[0].(*ssa.MakeInterface); ok {
					if less := p.funcValue(call.Call.Args[1]); less != nil && p.inModule(less) {
						out = append(out, sortSite{fn, call, less, false, mi.X})
					}
				}
				return
			}
			if n != "sort.Sort" && n != "sort.Stable" {
				return
			}
			arg := call.Call.Args[0]
			rev := false
			if rc, ok := arg.(*ssa.Call); ok && calleeName(&rc.Call) == "sort.Reverse" {
				rev = true
				arg = rc.Call.Args[0]
			}
			mi, ok := arg.(*ssa.MakeInterface)
			if !ok {
				return
			}
			ms := p.Prog.MethodSets.MethodSet(mi.X.Type())
			sel := ms.Lookup(nil, "Less")
			if sel == nil {
				return
			}
			less := p.unwrap(p.Prog.MethodValue(sel))
			if less == nil || !p.inModule(less) {
				return
			}
			out = append(out, sortSite{fn, call, less, rev, mi.X})
		})
	}
	return out
}

func ruleC03a(c *Ctx) {
	p := c.P
	sites := sortSites(p)
	if len(sites) == 0 {
		c.undecided("-", "ranking comparators", "-", "no sort.Sort of a module collection on the request path")
		return
	}
	for _, s := range sites {
		name := p.fname(s.Less)
		cm := newComparator(p, s.Less)
		if cm == nil {
			c.undecided(name, "comparator body", p.pos(s.Less.Pos()), "no source for Less")
			continue
		}
		// discover keys with a first evaluation (all equal), then enumerate
		if _, ok := cm.less(map[string]int{}); !ok {
			c.undecided(name, "comparator shape", p.pos(s.Less.Pos()), "the comparator evaluator does not understand this body: "+cm.problem)
			continue
		}
		// keys may be discovered lazily: iterate until stable
		for iter := 0; iter < 6; iter++ {
			before := len(cm.keys)
			var enum func(k int, rel map[string]int)
			enum = func(k int, rel map[string]int) {
				if k == len(cm.keys) {
					cm.less(rel)
					return
				}
				for _, v := range []int{-1, 0, 1} {
					rel[cm.keys[k]] = v
					enum(k+1, rel)
				}
			}
			enum(0, map[string]int{})
			if len(cm.keys) == before {
				break
			}
		}
		m := len(cm.keys)
		// direction per key: evaluate with only that key differing
		dir := map[string]int{} // +1: Less iff key_i < key_j (ascending), -1: descending
		okShape := true
		for _, k := range cm.keys {
			lt, ok1 := cm.less(map[string]int{k: -1})
			gt, ok2 := cm.less(map[string]int{k: 1})
			if !ok1 || !ok2 {
				okShape = false
			}
			switch {
			case lt && !gt:
				dir[k] = 1
			case gt && !lt:
				dir[k] = -1
			default:
				dir[k] = 0
			}
		}
		// the whole table against the lexicographic model, and strict-weak-order laws
		total := 1
		for i := 0; i < m; i++ {
			total *= 3
		}
		mismatch := ""
		for code := 0; code < total && okShape; code++ {
			rel := map[string]int{}
			x := code
			for _, k := range cm.keys {
				rel[k] = x%3 - 1
				x /= 3
			}
			got, ok := cm.less(rel)
			if !ok {
				okShape = false
				break
			}
			// model
			want := false
			for _, k := range cm.keys {
				if rel[k] != 0 {
					want = (rel[k] < 0 && dir[k] > 0) || (rel[k] > 0 && dir[k] < 0)
					break
				}
			}
			// flipped
			flip := map[string]int{}
			for k, v := range rel {
				flip[k] = -v
			}
			back, _ := cm.less(flip)
			switch {
			case got != want:
				mismatch = "for key relations " + relString(cm.keys, rel) + " Less(i,j)=" + boolStr(got) + " but a lexicographic comparison on " + strings.Join(cm.keys, ", ") + " gives " + boolStr(want)
			case got && back:
				mismatch = "for key relations " + relString(cm.keys, rel) + " both Less(i,j) and Less(j,i) hold (not asymmetric)"
			}
			if mismatch != "" {
				break
			}
		}
		if !okShape {
			c.undecided(name, "comparator shape", p.pos(s.Less.Pos()), "the comparator evaluator does not understand this body: "+cm.problem)
			continue
		}
		c.count("relation_vectors_evaluated", total)
		c.check(mismatch == "", name, "comparator is a lexicographic strict weak order", p.pos(s.Less.Pos()),
			"all "+itoa(total)+" order relations between the "+itoa(m)+" keys ("+strings.Join(cm.keys, " > ")+") agree with a lexicographic comparison; all-equal gives false both ways",
			mismatch+": the sorted order then depends on the input order, i.e. on registration order")
		for _, k := range cm.keys {
			c.check(dir[k] != 0, name, "key "+k+" has one direction", p.pos(s.Less.Pos()), "one fixed direction", "key "+k+" does not order the elements in one fixed direction")
		}
		// element type carries a Route?
		elemHasRoute := false
		if len(cm.keys) > 0 {
			for _, k := range cm.keys {
				if strings.HasSuffix(k, "route.Path") || strings.Contains(k, "route.") {
					elemHasRoute = true
				}
			}
			if st := elemStruct(s.Coll.Type()); st != nil {
				for i := 0; i < st.NumFields(); i++ {
					if isRestfulNamed(st.Field(i).Type(), "Route") {
						elemHasRoute = true
					}
				}
			}
		}
		if elemHasRoute {
			first := cm.keys[0]
			lit := strings.Contains(strings.ToLower(first), "static") || strings.Contains(strings.ToLower(first), "literal")
			c.check(lit, name, "primary key is the literal measure", p.pos(s.Less.Pos()), "first key: "+first, "the first key compared is "+first+", not the count of literal segments/characters: a variable can outrank a literal")
			eff := dir[first]
			if s.Reversed {
				eff = -eff
			}
			c.check(eff < 0, name, "more literal sorts first", p.ipos(s.Call), "descending by "+first+" (sort.Reverse taken into account: "+boolStr(s.Reversed)+")", "the collection is sorted so that LESS literal candidates come first: the first survivor is the least specific route")
			last := cm.keys[len(cm.keys)-1]
			c.check(strings.HasSuffix(last, "Path") && cm.strict[last], name, "ties end in a strict comparison of the route path", p.pos(s.Less.Pos()), "last key: "+last+" (strict)",
				"the comparator does not end in a strict comparison of Route.Path (last key "+last+"): candidates equal on the counts keep their input order, so the selected route depends on registration order")
		} else {
			c.note(name, "service-level comparator", p.pos(s.Less.Pos()), "no path tie-break: the property excludes root paths of the same literal/variable shape; keys "+strings.Join(cm.keys, " > "))
		}
	}
}

func elemStruct(t types.Type) *types.Struct {
	if pt, ok := t.Underlying().(*types.Pointer); ok {
		t = pt.Elem()
	}
	if st, ok := t.Underlying().(*types.Struct); ok {
		for i := 0; i < st.NumFields(); i++ {
			if sl, ok := st.Field(i).Type().Underlying().(*types.Slice); ok {
				if es, ok := sl.Elem().Underlying().(*types.Struct); ok {
					return es
				}
			}
		}
		return nil
	}
	if sl, ok := t.Underlying().(*types.Slice); ok {
		if es, ok := sl.Elem().Underlying().(*types.Struct); ok {
			return es
		}
	}
	return nil
}

func relString(keys []string, rel map[string]int) string {
	var out []string
	for _, k := range keys {
		out = append(out, k+map[int]string{-1: "<", 0: "=", 1: ">"}[rel[k]])
	}
	return strings.Join(out, " ")
}

func boolStr(b bool) string {
	if b {
		return "true"
	}
	return "false"
}

// ---------------------------------------------------------------------------

func ruleC03b(c *Ctx) {
	p := c.P
	sites := sortSites(p)
	selReach := p.callGraph().reach(selectorImpls(p), func(e Edge) bool { return e.Kind == EdgeEscape })
	nRoute := 0
	for _, s := range sites {
		if !selReach[s.Fn] {
			continue
		}
		if st := elemStruct(s.Coll.Type()); st != nil {
			has := false
			for i := 0; i < st.NumFields(); i++ {
				if isRestfulNamed(st.Field(i).Type(), "Route") {
					has = true
				}
			}
			if !has {
				continue
			}
		}
		nRoute++
		name := p.fname(s.Fn)
		// no candidate is added after the sort
		late := false
		eachInstr(s.Fn, func(i ssa.Instruction) {
			if !canReach(s.Call, i) {
				return
			}
			if cc := callCommon(i); cc != nil {
				if cal := cc.StaticCallee(); cal != nil && appendsParamToReceiver(cal) {
					late = true
				}
			}
			if st, ok := i.(*ssa.Store); ok {
				if fa, ok := st.Addr.(*ssa.FieldAddr); ok && isCandidateSliceType(fieldOfAddr(fa).Type()) {
					late = true
				}
			}
		})
		c.check(!late, name, "candidates are sorted after the last one was added", p.ipos(s.Call), "no addition to the collection is reachable after sort.Sort", "a candidate is added after the collection was sorted")
		// the sort precedes every normal return that hands candidates on
		for _, r := range returnsOf(s.Fn) {
			empty := true
			for _, res := range r.Results {
				if isCandidateSliceType(res.Type()) {
					if sl, ok := strip(res).(*ssa.Slice); ok {
						if a, ok := sl.X.(*ssa.Alloc); ok {
							if arr, ok := a.Type().(*types.Pointer).Elem().Underlying().(*types.Array); ok && arr.Len() == 0 {
								continue
							}
						}
					}
					empty = false
				}
			}
			if empty {
				continue
			}
			if ruleC03bCoversReturn(c, s, r) {
				continue // decided path-wise below (a list of fewer than two candidates needs no sort)
			}
			if fewerThanTwoAt(p, s, r) {
				c.ok(name, "candidates are sorted before they are handed on", p.ipos(r), "this return is only reached with fewer than two candidates: there is nothing to order")
				continue
			}
			c.check(instrDominates(s.Call, r), name, "candidates are sorted before they are handed on", p.ipos(r), "sort.Sort dominates this return", "an unsorted candidate list is returned")
		}
		ruleC03bReads(c, s)
	}
	if nRoute == 0 {
		c.bad("-", "route candidates are sorted", "-", "no sort of route candidates is reachable from the selectors")
	}
	// between the sort and the selection the candidates are only filtered: joining two lists of candidates puts every
	// element of the second behind every element of the first, whatever their rank
	nAppend := 0
	for _, fn := range p.SrcFunc {
		if !selReach[fn] {
			continue
		}
		eachInstr(fn, func(i ssa.Instruction) {
			call, ok := i.(*ssa.Call)
			if !ok || !isBuiltinCall(call, "append") || len(call.Call.Args) != 2 || !isCandidateSliceType(call.Type()) {
				return
			}
			nAppend++
			if !isCandidateSliceType(call.Call.Args[1].Type()) {
				return
			}
			// append(a, b...): b is a list of candidates; a has to be empty (a copy)
			if sl, isSl := strip(call.Call.Args[1]).(*ssa.Slice); isSl {
				if _, isArr := sl.X.(*ssa.Alloc); isArr {
					return // append(a, x, y): the variadic array of single elements
				}
			}
			if emptySliceValue(call.Call.Args[0]) {
				return
			}
			c.bad(p.fname(fn), "candidates are filtered, never joined", p.ipos(i), "two lists of route candidates are joined with append(a, b...): every element of the second list comes after every element of the first whatever their rank, so a less specific route can overtake a more specific one")
		})
	}
	if nAppend > 0 {
		c.ok("-", "candidates are filtered, never joined", "-", itoa(nAppend)+" appends to candidate lists in the functions the selectors reach; the ones that spread a second list start from an empty one")
	}
	// the stage function returns element 0 of its final list
	if sf := stageFunction(p); sf != nil {
		name := p.fname(sf)
		for _, r := range returnsOf(sf) {
			if len(r.Results) == 0 || isNilConst(r.Results[0]) {
				continue
			}
			first := false
			if u, ok := strip(r.Results[0]).(*ssa.UnOp); ok {
				if ia, ok := u.X.(*ssa.IndexAddr); ok {
					if n, ok := constInt(ia.Index); ok && n == 0 {
						first = true
					}
				}
			}
			if ia, ok := strip(r.Results[0]).(*ssa.IndexAddr); ok {
				if n, ok := constInt(ia.Index); ok && n == 0 {
					first = true
				}
			}
			c.check(first, name, "the first surviving candidate of the sorted list is selected", p.ipos(r), "returns <final list>[0]",
				"the selected route is not element 0 of the sorted survivors: a less specific route can overtake a more specific one")
		}
	} else {
		c.undecided("-", "stage function", "-", "not found")
	}
}

// ---------------------------------------------------------------------------

func ruleC03c(c *Ctx) {
	p := c.P
	// the scorer and the scan
	var scorer *ssa.Function
	var scan *ssa.Function
	var scoreCall *ssa.Call
	for _, fn := range p.SrcFunc {
		eachInstr(fn, func(i ssa.Instruction) {
			call, ok := i.(*ssa.Call)
			if !ok || call.Call.StaticCallee() == nil || !p.inModule(call.Call.StaticCallee()) {
				return
			}
			for _, a := range call.Call.Args {
				if _, f, ok := fieldLoad(strip(a)); ok && f.Name() == "tokens" {
					scorer, scan, scoreCall = call.Call.StaticCallee(), fn, call
				}
			}
		})
	}
	if scorer == nil {
		c.undecided("-", "root-path scorer", "-", "no module call taking pathExpression.tokens")
		return
	}
	name := p.fname(scorer)
	facts := factsAt(scorer)
	// increments of the score
	type inc struct {
		lo   int64
		kind string
		at   ssa.Instruction
	}
	var incs []inc
	unknown := ""
	// the accumulator family: everything the returned score is built from through Phis and additions
	family := map[ssa.Value]bool{}
	var grow func(v ssa.Value)
	grow = func(v ssa.Value) {
		v = strip(v)
		if family[v] {
			return
		}
		switch x := v.(type) {
		case *ssa.Phi:
			family[v] = true
			for _, e := range x.Edges {
				grow(e)
			}
		case *ssa.BinOp:
			if x.Op == token.ADD {
				family[v] = true
				grow(x.X)
			}
		}
	}
	for _, r := range returnsOf(scorer) {
		if len(r.Results) == 2 {
			grow(r.Results[1])
		}
	}
	eachInstr(scorer, func(i ssa.Instruction) {
		bo, ok := i.(*ssa.BinOp)
		if !ok || bo.Op != token.ADD || !family[bo] {
			return
		}
		if _, isPhi := strip(bo.X).(*ssa.Phi); !isPhi && !family[strip(bo.X)] {
			return
		}
		// one increment value: a constant, or (len(T) - idx) * m  with idx < len(T) known
		var classify func(y ssa.Value, depth int) bool
		classify = func(y ssa.Value, depth int) bool {
			if n, ok := constInt(y); ok {
				incs = append(incs, inc{n, "const", i})
				return true
			}
			if mul, ok := strip(y).(*ssa.BinOp); ok && mul.Op == token.MUL {
				if m, ok := constInt(mul.Y); ok {
					if sub, ok := strip(mul.X).(*ssa.BinOp); ok && sub.Op == token.SUB {
						if lc, ok := strip(sub.X).(*ssa.Call); ok && isBuiltinCall(lc, "len") {
							for f := range facts[i.Block()] {
								if cmp, ok := f.Cond.(*ssa.BinOp); ok && cmp.Op == token.LSS && f.Pol && strip(cmp.X) == strip(sub.Y) {
									if rc, ok := strip(cmp.Y).(*ssa.Call); ok && isBuiltinCall(rc, "len") && strip(rc.Call.Args[0]) == strip(lc.Call.Args[0]) {
										incs = append(incs, inc{m, "weighted", i})
										return true
									}
								}
							}
						}
					}
				}
			}
			// a value chosen per path (the result of a helper, on a normal form): every edge that can have been
			// taken, given the boolean phis of the same block whose value is known here
			if ph, ok := strip(y).(*ssa.Phi); ok && depth < 3 {
				feasible := make([]bool, len(ph.Edges))
				for k := range feasible {
					feasible[k] = true
				}
				for f := range facts[i.Block()] {
					bp, ok := f.Cond.(*ssa.Phi)
					if !ok || bp.Block() != ph.Block() || len(bp.Edges) != len(ph.Edges) {
						continue
					}
					for k, e := range bp.Edges {
						if v, isC := constBool(e); isC && v != f.Pol {
							feasible[k] = false
						}
					}
				}
				all := true
				n := 0
				for k, e := range ph.Edges {
					if !feasible[k] {
						continue
					}
					n++
					if !classify(e, depth+1) {
						all = false
					}
				}
				return all && n > 0
			}
			return false
		}
		if classify(bo.Y, 0) {
			return
		}
		unknown = "increment at " + p.ipos(i) + " is not recognised"
	})
	if unknown != "" || len(incs) == 0 {
		c.undecided(name, "score increments", p.pos(scorer.Pos()), "cannot bound the score increments: "+unknown)
	} else {
		var maxConst, minWeighted int64 = 0, 1 << 40
		positive := true
		for _, x := range incs {
			if x.lo <= 0 {
				positive = false
			}
			if x.kind == "const" && x.lo > maxConst {
				maxConst = x.lo
			}
			if x.kind == "weighted" && x.lo < minWeighted {
				minWeighted = x.lo
			}
		}
		c.check(positive, name, "every matching token adds a positive score", p.pos(scorer.Pos()), itoa(len(incs))+" increments, all > 0", "a matching token can leave the score unchanged or lower it: a longer matching root need not beat its own prefix")
		// every iteration that goes on to the next token has incremented the accumulator
		cyc := blocksOnCycles(scorer)
		unchanged := ""
		for v := range family {
			hp, ok := v.(*ssa.Phi)
			if !ok || !cyc[hp.Block()] {
				continue
			}
			// the loop-header phi: it has an edge from outside the loop
			outside := false
			for _, pr := range hp.Block().Preds {
				if !cyc[pr] || !reachableBlocks([]*ssa.BasicBlock{hp.Block()}, nil)[pr] {
					outside = true
				}
			}
			if !outside {
				continue
			}
			var leaves func(x ssa.Value, seen map[ssa.Value]bool)
			leaves = func(x ssa.Value, seen map[ssa.Value]bool) {
				x = strip(x)
				if seen[x] {
					return
				}
				seen[x] = true
				if x == ssa.Value(hp) {
					unchanged = "an iteration reaches the next token with the score unchanged (phi at " + p.ipos(hp) + ")"
					return
				}
				if ph, ok := x.(*ssa.Phi); ok {
					for _, e := range ph.Edges {
						leaves(e, seen)
					}
				}
			}
			for k, e := range hp.Edges {
				pr := hp.Block().Preds[k]
				if cyc[pr] && reachableBlocks([]*ssa.BasicBlock{hp.Block()}, nil)[pr] {
					leaves(e, map[ssa.Value]bool{})
				}
			}
		}
		// a root claims a URL only after every one of its tokens was examined: the token loop is left towards a
		// positive answer only through its own exhaustion test
		early := ""
		for _, b := range scorer.Blocks {
			if !cyc[b] {
				continue
			}
			for _, sc := range b.Succs {
				if cyc[sc] && reachableAfter(sc, nil)[b] {
					continue // stays in the loop
				}
				// an exit edge: fine from the block that tests the loop index against the number of tokens
				isHeader := false
				if iff, ok := b.Instrs[len(b.Instrs)-1].(*ssa.If); ok {
					if bo, ok := iff.Cond.(*ssa.BinOp); ok && (bo.Op == token.LSS || bo.Op == token.GEQ || bo.Op == token.GTR || bo.Op == token.LEQ) {
						for _, side := range []ssa.Value{bo.X, bo.Y} {
							if call, ok := strip(side).(*ssa.Call); ok && isBuiltinCall(call, "len") {
								isHeader = true
							}
							if _, ok := strip(side).(*ssa.Const); ok && b.Comment == "rangeindex.loop" {
								isHeader = true
							}
						}
					}
					if b.Comment == "rangeindex.loop" || b.Comment == "for.loop" {
						isHeader = true
					}
				}
				if isHeader {
					continue
				}
				// any other exit must not be able to answer "matches"
				for rb := range reachableBlocks([]*ssa.BasicBlock{sc}, nil) {
					if r, ok := rb.Instrs[len(rb.Instrs)-1].(*ssa.Return); ok && len(r.Results) == 2 {
						if v, isC := constBool(r.Results[0]); !isC || v {
							early = "the token loop can be left at " + p.ipos(b.Instrs[len(b.Instrs)-1]) + " towards a positive answer before all tokens were compared"
						}
					}
				}
			}
		}
		c.check(early == "", name, "a root matches only after all its tokens were compared", p.pos(scorer.Pos()), "the token loop reaches a positive answer only through its exhaustion", early+": a root whose first tokens match claims URLs whose later tokens differ")
		c.check(unchanged == "", name, "every matched token increments the score before the next one is examined", p.pos(scorer.Pos()), "no path through the loop body leaves the accumulator unchanged", unchanged+": two roots that differ only in such tokens tie, and registration order decides")
		c.check(minWeighted < 1<<40 && minWeighted > maxConst, name, "a literal token adds strictly more than a variable token", p.pos(scorer.Pos()),
			"literal >= "+itoa(int(minWeighted))+" (position weight, index < len proven by the loop test), variable/empty = "+itoa(int(maxConst)),
			"the smallest literal increment ("+itoa(int(minWeighted))+") does not exceed the variable increment ("+itoa(int(maxConst))+"): a literal root and a variable root can tie, and registration order decides")
	}
	// strict replacement and exhaustive scan
	sname := p.fname(scan)
	var scoreVal ssa.Value
	for _, r := range referrers(scoreCall) {
		if ex, ok := r.(*ssa.Extract); ok && ex.Index == 1 {
			scoreVal = ex
		}
	}
	// the scan may be written as several loops (find the first match, then look for better ones): every call of the scorer counts
	scoreVals := map[ssa.Value]bool{scoreVal: true}
	var scoreCalls []*ssa.Call
	eachInstr(scan, func(i ssa.Instruction) {
		if call, ok := i.(*ssa.Call); ok && call.Call.StaticCallee() == scorer {
			scoreCalls = append(scoreCalls, call)
			for _, r := range referrers(call) {
				if ex, ok := r.(*ssa.Extract); ok && ex.Index == 1 {
					scoreVals[ex] = true
				}
			}
		}
	})
	// every edge on which the best service is replaced carries "this score > best score so far"
	strict, notStrict := false, false
	sfacts := factsAt(scan)
	eachInstr(scan, func(i ssa.Instruction) {
		phi, ok := i.(*ssa.Phi)
		if !ok || !isPtrToRestful(phi.Type(), "WebService") {
			return
		}
		nrep := 0
		allStrict := true
		for k, e := range phi.Edges {
			if e == ssa.Value(phi) || isNilConst(e) {
				continue
			}
			if _, isPhi := e.(*ssa.Phi); isPhi {
				continue
			}
			nrep++
			pred := phi.Block().Preds[k]
			okEdge := false
			for f := range sfacts[pred] {
				bo, isB := f.Cond.(*ssa.BinOp)
				if !isB || !f.Pol || bo.Op != token.GTR || !scoreVals[strip(bo.X)] {
					continue
				}
				if _, isPhi := strip(bo.Y).(*ssa.Phi); isPhi {
					okEdge = true
				}
			}
			if !okEdge {
				// the first assignment: at this merge every other incoming value is the initial nil, so no best existed
				// on any path (a best assigned earlier would arrive here as a phi, not as nil)
				first := true
				for k2, e2 := range phi.Edges {
					if k2 != k && !isNilConst(e2) {
						first = false
					}
				}
				if !first {
					allStrict = false
				}
			}
		}
		if nrep > 0 && allStrict {
			strict = true
		}
		if nrep > 0 && !allStrict {
			notStrict = true
		}
		// the remembered best score moves with the best service
		for k, e := range phi.Edges {
			if e == ssa.Value(phi) || isNilConst(e) {
				continue
			}
			if _, isPhi := e.(*ssa.Phi); isPhi {
				continue
			}
			moved := false
			for _, ins := range phi.Block().Instrs {
				sp, ok := ins.(*ssa.Phi)
				if !ok {
					break
				}
				if sp != phi && k < len(sp.Edges) && scoreVals[strip(sp.Edges[k])] {
					moved = true
				}
			}
			c.check(moved, sname, "the best score is updated together with the best service", p.ipos(scoreCall), "on the replacing edge the remembered score becomes this service's score",
				"the best service is replaced but the score it is compared with is not updated: every later service with any score above the initial value replaces it, so the last match wins instead of the best")
		}
	})
	c.check(strict && !notStrict, sname, "the best root is replaced only by a strictly better one", p.ipos(scoreCall), "eachScore > score", "the best service is replaced on an equal score as well")
	cyc := blocksOnCycles(scan)
	inLoop := false
	for _, sc := range scoreCalls {
		if cyc[sc.Block()] {
			inLoop = true
		}
	}
	if !inLoop {
		c.bad(sname, "every service is scored", p.ipos(scoreCall), "the scorer is not called in a loop over the services")
		return
	}
	early := ""
	anyHeader := false
	for _, sc := range scoreCalls {
		if !cyc[sc.Block()] {
			continue
		}
		// the innermost loop around this call of the scorer
		var header *ssa.BasicBlock
		for b := sc.Block(); b != nil && header == nil; b = b.Idom() {
			if cyc[b] && reachableAfter(sc.Block(), nil)[b] {
				if _, ok := b.Instrs[len(b.Instrs)-1].(*ssa.If); ok {
					for _, s := range b.Succs {
						if !reachableBlocks([]*ssa.BasicBlock{s}, nil)[b] {
							header = b
						}
					}
				}
			}
		}
		if header == nil {
			continue
		}
		anyHeader = true
		var body []*ssa.BasicBlock
		fromH := reachableAfter(header, nil)
		for _, b := range scan.Blocks {
			if b != header && cyc[b] && fromH[b] && reachableAfter(b, nil)[header] {
				body = append(body, b)
			}
		}
		inBody := map[*ssa.BasicBlock]bool{header: true}
		for _, b := range body {
			inBody[b] = true
		}
		for _, b := range body {
			for _, s := range b.Succs {
				if inBody[s] {
					continue
				}
				// leaving the loop from its body: fine when what follows is another loop that scores the rest of the list
				continues := false
				for _, sc2 := range scoreCalls {
					if sc2 != sc && cyc[sc2.Block()] && !inBody[sc2.Block()] && reachableBlocks([]*ssa.BasicBlock{s}, nil)[sc2.Block()] {
						continues = true
					}
				}
				if !continues {
					early = "block " + s.String() + " (" + p.ipos(s.Instrs[0]) + ") leaves the loop before all services were scored"
				}
			}
		}
	}
	c.check(anyHeader && early == "", sname, "the scan over the services runs to exhaustion", p.ipos(scoreCall), "the loop's only exit is the end of the list (or a following loop scores the rest)",
		early+": a better (more literal) root registered later is never considered, so the outcome depends on registration order")
}

// ---------------------------------------------------------------------------
// C03.e: a matcher that returns several counters (the keys the candidates are ranked by) classifies each
// segment once: an increment of one counter never happens under the condition that distinguishes the
// increments of another counter.

func counterIncrements(v ssa.Value, seen map[ssa.Value]bool, out map[*ssa.BinOp]bool) {
	v = strip(v)
	if seen[v] {
		return
	}
	seen[v] = true
	switch x := v.(type) {
	case *ssa.Phi:
		for _, e := range x.Edges {
			counterIncrements(e, seen, out)
		}
	case *ssa.BinOp:
		if x.Op != token.ADD {
			return
		}
		if n, ok := constInt(x.Y); ok && n == 1 {
			out[x] = true
			counterIncrements(x.X, seen, out)
		} else if n, ok := constInt(x.X); ok && n == 1 {
			out[x] = true
			counterIncrements(x.Y, seen, out)
		}
	}
}

func ruleC03e(c *Ctx) {
	p := c.P
	n := 0
	for _, fn := range p.requestPathFuncs() {
		res := fn.Signature.Results()
		if res.Len() < 2 {
			continue
		}
		incs := map[int]map[*ssa.BinOp]bool{}
		for k := 0; k < res.Len(); k++ {
			b, ok := res.At(k).Type().Underlying().(*types.Basic)
			if !ok || b.Kind() != types.Int {
				continue
			}
			set := map[*ssa.BinOp]bool{}
			for _, r := range returnsOf(fn) {
				if k < len(r.Results) {
					counterIncrements(r.Results[k], map[ssa.Value]bool{}, set)
				}
			}
			if len(set) > 0 {
				incs[k] = set
			}
		}
		if len(incs) < 2 {
			continue
		}
		facts := factsAt(fn)
		name := p.fname(fn)
		common := func(set map[*ssa.BinOp]bool) map[condFact]bool {
			var out map[condFact]bool
			for b := range set {
				f := facts[b.Block()]
				if out == nil {
					out = map[condFact]bool{}
					for k := range f {
						out[k] = true
					}
					continue
				}
				for k := range out {
					if !f[k] {
						delete(out, k)
					}
				}
			}
			return out
		}
		resName := func(k int) string {
			if nm := res.At(k).Name(); nm != "" {
				return nm
			}
			return "result " + itoa(k)
		}
		var ks []int
		for k := range incs {
			ks = append(ks, k)
		}
		sort.Ints(ks)
		// one classification, one counter: two counters are never incremented in one and the same basic block (no
		// test of the segment lies between the two increments, so the same segment is counted as both kinds)
		for _, a := range ks {
			for _, b := range ks {
				if a >= b {
					continue
				}
				var twice *ssa.BinOp
				for ia := range incs[a] {
					for ib := range incs[b] {
						if ia.Block() == ib.Block() && (twice == nil || ib.Pos() < twice.Pos()) {
							twice = ib
						}
					}
				}
				n++
				construct := "no segment is counted for " + resName(a) + " and for " + resName(b) + " by the same classification"
				if twice == nil {
					c.ok(name, construct, p.pos(fn.Pos()), "no basic block increments both counters")
				} else {
					c.bad(name, construct, p.ipos(twice), "both counters are incremented for one classification of the segment: it counts as a literal and as a variable, ties with a literal segment on the first ranking key and wins on the second although it is less specific")
				}
			}
		}
		for _, a := range ks {
			for _, b := range ks {
				if a == b {
					continue
				}
				ca, cb := common(incs[a]), common(incs[b])
				dist := map[condFact]bool{}
				for f := range ca {
					if !cb[f] {
						dist[f] = true
					}
				}
				if len(dist) == 0 {
					continue
				}
				n++
				var bad *ssa.BinOp
				for inc := range incs[b] {
					for f := range dist {
						if facts[inc.Block()][f] {
							if bad == nil || inc.Pos() < bad.Pos() {
								bad = inc
							}
						}
					}
				}
				construct := "a segment counted for " + resName(a) + " is not also counted for " + resName(b)
				if bad == nil {
					c.ok(name, construct, p.pos(fn.Pos()), "no increment of "+resName(b)+" lies under the condition that distinguishes the increments of "+resName(a))
				} else {
					c.bad(name, construct, p.ipos(bad), resName(b)+" is incremented under the very condition that makes the segment count for "+resName(a)+": the segment is counted twice, it ties with a segment of the other kind on the first ranking key and the next key decides the wrong way")
				}
			}
		}
	}
	c.count("counter_pairs", n)
}

// semanticArgmaxGuard: guard(k, best) - possibly through a module helper - is a strict total order on distinct keys:
// over all sign vectors of its measures (the key itself, len of the key, ...) it agrees with a lexicographic
// comparison whose last key is the key itself, compared strictly. Then "keep the element the guard prefers" selects
// the same element in every iteration order.
func semanticArgmaxGuard(p *Program, info *types.Info, guard ast.Expr, keyName, bestName, bestField string) bool {
	cm := &comparator{info: info, locals: map[string]string{keyName: "i", bestName: "j"}, prefix: map[string]string{}, strict: map[string]bool{}, prog: p, jStrip: bestField, ident: true, allowOpaque: true}
	cm.params = [2]string{"\x00", "\x00"}
	eval := func(rel map[string]int) (bool, bool) {
		cm.problem = ""
		return cm.evalCond(guard, rel)
	}
	if _, ok := eval(map[string]int{}); !ok {
		return false
	}
	for iter := 0; iter < 6; iter++ {
		before := len(cm.keys)
		var enum func(k int, rel map[string]int)
		enum = func(k int, rel map[string]int) {
			if k == len(cm.keys) {
				eval(rel)
				return
			}
			for _, v := range []int{-1, 0, 1} {
				rel[cm.keys[k]] = v
				enum(k+1, rel)
			}
		}
		enum(0, map[string]int{})
		if len(cm.keys) == before {
			break
		}
	}
	if len(cm.keys) == 0 || len(cm.keys) > 4 {
		return false
	}
	// the key itself must be among the measures
	hasIdent := false
	for _, k := range cm.keys {
		if k == "" {
			hasIdent = true
		}
	}
	if !hasIdent {
		return false
	}
	// a lexicographic order: try every permutation of the keys that ends in the key itself
	n := len(cm.keys)
	total := 1
	for i := 0; i < n; i++ {
		total *= 3
	}
	var perms [][]string
	var permute func(cur []string, rest []string)
	permute = func(cur []string, rest []string) {
		if len(rest) == 0 {
			if cur[len(cur)-1] == "" {
				perms = append(perms, append([]string{}, cur...))
			}
			return
		}
		for i := range rest {
			nr := append(append([]string{}, rest[:i]...), rest[i+1:]...)
			permute(append(cur, rest[i]), nr)
		}
	}
	permute(nil, cm.keys)
	for _, order := range perms {
		dir := map[string]int{}
		okDir := true
		for _, k := range order {
			lt, ok1 := eval(map[string]int{k: -1})
			gt, ok2 := eval(map[string]int{k: 1})
			switch {
			case !ok1 || !ok2:
				okDir = false
			case lt && !gt:
				dir[k] = 1
			case gt && !lt:
				dir[k] = -1
			default:
				okDir = false
			}
		}
		if !okDir {
			continue
		}
		match := true
		for code := 0; code < total && match; code++ {
			rel := map[string]int{}
			x := code
			for _, k := range cm.keys {
				rel[k] = x%3 - 1
				x /= 3
			}
			if rel[""] == 0 {
				continue // distinct keys
			}
			got, ok := eval(rel)
			if !ok {
				match = false
				break
			}
			want := false
			for _, k := range order {
				if rel[k] != 0 {
					want = (rel[k] < 0 && dir[k] > 0) || (rel[k] > 0 && dir[k] < 0)
					break
				}
			}
			if got != want {
				match = false
			}
		}
		if match {
			return true
		}
	}
	return false
}

// emptySliceValue: v is a slice known to be empty: nil, make(T, 0, ...), x[:0], or an empty literal.
func emptySliceValue(v ssa.Value) bool {
	v = strip(v)
	if isNilConst(v) {
		return true
	}
	switch x := v.(type) {
	case *ssa.MakeSlice:
		n, ok := constInt(x.Len)
		return ok && n == 0
	case *ssa.Slice:
		if x.High != nil {
			if n, ok := constInt(x.High); ok && n == 0 {
				return true
			}
		}
		if a, ok := x.X.(*ssa.Alloc); ok {
			if arr, ok := a.Type().(*types.Pointer).Elem().Underlying().(*types.Array); ok && arr.Len() == 0 {
				return true
			}
		}
	}
	return false
}
