package main

import (
	"go/token"
	"go/types"

	"golang.org/x/tools/go/ssa"
)

// Field index (DESIGN §2.1 A-fld): every access to a struct field through a pointer.

type FieldAccess struct {
	Fn    *ssa.Function
	Instr ssa.Instruction // the load, the store, or (for an escaping address) the FieldAddr itself
	Field *types.Var
	Owner string // name of the struct type ("" for anonymous/external)
	Kind  string // "load", "store", "addr"
	Addr  *ssa.FieldAddr
}

func ownerOfFieldAddr(fa *ssa.FieldAddr) string {
	pt, ok := fa.X.Type().Underlying().(*types.Pointer)
	if !ok {
		return ""
	}
	if n, ok := types.Unalias(pt.Elem()).(*types.Named); ok {
		return n.Obj().Name()
	}
	return ""
}

func (p *Program) fieldAccesses(fn *ssa.Function) []FieldAccess {
	var out []FieldAccess
	eachInstr(fn, func(i ssa.Instruction) {
		fa, ok := i.(*ssa.FieldAddr)
		if !ok {
			return
		}
		f := fieldOfAddr(fa)
		owner := ownerOfFieldAddr(fa)
		for _, r := range referrers(fa) {
			switch x := r.(type) {
			case *ssa.UnOp:
				if x.Op == token.MUL {
					out = append(out, FieldAccess{fn, x, f, owner, "load", fa})
					continue
				}
			case *ssa.Store:
				if x.Addr == ssa.Value(fa) {
					out = append(out, FieldAccess{fn, x, f, owner, "store", fa})
					continue
				}
			case *ssa.DebugRef:
				continue
			case *ssa.FieldAddr, *ssa.IndexAddr:
				// address of a sub-object: an access to the sub-object, not to this field's value
				continue
			}
			if cc := callCommon(r); cc != nil {
				if _, isLock := lockOpOf(r); isLock {
					continue
				}
			}
			out = append(out, FieldAccess{fn, fa, f, owner, "addr", fa})
		}
	})
	return out
}

// freshBase reports whether the object whose field is accessed was allocated in this
// function activation (composite literal, new, local variable): nobody else can see it yet.
func (p *Program) freshBase(fa *ssa.FieldAddr) bool {
	return p.isFreshObject(fa.X)
}

func (p *Program) isFreshObject(v ssa.Value) bool { return p.isFreshObjectN(v, 0) }

// isFreshObjectN also accepts a parameter of an unexported, never address-taken function
// all of whose in-module call sites pass a fresh object (summaries to depth 3).
func (p *Program) isFreshObjectN(v ssa.Value, depth int) bool {
	src := p.sources(v, provDefault)
	if len(src) == 0 {
		return false
	}
	for _, s := range src {
		switch x := s.(type) {
		case *ssa.Alloc:
			_ = x
		case *ssa.Parameter:
			fn := x.Parent()
			if depth >= 3 || fn == nil {
				return false
			}
			if o := fn.Object(); o == nil || o.Exported() || fn.Parent() != nil {
				return false
			}
			if p.takenCache == nil {
				p.takenCache = p.addressTaken()
			}
			if p.takenCache[fn] {
				return false
			}
			idx := -1
			for k, prm := range fn.Params {
				if prm == x {
					idx = k
				}
			}
			n := 0
			for _, e := range p.callGraph().In[fn] {
				if e.Kind != EdgeStatic {
					return false
				}
				cc := callCommon(e.Site)
				if idx < 0 || idx >= len(cc.Args) {
					return false
				}
				n++
				if !p.isFreshObjectN(cc.Args[idx], depth+1) {
					return false
				}
			}
			if n == 0 {
				return false
			}
		case *ssa.FieldAddr:
			// field of a fresh struct
			if !p.isFreshObjectN(x.X, depth) {
				return false
			}
		case *ssa.IndexAddr:
			if !p.isFreshObjectN(x.X, depth) {
				return false
			}
		case *ssa.MakeSlice, *ssa.MakeMap:
		case *ssa.Slice:
			if !p.isFreshObjectN(x.X, depth) {
				return false
			}
		default:
			return false
		}
	}
	return true
}

// sharedTypes is the type-graph closure of Container and of the package-level variables:
// the named struct types of the module an object of which can be reached by two requests.
func (p *Program) sharedTypes() map[string]bool {
	seen := map[types.Type]bool{}
	out := map[string]bool{}
	var walk func(t types.Type)
	walk = func(t types.Type) {
		t = types.Unalias(t)
		if seen[t] {
			return
		}
		seen[t] = true
		switch x := t.(type) {
		case *types.Named:
			if o := x.Obj(); o.Pkg() != nil && (o.Pkg() == p.Restful.Pkg || o.Pkg() == p.Log.Pkg) {
				if _, ok := x.Underlying().(*types.Interface); !ok {
					out[o.Name()] = true
				}
				walk(x.Underlying())
			}
		case *types.Pointer:
			walk(x.Elem())
		case *types.Slice:
			walk(x.Elem())
		case *types.Array:
			walk(x.Elem())
		case *types.Map:
			walk(x.Key())
			walk(x.Elem())
		case *types.Chan:
			walk(x.Elem())
		case *types.Struct:
			for i := 0; i < x.NumFields(); i++ {
				walk(x.Field(i).Type())
			}
		}
	}
	if c := p.namedType("Container"); c != nil {
		walk(c)
	}
	for _, pkg := range []*ssa.Package{p.Restful, p.Log} {
		for _, m := range pkg.Members {
			if g, ok := m.(*ssa.Global); ok {
				walk(g.Type().(*types.Pointer).Elem())
			}
		}
	}
	// types whose method values of a request-root shape can be installed as callbacks
	for _, fn := range p.SrcFunc {
		if fn.Parent() == nil && fn.Signature.Recv() != nil && requestShape(fn.Signature) != "" {
			if n := recvTypeName(fn); n != "" {
				if nt := p.namedType(n); nt != nil {
					walk(nt)
				}
			}
		}
	}
	for _, n := range requestScopedTypes {
		delete(out, n)
	}
	return out
}
