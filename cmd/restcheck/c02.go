package main

import (
	"go/token"
	"go/types"
	"strings"

	"golang.org/x/tools/go/ssa"
)

func init() {
	register(&Property{
		ID:    "C02",
		Title: "Every request gets exactly one outcome; 404/405/415/406 are exact",
		Decided: "C02.a every path through the dispatching function produces exactly one outcome (error chain, install-failure 500, route chain or direct route function); C02.b in the stage function the emptiness tests follow the order conditions, method, Content-Type, Accept and the error built under each carries 404 / 405 / 415 / {415,406}; every error a module selector returns is a ServiceError with a constant code (404 where the selector itself refuses); " +
			"C02.c no header of a writer is changed after a call that may commit the response on the same writer; C02.d panic/os.Exit reachable from request roots exist only where a precondition of the embedding program or a constant-argument standard-library constructor is concerned, and no request data reaches regexp.MustCompile; C02.e a slice of request-derived text whose bound is computed by subtraction is guarded by the comparison that makes it well-formed; " +
			"C02.f the root-path scorer consults {v:regex}; C02.g header tokens are trimmed after the last cut (router side); C02.h the 405 Allow list (see C17.c); C02.i every other entry point hands the request on exactly once; C02.j a selector refuses exactly when the previous step found nothing; C02.k/C02.m every index expression on the request path is either proven in range by the Go compiler's prove pass or related to the length of the collection it indexes by a dominating test (or the sort.Interface contract), and bounds taken from a search of request text were compared with -1; C02.l template literals and the request path reach the compiled matchers through the same character-rewriting functions. C02.n = C01.f. C02.o = C11.l (the routers consult the current route table: derived copies follow every change). C02.p = C01.h; C02.q whatever may answer in place of the service error handler is chosen under a comparison of the ServiceError's Code with a constant. C02.s in every loop of a request-path function no cycle avoids all tests that can leave the loop.",
		NotDecided: "panics other than index out of range (nil dereference, nil map write, type assertion) beyond C02.j; the arithmetic of slice expressions on template text (a malformed template, not a request, would be needed); nil results of custom routers; 'a matching route exists therefore no 4xx'; the best-root arithmetic.",
		Rules: []Rule{
			{ID: "C02.a", Template: "T-ONCE", Required: true, Run: ruleC02a,
				Doc: "Exactly one outcome per dispatch: a missing return runs a function after an error response; a dropped branch answers nothing."},
			{ID: "C02.i", Template: "T-ONCE", Required: true, Run: ruleC02i,
				Doc: "Every other entry point of the container (ServeHTTP, Dispatch, the closures registered by Handle/HandleWithFilter) hands the request on exactly once on every path: to the mux, the dispatcher, the plain handler or a chain - or answers 500 when the encoder cannot be installed. A dropped call on a rarely taken branch (writer already compressing, no container filters) leaves the request without any outcome."},
			{ID: "C02.j", Template: "T-GUARD", Required: true, Run: ruleC02j,
				Doc: "A selector refuses (404) exactly when the previous step found nothing: the refusal is decided by 'no service' / 'helper returned an error' / 'no candidate', and the continuation runs under the complementary condition. A flipped test answers 404 for every routable URL, or walks on with a nil service."},
			{ID: "C02.k", Template: "T-SINK", Required: true, Run: ruleC02k,
				Doc: "Indexing that request data can make fail: the first element of a candidate list is read only where the list was found non-empty, and the last group of a regular-expression match only where the match is non-nil."},
			{ID: "C02.m", Template: "T-BOUNDS", Required: true, Run: ruleBounds,
				Doc: "Index expressions on the request path are in bounds. Stage 1: the Go compiler's prove pass (the package is compiled with -d=ssa/check_bce; nothing is run) eliminates the bounds check of every index expression it can prove in range for all inputs. Stage 2: each remaining element index must be related to the length of the collection it indexes (constant index below an established minimum length, len-1 of a non-empty collection, a dominating comparison of the index with len of the same collection, a counter from 0 compared with len before every use, or the sort.Interface contract); bounds taken from strings.Index must have been compared with -1. An index governed by the length of a different collection panics the dispatch for the inputs where the two lengths differ.",
			},
			{ID: "C02.l", Template: "T-SIBLING", Required: true, Run: ruleLiteralEncoding,
				Doc: "The RouterJSR311 matchers are compiled from template literals and run against URL.Path: both texts must have passed through the same character-rewriting functions (none today). Escaping the literals while matching the decoded path answers 404 for every template with a character the escaper changes.",
			},
			{ID: "C02.b", Template: "T-ORDER", Required: true, Run: ruleC02b,
				Doc: "Stage order and status mapping. Swapped precedence (415 before 405), a wrong code or an error the dispatcher does not understand (a plain error produces no response at all) survive the eight single-route error tests."},
			{ID: "C02.c", Template: "T-ORDER", Required: true, Run: ruleC02c,
				Doc: "Headers before status: net/http silently drops header changes after the first write, and httptest.ResponseRecorder hands out the live map, so the suite cannot see it."},
			{ID: "C02.d", Template: "T-SINK", Required: true, Run: ruleC02d,
				Doc: "No explicit abort on the request path except re-verified preconditions."},
			{ID: "C02.e", Template: "T-SINK", Required: true, Run: ruleC02e,
				Doc: "The one arithmetic shape request data can drive negative: value[lo : len(value)-k]."},
			{ID: "C02.f", Template: "T-SIBLING", Required: true, Run: ruleRootRegex,
				Doc: "A root containing a regex variable only claims URLs satisfying it."},
			{ID: "C02.g", Template: "T-TOKEN", Required: true, Run: ruleTokenRouter,
				Doc: "If a route matches, no 4xx: legal optional whitespace in Accept/Content-Type must not turn a match into 406/415."},
			{ID: "C02.h", Template: "T-PROV", Required: true, Run: ruleAllow405,
				Doc: "405 carries an Allow header naming exactly the methods of the path-matching routes."},
			{ID: "C02.s", Template: "T-SINK", Required: false, Run: ruleLoopsCanExit,
				Doc: "Every loop on the request path can be left from every one of its cycles: no way round a loop avoids all of the tests that can leave it. A `continue` in front of the only exit test of a `for { }` over the elements of a header value makes `Accept: text/plain,,` spin for ever - no outcome at all."},
			{ID: "C02.r", Template: "T-GUARD", Required: true, Run: ruleTraceLoggerGuarded,
				Doc: "'Dispatching any request never panics': every call through traceLogger is controlled by the trace flag (same obligations as C19.j); after TraceLogger(nil) an unguarded call is a call on a nil interface."},
			{ID: "C02.q", Template: "T-GUARD", Required: true, Run: ruleAlternativeAnswers,
				Doc: "The router's error decides the outcome class. Whatever may answer in place of the service error handler (a not-found handler kept in a Container field) is chosen under a comparison of the ServiceError's Code with a constant, not because no route was selected: the selectors return a nil route for every error."},
			{ID: "C02.p", Template: "T-GUARD", Required: true, Run: ruleMediaMatchers,
				Doc: "'415 when a body is sent with a Content-Type no remaining route consumes': the Content-Type matcher admits only for a reason in the declaration (same obligations as C01.h)."},
			{ID: "C02.o", Template: "T-SIBLING", Required: true, Run: ruleDerivedRegistrationState,
				Doc: "'Some route matches ... in the WebService': the routers consult the current route table. Every derived copy of the routes that the request path reads follows every change of WebService.routes (same obligations as C11.l)."},
			{ID: "C02.n", Template: "T-SIBLING", Required: false, Run: ruleSubmatchContext,
				Doc: "No route may claim a URL it does not match (405/404 instead): a captured group is used to test another string only together with the literal context the pattern requires (same obligations as C01.f)."},
		},
	})
}

func ruleC02a(c *Ctx) {
	p := c.P
	ds, _ := findDispatchers(p)
	if len(ds) == 0 {
		c.undecided("-", "dispatching function", "-", "not found")
		return
	}
	for _, d := range ds {
		fn := d.Fn
		name := p.fname(fn)
		sites := map[ssa.Instruction]bool{}
		var desc []string
		eachInstr(fn, func(i ssa.Instruction) {
			if isProcessFilterCall(i) {
				sites[i] = true
				desc = append(desc, "chain at "+p.ipos(i))
				return
			}
			cc := callCommon(i)
			if cc == nil {
				return
			}
			if isDynamicCall(cc) {
				if _, ok := fieldLoadIs(cc.Value, "Route", "Function"); ok {
					sites[i] = true
					desc = append(desc, "route function at "+p.ipos(i))
				}
			}
			if cc.IsInvoke() && cc.Method.Name() == "WriteHeader" && isHTTPResponseWriter(cc.Value.Type()) {
				sites[i] = true
				desc = append(desc, "status at "+p.ipos(i))
			}
		})
		min, max, ok := countOnPaths(fn, nil, sites)
		c.check(ok && min == 1 && max == 1, name, "exactly one outcome on every path", p.pos(fn.Pos()),
			"outcome sites: "+strings.Join(desc, "; ")+"; min = max = 1", "outcomes per dispatch: min="+itoa(min)+" max="+maxStr(max)+" over "+strings.Join(desc, "; ")+" (a request is answered twice, or not at all)")
		// the error branch is taken exactly when SelectRoute returned an error, and the error target handles ServiceError
		if d.Err.Cell != nil {
			handled := false
			for _, f := range withClosures(fn) {
				eachInstr(f, func(i ssa.Instruction) {
					cc := callCommon(i)
					if cc != nil && isDynamicCall(cc) {
						if _, ok := fieldLoadIs(cc.Value, "Container", "serviceErrorHandleFunc"); ok {
							handled = true
						}
					}
				})
			}
			c.check(handled, name, "a routing error is handed to the service-error handler", p.pos(fn.Pos()), "serviceErrorHandleFunc is called from the error chain's target", "no path hands the routing error to the service-error handler: the error response is never written")
		}
	}
}

// stageFunction: the module function that filters candidates by method equality.
func stageFunction(p *Program) *ssa.Function {
	var out *ssa.Function
	for _, fn := range p.requestPathFuncs() {
		eachInstr(fn, func(i ssa.Instruction) {
			bo, ok := i.(*ssa.BinOp)
			if !ok || bo.Op != token.EQL {
				return
			}
			b1, f1, ok1 := fieldLoad(strip(bo.X))
			b2, f2, ok2 := fieldLoad(strip(bo.Y))
			if ok1 && ok2 && f1.Name() == "Method" && f2.Name() == "Method" {
				if (isHTTPRequestPtr(b1.Type()) && isRouteish(b2.Type())) || (isHTTPRequestPtr(b2.Type()) && isRouteish(b1.Type())) {
					out = fn
				}
			}
		})
	}
	return out
}

// serviceErrorCode: v is an error built by NewError/NewErrorWithHeader(code const,...) (or a ServiceError literal); returns the code.
func serviceErrorCode(p *Program, v ssa.Value) (code int64, isServiceError bool, constCode bool, call *ssa.Call) {
	inner := v
	if mi, ok := v.(*ssa.MakeInterface); ok {
		inner = mi.X
	}
	if !isRestfulNamed(inner.Type(), "ServiceError") {
		return 0, false, false, nil
	}
	cl, ok := inner.(*ssa.Call)
	if !ok || cl.Call.StaticCallee() == nil || len(cl.Call.Args) == 0 {
		return 0, true, false, nil
	}
	n, okc := constInt(cl.Call.Args[0])
	if !okc {
		// a status chosen per path: all constants
		if codes := constIntsOf(cl.Call.Args[0], 0); len(codes) > 0 {
			return codes[0], true, true, cl
		}
	}
	return n, true, okc, cl
}

// constIntsOf: the constants v can be when it is a phi (of phis) of integer constants; nil otherwise.
func constIntsOf(v ssa.Value, depth int) []int64 {
	if n, ok := constInt(v); ok {
		return []int64{n}
	}
	ph, ok := strip(v).(*ssa.Phi)
	if !ok || depth > 2 {
		return nil
	}
	var out []int64
	for _, e := range ph.Edges {
		if strip(e) == ssa.Value(ph) {
			continue
		}
		cs := constIntsOf(e, depth+1)
		if cs == nil {
			return nil
		}
		out = append(out, cs...)
	}
	return out
}

// serviceErrorCodes: every status the ServiceError v can carry (nil when not all are constants).
func serviceErrorCodes(p *Program, v ssa.Value) []int64 {
	_, isSE, _, cl := serviceErrorCode(p, v)
	if !isSE || cl == nil {
		return nil
	}
	return constIntsOf(cl.Call.Args[0], 0)
}

func stageIndex(g predSet) int {
	n := 0
	for _, b := range []predSet{pIf, pMethod, pCtype, pAccept} {
		if g&b != 0 {
			n++
		}
	}
	return n
}

func ruleC02b(c *Ctx) {
	p := c.P
	sf := stageFunction(p)
	if sf == nil {
		c.undecided("-", "stage function", "-", "no function comparing Request.Method with Route.Method found")
		return
	}
	name := p.fname(sf)
	ctx := map[*ssa.Parameter]predSet{}
	for _, prm := range sf.Params {
		if isCandidateSliceType(prm.Type()) {
			ctx[prm] = pPath
		}
	}
	env := newGuardEnv(p, sf, ctx, 0, nil)
	facts := env.facts
	// emptiness tests
	type emptyTest struct {
		iff   *ssa.If
		stage int
		pol   bool // polarity of "is empty"
	}
	emptyFact := func(f condFact) (stage int, ok bool) {
		bo, isB := f.Cond.(*ssa.BinOp)
		if !isB {
			return 0, false
		}
		call, isC := strip(bo.X).(*ssa.Call)
		if !isC || !isBuiltinCall(call, "len") || !isCandidateSliceType(call.Call.Args[0].Type()) {
			return 0, false
		}
		n, isN := constInt(bo.Y)
		if !isN || n != 0 {
			return 0, false
		}
		empty := (bo.Op == token.EQL && f.Pol) || (bo.Op == token.NEQ && !f.Pol) || (bo.Op == token.GTR && !f.Pol)
		if !empty {
			return 0, false
		}
		return stageIndex(env.sliceGuar(call.Call.Args[0])), true
	}
	want := map[int][]int64{1: {404}, 2: {405}, 3: {415}, 4: {415, 406}}
	stageName := map[int]string{1: "conditions", 2: "method", 3: "Content-Type", 4: "Accept"}
	seenStage := map[int]bool{}
	for _, r := range returnsOf(sf) {
		if len(r.Results) != 2 {
			continue
		}
		code, isSE, constCode, _ := serviceErrorCode(p, r.Results[1])
		if isNilConst(r.Results[1]) {
			continue
		}
		if !isSE {
			c.bad(name, "error returned is a ServiceError", p.ipos(r), "the stage function returns an error the dispatcher does not turn into a response")
			continue
		}
		stage := 0
		for f := range facts[r.Block()] {
			if s, ok := emptyFact(f); ok && s > stage {
				stage = s
			}
		}
		if stage == 0 {
			c.undecided(name, "error return not tied to an empty stage", p.ipos(r), "cannot relate this error to the emptiness of a candidate list")
			continue
		}
		seenStage[stage] = true
		okCode := false
		if codes := serviceErrorCodes(p, r.Results[1]); constCode && len(codes) > 0 {
			okCode = true
			for _, cd := range codes {
				in := false
				for _, w := range want[stage] {
					if cd == w {
						in = true
					}
				}
				if !in {
					okCode, code = false, cd
				}
			}
		}
		c.check(okCode, name, "status for an empty "+stageName[stage]+" stage", p.ipos(r), "code "+itoa(int(code)), "an empty "+stageName[stage]+" stage answers "+itoa(int(code))+", expected one of "+intsString(want[stage]))
		if stage == 3 {
			// 415 for a foreign Content-Type only when a body is sent
			body := false
			for f := range facts[r.Block()] {
				bo, ok := f.Cond.(*ssa.BinOp)
				if !ok || !f.Pol || bo.Op != token.GTR {
					continue
				}
				if _, fld, ok := fieldLoad(strip(bo.X)); ok && fld.Name() == "ContentLength" {
					if n0, ok := constInt(bo.Y); ok && n0 == 0 {
						body = true
					}
				}
			}
			c.check(body, name, "415 at the Content-Type stage only when a body is sent", p.ipos(r), "dominated by ContentLength > 0", "the Content-Type stage answers 415 although no body is sent (or only then does not): the decision is not tied to ContentLength > 0")
		}
	}
	for s := 1; s <= 4; s++ {
		if !seenStage[s] {
			c.bad(name, "error exit for an empty "+stageName[s]+" stage", p.pos(sf.Pos()), "no error return is reached when no candidate survives the "+stageName[s]+" stage: the next stage runs on an empty list or a wrong status is produced")
		}
	}
	// order of the stages: the block where stage k's predicate is established dominates stage k+1's
	var stageBlocks [5]*ssa.BasicBlock
	for _, b := range sf.Blocks {
		for f := range facts[b] {
			for k, pr := range []predSet{pIf, pMethod, pCtype, pAccept} {
				// any element key: recognise by trying all appends in the block
				for _, ins := range b.Instrs {
					if !isBuiltinCall(ins, "append") {
						continue
					}
					call := ins.(*ssa.Call)
					if !isCandidateSliceType(call.Type()) || len(call.Call.Args) < 2 {
						continue
					}
					if sl, ok := strip(call.Call.Args[1]).(*ssa.Slice); ok {
						if a, ok := sl.X.(*ssa.Alloc); ok {
							for _, ref := range referrers(a) {
								if ia, ok := ref.(*ssa.IndexAddr); ok {
									for _, rr := range referrers(ia) {
										if st, ok := rr.(*ssa.Store); ok && st.Addr == ssa.Value(ia) {
											if env.predOfFact(f, env.resolveKey(st.Val), b)&pr != 0 || (pr == pIf && env.predsAt(b, env.resolveKey(st.Val))&pIf != 0) {
												stageBlocks[k+1] = b
											}
										}
									}
								}
							}
						}
					}
				}
			}
		}
	}
	for k := 1; k < 4; k++ {
		a, b := stageBlocks[k], stageBlocks[k+1]
		if a == nil || b == nil {
			c.bad(name, stageName[k]+" stage before "+stageName[k+1]+" stage", p.pos(sf.Pos()), "one of the two stages was not found")
			continue
		}
		c.check(!reachableBlocks([]*ssa.BasicBlock{b}, nil)[a], name, stageName[k]+" stage before "+stageName[k+1]+" stage", p.ipos(b.Instrs[0]),
			"the "+stageName[k]+" filter cannot run after the "+stageName[k+1]+" filter", "the stages are out of order: the error class reported for a request that fails several stages changes")
	}
	// selectors: every error is a ServiceError with a constant code; direct refusals are 404
	for _, fn := range selectorImpls(p) {
		for _, r := range returnsOf(fn) {
			if len(r.Results) < 3 {
				continue
			}
			for _, s := range p.sources(r.Results[2], provDefault) {
				if isNilConst(s) {
					continue
				}
				if ex, isEx := s.(*ssa.Extract); isEx {
					// forwarded from a helper: every error that helper returns must be a ServiceError
					why := ""
					okFwd := false
					if call, ok := ex.Tuple.(*ssa.Call); ok && call.Call.StaticCallee() != nil && p.inModule(call.Call.StaticCallee()) {
						okFwd = onlyServiceErrors(p, call.Call.StaticCallee(), ex.Index, 0, &why)
					}
					c.check(okFwd, p.fname(fn), "an error forwarded from a helper is a ServiceError", p.ipos(r), "every error the helper returns is built by NewError*",
						"the selector forwards an error that is not a ServiceError ("+why+"): the dispatcher only responds to ServiceError, so the request gets no status and no body (net/http then sends an empty 200)")
					continue
				}
				code, isSE, constCode, _ := serviceErrorCode(p, s)
				c.check(isSE && constCode && code == 404, p.fname(fn), "a refusal by the selector itself is a 404 ServiceError", p.ipos(r), "NewError(404, ...)",
					"the selector returns an error that is not a ServiceError with code 404 ("+typeShort(strip(s).Type())+"): the dispatcher only responds to ServiceError, so the request gets no status and no body (net/http then sends an empty 200)")
			}
		}
	}
	// helpers called by selectors that return plain errors used to decide: fine; but an error result passed through must be wrapped
}

func intsString(in []int64) string {
	var out []string
	for _, n := range in {
		out = append(out, itoa(int(n)))
	}
	return strings.Join(out, "/")
}

// ---------------------------------------------------------------------------

func ruleAllow405(c *Ctx) {
	p := c.P
	sf := stageFunction(p)
	if sf == nil {
		c.undecided("-", "stage function", "-", "not found")
		return
	}
	name := p.fname(sf)
	ctx := map[*ssa.Parameter]predSet{}
	for _, prm := range sf.Params {
		if isCandidateSliceType(prm.Type()) {
			ctx[prm] = pPath
		}
	}
	env := newGuardEnv(p, sf, ctx, 0, nil)
	// the Allow value: a MapUpdate with key "Allow", or http.Header literal
	var upd *ssa.MapUpdate
	eachInstr(sf, func(i ssa.Instruction) {
		if mu, ok := i.(*ssa.MapUpdate); ok {
			if k, ok := constStr(mu.Key); ok && k == "Allow" {
				upd = mu
			}
		}
	})
	if upd == nil {
		c.bad(name, "405 carries an Allow header", p.pos(sf.Pos()), "no header map entry with key Allow is built")
		return
	}
	// value = []string{strings.Join(allowed, sep)}
	var join *ssa.Call
	if sl, ok := strip(upd.Value).(*ssa.Slice); ok {
		if a, ok := sl.X.(*ssa.Alloc); ok {
			for _, ref := range referrers(a) {
				if ia, ok := ref.(*ssa.IndexAddr); ok {
					for _, rr := range referrers(ia) {
						if st, ok := rr.(*ssa.Store); ok {
							if call, ok := strip(st.Val).(*ssa.Call); ok && calleeName(&call.Call) == "strings.Join" {
								join = call
							}
						}
					}
				}
			}
		}
	}
	if join == nil {
		c.bad(name, "Allow value is the joined method list", p.ipos(upd), "the Allow value is not strings.Join of a collected list")
		return
	}
	// the collected list: appends of Method of elements of P
	allowed := join.Call.Args[0]
	var srcSlices []ssa.Value
	var methodAppends []*ssa.Call
	okElems := true
	seen := map[ssa.Value]bool{}
	var walk func(v ssa.Value)
	walk = func(v ssa.Value) {
		v = strip(v)
		if seen[v] {
			return
		}
		seen[v] = true
		switch x := v.(type) {
		case *ssa.Phi:
			for _, e := range x.Edges {
				walk(e)
			}
		case *ssa.Call:
			if isBuiltinCall(x, "append") {
				walk(x.Call.Args[0])
				if sl, ok := strip(x.Call.Args[1]).(*ssa.Slice); ok {
					if a, ok := sl.X.(*ssa.Alloc); ok {
						for _, ref := range referrers(a) {
							if ia, ok := ref.(*ssa.IndexAddr); ok {
								for _, rr := range referrers(ia) {
									if st, ok := rr.(*ssa.Store); ok && st.Addr == ssa.Value(ia) {
										b, f, ok := fieldLoad(strip(st.Val))
										if !ok || f.Name() != "Method" {
											okElems = false
											continue
										}
										k := env.resolveKey(b)
										methodAppends = append(methodAppends, x)
										if k.Slice != nil {
											srcSlices = append(srcSlices, k.Slice)
										} else {
											okElems = false
										}
									}
								}
							}
						}
					}
				} else {
					okElems = false
				}
			}
		case *ssa.Slice:
			// []string{} literal
		}
	}
	walk(allowed)
	c.check(okElems && len(srcSlices) > 0, name, "Allow lists the Method of candidate routes", p.ipos(join), "every element is <candidate>.Method", "the Allow list contains something other than the methods of candidates")
	for _, s := range srcSlices {
		g := env.sliceGuar(s)
		c.check(g&pMethod == 0 && g&pIf != 0, name, "Allow is built from the path-matching candidates before the method filter", p.ipos(join),
			"the source list is guaranteed "+g.String()+" (conditions passed, method not yet filtered)",
			"the Allow list is collected from a list guaranteed "+g.String()+": after the method filter it is empty, before the condition filter it names routes that would answer 404")
	}
	// de-duplication by whole-string equality only
	region := map[*ssa.BasicBlock]bool{}
	for b := range reachableBlocks([]*ssa.BasicBlock{sf.Blocks[0]}, nil) {
		if reachableBlocks([]*ssa.BasicBlock{b}, nil)[upd.Block()] || b == upd.Block() {
			region[b] = true
		}
	}
	methodTaint := map[ssa.Value]bool{}
	eachInstr(sf, func(i ssa.Instruction) {
		if v, ok := i.(ssa.Value); ok {
			if b, f, ok := fieldLoad(v); ok && f.Name() == "Method" && isRouteish(b.Type()) {
				methodTaint[v] = true
			}
		}
	})
	partial := ""
	dedupEq := false
	// a membership helper given a method: its body is inspected with the parameter as the method
	eachInstr(sf, func(i ssa.Instruction) {
		call, ok := i.(*ssa.Call)
		if !ok || !region[i.Block()] || call.Call.StaticCallee() == nil || !p.inModule(call.Call.StaticCallee()) || call.Call.StaticCallee().Blocks == nil {
			return
		}
		h := call.Call.StaticCallee()
		for k, a := range call.Call.Args {
			if !methodTaint[strip(a)] || k >= len(h.Params) {
				continue
			}
			hp := h.Params[k]
			eachInstr(h, func(j ssa.Instruction) {
				if hc, ok := j.(*ssa.Call); ok {
					n := calleeName(&hc.Call)
					if strings.HasPrefix(n, "strings.") && n != "strings.Join" {
						for _, ha := range hc.Call.Args {
							if ha == ssa.Value(hp) {
								partial = n + " at " + p.ipos(j)
							}
						}
					}
				}
				if bo, ok := j.(*ssa.BinOp); ok && bo.Op == token.EQL {
					for _, pr := range [][2]ssa.Value{{bo.X, bo.Y}, {bo.Y, bo.X}} {
						if pr[0] == ssa.Value(hp) {
							if u, ok := strip(pr[1]).(*ssa.UnOp); ok {
								if ia, ok := u.X.(*ssa.IndexAddr); ok && isStringSlice(ia.X.Type()) {
									dedupEq = true
								}
							}
						}
					}
				}
			})
		}
	})
	eachInstr(sf, func(i ssa.Instruction) {
		if !region[i.Block()] {
			return
		}
		if call, ok := i.(*ssa.Call); ok {
			n := calleeName(&call.Call)
			if strings.HasPrefix(n, "strings.") && n != "strings.Join" {
				for _, a := range call.Call.Args {
					if methodTaint[strip(a)] {
						partial = n + " at " + p.ipos(i)
					}
				}
			}
		}
		if bo, ok := i.(*ssa.BinOp); ok && bo.Op == token.EQL {
			if (methodTaint[strip(bo.X)] && isStringType(bo.Y.Type())) || (methodTaint[strip(bo.Y)] && isStringType(bo.X.Type())) {
				// compared with an element of the list being built
				for _, pr := range [][2]ssa.Value{{bo.X, bo.Y}, {bo.Y, bo.X}} {
					if u, ok := strip(pr[1]).(*ssa.UnOp); ok {
						if ia, ok := u.X.(*ssa.IndexAddr); ok && isStringSlice(ia.X.Type()) {
							dedupEq = true
						}
					}
				}
			}
		}
	})
	c.check(partial == "", name, "methods are compared as whole strings when building Allow", p.ipos(join), "no substring/prefix operation on a method name", "a method name is tested with "+partial+": LOCK is dropped after UNLOCK, PATCH after PROPPATCH")
	c.check(dedupEq, name, "duplicates are suppressed by equality with the methods already listed", p.ipos(join), "element == candidate.Method", "no whole-string duplicate test found: Allow repeats methods or drops them")
	// every candidate is visited: the header is built behind the exhaustion of the collecting loop
	cyc := blocksOnCycles(sf)
	inLoop := false
	if cyc[upd.Block()] {
		inLoop = true
	}
	c.check(!inLoop, name, "Allow is built after all candidates were visited", p.ipos(upd), "the header is assembled outside the collecting loop", "the header is assembled inside the loop")
	// every candidate contributes: inside the collecting loop a candidate's method is left out only because it is
	// listed already. Any other test there (of the candidate's path, of its position in the ranking) makes the header
	// depend on more than the set of path-matching candidates - on their order, which the two routers do not share.
	for _, ap := range methodAppends {
		// the innermost loop around the addition
		header, loop := innermostLoop(ap.Block())
		why := ""
		if header == nil {
			// the addition is made by a helper called from the loop, or not in a loop at all: the other clauses speak
			c.triv(name, "every candidate's method is listed unless it is listed already", p.ipos(ap), "the addition is not inside a loop of this function")
			continue
		}
		for _, b := range sf.Blocks {
			if !loop[b] {
				continue
			}
			iff, ok := b.Instrs[len(b.Instrs)-1].(*ssa.If)
			if !ok {
				continue
			}
			cond := iff.Cond
			for {
				u, isU := cond.(*ssa.UnOp)
				if !isU || u.Op != token.NOT {
					break
				}
				cond = u.X
			}
			if bo, isBo := cond.(*ssa.BinOp); isBo {
				if bt, isBasic := bo.X.Type().Underlying().(*types.Basic); isBasic && bt.Info()&types.IsInteger != 0 {
					continue // loop control
				}
				if (bo.Op == token.EQL || bo.Op == token.NEQ) && (methodTaint[strip(bo.X)] || methodTaint[strip(bo.Y)]) {
					continue // the duplicate test
				}
			}
			if _, isNext := cond.(*ssa.Extract); isNext {
				continue // range over a map or string: loop control
			}
			if _, _, isFlag := phiBoolConsts(cond); isFlag {
				continue // a flag set by the tests of the loop, which are looked at themselves
			}
			if call, isCall := cond.(*ssa.Call); isCall {
				// listed already? asked of a helper that is given the method
				takes := false
				for _, a := range call.Call.Args {
					if methodTaint[strip(a)] {
						takes = true
					}
				}
				if takes {
					continue
				}
			}
			why = "the condition at " + p.ipos(iff)
		}
		c.check(why == "", name, "every candidate's method is listed unless it is listed already", p.ipos(ap), "inside the collecting loop the addition is controlled by the loop and the duplicate test only",
			"a candidate is left out of the Allow list by "+why+", which is neither the loop nor the duplicate test: the header then depends on more than the set of routes matching the URL (their order, their templates) and names fewer methods than are routable")
	}
}

// ---------------------------------------------------------------------------

// writerRoot resolves the object whose headers/status are touched: a *Response or ResponseWriter variable.
func writerRoot(p *Program, v ssa.Value) ssa.Value {
	for hop := 0; hop < 6; hop++ {
		v = strip(v)
		if b, f, ok := fieldLoad(v); ok && (f.Name() == "ResponseWriter" || f.Name() == "writer") {
			v = b
			continue
		}
		if u, ok := v.(*ssa.UnOp); ok && u.Op == token.MUL {
			if _, isAlloc := u.X.(*ssa.Alloc); !isAlloc {
				if isPtrToRestful(u.X.Type(), "Response") {
					v = u.X
					continue
				}
			}
		}
		break
	}
	src := p.sources(v, provDefault)
	if len(src) == 1 {
		return src[0]
	}
	return v
}

func ruleC02c(c *Ctx) {
	p := c.P
	n := 0
	for _, fn := range p.requestPathFuncs() {
		name := p.fname(fn)
		type ev struct {
			i    ssa.Instruction
			root ssa.Value
			what string
		}
		var muts, commits []ev
		eachInstr(fn, func(i ssa.Instruction) {
			cc := callCommon(i)
			if cc == nil {
				return
			}
			if _, isDefer := i.(*ssa.Defer); isDefer {
				return
			}
			// header mutations
			if k, kc, _, ok := headerWrite(i); ok {
				var owner ssa.Value
				if cal := cc.StaticCallee(); cal != nil && cal.Name() == "AddHeader" {
					owner = cc.Args[0]
				} else if hc, ok := strip(cc.Args[0]).(*ssa.Call); ok {
					if hc.Call.IsInvoke() {
						owner = hc.Call.Value
					} else if len(hc.Call.Args) > 0 {
						owner = hc.Call.Args[0]
					}
				}
				if owner != nil {
					muts = append(muts, ev{i, writerRoot(p, owner), "header " + keyOr(k, kc)})
				}
				return
			}
			// commits
			if cc.IsInvoke() {
				switch cc.Method.Name() {
				case "WriteHeader", "Write":
					if isHTTPResponseWriter(cc.Value.Type()) || hasMethod(cc.Value.Type(), "WriteHeader") {
						commits = append(commits, ev{i, writerRoot(p, cc.Value), cc.Method.Name()})
					}
				case "ServeHTTP":
					if len(cc.Args) > 0 {
						commits = append(commits, ev{i, writerRoot(p, cc.Args[0]), "handing the writer to a handler"})
					}
				}
				if isRestfulNamed(cc.Value.Type(), "EntityReaderWriter") && cc.Method.Name() == "Write" && len(cc.Args) > 0 {
					commits = append(commits, ev{i, writerRoot(p, cc.Args[0]), "entity write"})
				}
				return
			}
			if cal := cc.StaticCallee(); cal != nil && p.inModule(cal) {
				if recvTypeName(cal) == "Response" && (strings.HasPrefix(cal.Name(), "Write") || cal.Name() == "Flush") && len(cc.Args) > 0 {
					commits = append(commits, ev{i, writerRoot(p, cc.Args[0]), cal.Name()})
				}
				if isProcessFilterCall(i) && len(cc.Args) == 3 {
					commits = append(commits, ev{i, writerRoot(p, cc.Args[2]), "continuing the chain"})
				}
				if (cal.Name() == "writeJSON" || cal.Name() == "writeXML") && len(cc.Args) > 0 {
					commits = append(commits, ev{i, writerRoot(p, cc.Args[0]), cal.Name()})
				}
			}
			if isDynamicCall(cc) {
				for _, a := range cc.Args {
					if isPtrToRestful(a.Type(), "Response") || isHTTPResponseWriter(a.Type()) {
						commits = append(commits, ev{i, writerRoot(p, a), "handing the response to a function value"})
					}
				}
			}
		})
		for _, m := range muts {
			n++
			bad := ""
			for _, cm := range commits {
				if cm.root == m.root && canReach(cm.i, m.i) {
					bad = cm.what + " at " + p.ipos(cm.i)
				}
			}
			c.check(bad == "", name, m.what+" is set before the response can be committed", p.ipos(m.i), "no commit on the same writer can precede it in this function",
				"the header is changed after "+bad+" on the same writer: net/http has already sent the header block, the change is silently dropped")
		}
	}
	c.count("header_mutations", n)
}

// ---------------------------------------------------------------------------

func ruleC02d(c *Ctx) {
	p := c.P
	n := 0
	for _, fn := range p.requestPathFuncs() {
		name := p.fname(fn)
		facts := factsAt(fn)
		eachInstr(fn, func(i ssa.Instruction) {
			switch x := i.(type) {
			case *ssa.Panic:
				n++
				why := ""
				// (1) nil-argument precondition of an exported entry point
				for f := range facts[i.Block()] {
					if bo, ok := f.Cond.(*ssa.BinOp); ok && bo.Op == token.EQL && f.Pol && isNilConst(bo.Y) {
						if _, isParam := strip(bo.X).(*ssa.Parameter); isParam && fn.Object() != nil && fn.Object().Exported() {
							why = "nil-argument precondition of exported " + fn.Name() + " (on the embedding program, not on the request)"
						}
					}
					// (2) error of a standard-library constructor called with constant / self-produced input
					if bo, ok := f.Cond.(*ssa.BinOp); ok && bo.Op == token.NEQ && f.Pol && isNilConst(bo.Y) {
						if ex, ok := strip(bo.X).(*ssa.Extract); ok {
							if call, ok := ex.Tuple.(*ssa.Call); ok {
								switch calleeName(&call.Call) {
								case "compress/gzip.NewWriterLevel", "compress/zlib.NewWriterLevel":
									if lvl, ok := constInt(call.Call.Args[1]); ok && lvl >= -2 && lvl <= 9 {
										why = "NewWriterLevel fails only for an invalid level; the level is the constant " + itoa(int(lvl))
									}
								case "compress/gzip.NewReader":
									if fn.Signature.Params().Len() == 0 {
										why = "gzip.NewReader parses a header this function has just produced itself (no request data)"
									}
								}
							}
						}
					}
				}
				if why != "" {
					c.ok(name, "panic is a re-verified precondition", p.ipos(i), why)
				} else {
					c.bad(name, "explicit panic on the request path", p.ipos(i), "a request can abort the dispatch instead of getting a 4xx/5xx outcome")
				}
				_ = x
			}
			if cc := callCommon(i); cc != nil {
				switch calleeName(cc) {
				case "os.Exit", "log.Fatal", "log.Fatalf", "log.Fatalln":
					n++
					c.bad(name, "process exit on the request path", p.ipos(i), shortCallee(cc)+" is reachable from a request root")
				case "regexp.MustCompile":
					n++
					if _, isConst := constStr(cc.Args[0]); isConst {
						c.triv(name, "regexp.MustCompile of a constant", p.ipos(i), "cannot fail at run time")
						return
					}
					tainted := requestTextTaint(p)
					c.check(!tainted[strip(cc.Args[0])], name, "regexp.MustCompile pattern is not request data", p.ipos(i), "the pattern derives from the route template only", "request text reaches regexp.MustCompile: a crafted URL panics the dispatch")
				}
			}
		})
	}
	c.count("abort_sites", n)
}

// requestTextTaint: string/[]string values derived from the request URL path, across module functions.
func requestTextTaint(p *Program) map[ssa.Value]bool {
	if p.reqTaint != nil {
		return p.reqTaint
	}
	t := map[ssa.Value]bool{}
	// sources
	for _, fn := range p.SrcFunc {
		eachInstr(fn, func(i ssa.Instruction) {
			if v, ok := i.(ssa.Value); ok {
				if b, f, ok := fieldLoad(v); ok && f.Name() == "Path" && isNamed(b.Type(), "net/url", "URL") {
					t[v] = true
				}
			}
		})
	}
	// the url path parameter of path processors
	if nt := p.namedType("PathProcessor"); nt != nil {
		it := nt.Underlying().(*types.Interface)
		for _, f := range p.implementations(nt, it.Method(0)) {
			f = p.unwrap(f)
			if len(f.Params) >= 1 {
				last := f.Params[len(f.Params)-1]
				if isStringType(last.Type()) {
					t[last] = true
				}
			}
		}
	}
	for iter := 0; iter < 10; iter++ {
		changed := false
		add := func(v ssa.Value) {
			if !t[v] {
				t[v] = true
				changed = true
			}
		}
		for _, fn := range p.SrcFunc {
			eachInstr(fn, func(i ssa.Instruction) {
				v, ok := i.(ssa.Value)
				if !ok {
					if st, ok := i.(*ssa.Store); ok && t[st.Val] {
						if a, ok := st.Addr.(*ssa.Alloc); ok {
							add(a)
						}
					}
					return
				}
				switch x := i.(type) {
				case *ssa.Phi:
					for _, e := range x.Edges {
						if t[e] {
							add(v)
						}
					}
				case *ssa.Slice:
					if t[x.X] {
						add(v)
					}
				case *ssa.UnOp:
					if x.Op == token.MUL {
						if ia, ok := x.X.(*ssa.IndexAddr); ok && t[ia.X] {
							add(v)
						}
						if a, ok := x.X.(*ssa.Alloc); ok && t[a] {
							add(v)
						}
					}
				case *ssa.BinOp:
					if x.Op == token.ADD && isStringType(x.Type()) && (t[x.X] || t[x.Y]) {
						add(v)
					}
				case *ssa.Extract:
					if t[x.Tuple] && (isStringType(x.Type()) || isStringSlice(x.Type())) {
						add(v)
					}
				case *ssa.Call:
					if !(isStringType(x.Type()) || isStringSlice(x.Type())) {
						if _, isTuple := x.Type().(*types.Tuple); !isTuple {
							// still pass taint into callee parameters
						}
					}
					dep := false
					for _, a := range x.Call.Args {
						if t[a] {
							dep = true
						}
					}
					if !dep {
						return
					}
					if cal := x.Call.StaticCallee(); cal != nil && p.inModule(cal) && cal.Blocks != nil {
						for k, a := range x.Call.Args {
							if t[a] && k < len(cal.Params) {
								add(cal.Params[k])
							}
						}
						for _, r := range returnsOf(cal) {
							for _, res := range r.Results {
								if t[res] && (isStringType(x.Type()) || isStringSlice(x.Type())) {
									add(v)
								}
							}
						}
						return
					}
					n := calleeName(&x.Call)
					if strings.HasPrefix(n, "strings.") && (isStringType(x.Type()) || isStringSlice(x.Type())) {
						add(v)
					}
					if n == "fmt.Sprintf" {
						add(v)
					}
					if strings.HasPrefix(n, "(*regexp.Regexp).") && (isStringType(x.Type()) || isStringSlice(x.Type())) {
						add(v)
					}
				}
			})
		}
		if !changed {
			break
		}
	}
	p.reqTaint = t
	return t
}

func ruleC02e(c *Ctx) {
	p := c.P
	t := requestTextTaint(p)
	n := 0
	for _, fn := range p.requestPathFuncs() {
		name := p.fname(fn)
		facts := factsAt(fn)
		eachInstr(fn, func(i ssa.Instruction) {
			sl, ok := i.(*ssa.Slice)
			if !ok || !t[sl.X] || !isStringType(sl.X.Type()) {
				return
			}
			hasSub := func(v ssa.Value) bool {
				if v == nil {
					return false
				}
				for _, s := range p.sources(v, provOpt{}) {
					if bo, ok := s.(*ssa.BinOp); ok && bo.Op == token.SUB {
						return true
					}
				}
				return false
			}
			if !hasSub(sl.High) && !hasSub(sl.Low) {
				return
			}
			n++
			lo, hi := sl.Low, sl.High
			guarded := false
			for f := range facts[i.Block()] {
				bo, ok := f.Cond.(*ssa.BinOp)
				if !ok {
					continue
				}
				x, y := strip(bo.X), strip(bo.Y)
				l, h := ssa.Value(nil), ssa.Value(nil)
				if lo != nil {
					l = strip(lo)
				}
				if hi != nil {
					h = strip(hi)
				}
				switch {
				case h != nil && l != nil && x == h && y == l: // hi OP lo
					if (bo.Op == token.LSS && !f.Pol) || (bo.Op == token.GEQ && f.Pol) {
						guarded = true
					}
				case h != nil && l != nil && x == l && y == h: // lo OP hi
					if (bo.Op == token.LEQ && f.Pol) || (bo.Op == token.GTR && !f.Pol) {
						guarded = true
					}
				case h != nil && l == nil && x == h:
					if n0, ok := constInt(y); ok && n0 == 0 && ((bo.Op == token.LSS && !f.Pol) || (bo.Op == token.GEQ && f.Pol)) {
						guarded = true
					}
				}
			}
			c.check(guarded, name, "slice of request text with a subtracted bound is guarded", p.ipos(i), "dominated by the comparison low <= high",
				"value[low:high] with high (or low) computed by subtraction from request-derived text is not dominated by a comparison establishing low <= high: a short URL segment makes the bound negative and the dispatch panics (slice bounds out of range)")
		})
	}
	c.count("guarded_slices", n)
	if n == 0 {
		c.triv("-", "no request-derived slice with a subtracted bound", "-", "nothing to decide")
	}
}

func ruleRootRegex(c *Ctx) {
	p := c.P
	m := curlyMatcher(p)
	regexHelper := func(fn *ssa.Function) *ssa.Function { return regexHelperOf(p, fn) }
	var scorer *ssa.Function
	for _, fn := range p.SrcFunc {
		eachInstr(fn, func(i ssa.Instruction) {
			call, ok := i.(*ssa.Call)
			if !ok || call.Call.StaticCallee() == nil || !p.inModule(call.Call.StaticCallee()) {
				return
			}
			for _, a := range call.Call.Args {
				if _, f, ok := fieldLoad(strip(a)); ok && f.Name() == "tokens" {
					scorer = call.Call.StaticCallee()
				}
			}
		})
	}
	if m == nil || scorer == nil || regexHelper(m) == nil {
		c.undecided("-", "route matcher / root scorer", "-", "cannot find the token matcher, its regex helper or the root scorer")
		return
	}
	rh := regexHelper(m)
	c.check(regexHelper(scorer) == rh, p.fname(scorer), "root path variables with a regular expression are enforced", p.pos(scorer.Pos()),
		"the root scorer calls "+rh.Name()+" like the route matcher", "the root-path scorer ignores {v:regex}: a root such as /{id:[0-9]+} registered after /{name:[a-z]+} is unreachable (spurious 404)")
	// and a failed regex refuses the root: the false edge of the helper's answer cannot reach a positive answer
	eachInstr(scorer, func(i ssa.Instruction) {
		call, ok := i.(*ssa.Call)
		if !ok || call.Call.StaticCallee() != rh {
			return
		}
		enforced := false
		for _, r := range referrers(call) {
			ex, ok := r.(*ssa.Extract)
			if !ok || ex.Index != 0 {
				continue
			}
			for _, rr := range referrers(ex) {
				if iff, ok := rr.(*ssa.If); ok {
					pos, _ := canReachPositive(iff.Block().Succs[1], iff.Block())
					if !pos {
						enforced = true
					}
				}
				// the answer is handed to a boolean helper (`if refused(matches) {`): the edge on which the helper's
				// answer implies "did not match" is the one that must not reach a positive answer
				hc, ok := rr.(*ssa.Call)
				if !ok || hc.Call.StaticCallee() == nil || !p.inModule(hc.Call.StaticCallee()) {
					continue
				}
				h := hc.Call.StaticCallee()
				var prm *ssa.Parameter
				for k, a := range hc.Call.Args {
					if a == ssa.Value(ex) && k < len(h.Params) {
						prm = h.Params[k]
					}
				}
				if prm == nil {
					continue
				}
				for _, r3 := range referrers(hc) {
					iff, ok := r3.(*ssa.If)
					if !ok {
						continue
					}
					for _, pol := range []bool{true, false} {
						if calleeImpliedFacts(p, hc, pol)[condFact{prm, false}] {
							succ := iff.Block().Succs[0]
							if !pol {
								succ = iff.Block().Succs[1]
							}
							if pos, _ := canReachPositive(succ, iff.Block()); !pos {
								enforced = true
							}
						}
					}
				}
			}
		}
		c.check(enforced, p.fname(scorer), "a failed root regex refuses the root", p.ipos(i), "the false outcome cannot reach a positive answer", "the regex result is computed but does not decide")
	})
}

// onlyServiceErrors: every non-nil error fn returns as result #idx is a ServiceError with a constant code.
func onlyServiceErrors(p *Program, fn *ssa.Function, idx int, depth int, why *string) bool {
	if depth > 3 || fn.Blocks == nil {
		*why = "cannot follow " + p.fname(fn)
		return false
	}
	for _, r := range returnsOf(fn) {
		if idx >= len(r.Results) {
			continue
		}
		for _, s := range p.sources(r.Results[idx], provDefault) {
			if isNilConst(s) {
				continue
			}
			if ex, ok := s.(*ssa.Extract); ok {
				if call, ok := ex.Tuple.(*ssa.Call); ok && call.Call.StaticCallee() != nil && p.inModule(call.Call.StaticCallee()) {
					if onlyServiceErrors(p, call.Call.StaticCallee(), ex.Index, depth+1, why) {
						continue
					}
					return false
				}
			}
			if _, isSE, constCode, _ := serviceErrorCode(p, s); isSE && constCode {
				continue
			}
			*why = p.fname(fn) + " returns " + typeShort(s.Type()) + " at " + p.ipos(r)
			return false
		}
	}
	return true
}

// ---------------------------------------------------------------------------

func ruleC02i(c *Ctx) {
	p := c.P
	ds, _ := findDispatchers(p)
	isDisp := map[*ssa.Function]bool{}
	for _, d := range ds {
		isDisp[d.Fn] = true
	}
	n := 0
	for _, fn := range p.requestPathFuncs() {
		if requestShape(fn.Signature) != "http-handler" || isDisp[fn] || recvTypeName(topFunc(fn)) != "Container" {
			continue
		}
		sites := map[ssa.Instruction]bool{}
		var desc []string
		eachInstr(fn, func(i ssa.Instruction) {
			cc := callCommon(i)
			if cc == nil {
				return
			}
			if _, isDefer := i.(*ssa.Defer); isDefer {
				return
			}
			switch {
			case cc.IsInvoke() && cc.Method.Name() == "ServeHTTP":
				sites[i] = true
				desc = append(desc, "handler at "+p.ipos(i))
			case calleeName(cc) == "(*net/http.ServeMux).ServeHTTP":
				sites[i] = true
				desc = append(desc, "mux at "+p.ipos(i))
			case isProcessFilterCall(i):
				sites[i] = true
				desc = append(desc, "chain at "+p.ipos(i))
			case cc.IsInvoke() && cc.Method.Name() == "WriteHeader" && isHTTPResponseWriter(cc.Value.Type()):
				sites[i] = true
				desc = append(desc, "status at "+p.ipos(i))
			case cc.StaticCallee() != nil && isDisp[cc.StaticCallee()]:
				sites[i] = true
				desc = append(desc, "dispatcher at "+p.ipos(i))
			}
		})
		if len(sites) == 0 {
			continue
		}
		n++
		min, max, ok := countOnPaths(fn, nil, sites)
		c.check(ok && min == 1 && max == 1, p.fname(fn), "the request is handed on exactly once on every path", p.pos(fn.Pos()),
			strings.Join(desc, "; ")+"; min = max = 1", "hand-offs per request: min="+itoa(min)+" max="+maxStr(max)+" over "+strings.Join(desc, "; ")+" (on some path the request gets no outcome, or two)")
	}
	c.count("entry_points", n)
}

// absenceFact: the fact says "the previous selection step found nothing".
func absenceFact(p *Program, f condFact) string {
	// the test lives in a boolean helper (`if nothingFound(candidates) {`): what the helper's answer implies about
	// its parameters is said of the arguments
	if call, isCall := f.Cond.(*ssa.Call); isCall {
		h := call.Call.StaticCallee()
		if h == nil || !p.inModule(h) {
			return ""
		}
		argOf := func(v ssa.Value) ssa.Value {
			prm, ok := strip(v).(*ssa.Parameter)
			if !ok {
				return nil
			}
			for k, q := range h.Params {
				if q == prm && k < len(call.Call.Args) {
					return call.Call.Args[k]
				}
			}
			return nil
		}
		for g := range calleeImpliedFacts(p, call, f.Pol) {
			gb, ok := g.Cond.(*ssa.BinOp)
			if !ok {
				continue
			}
			if a := argOf(gb.X); a != nil {
				if w := absenceFact(p, condFact{synthBinOp(gb.Op, a, gb.Y), g.Pol}); w != "" {
					return w
				}
			}
			if lc, ok := strip(gb.X).(*ssa.Call); ok && isBuiltinCall(lc, "len") && g.Pol {
				if a := argOf(lc.Call.Args[0]); a != nil {
					if n, ok := constInt(gb.Y); ok && ((gb.Op == token.EQL && n == 0) || (gb.Op == token.LEQ && n == 0) || (gb.Op == token.LSS && n == 1)) {
						return "empty " + typeShort(a.Type())
					}
				}
			}
		}
		return ""
	}
	bo, ok := f.Cond.(*ssa.BinOp)
	if !ok || !f.Pol {
		return ""
	}
	x, y := strip(bo.X), strip(bo.Y)
	// svc == nil / err != nil on results of module helpers
	if isNilConst(y) {
		if ex, ok := x.(*ssa.Extract); ok {
			if call, ok := ex.Tuple.(*ssa.Call); ok && call.Call.StaticCallee() != nil && p.inModule(call.Call.StaticCallee()) {
				if bo.Op == token.NEQ && isErrorType(ex.Type()) {
					return "error from " + call.Call.StaticCallee().Name()
				}
				if bo.Op == token.EQL && !isErrorType(ex.Type()) {
					return "nothing from " + call.Call.StaticCallee().Name()
				}
			}
		}
		if call, ok := x.(*ssa.Call); ok && call.Call.StaticCallee() != nil && p.inModule(call.Call.StaticCallee()) && bo.Op == token.EQL {
			return "nothing from " + call.Call.StaticCallee().Name()
		}
	}
	// len(candidates) == 0
	if call, ok := x.(*ssa.Call); ok && isBuiltinCall(call, "len") {
		if n, ok := constInt(y); ok && ((bo.Op == token.EQL && n == 0) || (bo.Op == token.LEQ && n == 0) || (bo.Op == token.LSS && n == 1)) {
			return "empty " + typeShort(call.Call.Args[0].Type())
		}
	}
	return ""
}

func ruleC02j(c *Ctx) {
	p := c.P
	n := 0
	for _, fn := range selectorImpls(p) {
		name := p.fname(fn)
		facts := factsAt(fn)
		type refusal struct {
			ret  *ssa.Return
			cond ssa.Value
			pol  bool
			at   *ssa.BasicBlock
		}
		var refusals []refusal
		var forwards []*ssa.Return
		for _, r := range returnsOf(fn) {
			if len(r.Results) < 3 || r.Block().Comment == "recover" {
				continue
			}
			direct := false
			for _, s := range p.sources(resultAt(r, 2), provDefault) {
				if _, isSE, _, _ := serviceErrorCode(p, s); isSE {
					direct = true
				}
			}
			if !direct {
				forwards = append(forwards, r)
				continue
			}
			// the deciding condition: nearest dominating If
			var dc ssa.Value
			var dpol bool
			var dblock *ssa.BasicBlock
			for b := r.Block(); b != nil; b = b.Idom() {
				id := b.Idom()
				if id == nil {
					break
				}
				if iff, ok := id.Instrs[len(id.Instrs)-1].(*ssa.If); ok && id.Succs[0] != id.Succs[1] {
					t := id.Succs[0].Dominates(r.Block()) && (len(id.Succs[0].Preds) == 1)
					f := id.Succs[1].Dominates(r.Block()) && (len(id.Succs[1].Preds) == 1)
					if t != f {
						if _, isTrace := traceCond(iff.Cond); isTrace {
							continue
						}
						dc, dpol, dblock = iff.Cond, t, id
						break
					}
				}
			}
			n++
			if dc == nil {
				c.bad(name, "refusal is conditioned on the previous step finding nothing", p.ipos(r), "the 404 is returned unconditionally")
				continue
			}
			why := ""
			m := map[condFact]bool{}
			addCondFacts(m, dc, dpol)
			deriveFacts(m)
			for f := range m {
				if a := absenceFact(p, f); a != "" {
					why = a
				}
			}
			c.check(why != "", name, "refusal is decided by the previous step finding nothing", p.ipos(r), "decided by: "+why,
				"the 404 is decided by a condition that does not say 'nothing was found' (a flipped or constant test): routable URLs are refused, or an empty result walks on")
			if why != "" {
				refusals = append(refusals, refusal{r, dc, dpol, dblock})
			}
		}
		// the continuation runs under the complement of every refusal condition
		for _, fw := range forwards {
			for _, rf := range refusals {
				comp := false
				m := map[condFact]bool{}
				addCondFacts(m, rf.cond, !rf.pol)
				deriveFacts(m)
				for f := range m {
					if facts[fw.Block()][f] {
						comp = true
					}
				}
				// only refusals that precede this return matter
				if rf.at == nil || !rf.at.Dominates(fw.Block()) {
					continue
				}
				n++
				c.check(comp, name, "selection continues only when the previous step found something", p.ipos(fw), "the complement of the refusal condition at "+p.ipos(rf.ret)+" holds here",
					"the selector goes on although the refusal condition at "+p.ipos(rf.ret)+" may hold: a nil service or an empty candidate list is used")
			}
		}
	}
	c.count("refusal_conditions", n)
}

func ruleC02k(c *Ctx) {
	p := c.P
	n := 0
	exempt := map[string]string{
		"(RouterJSR311).ExtractParameters": "the binder runs only for a (service, route) pair the same expressions have just matched on the same path (RouterJSR311 is both selector and binder): FindStringSubmatch cannot return nil here",
	}
	for _, fn := range p.requestPathFuncs() {
		name := p.fname(fn)
		facts := factsAt(fn)
		cyc := blocksOnCycles(fn)
		eachInstr(fn, func(i ssa.Instruction) {
			ia, ok := i.(*ssa.IndexAddr)
			if !ok {
				return
			}
			x := strip(ia.X)
			nonEmpty := func() bool {
				for f := range facts[i.Block()] {
					bo, ok := f.Cond.(*ssa.BinOp)
					if !ok || !f.Pol {
						continue
					}
					if strip(bo.X) == x && bo.Op == token.NEQ && isNilConst(bo.Y) {
						return true
					}
					if isLenOf(p, bo.X, x) {
						if n0, ok := constInt(bo.Y); ok && ((bo.Op == token.NEQ && n0 == 0) || (bo.Op == token.GTR && n0 == 0) || (bo.Op == token.GEQ && n0 == 1)) {
							return true
						}
					}
				}
				return false
			}
			// (1) last group of a regexp match
			if src, ok := lastElementOf(&ssa.UnOp{Op: token.MUL, X: ia}); ok {
				if call, ok := src.(*ssa.Call); ok && calleeName(&call.Call) == "(*regexp.Regexp).FindStringSubmatch" {
					n++
					if why, ok := exempt[name]; ok {
						c.note(name, "last group of an unchecked match", p.ipos(i), "exempt: "+why)
						return
					}
					c.check(nonEmpty(), name, "last group of a match is read only when the match is non-nil", p.ipos(i), "dominated by matches != nil",
						"matches[len(matches)-1] is evaluated although FindStringSubmatch may have returned nil: index -1 panics the dispatch for a URL that does not match")
				}
				return
			}
			// (2) element 0 of a candidate collection outside a loop over it
			if k, ok := constInt(ia.Index); ok && k == 0 && (isCandidateSliceType(ia.X.Type()) || isModuleStructSlice(p, ia.X.Type())) && !cyc[i.Block()] {
				if _, isAlloc := x.(*ssa.Alloc); isAlloc {
					return
				}
				if sl, isSl := x.(*ssa.Slice); isSl {
					if _, isArr := sl.X.(*ssa.Alloc); isArr {
						return // literal
					}
				}
				n++
				c.check(nonEmpty(), name, "first candidate is read only from a non-empty list", p.ipos(i), "dominated by len(list) != 0",
					"candidates[0] is evaluated although the list may be empty: the dispatch panics instead of answering 404")
			}
		})
	}
	c.count("guarded_index_sites", n)
}

// sameSliceValue: a and b denote the same slice (identity, or two loads of the same field of the same object).
func sameSliceValue(p *Program, a, b ssa.Value) bool {
	a, b = strip(a), strip(b)
	if a == b {
		return true
	}
	ba, fa, oka := fieldLoad(a)
	bb, fb, okb := fieldLoad(b)
	if oka && okb && fa == fb && strip(ba) == strip(bb) {
		return true
	}
	// two loads of one local variable with nothing that can change it in between (the earlier load's block runs
	// straight into the later one's)
	ua, ok1 := a.(*ssa.UnOp)
	ub, ok2 := b.(*ssa.UnOp)
	if ok1 && ok2 && ua.Op == token.MUL && ub.Op == token.MUL && ua.X == ub.X {
		if al, ok := ua.X.(*ssa.Alloc); ok {
			first, second := ua, ub
			if first.Block() == second.Block() && indexInBlock(first) > indexInBlock(second) {
				first, second = second, first
			} else if first.Block() != second.Block() {
				if second.Block().Dominates(first.Block()) {
					first, second = second, first
				}
			}
			changes := func(i ssa.Instruction) bool {
				if st, ok := i.(*ssa.Store); ok && st.Addr == ssa.Value(al) {
					return true
				}
				if cc := callCommon(i); cc != nil {
					for _, x := range cc.Args {
						if x == ssa.Value(al) {
							return true
						}
					}
				}
				return false
			}
			if first.Block() == second.Block() {
				for k := indexInBlock(first); k < indexInBlock(second); k++ {
					if changes(first.Block().Instrs[k]) {
						return false
					}
				}
				return true
			}
			isSucc := false
			for _, sc := range first.Block().Succs {
				if sc == second.Block() && len(second.Block().Preds) == 1 {
					isSucc = true
				}
			}
			if isSucc {
				for k := indexInBlock(first); k < len(first.Block().Instrs); k++ {
					if changes(first.Block().Instrs[k]) {
						return false
					}
				}
				for k := 0; k < indexInBlock(second); k++ {
					if changes(second.Block().Instrs[k]) {
						return false
					}
				}
				return true
			}
		}
	}
	return false
}

func isModuleStructSlice(p *Program, t types.Type) bool {
	sl, ok := t.Underlying().(*types.Slice)
	if !ok {
		return false
	}
	n, ok := types.Unalias(sl.Elem()).(*types.Named)
	if !ok || n.Obj().Pkg() != p.Restful.Pkg {
		return false
	}
	_, isStruct := n.Underlying().(*types.Struct)
	return isStruct
}
