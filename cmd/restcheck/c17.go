package main

import (
	"go/token"
	"go/types"
	"sort"
	"strings"

	"golang.org/x/tools/go/ssa"
)

func init() {
	register(&Property{
		ID:    "C17",
		Title: "Allow headers tell the truth about which methods are routable",
		Decided: "C17.a the OPTIONS filter answers OPTIONS itself (no ProcessFilter on that branch) and passes every other method on exactly once without touching headers; C17.b Allow and Access-Control-Allow-Methods carry one and the same list, computed for this request; " +
			"C17.c the 405 Allow list is built from the methods of the path-matching candidates (before the method filter), de-duplicated by whole-string equality; C17.d the allowed-methods computation and the JSR311 route selection accept a route on the same condition (its expression matches the remainder left by the service expression, and the final group is empty or '/') and read services and routes through the locking accessors; the choice of service is compared too (known finding: all matching services are accumulated); " +
			"C17.e the allowed methods are recomputed from the live tables on every call (no cache or other store). C17.i a loop that collects Route.Method values has no branch decided by a variable carried over from earlier iterations; C17.f = C02.l; C17.g the accessor behind computeAllowedMethods reads the field the dispatcher routes on; C17.h every addition to the candidates that is made under a test of Route.Method is made under equality with the request's method (a route admitted under another test is routable for a method neither Allow computation lists).",
		NotDecided: "equality of the three method sets in general (regex templates, If conditions, Curly-only template forms): a relation between the results of three computations on runtime data.",
		Rules: []Rule{
			{ID: "C17.a", Template: "T-ONCE", Required: true, Run: ruleC17a,
				Doc: "The OPTIONS filter answers OPTIONS requests itself without invoking a route function and leaves every other method untouched."},
			{ID: "C17.b", Template: "T-PROV", Required: true, Run: ruleC17b,
				Doc: "One list, two headers, this request."},
			{ID: "C17.c", Template: "T-PROV", Required: true, Run: ruleAllow405,
				Doc: "The 405 Allow value derives from the Method of every element of the slice the method stage ranged over (the path-matching candidates), with duplicates suppressed by equality of whole method names. A substring or prefix test drops LOCK after UNLOCK; a list built after the method filter is empty."},
			{ID: "C17.d", Template: "T-SIBLING", Required: true, Run: ruleC17d,
				Doc: "The three computations use the same notions of 'this route matches this URL' and 'this service is responsible'; drift between them is invisible to per-feature fixtures."},
			{ID: "C17.e", Template: "T-EFFECT", Required: true, Run: ruleC17e,
				Doc: "computeAllowedMethods and what it calls store nothing: a memo invalidated on Add/Remove but not on Route/RemoveRoute makes the OPTIONS answer stale."},
			{ID: "C17.f", Template: "T-SIBLING", Required: true, Run: ruleLiteralEncoding,
				Doc: "computeAllowedMethods runs the compiled path expressions against the decoded URL.Path while the default router compares template tokens: the expressions must be compiled from the template literals unchanged (same obligations as C02.l), or OPTIONS announces nothing for a routable URL whose template has a character an escaper rewrites."},
			{ID: "C17.g", Template: "T-SIBLING", Required: true, Run: ruleServiceListAgreement,
				Doc: "The accessor through which computeAllowedMethods reads the services reads the same Container field the dispatcher hands to the router. A separately maintained snapshot that Remove (or Add) does not refresh makes OPTIONS announce methods of services that are gone."},
			{ID: "C17.i", Template: "T-EFFECT", Required: false, Run: ruleMethodLoopStateless,
				Doc: "The methods of a URL are collected route by route: in a loop that adds Route.Method values to a list no branch reads a variable carried over from earlier iterations. A 'most specific template so far' that resets the list makes OPTIONS (and the CORS preflight default) name fewer methods than the routers serve at that URL."},
			{ID: "C17.h", Template: "T-SIBLING", Required: true, Run: ruleC17h,
				Doc: "Both Allow computations list the declared Method of the routes of the URL. That is the routable set only as long as the method stage admits a route by whole equality of its declared Method with the request's method: a route admitted under any other test of its Method (GET routes for a HEAD request) is routable for a method that neither the 405 Allow header nor the OPTIONS filter announces."},
		},
	})
}

// optionsFilters: filter-shaped module functions that compute allowed methods and are not the CORS filter.
func optionsFilters(p *Program) []*ssa.Function {
	var out []*ssa.Function
	for _, fn := range p.SrcFunc {
		if requestShape(fn.Signature) != "filter-function" || recvTypeName(topFunc(fn)) == corsType {
			continue
		}
		calls := false
		for f := range p.callGraph().reach([]*ssa.Function{fn}, func(e Edge) bool { return e.Kind != EdgeStatic }) {
			if f.Name() == "computeAllowedMethods" && f != fn {
				calls = true
			}
		}
		if calls {
			out = append(out, fn)
		}
	}
	return out
}

// methodIsOptionsFact: fact says req.Request.Method == "OPTIONS" is pol.
func methodIsOptions(f condFact) (isTest bool, isOptions bool) {
	bo, ok := f.Cond.(*ssa.BinOp)
	if !ok || (bo.Op != token.EQL && bo.Op != token.NEQ) {
		return false, false
	}
	for _, pr := range [][2]ssa.Value{{bo.X, bo.Y}, {bo.Y, bo.X}} {
		if s, ok := constStr(pr[0]); ok && s == "OPTIONS" {
			if _, fld, ok := fieldLoad(strip(pr[1])); ok && fld.Name() == "Method" {
				return true, (bo.Op == token.EQL) == f.Pol
			}
		}
	}
	return false, false
}

func ruleC17a(c *Ctx) {
	p := c.P
	fs := optionsFilters(p)
	if len(fs) == 0 {
		c.undecided("-", "OPTIONS filter", "-", "no filter-shaped function computing allowed methods found")
		return
	}
	for _, fn := range fs {
		name := p.fname(fn)
		facts := factsAt(fn)
		pf := map[ssa.Instruction]int{}
		eachInstr(fn, func(i ssa.Instruction) {
			if isProcessFilterCall(i) {
				pf[i] = 1
			}
		})
		seenOpt, seenOther := false, false
		for _, r := range returnsOf(fn) {
			if r.Block().Comment == "recover" {
				continue // the exit taken after a recovered panic of a function with defers: not a path of the filter's logic
			}
			cls := ""
			for f := range facts[r.Block()] {
				if t, isOpt := methodIsOptions(f); t {
					if isOpt {
						cls = "options"
					} else {
						cls = "other"
					}
				}
			}
			min, max, ok := countWeighted(fn, nil, nil, pf, r)
			switch cls {
			case "options":
				seenOpt = true
				c.check(max == 0, name, "OPTIONS is answered by the filter itself", p.ipos(r), "no ProcessFilter on any path to this return", "an OPTIONS request continues the chain: a route function or 405 answers it as well")
			case "other":
				seenOther = true
				c.check(ok && min == 1 && max == 1, name, "other methods are passed on exactly once", p.ipos(r), "ProcessFilter min = max = 1", "ProcessFilter runs min="+itoa(min)+" max="+maxStr(max)+" times for a non-OPTIONS request")
			default:
				c.undecided(name, "exit not classified by the request method", p.ipos(r), "cannot tell whether this exit handles OPTIONS or another method")
			}
		}
		c.check(seenOpt && seenOther, name, "both branches exist", p.pos(fn.Pos()), "an OPTIONS exit and a pass-through exit", "the filter lacks the OPTIONS branch or the pass-through branch")
		// no header is written for other methods; pass-through uses own parameters
		for _, b := range fn.Blocks {
			other := false
			for f := range facts[b] {
				if t, isOpt := methodIsOptions(f); t && !isOpt {
					other = true
				}
			}
			if !other {
				continue
			}
			for _, i := range b.Instrs {
				if _, _, _, ok := headerWrite(i); ok {
					c.bad(name, "header written for a non-OPTIONS request", p.ipos(i), "every other method must be left untouched")
				}
				if isProcessFilterCall(i) {
					cc := callCommon(i)
					okArgs := true
					for _, a := range cc.Args {
						if _, ok := strip(a).(*ssa.Parameter); !ok {
							okArgs = false
						}
					}
					c.check(okArgs, name, "pass-through with the filter's own arguments", p.ipos(i), "ProcessFilter(req, resp) on the chain parameter", "the chain continues with other objects")
				}
			}
		}
	}
}

func ruleC17b(c *Ctx) {
	p := c.P
	for _, filter := range optionsFilters(p) {
		// the function that writes the two headers: the filter itself or a helper it calls with its own request
		fn := filter
		vals := map[string]ssa.Value{}
		collect := func(f *ssa.Function) map[string]ssa.Value {
			m := map[string]ssa.Value{}
			eachInstr(f, func(i ssa.Instruction) {
				rows, ok := headerWriteRows(i)
				for _, r := range rows {
					if ok && (r.Key == "Allow" || r.Key == "Access-Control-Allow-Methods") {
						m[r.Key] = strip(r.Val)
					}
				}
			})
			return m
		}
		vals = collect(filter)
		if len(vals) == 0 {
			frq := requestParam(filter)
			eachInstr(filter, func(i ssa.Instruction) {
				cc := callCommon(i)
				if cc == nil || cc.StaticCallee() == nil || !p.inModule(cc.StaticCallee()) {
					return
				}
				h := cc.StaticCallee()
				if m := collect(h); len(m) > 0 {
					// the helper must be told about this request
					passes := false
					for k, a := range cc.Args {
						if k < len(h.Params) && h.Params[k] == requestParam(h) && frq != nil && p.sameValue(a, frq) {
							passes = true
						}
					}
					if passes {
						fn, vals = h, m
					}
				}
			})
		}
		name := p.fname(fn)
		rq := requestParam(fn)
		a, b := vals["Allow"], vals["Access-Control-Allow-Methods"]
		if a == nil || b == nil {
			c.bad(name, "Allow and Access-Control-Allow-Methods are both set", p.pos(fn.Pos()), "one of the two headers is missing")
			continue
		}
		c.check(a == b, name, "Allow and Access-Control-Allow-Methods carry the same list", p.pos(fn.Pos()), "one SSA value feeds both headers", "the two headers are built from different values")
		okSrc := false
		// the call that computes the list for this request on this container, behind value v
		listCall := func(v ssa.Value) bool {
			for _, src := range p.sources(v, provDefault) {
				inner, ok := strip(src).(*ssa.Call)
				if !ok || inner.Call.StaticCallee() == nil || inner.Call.StaticCallee().Name() != "computeAllowedMethods" {
					continue
				}
				if len(inner.Call.Args) == 2 && rq != nil && p.sameValue(inner.Call.Args[1], rq) && isReceiverOrCellOf(p, inner.Call.Args[0], fn) {
					return true
				}
			}
			return false
		}
		if call, ok := a.(*ssa.Call); ok && calleeName(&call.Call) == "strings.Join" {
			okSrc = listCall(call.Call.Args[0])
		}
		// joined by hand in a local buffer: everything written into it is an element of the list or a constant
		if call, ok := a.(*ssa.Call); ok && (calleeName(&call.Call) == "(*bytes.Buffer).String" || calleeName(&call.Call) == "(*strings.Builder).String") {
			buf := call.Call.Args[0]
			nElem, other := 0, false
			for _, g := range withClosures(fn) {
				eachInstr(g, func(i ssa.Instruction) {
					cc := callCommon(i)
					if cc == nil || len(cc.Args) < 2 || !p.sameVar(cc.Args[0], buf) {
						return
					}
					switch n := calleeName(cc); {
					case strings.HasSuffix(n, ").WriteString") || strings.HasSuffix(n, ").Write"):
						v := cc.Args[1]
						if _, isC := constStr(v); isC {
							return
						}
						elem := false
						for _, src := range p.sources(v, provDefault) {
							if u, ok := strip(src).(*ssa.UnOp); ok && u.Op == token.MUL {
								if ia, ok := u.X.(*ssa.IndexAddr); ok && listCall(ia.X) {
									elem = true
								}
							}
						}
						if elem {
							nElem++
						} else {
							other = true
						}
					case strings.HasSuffix(n, ").WriteByte") || strings.HasSuffix(n, ").WriteRune"):
						if _, isC := cc.Args[1].(*ssa.Const); !isC {
							other = true
						}
					}
				})
			}
			okSrc = nElem > 0 && !other
		}
		c.check(okSrc, name, "the list is computed for this request on this container", p.pos(fn.Pos()), "the elements of c.computeAllowedMethods(req), joined", "the list is not the allowed methods of this request's URL on the filter's container")
	}
}

// ---------------------------------------------------------------------------

type acceptanceSummary struct {
	Fn          *ssa.Function
	RouteMatch  *ssa.Call // FindStringSubmatch on a route expression
	Accept      []string  // constants the final group is compared with on the way to acceptance
	RemainderOK string    // how the remainder argument is obtained
	OverAll     bool      // acceptance happens inside a loop over services
	ViaAccessor bool      // routes obtained through Routes()
}

func matcherLevel(v ssa.Value) string {
	// v = load Matcher of load pathExpr of X
	b, f, ok := fieldLoad(strip(v))
	if !ok || f.Name() != "Matcher" {
		return ""
	}
	b2, f2, ok := fieldLoad(strip(b))
	if !ok || f2.Name() != "pathExpr" {
		// local copy: pathExpr := each.pathExpr
		return ""
	}
	t := b2.Type()
	switch {
	case isPtrToRestful(t, "WebService") || isRestfulNamed(t, "WebService"):
		return "service"
	case isPtrToRestful(t, "Route") || isRestfulNamed(t, "Route"):
		return "route"
	}
	return ""
}

// lastElementOf: v = s[len(s)-1]; returns s.
func lastElementOf(v ssa.Value) (ssa.Value, bool) {
	u, ok := strip(v).(*ssa.UnOp)
	if !ok || u.Op != token.MUL {
		return nil, false
	}
	ia, ok := u.X.(*ssa.IndexAddr)
	if !ok {
		return nil, false
	}
	bo, ok := strip(ia.Index).(*ssa.BinOp)
	if !ok || bo.Op != token.SUB {
		return nil, false
	}
	if n, ok := constInt(bo.Y); !ok || n != 1 {
		return nil, false
	}
	call, ok := strip(bo.X).(*ssa.Call)
	if !ok || !isBuiltinCall(call, "len") || strip(call.Call.Args[0]) != strip(ia.X) {
		return nil, false
	}
	return strip(ia.X), true
}

func summariseAcceptance(p *Program, fn *ssa.Function) *acceptanceSummary {
	s := &acceptanceSummary{Fn: fn}
	var svcMatch *ssa.Call
	eachInstr(fn, func(i ssa.Instruction) {
		call, ok := i.(*ssa.Call)
		if !ok || calleeName(&call.Call) != "(*regexp.Regexp).FindStringSubmatch" {
			return
		}
		switch matcherLevel(call.Call.Args[0]) {
		case "service":
			svcMatch = call
		case "route":
			s.RouteMatch = call
		}
	})
	if s.RouteMatch == nil {
		return s
	}
	// remainder
	facts := factsAt(fn)
	arg := refinePhi(s.RouteMatch.Call.Args[1], facts[s.RouteMatch.Block()])
	if src, ok := lastElementOf(arg); ok && svcMatch != nil && src == ssa.Value(svcMatch) {
		s.RemainderOK = "last group of the service expression's match on the request path"
	} else if _, isParam := strip(arg).(*ssa.Parameter); isParam {
		s.RemainderOK = "parameter (the caller passes the service match's final group)"
	}
	// acceptance constants: equalities on the last group of the route match that lead to an append
	acc := map[string]bool{}
	var curFacts map[condFact]bool
	isLast := func(v ssa.Value) bool {
		src, ok := lastElementOf(refinePhi(v, curFacts))
		return ok && src == ssa.Value(s.RouteMatch)
	}
	condConst := func(cond ssa.Value, pol bool) (string, bool) {
		bo, ok := cond.(*ssa.BinOp)
		if !ok {
			return "", false
		}
		if !pol {
			// (a != b) false  ==  (a == b) true
			comp, has := complementOp[bo.Op]
			if !has {
				return "", false
			}
			bo = synthBinOp(comp, bo.X, bo.Y)
		}
		if bo.Op != token.EQL {
			return "", false
		}
		for _, pr := range [][2]ssa.Value{{bo.X, bo.Y}, {bo.Y, bo.X}} {
			if isLast(pr[0]) {
				if k, ok := constStr(pr[1]); ok {
					return k, true
				}
			}
			// len(last) == 0
			if call, ok := strip(pr[0]).(*ssa.Call); ok && isBuiltinCall(call, "len") && isLast(call.Call.Args[0]) {
				if n, ok := constInt(pr[1]); ok && n == 0 {
					return "", true
				}
			}
		}
		return "", false
	}
	cyc := blocksOnCycles(fn)
	eachInstr(fn, func(i ssa.Instruction) {
		if !isBuiltinCall(i, "append") {
			return
		}
		b := i.Block()
		// only appends that depend on the route match
		dep := false
		for f := range facts[b] {
			if bo, ok := f.Cond.(*ssa.BinOp); ok && bo.Op == token.NEQ && f.Pol && strip(bo.X) == ssa.Value(s.RouteMatch) && isNilConst(bo.Y) {
				dep = true
			}
		}
		if !dep {
			return
		}
		// per path from the route match to the append: the constants the last group is found equal to
		curFacts = facts[b]
		decided := false
		if paths, ok := enumPathsBetween(fn, s.RouteMatch.Block(), b, 400); ok && len(paths) > 0 {
			decided = true
			for _, pa := range paths {
				any := true
				for f := range pa.Facts {
					if k, ok := condConst(f.Cond, f.Pol); ok {
						acc[k] = true
						any = false
					}
				}
				if any {
					acc["<any final group>"] = true
				}
			}
		}
		if !decided {
			unconditional := true
			for f := range facts[b] {
				if k, ok := condConst(f.Cond, f.Pol); ok {
					acc[k] = true
					unconditional = false
				}
			}
			for _, pr := range b.Preds {
				if iff, ok := pr.Instrs[len(pr.Instrs)-1].(*ssa.If); ok && pr.Succs[0] != pr.Succs[1] {
					if k, ok := condConst(iff.Cond, pr.Succs[0] == b); ok {
						acc[k] = true
						unconditional = false
					}
				}
			}
			if unconditional {
				acc["<any final group>"] = true
			}
		}
		// inside a loop over services?
		for h := b; h != nil; h = h.Idom() {
			if !cyc[h] {
				continue
			}
			for _, ins := range h.Instrs {
				if ia, ok := ins.(*ssa.IndexAddr); ok {
					if pt, ok := ia.Type().Underlying().(*types.Pointer); ok && isPtrToRestful(pt.Elem(), "WebService") {
						s.OverAll = true
					}
				}
			}
		}
	})
	for k := range acc {
		s.Accept = append(s.Accept, k)
	}
	sort.Strings(s.Accept)
	// routes through the accessor
	eachInstr(fn, func(i ssa.Instruction) {
		if cc := callCommon(i); cc != nil && cc.StaticCallee() != nil && cc.StaticCallee().Name() == "Routes" && recvTypeName(cc.StaticCallee()) == "WebService" {
			s.ViaAccessor = true
		}
	})
	return s
}

// summariseAcceptanceDeep follows one level of helper extraction: when fn itself does not apply a route
// expression, a module helper it calls (with the remainder and the routes) is summarised instead, and the
// facts about the call site (remainder provenance, loop over services, accessor) are taken from fn.
func summariseAcceptanceDeep(p *Program, fn *ssa.Function) *acceptanceSummary {
	s := summariseAcceptance(p, fn)
	if s.RouteMatch != nil {
		return s
	}
	var svcMatch *ssa.Call
	eachInstr(fn, func(i ssa.Instruction) {
		if call, ok := i.(*ssa.Call); ok && calleeName(&call.Call) == "(*regexp.Regexp).FindStringSubmatch" && matcherLevel(call.Call.Args[0]) == "service" {
			svcMatch = call
		}
	})
	cyc := blocksOnCycles(fn)
	var best *acceptanceSummary
	eachInstr(fn, func(i ssa.Instruction) {
		call, ok := i.(*ssa.Call)
		if !ok || call.Call.StaticCallee() == nil || !p.inModule(call.Call.StaticCallee()) || call.Call.StaticCallee() == fn {
			return
		}
		h := summariseAcceptance(p, call.Call.StaticCallee())
		if h.RouteMatch == nil {
			return
		}
		// remainder: the helper's parameter must be bound to the final group of the service match
		if prm, isParam := strip(h.RouteMatch.Call.Args[1]).(*ssa.Parameter); isParam {
			h.RemainderOK = ""
			for k, q := range call.Call.StaticCallee().Params {
				if q == prm && k < len(call.Call.Args) {
					if src, ok := lastElementOf(call.Call.Args[k]); ok && svcMatch != nil && src == ssa.Value(svcMatch) {
						h.RemainderOK = "last group of the service expression's match on the request path (passed to " + call.Call.StaticCallee().Name() + ")"
					} else if _, isP := strip(call.Call.Args[k]).(*ssa.Parameter); isP {
						h.RemainderOK = "parameter (the caller passes the service match's final group)"
					}
				}
			}
		}
		// the call sits in a loop over services?
		for b := call.Block(); b != nil; b = b.Idom() {
			if !cyc[b] {
				continue
			}
			for _, ins := range b.Instrs {
				if ia, ok := ins.(*ssa.IndexAddr); ok {
					if pt, ok := ia.Type().Underlying().(*types.Pointer); ok && isPtrToRestful(pt.Elem(), "WebService") {
						h.OverAll = true
					}
				}
			}
		}
		// routes through the accessor at the call site
		for _, a := range call.Call.Args {
			if ac, ok := strip(a).(*ssa.Call); ok && ac.Call.StaticCallee() != nil && ac.Call.StaticCallee().Name() == "Routes" {
				h.ViaAccessor = true
			}
		}
		h.Fn = fn
		best = h
	})
	if best != nil {
		return best
	}
	return s
}

func ruleC17d(c *Ctx) {
	p := c.P
	cam := p.fn("(*Container).computeAllowedMethods")
	sel := p.fn("(RouterJSR311).selectRoutes")
	if cam == nil || sel == nil {
		c.undecided("-", "computeAllowedMethods / RouterJSR311.selectRoutes", "-", "one of the sibling computations was not found")
		return
	}
	a, b := summariseAcceptanceDeep(p, cam), summariseAcceptanceDeep(p, sel)
	for _, s := range []*acceptanceSummary{a, b} {
		name := p.fname(s.Fn)
		if s.RouteMatch == nil {
			c.bad(name, "route acceptance by the route's path expression", p.pos(s.Fn.Pos()), "no FindStringSubmatch on a route's pathExpr.Matcher")
			continue
		}
		c.check(s.RemainderOK != "", name, "route expressions are matched against the service match's remainder", p.ipos(s.RouteMatch), s.RemainderOK, "the route expression is applied to something other than the final group of the service match")
		c.check(s.ViaAccessor, name, "routes are read through the locking accessor", p.ipos(s.RouteMatch), "Routes()", "routes are not read through WebService.Routes()")
	}
	if a.RouteMatch != nil && b.RouteMatch != nil {
		same := strings.Join(a.Accept, "|") == strings.Join(b.Accept, "|")
		c.check(same && len(a.Accept) > 0, p.fname(cam), "route acceptance agrees with the router", p.ipos(a.RouteMatch),
			"both accept iff the route expression matches and the final group is one of {"+quoteAll(a.Accept)+"}",
			"computeAllowedMethods accepts on final group in {"+quoteAll(a.Accept)+"} but RouterJSR311.selectRoutes on {"+quoteAll(b.Accept)+"}: the OPTIONS answer lists methods the router would answer 404, or misses routable ones")
		c.relate(p.fname(sel))
	}
	// service choice: routers pass one best service on; computeAllowedMethods must not accumulate over all
	if a.RouteMatch != nil {
		if a.OverAll {
			c.bad(p.fname(cam), "methods are accumulated over every matching service", p.ipos(a.RouteMatch),
				"both routers select one best WebService for a URL, this computation adds the methods of all services whose root expression matches")
		} else {
			// ... and that one service is the router's choice for this request
			why := ""
			nsvc := 0
			for _, fn := range withClosures(a.Fn) {
				eachInstr(fn, func(i ssa.Instruction) {
					call, ok := i.(*ssa.Call)
					if !ok || calleeName(&call.Call) != "(*regexp.Regexp).FindStringSubmatch" || matcherLevel(call.Call.Args[0]) != "service" {
						return
					}
					nsvc++
					b, _, _ := fieldLoad(strip(call.Call.Args[0]))
					svc, _, _ := fieldLoad(strip(b))
					fromRouter := false
					for _, src := range p.sources(svc, provDefault) {
						if ex, ok := src.(*ssa.Extract); ok && ex.Index == 0 {
							if sc, ok := ex.Tuple.(*ssa.Call); ok && sc.Call.IsInvoke() && sc.Call.Method.Name() == "SelectRoute" {
								if _, ok := fieldLoadIs(sc.Call.Value, "Container", "router"); ok {
									fromRouter = true
								}
							}
						}
						// the module routers' own detection functions
						if sc, ok := src.(*ssa.Call); ok && sc.Call.StaticCallee() != nil {
							if n := sc.Call.StaticCallee().Name(); n == "detectWebService" || n == "detectDispatcher" {
								fromRouter = true
							}
							// a container helper that asks the router and returns the service it answers
							if cal := sc.Call.StaticCallee(); p.inModule(cal) && cal.Blocks != nil && recvTypeName(cal) == "Container" {
								all, any := true, false
								for _, r := range returnsOf(cal) {
									if r.Block().Comment == "recover" || len(r.Results) == 0 {
										continue
									}
									ex, ok := strip(reach1(p, resultAt(r, 0))).(*ssa.Extract)
									okR := false
									if ok && ex.Index == 0 {
										if ic, ok := ex.Tuple.(*ssa.Call); ok && ic.Call.IsInvoke() && ic.Call.Method.Name() == "SelectRoute" {
											if _, ok := fieldLoadIs(ic.Call.Value, "Container", "router"); ok {
												okR = true
											}
										}
									}
									any = any || okR
									all = all && okR
								}
								if any && all {
									fromRouter = true
								}
							}
						}
						if ex, ok := src.(*ssa.Extract); ok && ex.Index == 0 {
							if sc, ok := ex.Tuple.(*ssa.Call); ok && sc.Call.StaticCallee() != nil && sc.Call.StaticCallee().Name() == "detectDispatcher" {
								fromRouter = true
							}
						}
					}
					if !fromRouter {
						why = "the service whose routes are listed at " + p.ipos(call) + " is not the one the container's router selects for the request"
					}
				})
			}
			c.check(why == "" && nsvc > 0, p.fname(cam), "methods come from the one service the router selects", p.ipos(a.RouteMatch),
				"no accumulation across services; the service is result #0 of c.router.SelectRoute for this request (or of the router's detection function)",
				"both routers dispatch a URL to one best WebService: "+why)
		}
	}
	// the computation reads services through the locking accessor
	viaReg := false
	eachInstr(cam, func(i ssa.Instruction) {
		if cc := callCommon(i); cc != nil && cc.StaticCallee() != nil && cc.StaticCallee().Name() == "RegisteredWebServices" {
			viaReg = true
		}
	})
	how := "RegisteredWebServices()"
	if !viaReg {
		// ... or directly, holding the lock of the list at every load (C12.a decides the discipline of other fields)
		li := p.lockInfo()
		n, locked := 0, true
		// in the computation itself and in the Container helpers it calls directly
		scope := []*ssa.Function{cam}
		eachInstr(cam, func(i ssa.Instruction) {
			if cc := callCommon(i); cc != nil && cc.StaticCallee() != nil && p.inModule(cc.StaticCallee()) && cc.StaticCallee().Blocks != nil && recvTypeName(cc.StaticCallee()) == "Container" {
				scope = append(scope, cc.StaticCallee())
			}
		})
		var accs []FieldAccess
		for _, f := range scope {
			accs = append(accs, p.fieldAccesses(f)...)
		}
		for _, a := range accs {
			if a.Kind != "load" || a.Owner != "Container" {
				continue
			}
			// the list itself, or a copy of it that every mutator keeps in step (C11.l)
			if a.Field.Name() != "webServices" && !p.derivedState().inStepBy[stateLoc{f: a.Field}] {
				continue
			}
			n++
			held := false
			for _, m := range mutableFields(p, li) {
				if m.Field == a.Field && m.Lock != nil && li.heldAt(a.Instr)[m.Lock] != lockNone {
					held = true
				}
			}
			if !held {
				locked = false
			}
		}
		if n > 0 && locked {
			viaReg = true
			how = "every load of Container.webServices (or of a copy kept in step with it) holds its lock"
		}
	}
	c.check(viaReg, p.fname(cam), "services are read through the locking accessor", p.pos(cam.Pos()), how, "the service list is read without the accessor and without its lock")
}

func quoteAll(in []string) string {
	var out []string
	for _, s := range in {
		out = append(out, "\""+s+"\"")
	}
	return strings.Join(out, ", ")
}

func ruleC17e(c *Ctx) {
	p := c.P
	cam := p.fn("(*Container).computeAllowedMethods")
	if cam == nil {
		c.undecided("-", "computeAllowedMethods", "-", "not found")
		return
	}
	reach := p.callGraph().reach([]*ssa.Function{cam}, func(e Edge) bool { return e.Kind == EdgeEscape })
	var fns []*ssa.Function
	for _, fn := range p.SrcFunc {
		if reach[fn] {
			fns = append(fns, fn)
		}
	}
	effectRule(c, fns)
	// and it reads nothing but the request and the live tables: no load of a cache-like field (map/sync.Map on Container)
	for _, fn := range fns {
		eachInstr(fn, func(i ssa.Instruction) {
			if cc := callCommon(i); cc != nil {
				switch calleeName(cc) {
				case "(*sync.Map).Load", "(*sync.Map).LoadOrStore":
					if p.pureSyncMap(cc.Args[0]) {
						return // a memo of pure functions of the key: never stale
					}
					c.bad(p.fname(fn), "allowed methods read from a cache", p.ipos(i), "the answer may be older than the route tables (Route/RemoveRoute do not go through the container)")
				}
			}
		})
	}
}
