package main

import (
	"fmt"
	"go/ast"
	"os"
	"runtime/debug"
	"strings"

	"golang.org/x/tools/go/ssa"
)

// Withdrawal of alarms on normalised forms (DESIGN §12.4). A rule that cannot discharge an obligation on the
// source as written is run again on the forms of inline.go; inlining preserves behaviour, so an obligation
// discharged on a normal form holds for the program. A violation is reported only when it stands on every form.

type formSpec struct {
	kind    string
	rounds  int
	targets []string
}

var normalFormOrder = []formSpec{{"all", 1, nil}, {"single", 1, nil}, {"all", 2, nil}, {"single", 2, nil}, {"all", 3, nil}}

// targetsOf: the top-level declarations in which the failing obligations of a rule (rule == "" : of the property) lie.
func targetsOf(c *Ctx, known map[string]bool, rule string) []string {
	set := map[string]bool{}
	for _, o := range c.Obls {
		if (o.Verdict == Violated || o.Verdict == Undecided) && !known[o.Key()] && (rule == "" || o.Rule == rule) && o.Func != "-" && o.Func != "" {
			name := o.Func
			if k := strings.Index(name, "$"); k >= 0 {
				name = name[:k]
			}
			if k := strings.Index(name, "#"); k >= 0 {
				name = name[:k]
			}
			set[name] = true
			for _, rel := range o.Related {
				set[rel] = true
			}
		}
	}
	return sortedKeys(set)
}

func runRuleOn(prog *Program, prop *Property, r *Rule) (c *Ctx, err error) {
	save := curProgram
	curProgram = prog
	defer func() { curProgram = save }()
	c = &Ctx{P: prog, Prop: prop, Counters: map[string]int{}, seenKey: map[string]int{}}
	c.cur = r
	func() {
		defer func() {
			if rec := recover(); rec != nil {
				err = fmt.Errorf("rule %s panicked on a normal form: %v\n%s", r.ID, rec, debug.Stack())
			}
		}()
		r.Run(c)
	}()
	if err != nil {
		return c, err
	}
	n := 0
	for _, o := range c.Obls {
		if o.Verdict != Noted {
			n++
		}
	}
	if n == 0 && r.Required {
		c.add(Undecided, "-", "anchor", "-", "no anchor", true)
	}
	return c, nil
}

func knownKeys(prop string) map[string]bool {
	out := map[string]bool{}
	known, _, err := readKnownFindings()
	if err != nil {
		return out
	}
	for _, k := range known {
		if k.Property == prop {
			out[k.Key] = true
		}
	}
	return out
}

func failingOf(c *Ctx, known map[string]bool) map[string]int {
	out := map[string]int{}
	for _, o := range c.Obls {
		if (o.Verdict == Violated || o.Verdict == Undecided) && !known[o.Key()] {
			out[o.Rule]++
		}
	}
	return out
}

// withdrawOnNormalForms re-runs every failing rule on the normal forms and withdraws its alarms when one form
// discharges all of the rule's obligations.
func withdrawOnNormalForms(c *Ctx, fs *formSet, verbose bool) {
	known := knownKeys(c.Prop.ID)
	failing := failingOf(c, known)
	if len(failing) == 0 || os.Getenv("RESTCHECK_NO_NORMALISE") != "" {
		return
	}
	attempted := map[string]int{}
	for _, o := range c.Obls {
		if o.Verdict == Discharged {
			attempted[o.Rule]++
		}
	}
	// the failing obligations as they were before any withdrawal: the targets of later rules must not shrink
	c0 := &Ctx{Obls: append([]Obligation{}, c.Obls...)}
	for i := range c.Prop.Rules {
		r := &c.Prop.Rules[i]
		if failing[r.ID] == 0 || r.SourceOnly {
			continue
		}
		var order []formSpec
		seen := map[string]bool{}
		for _, tg := range [][]string{targetsOf(c0, known, r.ID), targetsOf(c0, known, "")} {
			if len(tg) == 0 || seen[strings.Join(tg, ",")] {
				continue
			}
			seen[strings.Join(tg, ",")] = true
			order = append(order, formSpec{"targeted", 1, tg}, formSpec{"callee", 1, tg}, formSpec{"targeted", 2, tg}, formSpec{"callee", 2, tg}, formSpec{"targeted", 3, tg})
		}
		order = append(order, normalFormOrder...)
		// the helpers the failing functions call (the mechanism may have been restructured one or two levels down)
		nc := 0
		if len(targetsOf(c0, known, "")) == 0 {
			// nothing names a function ("... not found"): the functions that pass function literals to module helpers
			// (a loop turned into a higher-order helper hides what the loop tested)
			for _, g := range higherOrderCallers(c.P) {
				if seen["1:"+g] || nc >= 6 {
					continue
				}
				seen["1:"+g] = true
				nc++
				order = append(order, formSpec{"targeted", 2, []string{g}})
			}
		}
		for _, tg := range [][]string{targetsOf(c0, known, r.ID), targetsOf(c0, known, "")} {
			for _, g := range helperCandidates(c.P, tg) {
				if seen["1:"+g] || nc >= 10 {
					continue
				}
				seen["1:"+g] = true
				nc++
				order = append(order, formSpec{"callee", 1, []string{g}}, formSpec{"targeted", 2, []string{g}}, formSpec{"targeted", 1, []string{g}})
			}
		}
		for _, nfo := range order {
			nf := fs.form(nfo.kind, nfo.rounds, nfo.targets)
			if nf.Err != nil || nf.Prog == nil {
				if verbose {
					fmt.Fprintf(os.Stderr, "normal form %s%d unavailable: %v\n", nfo.kind, nfo.rounds, nf.Err)
				}
				continue
			}
			c2, err := runRuleOn(nf.Prog, c.Prop, r)
			if err != nil {
				if verbose {
					fmt.Fprintln(os.Stderr, err)
				}
				continue
			}
			bad, good := 0, 0
			for _, o := range c2.Obls {
				switch o.Verdict {
				case Violated, Undecided:
					if !known[o.Key()] {
						bad++
					}
				case Discharged:
					good++
				}
			}
			if verbose {
				fmt.Fprintf(os.Stderr, "rule %s on normal form %s (%d calls inlined): %d discharged, %d failing\n", r.ID, nf.Name, nf.N, good, bad)
			}
			if verbose && os.Getenv("RESTCHECK_TRACE_FORMS") != "" {
				for _, o := range c2.Obls {
					if o.Verdict == Violated || o.Verdict == Undecided {
						fmt.Fprintf(os.Stderr, "     %s %s | %s | %s | %s\n", o.Verdict, o.Func, o.Construct, o.Pos, o.Detail)
					}
				}
			}
			// the form must discharge at least as many obligations as the rule discharged on the source: a form on which
			// the rule's anchors vanished (a helper the rule looks for by its call was inlined) proves nothing
			if bad > 0 || good == 0 || good < attempted[r.ID] {
				continue
			}
			// a targeted form keeps the failing function and inlines what it calls: the rule must still have found
			// something to decide in that function. If it did not, the rule's anchor (the call it looks for) was inlined
			// away and the form decides nothing about the failing obligation.
			if nfo.kind == "targeted" {
				vanished := ""
				for _, o := range c.Obls {
					if o.Rule != r.ID || (o.Verdict != Violated && o.Verdict != Undecided) || known[o.Key()] || o.Func == "-" || o.Func == "" {
						continue
					}
					found := false
					for _, o2 := range c2.Obls {
						if o2.Verdict == Discharged && o2.Func == o.Func {
							found = true
						}
					}
					// a helper that was inlined into its only caller and dropped lives on in the caller
					if !found && nf.Prog.fn(o.Func) != nil {
						vanished = o.Func
					}
				}
				if vanished != "" {
					if verbose {
						fmt.Fprintf(os.Stderr, "  form %s not accepted for %s: the rule decides nothing in %s on this form\n", nf.Name, r.ID, vanished)
					}
					continue
				}
			}
			// accepted: the alarms of this rule on the source form are withdrawn
			for k := range c.Obls {
				o := &c.Obls[k]
				if o.Rule == r.ID && (o.Verdict == Violated || o.Verdict == Undecided) && !known[o.Key()] {
					o.Detail = "not decided on the source as written (" + string(o.Verdict) + ": " + o.Detail + "); discharged on the normal form " + nf.Name + ", see the note of this rule"
					o.Verdict = Noted
					o.Nontrivial = false
				}
			}
			save := c.cur
			c.cur = r
			c.note("-", "decided on a normal form", "-", fmt.Sprintf("with the calls of unexported helpers inlined (%s: %d call sites, behaviour-preserving source transformation, re-type-checked) all %d obligations of this rule are discharged", nf.Name, nf.N, good))
			c.cur = save
			c.count("rules_decided_on_a_normal_form", 1)
			break
		}
	}
}

// helperCandidates: the declared module functions reachable from the named functions through static calls (at most
// three levels down), nearest first, without the named functions themselves.
func helperCandidates(p *Program, names []string) []string {
	cg := p.callGraph()
	seen := map[*ssa.Function]bool{}
	var frontier []*ssa.Function
	for _, n := range names {
		if fn := p.fn(n); fn != nil {
			seen[fn] = true
			frontier = append(frontier, fn)
		}
	}
	var out []string
	outSeen := map[string]bool{}
	for depth := 0; depth < 3 && len(frontier) > 0; depth++ {
		var next []*ssa.Function
		for _, fn := range frontier {
			for _, f := range withClosures(fn) {
				for _, e := range cg.Out[f] {
					if e.Kind != EdgeStatic {
						continue
					}
					g := topFunc(e.Callee)
					if seen[g] || !p.inModule(g) || g.Blocks == nil || g.Synthetic != "" {
						continue
					}
					seen[g] = true
					next = append(next, g)
					if n := p.fname(g); !outSeen[n] {
						outSeen[n] = true
						out = append(out, n)
					}
				}
			}
		}
		frontier = next
	}
	return out
}

// higherOrderCallers: declared functions of the root package in which a function literal is an argument of a call of
// a declared module function.
func higherOrderCallers(p *Program) []string {
	pk := p.rootPackage()
	if pk == nil {
		return nil
	}
	tmp := &inliner{p: p, pk: pk}
	var out []string
	for _, f := range pk.Syntax {
		if strings.HasSuffix(p.Fset.Position(f.Pos()).Filename, "_test.go") {
			continue
		}
		for _, d := range f.Decls {
			fd, ok := d.(*ast.FuncDecl)
			if !ok || fd.Body == nil {
				continue
			}
			found := false
			ast.Inspect(fd.Body, func(n ast.Node) bool {
				call, ok := n.(*ast.CallExpr)
				if !ok || found {
					return !found
				}
				if fn := tmp.staticCallee(call); fn != nil && fn.Pkg() == pk.Types {
					for _, a := range call.Args {
						if _, isLit := ast.Unparen(a).(*ast.FuncLit); isLit {
							found = true
						}
					}
				}
				return !found
			})
			if found {
				out = append(out, declDisplayName(fd))
			}
		}
	}
	return out
}
