package main

import (
	"go/token"
	"go/types"
	"sort"
	"strings"

	"golang.org/x/tools/go/ssa"
)

func init() {
	register(&Property{
		ID:    "C01",
		Title: "A route function runs only for requests its declaration admits",
		Decided: "C01.a the route whose function runs is the route SelectRoute returned, and it is the one filters and handler observe (one variable feeds Function, wrapRequestResponse, ExtractParameters, the chain's documentation fields and Request.selectedRoute); Route.Function is invoked nowhere else; " +
			"C01.b admission pipeline: for both routers every non-nil route a selector returns is an element of a collection whose every element passed the path match, all If conditions, the method equality, the Content-Type test and the Accept test, each applied to this request (guard-set dataflow over the candidate collections, across helper functions); " +
			"C01.c in the token matcher a failed content comparison of a request token (literal, regex, custom verb, literal suffix) cannot reach a positive answer; C01.d siblings agree on token forms: a transformation the parameter binder applies to a URL value is applied by the matcher under the same template guards, a literal affix the binder strips is verified by the matcher (and when the matcher takes a template token for a variable token because it contains '{' anywhere, it tests the request token against the text in front of the brace), and a regex the route matcher enforces is enforced by the root-path scorer as well; C01.e header tokens are trimmed after they are cut, before they are compared (router side). C01.f a capture group of a package-level pattern is used to test the request token only with the pattern's literal context restored (the ':' of a custom verb); C01.g no call passes same-typed arguments crosswise to the callee's parameter names. C01.h inside the media-type matchers a positive answer has a reason in the declaration (equality with a declared element, nothing declared, no Content-Type sent, or - Accept only - a */* range of the request); C01.i the condition list of a route is not built on another object's backing array.",
		NotDecided: "whether a particular token sequence matches a particular template (value-level: the regexes, tokenizePath, the custom-verb regex); anchoring of {v:regex} matching in the Curly router (the property text does not fix it).",
		Rules: []Rule{
			{ID: "C01.a", Template: "T-PROV", Required: true, Run: ruleC01a,
				Doc: "Selected = invoked = observed. Otherwise filters/handler observe route A while B's function runs, or a function runs without selection."},
			{ID: "C01.b", Template: "T-GUARD", Required: true, Run: ruleC01b,
				Doc: "Admission pipeline (guard-set dataflow). A shortcut (len(routes)==1), a dropped or weakened stage, a re-filter on a different header value or a case-insensitive method compare lets a non-admitted request run a function; the suite almost never sends a must-refuse request."},
			{ID: "C01.c", Template: "T-ENFORCE", Required: true, Run: ruleC01c,
				Doc: "No success after a failed sub-match: every branch decided by the content of a request token has an edge from which no positive answer is reachable. Turning a `return false` into `continue` admits everything."},
			{ID: "C01.d", Template: "T-SIBLING", Required: true, Run: ruleC01d,
				Doc: "Matcher/binder/root-scorer agreement on token forms: the binder must not slice or rewrite a value under weaker template guards than the matcher verified, and the root scorer must enforce what the route matcher enforces."},
			{ID: "C01.e", Template: "T-TOKEN", Required: true, Run: ruleTokenRouter,
				Doc: "A piece cut from Accept/Content-Type is trimmed after its last cut and before it is compared with Produces/Consumes entries; trimming first and cutting afterwards leaves the blank before ';' in the token and a legal header is refused (or a different route admitted)."},
			{ID: "C01.f", Template: "T-SIBLING", Required: false, Run: ruleSubmatchContext,
				Doc: "'Custom-verb suffix equal': text captured by a group of a package-level pattern (the verb letters out of ':verb') is used to test the request token only with the pattern's literal context put back (':' in front). Testing with the letters alone takes 'nocancel' for ':cancel'."},
			{ID: "C01.i", Template: "T-FRESH", Required: true, Run: ruleNoSharedBackingArrays,
				Doc: "'Every If-condition of the route': the condition list of a route is its own (same obligations as C06.g) - a list built by appending onto the WebService's list shares its backing array with the next route's."},
			{ID: "C01.h", Template: "T-GUARD", Required: true, Run: ruleMediaMatchers,
				Doc: "Inside the media-type matchers: 'admitted' is answered only under an equality with an element of the declared Consumes/Produces list, under 'nothing declared', under 'no Content-Type sent', or (Accept only) for a */* range of the request. A loop shared between the two matchers is analysed per caller: the Accept-only wildcard rule must not admit `Content-Type: */*`."},
			{ID: "C01.g", Template: "T-ARGS", Required: false, SourceOnly: true, Run: ruleArgumentOrder,
				Doc: "Route token and request token, template tokens and URL tokens, root path and route path have the same type; a call that passes the variable named like the callee's second parameter first and the one named like the first second has them crossed (isMatchCustomVerb(requestToken, routeToken)). Decided on names, and only for an exact crosswise match; a call whose arguments are not named like the parameters is not judged."},
		},
	})
}

func ruleC01a(c *Ctx) {
	p := c.P
	ds, err := findDispatchers(p)
	if err != nil || len(ds) == 0 {
		c.undecided("-", "dispatching function", "-", "no function invoking RouteSelector.SelectRoute found")
		return
	}
	for _, d := range ds {
		top := d.Fn
		name := p.fname(top)
		// the route variable is assigned only from SelectRoute's result
		if d.Route.Cell != nil {
			okAll := true
			for _, st := range p.cellStores(d.Route.Cell) {
				ex, ok := strip(st.Val).(*ssa.Extract)
				if !ok || ex.Tuple != ssa.Value(d.SelectCall) || ex.Index != 1 {
					if !isNilConst(st.Val) {
						okAll = false
					}
				}
			}
			c.check(okAll, name, "the route variable holds only SelectRoute's result", p.ipos(d.SelectCall), "every store into it is result #1 of the SelectRoute invoke", "the route variable is also assigned from something else than the router's selection")
		}
		for _, fn := range withClosures(top) {
			fname := p.fname(fn)
			eachInstr(fn, func(i ssa.Instruction) {
				v, ok := i.(ssa.Value)
				if ok {
					for _, fld := range []string{"Function", "Filters", "ParameterDocs", "Operation"} {
						if b, ok := fieldLoadIs(v, "Route", fld); ok {
							c.check(p.isVar(b, d.Route), fname, "Route."+fld+" is read from the selected route", p.ipos(i), "base is "+d.Route.String(), "Route."+fld+" of a different route than the selected one is used")
						}
					}
				}
				cc := callCommon(i)
				if cc == nil {
					return
				}
				if pw := p.pairWrapper(); pw != nil && cc.StaticCallee() == pw.Fn && pw.Route >= 0 && pw.Route < len(cc.Args) {
					c.check(p.isVar(cc.Args[pw.Route], d.Route), fname, "request/response are wrapped by the selected route", p.ipos(i), "receiver is "+d.Route.String(), "the wrappers (selected route, Produces) come from a different route")
				}
				if cc.IsInvoke() && cc.Method.Name() == "ExtractParameters" && len(cc.Args) == 3 {
					okArgs := p.isVar(cc.Args[0], d.Route) && p.isVar(cc.Args[1], d.Service)
					c.check(okArgs, fname, "parameters are extracted for the selected route and service", p.ipos(i), "ExtractParameters(route, webService, path)", "path parameters are bound against a different route or service than the selected ones")
				}
			})
		}
	}
	// wrapRequestResponse records its receiver as the selected route
	if pw := p.pairWrapper(); pw != nil && pw.Route >= 0 {
		w := pw.Fn
		ok := false
		eachInstr(w, func(i ssa.Instruction) {
			if st, isSt := i.(*ssa.Store); isSt {
				if fa, isFA := st.Addr.(*ssa.FieldAddr); isFA && ownerOfFieldAddr(fa) == "Request" && fieldOfAddr(fa).Name() == "selectedRoute" {
					ok = strip(st.Val) == ssa.Value(w.Params[pw.Route])
				}
			}
		})
		c.check(ok, p.fname(w), "Request.selectedRoute is the wrapping route", p.pos(w.Pos()), "selectedRoute = receiver", "the route handlers observe is not the one that wrapped the request")
	} else {
		c.undecided("-", "(*Route).wrapRequestResponse", "-", "not found")
	}
	// who may invoke Route.Function
	dispSet := map[*ssa.Function]bool{}
	for _, d := range ds {
		for _, f := range withClosures(d.Fn) {
			dispSet[f] = true
		}
	}
	for _, fn := range p.requestPathFuncs() {
		if dispSet[fn] {
			continue
		}
		eachInstr(fn, func(i ssa.Instruction) {
			if v, ok := i.(ssa.Value); ok {
				if _, ok := fieldLoadIs(v, "Route", "Function"); ok {
					c.bad(p.fname(fn), "Route.Function read outside the dispatching function", p.ipos(i), "a route function can run without having been selected for the request")
				}
			}
		})
	}
}

// selectorImpls: source methods of the module implementing RouteSelector.SelectRoute.
func selectorImpls(p *Program) []*ssa.Function {
	nt := p.namedType("RouteSelector")
	if nt == nil {
		return nil
	}
	it := nt.Underlying().(*types.Interface)
	var out []*ssa.Function
	for k := 0; k < it.NumMethods(); k++ {
		for _, f := range p.implementations(nt, it.Method(k)) {
			f = p.unwrap(f)
			if f.Synthetic == "" && !delegatingSelector(p, f) {
				out = append(out, f)
			}
		}
	}
	out = dedupFuncs(out)
	sort.Slice(out, func(i, j int) bool { return out[i].Pos() < out[j].Pos() })
	return out
}

// delegatingSelector: a RouteSelector that selects nothing itself: every result it returns is the corresponding
// result of one call of another RouteSelector's SelectRoute (a wrapper that observes, measures, logs). The wrapped
// selector is what the rules examine.
func delegatingSelector(p *Program, f *ssa.Function) bool {
	if f.Name() != "SelectRoute" || f.Blocks == nil {
		return false
	}
	var inner *ssa.Call
	n := 0
	eachInstr(f, func(i ssa.Instruction) {
		if call, ok := i.(*ssa.Call); ok && call.Call.IsInvoke() && call.Call.Method.Name() == "SelectRoute" && isRestfulNamed(call.Call.Value.Type(), "RouteSelector") {
			inner = call
			n++
		}
	})
	if n != 1 {
		return false
	}
	// called with this call's own arguments
	for k, a := range inner.Call.Args {
		if k+1 >= len(f.Params) || strip(a) != ssa.Value(f.Params[k+1]) {
			return false
		}
	}
	rets := returnsOf(f)
	if len(rets) == 0 {
		return false
	}
	for _, r := range rets {
		if len(r.Results) != 3 {
			return false
		}
		for k, res := range r.Results {
			ok := false
			for _, src := range p.sources(resultAt(r, k), provOpt{ThroughCells: true}) {
				if ex, isEx := strip(src).(*ssa.Extract); isEx && ex.Tuple == ssa.Value(inner) && ex.Index == k {
					ok = true
				} else {
					ok = false
					break
				}
			}
			_ = res
			if !ok {
				return false
			}
		}
	}
	return true
}

func ruleC01b(c *Ctx) {
	p := c.P
	impls := selectorImpls(p)
	if len(impls) == 0 {
		c.undecided("-", "RouteSelector implementations", "-", "none found")
		return
	}
	for _, fn := range impls {
		name := p.fname(fn)
		env := newGuardEnv(p, fn, map[*ssa.Parameter]predSet{}, 0, nil)
		n := 0
		for _, r := range returnsOf(fn) {
			if len(r.Results) < 2 {
				continue
			}
			onlyNil := true
			for _, s := range p.sources(r.Results[1], provDefault) {
				if !isNilConst(s) {
					onlyNil = false
				}
			}
			if onlyNil {
				continue
			}
			n++
			g := env.routeGuar(r.Results[1])
			for _, pr := range []struct {
				b predSet
				n string
			}{{pPath, "path match"}, {pIf, "If conditions"}, {pMethod, "method equality"}, {pCtype, "Content-Type test"}, {pAccept, "Accept test"}} {
				c.check(g&pr.b != 0, name, "a returned route passed the "+pr.n, p.ipos(r),
					"guaranteed for every element of the collection the route is taken from",
					"a route can be returned that did not pass the "+pr.n+" on this request (guaranteed: "+g.String()+"): its function would run for a request its declaration does not admit")
			}
		}
		if n == 0 {
			c.bad(name, "selector never returns a route", p.pos(fn.Pos()), "no return with a non-nil route")
		}
		// the helpers are given this request
		rq := env.req
		for _, f := range withClosures(fn) {
			eachInstr(f, func(i ssa.Instruction) {
				cc := callCommon(i)
				if cc == nil || cc.StaticCallee() == nil || !p.inModule(cc.StaticCallee()) {
					return
				}
				for _, a := range cc.Args {
					if isHTTPRequestPtr(a.Type()) {
						c.check(rq != nil && p.isParam(a, rq), p.fname(f), "helper "+cc.StaticCallee().Name()+" decides on this request", p.ipos(i), "the request argument is the selector's own", "a selection helper is given a different request")
					}
				}
			})
		}
	}
	// Curly: the tokens matched are the request path's tokens
	for _, fn := range impls {
		eachInstr(fn, func(i ssa.Instruction) {
			cc := callCommon(i)
			if cc == nil || cc.StaticCallee() == nil || !p.inModule(cc.StaticCallee()) {
				return
			}
			cal := cc.StaticCallee()
			rtp := requestTokensParam(p, cal)
			for k, prm := range cal.Params {
				if prm != rtp || rtp == nil || k >= len(cc.Args) || len(cal.Params) < 2 {
					continue
				}
				// only functions that also take a template: the matcher, the root scorer and their drivers
				if !hasTemplateParam(p, cal) {
					continue
				}
				ok := false
				if call, isCall := strip(cc.Args[k]).(*ssa.Call); isCall && call.Call.StaticCallee() != nil && call.Call.StaticCallee().Name() == "tokenizePath" {
					_, f, okf := fieldLoad(strip(call.Call.Args[0]))
					ok = okf && f.Name() == "Path"
				}
				c.check(ok, p.fname(fn), "tokens handed to "+cal.Name()+" are the request path's", p.ipos(i), "tokenizePath(httpRequest.URL.Path)", "the tokens matched are not derived from this request's URL path")
			}
		})
	}
}

// ---------------------------------------------------------------------------
// C01.c

// tokenMatchers: module functions with a []string parameter fed (transitively) with the request tokens,
// found from the path-predicate call in the Curly selector, plus their boolean module callees.
func curlyMatcher(p *Program) *ssa.Function {
	var out *ssa.Function
	for _, fn := range p.SrcFunc {
		eachInstr(fn, func(i ssa.Instruction) {
			call, ok := i.(*ssa.Call)
			if !ok || call.Call.StaticCallee() == nil || !p.inModule(call.Call.StaticCallee()) {
				return
			}
			for _, a := range call.Call.Args {
				if _, f, ok := fieldLoad(strip(a)); ok && f.Name() == "pathParts" {
					if res := call.Call.Signature().Results(); res.Len() >= 1 {
						if b, ok := res.At(0).Type().Underlying().(*types.Basic); ok && b.Kind() == types.Bool {
							out = call.Call.StaticCallee()
						}
					}
				}
			}
		})
	}
	return out
}

// contentTaint: values in fn that depend on the content of an element of the given []string parameter.
func contentTaint(p *Program, fn *ssa.Function, tokens *ssa.Parameter) map[ssa.Value]bool {
	t := map[ssa.Value]bool{}
	var work []ssa.Value
	add := func(v ssa.Value) {
		if !t[v] {
			t[v] = true
			work = append(work, v)
		}
	}
	eachInstr(fn, func(i ssa.Instruction) {
		if ia, ok := i.(*ssa.IndexAddr); ok && strip(ia.X) == ssa.Value(tokens) {
			for _, r := range referrers(ia) {
				if u, ok := r.(*ssa.UnOp); ok && u.Op == token.MUL {
					add(u)
				}
			}
		}
	})
	for len(work) > 0 {
		v := work[len(work)-1]
		work = work[:len(work)-1]
		for _, r := range referrers(v) {
			switch x := r.(type) {
			case *ssa.Extract:
				// a tuple result of a module helper: only the components that depend on the tainted argument
				if call, ok := x.Tuple.(*ssa.Call); ok {
					if cal := call.Call.StaticCallee(); cal != nil && p.inModule(cal) && cal.Blocks != nil {
						dep := false
						for k, a := range call.Call.Args {
							if t[a] && k < len(cal.Params) && resultDependsOn(p, cal, cal.Params[k], x.Index) {
								dep = true
							}
						}
						if !dep {
							continue
						}
					}
				}
				add(x)
			case *ssa.Phi, *ssa.BinOp, *ssa.UnOp, *ssa.Slice, *ssa.Convert:
				if x.(ssa.Value).Type() != nil {
					add(x.(ssa.Value))
				}
			case *ssa.Call:
				if _, isB := x.Call.Value.(*ssa.Builtin); isB && x.Call.Value.(*ssa.Builtin).Name() == "len" {
					continue // length, not content
				}
				add(x)
			}
		}
	}
	return t
}

// resultDependsOn: result #idx of fn is data-dependent on parameter prm.
func resultDependsOn(p *Program, fn *ssa.Function, prm *ssa.Parameter, idx int) bool {
	t := map[ssa.Value]bool{prm: true}
	work := []ssa.Value{prm}
	for len(work) > 0 {
		v := work[len(work)-1]
		work = work[:len(work)-1]
		for _, r := range referrers(v) {
			if x, ok := r.(ssa.Value); ok && !t[x] {
				switch y := r.(type) {
				case *ssa.Extract:
					if call, ok := y.Tuple.(*ssa.Call); ok {
						if cal := call.Call.StaticCallee(); cal != nil && p.inModule(cal) && cal.Blocks != nil && cal != fn {
							dep := false
							for k, a := range call.Call.Args {
								if t[a] && k < len(cal.Params) && resultDependsOn(p, cal, cal.Params[k], y.Index) {
									dep = true
								}
							}
							if !dep {
								continue
							}
						}
					}
					t[x] = true
					work = append(work, x)
				case *ssa.Phi, *ssa.BinOp, *ssa.UnOp, *ssa.Slice, *ssa.Convert, *ssa.Call:
					t[x] = true
					work = append(work, x)
				}
			}
		}
	}
	for _, r := range returnsOf(fn) {
		if idx < len(r.Results) {
			for _, s := range p.sources(r.Results[idx], provOpt{}) {
				if t[s] {
					return true
				}
			}
			if t[r.Results[idx]] {
				return true
			}
		}
	}
	return false
}

// canReachPositive: from block `start` entered from `pred`, can a return whose first result may be true be reached?
func canReachPositive(start, pred *ssa.BasicBlock) (bool, *ssa.Return) {
	type node struct{ b, from *ssa.BasicBlock }
	seen := map[node]bool{}
	stack := []node{{start, pred}}
	for len(stack) > 0 {
		n := stack[len(stack)-1]
		stack = stack[:len(stack)-1]
		if seen[n] {
			continue
		}
		seen[n] = true
		if r, ok := n.b.Instrs[len(n.b.Instrs)-1].(*ssa.Return); ok && len(r.Results) > 0 {
			v := r.Results[0]
			if phi, ok := v.(*ssa.Phi); ok && phi.Block() == n.b {
				for k, pr := range n.b.Preds {
					if pr == n.from {
						v = phi.Edges[k]
					}
				}
			}
			// return !(a || b): the negation of a phi
			if u, isNot := v.(*ssa.UnOp); isNot && u.Op == token.NOT {
				if phi, ok := u.X.(*ssa.Phi); ok && phi.Block() == n.b {
					for k, pr := range n.b.Preds {
						if pr == n.from {
							v = negatedValue(phi.Edges[k])
						}
					}
				}
			}
			if b, ok := constBool(v); ok && !b {
				continue
			}
			return true, r
		}
		for _, s := range n.b.Succs {
			stack = append(stack, node{s, n.b})
		}
	}
	return false, nil
}

func ruleC01c(c *Ctx) {
	p := c.P
	m := curlyMatcher(p)
	if m == nil {
		c.undecided("-", "token matcher", "-", "no boolean module function taking Route.pathParts found")
		return
	}
	tokens := requestTokensParam(p, m)
	if tokens == nil {
		// second []string parameter
		n := 0
		for _, prm := range m.Params {
			if sl, ok := prm.Type().Underlying().(*types.Slice); ok {
				if b, ok := sl.Elem().Underlying().(*types.Basic); ok && b.Kind() == types.String {
					n++
					if n == 2 {
						tokens = prm
					}
				}
			}
		}
	}
	if tokens == nil {
		c.undecided(p.fname(m), "request tokens parameter", p.pos(m.Pos()), "cannot identify the request token parameter")
		return
	}
	name := p.fname(m)
	taint := contentTaint(p, m, tokens)
	n := 0
	type unit struct {
		fn    *ssa.Function
		taint map[ssa.Value]bool
	}
	units := []unit{{m, taint}}
	// helpers the matcher hands request-token content to (one level of extraction), when their first result is a verdict
	seenH := map[*ssa.Function]bool{m: true}
	eachInstr(m, func(i ssa.Instruction) {
		call, ok := i.(*ssa.Call)
		if !ok || call.Call.StaticCallee() == nil || !p.inModule(call.Call.StaticCallee()) || seenH[call.Call.StaticCallee()] {
			return
		}
		h := call.Call.StaticCallee()
		res := h.Signature.Results()
		if res.Len() == 0 || h.Blocks == nil || len(h.Blocks) < 3 {
			return
		}
		if b, ok := res.At(0).Type().Underlying().(*types.Basic); !ok || b.Kind() != types.Bool {
			return
		}
		ht := map[ssa.Value]bool{}
		for k, a := range call.Call.Args {
			if taint[a] && k < len(h.Params) {
				for v := range valueTaint(p, h, h.Params[k]) {
					ht[v] = true
				}
			}
		}
		if len(ht) > 0 {
			seenH[h] = true
			units = append(units, unit{h, ht})
		}
	})
	for _, u := range units {
		uname := p.fname(u.fn)
		for _, b := range u.fn.Blocks {
			iff, ok := b.Instrs[len(b.Instrs)-1].(*ssa.If)
			if !ok || !u.taint[condRoot(iff.Cond)] {
				continue
			}
			n++
			rT, retT := canReachPositive(b.Succs[0], b)
			rF, retF := canReachPositive(b.Succs[1], b)
			construct := "request-token test " + condDesc(p, condRoot(iff.Cond))
			if rT && rF {
				c.bad(uname, construct+" enforces nothing", p.ipos(iff),
					"both outcomes of this comparison can still lead to a positive answer (e.g. "+p.ipos(retT)+" and "+p.ipos(retF)+"): a request token that fails the comparison is admitted")
			} else {
				c.ok(uname, construct+" has a failing edge", p.ipos(iff), "one outcome cannot reach a positive answer")
				// polarity: it is the MISmatch that fails
				matchOnTrue, known := matchPolarity(iff.Cond)
				if known {
					matchReaches := rT
					if !matchOnTrue {
						matchReaches = rF
					}
					c.check(matchReaches, uname, construct+": the mismatch is what fails", p.ipos(iff), "the matching outcome can reach a positive answer, the mismatching one cannot",
						"the comparison is inverted: a request token that MATCHES is refused and one that does not match is admitted")
				}
			}
		}
	}
	c.count("content_tests", n)
	if n == 0 {
		c.bad(name, "no request-token content test", p.pos(m.Pos()), "the matcher never looks at the content of a request token")
	}
	// the regex helper: a failed MatchString is a failed token
	for _, e := range p.callGraph().Out[m] {
		cal := e.Callee
		if cal.Signature.Results().Len() == 0 {
			continue
		}
		eachInstr(cal, func(i ssa.Instruction) {
			call, ok := i.(*ssa.Call)
			if !ok {
				return
			}
			matched := regexMatchResult(call)
			if matched == nil {
				return
			}
			okEnf := false
			var follow func(v ssa.Value, depth int)
			follow = func(v ssa.Value, depth int) {
				for _, r := range referrers(v) {
					if iff, ok := r.(*ssa.If); ok {
						pos, _ := canReachPositive(iff.Block().Succs[1], iff.Block())
						okEnf = !pos
					}
					if ret, ok := r.(*ssa.Return); ok && ret.Results[0] == v {
						okEnf = true
					}
					// `m != nil && m.MatchString(tok)`: the answer is false on every other edge
					if phi, ok := r.(*ssa.Phi); ok && depth < 2 {
						others := true
						for _, e := range phi.Edges {
							if e == v {
								continue
							}
							if b, isC := constBool(e); !isC || b {
								others = false
							}
						}
						if others {
							follow(phi, depth+1)
						}
					}
					// matched && err == nil
					if bo, ok := r.(*ssa.BinOp); ok && bo.Op == token.AND && depth < 2 {
						follow(bo, depth+1)
					}
				}
			}
			follow(matched, 0)
			if !okEnf {
				// decided per (virtual) return: a result that can be true is the match result itself, a conjunction
				// with it, or is produced where the match is known to have succeeded
				all, some := true, false
				for _, vr := range virtualReturns(cal) {
					if len(vr.Results) == 0 || !vr.Ret.Block().Dominates(vr.Ret.Block()) {
						continue
					}
					if b, isC := constBool(vr.Results[0]); isC && !b {
						continue
					}
					if !canReach(call, vr.Ret) {
						continue
					}
					some = true
					okRet := vr.Facts[condFact{matched, true}]
					var derives func(v ssa.Value, depth int) bool
					derives = func(v ssa.Value, depth int) bool {
						if v == matched {
							return true
						}
						if bo, ok := v.(*ssa.BinOp); ok && bo.Op == token.AND && depth < 3 {
							return derives(bo.X, depth+1) || derives(bo.Y, depth+1)
						}
						return false
					}
					if !okRet && !derives(vr.Results[0], 0) {
						all = false
					}
				}
				okEnf = some && all
			}
			c.check(okEnf, p.fname(cal), "a failed regular-expression match is a failed token", p.ipos(i), "the false outcome of regexp.MatchString cannot produce a positive answer", "the result of regexp.MatchString does not decide the answer")
			// any other positive answer of the helper is the tail wildcard: under `<expression> == "*"`
			cfacts := factsAt(cal)
			for _, r := range returnsOf(cal) {
				b, isC := constBool(r.Results[0])
				if !isC || !b {
					continue
				}
				wild := false
				for f := range cfacts[r.Block()] {
					bo, ok := f.Cond.(*ssa.BinOp)
					if !ok || !f.Pol || bo.Op != token.EQL {
						continue
					}
					for _, pr := range [][2]ssa.Value{{bo.X, bo.Y}, {bo.Y, bo.X}} {
						if sv, ok := constStr(pr[0]); ok && sv == "*" {
							if _, isSl := strip(pr[1]).(*ssa.Slice); isSl {
								wild = true
							}
						}
					}
				}
				c.check(wild, p.fname(cal), "an unconditional 'matches' is the tail wildcard only", p.ipos(r), "under <expression part of the template token> == \"*\"", "the regex helper answers 'matches' without consulting the expression although the expression is not the wildcard `*`: every value satisfies a regex-constrained variable")
			}
		})
	}
}

// matchPolarity: for a condition whose meaning is known, which outcome means "the token matches".
func matchPolarity(cond ssa.Value) (matchOnTrue bool, known bool) {
	pol := true
	for {
		u, ok := cond.(*ssa.UnOp)
		if !ok || u.Op != token.NOT {
			break
		}
		cond, pol = u.X, !pol
	}
	switch x := cond.(type) {
	case *ssa.BinOp:
		if !isStringType(x.X.Type()) {
			return false, false
		}
		switch x.Op {
		case token.EQL:
			return pol, true
		case token.NEQ:
			return !pol, true
		}
	case *ssa.Call:
		switch calleeName(&x.Call) {
		case "strings.HasSuffix", "strings.HasPrefix", "strings.EqualFold", "regexp.MatchString", "(*regexp.Regexp).MatchString":
			return pol, true
		}
		// a boolean helper of the module applied to the token: by convention "true" admits the token (the helpers of
		// this repository are named matches..., isMatch...; the name is not relied upon)
		if cal := x.Call.StaticCallee(); cal != nil && isBoolFunc(cal) && cal.Pkg != nil && cal.Pkg.Pkg.Path() == modulePath {
			return pol, true
		}
	case *ssa.Extract:
		if call, ok := x.Tuple.(*ssa.Call); ok && x.Index == 0 {
			if cal := call.Call.StaticCallee(); cal != nil && cal.Pkg != nil && cal.Pkg.Pkg.Path() == modulePath {
				if b, ok := x.Type().Underlying().(*types.Basic); ok && b.Kind() == types.Bool {
					return pol, true
				}
			}
		}
	}
	return false, false
}

func condDesc(p *Program, v ssa.Value) string {
	switch x := v.(type) {
	case *ssa.Call:
		return shortCallee(&x.Call)
	case *ssa.Extract:
		if call, ok := x.Tuple.(*ssa.Call); ok {
			return shortCallee(&call.Call) + "#" + itoa(x.Index)
		}
	case *ssa.BinOp:
		return "token " + x.Op.String() + " token"
	}
	return v.Name()
}

// ---------------------------------------------------------------------------
// C01.d

// templateGuards: the template-only predicates known true at block b, as a canonical set of names.
func templateGuards(p *Program, fn *ssa.Function, b *ssa.BasicBlock, reqTaint map[ssa.Value]bool) map[string]bool {
	out := map[string]bool{}
	for f := range factsAt(fn)[b] {
		if !f.Pol {
			continue
		}
		switch x := f.Cond.(type) {
		case *ssa.Call:
			if cal := x.Call.StaticCallee(); cal != nil && p.inModule(cal) {
				dep := false
				for _, a := range x.Call.Args {
					if reqTaint[a] {
						dep = true
					}
				}
				if !dep {
					out["call:"+cal.Name()] = true
				}
			}
		case *ssa.Parameter:
			// the flag is what the callers pass: the field every call site loads for it names it, whatever the
			// parameter is called
			name := x.Name()
			if parent := x.Parent(); parent != nil {
				idx := -1
				for k, q := range parent.Params {
					if q == x {
						idx = k
					}
				}
				field, n := "", 0
				for _, e := range p.callGraph().In[parent] {
					if e.Kind != EdgeStatic || e.Site == nil || idx < 0 {
						continue
					}
					cc := callCommon(e.Site)
					if cc == nil {
						continue
					}
					args := callArgs(cc)
					if idx >= len(args) {
						continue
					}
					n++
					if _, fld, ok := fieldLoad(strip(args[idx])); ok && (field == "" || field == fld.Name()) {
						field = fld.Name()
					} else {
						field = "\x00"
					}
				}
				if n > 0 && field != "" && field != "\x00" {
					name = field
				}
			}
			out["flag:"+flagName(name)] = true
		case *ssa.UnOp:
			if _, fld, ok := fieldLoad(x); ok {
				out["flag:"+flagName(fld.Name())] = true
			}
		}
	}
	return out
}

func flagName(s string) string {
	s = strings.TrimPrefix(s, "route")
	if len(s) > 0 {
		s = strings.ToLower(s[:1]) + s[1:]
	}
	return s
}

func setString(m map[string]bool) string { return "{" + strings.Join(sortedKeys(m), ", ") + "}" }

func ruleC01d(c *Ctx) {
	p := c.P
	m := curlyMatcher(p)
	binder := p.fn("(defaultPathProcessor).ExtractParameters")
	if m == nil || binder == nil {
		c.undecided("-", "matcher / binder", "-", "token matcher or default path processor not found")
		return
	}
	tokens := requestTokensParam(p, m)
	mTaint := map[ssa.Value]bool{}
	if tokens != nil {
		mTaint = contentTaint(p, m, tokens)
	}
	// binder: values derived from the URL parts
	var urlParts ssa.Value
	eachInstr(binder, func(i ssa.Instruction) {
		if call, ok := i.(*ssa.Call); ok && call.Call.StaticCallee() != nil && call.Call.StaticCallee().Name() == "tokenizePath" {
			urlParts = call
		}
	})
	bTaint := map[ssa.Value]bool{}
	if urlParts != nil {
		var work []ssa.Value
		// the URL path itself, before it is cut into parts
		for _, prm := range binder.Params {
			if isStringType(prm.Type()) {
				bTaint[prm] = true
				work = append(work, prm)
			}
		}
		eachInstr(binder, func(i ssa.Instruction) {
			if ia, ok := i.(*ssa.IndexAddr); ok && strip(ia.X) == urlParts {
				for _, r := range referrers(ia) {
					if u, ok := r.(*ssa.UnOp); ok {
						bTaint[u] = true
						work = append(work, u)
					}
				}
			}
		})
		for len(work) > 0 {
			v := work[len(work)-1]
			work = work[:len(work)-1]
			for _, r := range referrers(v) {
				switch x := r.(type) {
				case *ssa.Phi:
					if !bTaint[x] {
						bTaint[x] = true
						work = append(work, x)
					}
				case *ssa.Call:
					if ssa.Value(x) == urlParts {
						continue // the cut itself: its elements are the seeds above
					}
					if _, isB := x.Call.Value.(*ssa.Builtin); !isB && !bTaint[x] {
						bTaint[x] = true
						work = append(work, x)
					}
				}
			}
		}
	}
	// (1) rewriting transformations (module string->string functions applied to the URL value)
	type xform struct {
		fn     *ssa.Function
		guards map[string]bool
		pos    string
	}
	collect := func(fn *ssa.Function, taint map[ssa.Value]bool) map[string]xform {
		out := map[string]xform{}
		eachInstr(fn, func(i ssa.Instruction) {
			call, ok := i.(*ssa.Call)
			if !ok || call.Call.StaticCallee() == nil {
				return
			}
			if !p.inModule(call.Call.StaticCallee()) {
				// the same rewriting written out with the library (what an inlined helper looks like)
				n := calleeName(&call.Call)
				rewriting := strings.HasPrefix(n, "(*regexp.Regexp).Replace") || n == "strings.Replace" || n == "strings.ReplaceAll" ||
					n == "strings.ToLower" || n == "strings.ToUpper" || n == "strings.TrimSuffix" || n == "strings.TrimPrefix" || n == "strings.TrimRight" || n == "strings.TrimLeft" || n == "strings.Trim" ||
					n == "net/url.PathUnescape" || n == "net/url.QueryUnescape" || n == "net/url.PathEscape" || n == "net/url.QueryEscape" || n == "html.UnescapeString" || n == "html.EscapeString" ||
					n == "strings.Map" || n == "strings.Title" || n == "strings.TrimSpace" || n == "strings.TrimFunc" || n == "path.Clean"
				strRes := isStringType(call.Type())
				if tup, isTup := call.Type().(*types.Tuple); isTup && tup.Len() > 0 && isStringType(tup.At(0).Type()) {
					strRes = true
				}
				if !rewriting || !strRes {
					return
				}
				dep := false
				for k, a := range call.Call.Args {
					if taint[a] && !(k == 0 && strings.HasPrefix(n, "(*regexp")) {
						dep = true
					}
				}
				if !dep {
					return
				}
				key := n
				if strings.HasPrefix(n, "(*regexp") {
					if u, ok := strip(call.Call.Args[0]).(*ssa.UnOp); ok {
						if g, ok := u.X.(*ssa.Global); ok {
							key += "[" + g.Name() + "]"
						}
					}
				}
				out[key] = xform{call.Call.StaticCallee(), templateGuards(p, fn, i.Block(), taint), p.ipos(i)}
				return
			}
			if b, ok := call.Type().Underlying().(*types.Basic); !ok || b.Kind() != types.String {
				return
			}
			dep := false
			for _, a := range call.Call.Args {
				if taint[a] {
					dep = true
				}
			}
			if dep {
				out[call.Call.StaticCallee().Name()] = xform{call.Call.StaticCallee(), templateGuards(p, fn, i.Block(), taint), p.ipos(i)}
			}
		})
		return out
	}
	mx, bx := collect(m, mTaint), collect(binder, bTaint)
	// guards that hold at every positive answer of the matcher are implied by "the route matched" (the binder only
	// runs for a matched route): they do not distinguish the segments the transformation is applied to
	var implied map[string]bool
	for _, r := range returnsOf(m) {
		if len(r.Results) == 0 {
			continue
		}
		if v, isC := constBool(r.Results[0]); isC && !v {
			continue
		}
		g := templateGuards(p, m, r.Block(), mTaint)
		if implied == nil {
			implied = g
			continue
		}
		for k := range implied {
			if !g[k] {
				delete(implied, k)
			}
		}
	}
	for name, x := range mx {
		for k := range implied {
			if _, own := bx[name]; own && !bx[name].guards[k] {
				delete(x.guards, k)
			}
		}
	}
	for name, b := range bx {
		mm, ok := mx[name]
		if !ok {
			c.bad(p.fname(binder), "binder rewrites the URL value with "+name+", the matcher does not", b.pos, "the value bound is not the text the matcher compared")
			continue
		}
		c.check(setString(mm.guards) == setString(b.guards), p.fname(binder), "binder applies "+name+" under the matcher's template guards", b.pos,
			"both under "+setString(b.guards), "the binder applies "+name+" under "+setString(b.guards)+" but the matcher under "+setString(mm.guards)+": values of segments the matcher compared verbatim are rewritten before they are bound")
	}
	// and the other way round: what the matcher rewrites before it compares, the binder must rewrite before it binds
	// (or the bound value still carries what the matcher ignored)
	for name, mm := range mx {
		if _, ok := bx[name]; !ok {
			c.bad(p.fname(binder), "matcher rewrites the request token with "+name+", the binder does not", mm.pos, "the value bound still contains what the matcher removed before comparing (a custom-verb suffix stays in the parameter)")
		}
	}
	if len(bx) == 0 && len(mx) == 0 {
		c.note(p.fname(binder), "neither matcher nor binder applies a rewriting helper", "-", "nothing to compare")
	}
	// (2) literal affix: the binder slices the value -> the matcher verifies an affix of the request token against the template
	slices := false
	var slicePos ssa.Instruction
	eachInstr(binder, func(i ssa.Instruction) {
		if sl, ok := i.(*ssa.Slice); ok && bTaint[sl.X] && (sl.Low != nil || sl.High != nil) {
			slices = true
			slicePos = i
		}
	})
	if slices {
		verifies := false
		scan := func(fn *ssa.Function, taint map[ssa.Value]bool) {
			eachInstr(fn, func(i ssa.Instruction) {
				call, ok := i.(*ssa.Call)
				if !ok {
					return
				}
				n := calleeName(&call.Call)
				if (n == "strings.HasSuffix" || n == "strings.HasPrefix") && taint[call.Call.Args[0]] {
					// the literal part of the template token: a slice of it, or the part strings.Cut returns
					switch lit := strip(singleAssignment(call.Call.Args[1])).(type) {
					case *ssa.Slice:
						verifies = true
					case *ssa.Extract:
						if cut, ok := lit.Tuple.(*ssa.Call); ok && lit.Index < 2 && !taint[cut.Call.Args[0]] {
							if cn := calleeName(&cut.Call); cn == "strings.Cut" || cn == "strings.CutPrefix" || cn == "strings.CutSuffix" {
								verifies = true
							}
						}
					}
				}
			})
		}
		scan(m, mTaint)
		eachInstr(m, func(i ssa.Instruction) {
			call, ok := i.(*ssa.Call)
			if !ok || call.Call.StaticCallee() == nil || !p.inModule(call.Call.StaticCallee()) || call.Call.StaticCallee().Blocks == nil {
				return
			}
			h := call.Call.StaticCallee()
			for k, a := range call.Call.Args {
				if mTaint[a] && k < len(h.Params) {
					scan(h, valueTaint(p, h, h.Params[k]))
				}
			}
		})
		c.check(verifies, p.fname(binder), "the literal affix the binder strips is verified by the matcher", p.ipos(slicePos),
			"the matcher tests the request token against the literal part of the template token", "the binder cuts literal text off a value the matcher never checked for it: `{var}.foo` admits any token, binds a truncated value and slices out of range on short ones")
	} else {
		c.note(p.fname(binder), "binder does not slice values", "-", "no affix handling")
	}
	// (2b) a template token that is not compared verbatim is a variable token. When the test that tells the two apart
	// only asks whether the token contains '{' (not whether it starts with it), `v{version}` is a variable token too and
	// its literal prefix has to be verified on the request token, like the suffix.
	braceTest := func(v ssa.Value) (anchored, unanchored bool) {
		seen := map[ssa.Value]bool{}
		var visit func(v ssa.Value, depth int)
		visit = func(v ssa.Value, depth int) {
			if seen[v] || len(seen) > 200 {
				return
			}
			seen[v] = true
			for _, s := range p.sources(v, provDefault) {
				if bo, ok := s.(*ssa.BinOp); ok {
					visit(bo.X, depth)
					visit(bo.Y, depth)
					continue
				}
				call, ok := s.(*ssa.Call)
				if !ok {
					continue
				}
				if h := call.Call.StaticCallee(); h != nil && p.inModule(h) && h.Blocks != nil && depth < 1 && isBoolResult(call) {
					for _, r := range returnsOf(h) {
						for _, res := range r.Results {
							visit(res, depth+1)
						}
					}
					continue
				}
				n := calleeName(&call.Call)
				if len(call.Call.Args) != 2 || mTaint[call.Call.Args[0]] {
					continue
				}
				brace := false
				if str, ok := constStr(call.Call.Args[1]); ok && str == "{" {
					brace = true
				}
				if k, ok := constInt(call.Call.Args[1]); ok && k == '{' {
					brace = true
				}
				if !brace {
					continue
				}
				switch n {
				case "strings.HasPrefix":
					anchored = true
				case "strings.Contains", "strings.ContainsRune", "strings.ContainsAny", "strings.Index", "strings.IndexByte", "strings.IndexRune", "strings.IndexAny", "strings.Count":
					unanchored = true
				}
			}
		}
		visit(v, 0)
		return
	}
	var looseAt ssa.Instruction
	nLiteral := 0
	mFacts := factsAt(m)
	eachInstr(m, func(i ssa.Instruction) {
		bo, ok := i.(*ssa.BinOp)
		if !ok || (bo.Op != token.EQL && bo.Op != token.NEQ) || !isStringType(bo.X.Type()) {
			return
		}
		if mTaint[bo.X] == mTaint[bo.Y] {
			return
		}
		if _, isC := constStr(bo.X); isC {
			return
		}
		if _, isC := constStr(bo.Y); isC {
			return
		}
		nLiteral++
		for f := range mFacts[i.Block()] {
			if a, u := braceTest(f.Cond); u && !a {
				looseAt = i
			}
		}
	})
	if looseAt != nil {
		verifiesPrefix := false
		scanPrefix := func(fn *ssa.Function, taint map[ssa.Value]bool) {
			eachInstr(fn, func(i ssa.Instruction) {
				call, ok := i.(*ssa.Call)
				if !ok {
					return
				}
				switch calleeName(&call.Call) {
				case "strings.HasPrefix", "strings.CutPrefix":
					if taint[call.Call.Args[0]] && !taint[call.Call.Args[1]] {
						if _, isC := constStr(call.Call.Args[1]); !isC {
							verifiesPrefix = true
						}
					}
				}
			})
		}
		scanPrefix(m, mTaint)
		eachInstr(m, func(i ssa.Instruction) {
			call, ok := i.(*ssa.Call)
			if !ok || call.Call.StaticCallee() == nil || !p.inModule(call.Call.StaticCallee()) || call.Call.StaticCallee().Blocks == nil {
				return
			}
			h := call.Call.StaticCallee()
			for k, a := range call.Call.Args {
				if mTaint[a] && k < len(h.Params) {
					scanPrefix(h, valueTaint(p, h, h.Params[k]))
				}
			}
		})
		c.check(verifiesPrefix, p.fname(m), "a variable token's literal prefix is verified", p.ipos(looseAt),
			"the matcher tests the request token against the text in front of '{'", "template tokens are compared verbatim only when they contain no '{' at all, so `v{version}` counts as a variable token, and nothing tests the request token for the literal text in front of the variable: /files/x1 is served by /files/v{version}")
	} else if nLiteral > 0 {
		c.ok(p.fname(m), "template tokens that do not start with '{' are compared verbatim", p.pos(m.Pos()), "no verbatim comparison of a request token is skipped on a test that merely looks for '{' somewhere in the template token")
	}
	// (3) the root scorer enforces the regex the route matcher enforces
	regexHelper := func(fn *ssa.Function) *ssa.Function { return regexHelperOf(p, fn) }
	rh := regexHelper(m)
	// the root scorer: the function applied to WebService.pathExpr.tokens by the Curly router
	var scorer *ssa.Function
	for _, fn := range p.SrcFunc {
		eachInstr(fn, func(i ssa.Instruction) {
			call, ok := i.(*ssa.Call)
			if !ok || call.Call.StaticCallee() == nil || !p.inModule(call.Call.StaticCallee()) {
				return
			}
			for _, a := range call.Call.Args {
				if _, f, ok := fieldLoad(strip(a)); ok && f.Name() == "tokens" {
					scorer = call.Call.StaticCallee()
				}
			}
		})
	}
	if rh != nil && scorer != nil {
		c.check(regexHelper(scorer) == rh, p.fname(scorer), "root path variables with a regular expression are enforced like route variables", p.pos(scorer.Pos()),
			"both call "+rh.Name(), "the route matcher enforces {v:regex} through "+rh.Name()+" but the root-path scorer does not: a root such as /{id:[0-9]+} claims URLs it does not match and shadows a later root")
	} else {
		c.undecided("-", "regex enforcement in matcher and root scorer", "-", "cannot find the regex helper or the root scorer")
	}
}

// valueTaint: values of fn data-dependent on the content of v (a string parameter), like contentTaint.
func valueTaint(p *Program, fn *ssa.Function, src ssa.Value) map[ssa.Value]bool {
	t := map[ssa.Value]bool{src: true}
	work := []ssa.Value{src}
	for len(work) > 0 {
		v := work[len(work)-1]
		work = work[:len(work)-1]
		for _, r := range referrers(v) {
			x, ok := r.(ssa.Value)
			if !ok || t[x] {
				continue
			}
			switch y := r.(type) {
			case *ssa.Extract:
				if call, ok := y.Tuple.(*ssa.Call); ok {
					if cal := call.Call.StaticCallee(); cal != nil && p.inModule(cal) && cal.Blocks != nil && cal != fn {
						dep := false
						for k, a := range call.Call.Args {
							if t[a] && k < len(cal.Params) && resultDependsOn(p, cal, cal.Params[k], y.Index) {
								dep = true
							}
						}
						if !dep {
							continue
						}
					}
				}
				t[x] = true
				work = append(work, x)
			case *ssa.Phi, *ssa.BinOp, *ssa.UnOp, *ssa.Slice, *ssa.Convert:
				t[x] = true
				work = append(work, x)
			case *ssa.Call:
				if b, isB := y.Call.Value.(*ssa.Builtin); isB && b.Name() == "len" {
					continue
				}
				t[x] = true
				work = append(work, x)
			}
		}
	}
	return t
}

// regexMatchResult: call applies a regular expression to a string: regexp.MatchString(expr, s) or
// (*regexp.Regexp).MatchString(s) on a compiled expression; the boolean outcome, else nil.
func regexMatchResult(call *ssa.Call) ssa.Value {
	switch calleeName(&call.Call) {
	case "regexp.MatchString":
		for _, r := range referrers(call) {
			if ex, ok := r.(*ssa.Extract); ok && ex.Index == 0 {
				return ex
			}
		}
	case "(*regexp.Regexp).MatchString":
		// an expression compiled from a value (a template token), not one of the package's own patterns
		if curProgram != nil {
			for _, src := range curProgram.sources(call.Call.Args[0], provOpt{ThroughCells: true, ThroughTypeAssert: true, ThroughCalls: 2}) {
				if u, ok := strip(src).(*ssa.UnOp); ok {
					if _, isG := u.X.(*ssa.Global); isG {
						return nil
					}
					if _, isF := u.X.(*ssa.FieldAddr); isF {
						return nil // a precompiled expression kept in a struct (pathExpression.Matcher)
					}
				}
			}
		}
		return call
	}
	return nil
}

// regexHelperOf: the module function reachable from fn (static calls) that applies regexp.MatchString.
func regexHelperOf(p *Program, fn *ssa.Function) *ssa.Function {
	var out *ssa.Function
	for f := range p.callGraph().reach([]*ssa.Function{fn}, func(e Edge) bool { return e.Kind != EdgeStatic }) {
		if f == fn {
			continue
		}
		eachInstr(f, func(i ssa.Instruction) {
			if call, ok := i.(*ssa.Call); ok && regexMatchResult(call) != nil {
				// several candidates: the choice must not depend on map order
				if out == nil || p.fname(f) < p.fname(out) {
					out = f
				}
			}
		})
	}
	return out
}

// requestTokensParam: the parameter of fn that receives the request's path tokens. Of its []string parameters it is
// the one that, at the static call sites, is not fed from a template field (Route.pathParts, <pathExpr>.tokens);
// the parameter's name is only a tie-break.
func requestTokensParam(p *Program, fn *ssa.Function) *ssa.Parameter {
	var cands []*ssa.Parameter
	for _, prm := range fn.Params {
		if isStringSlice(prm.Type()) {
			cands = append(cands, prm)
		}
	}
	if len(cands) == 0 {
		return nil
	}
	if len(cands) == 1 {
		return cands[0]
	}
	template := map[*ssa.Parameter]bool{}
	for _, e := range p.callGraph().In[fn] {
		cc := callCommon(e.Site)
		if cc == nil || cc.StaticCallee() != fn {
			continue
		}
		for k, prm := range fn.Params {
			if k >= len(cc.Args) || !isStringSlice(prm.Type()) {
				continue
			}
			a := strip(cc.Args[k])
			if sl, ok := a.(*ssa.Slice); ok {
				a = strip(sl.X)
			}
			if _, f, ok := fieldLoad(a); ok && (f.Name() == "pathParts" || f.Name() == "tokens") {
				template[prm] = true
			}
		}
	}
	var rest []*ssa.Parameter
	for _, prm := range cands {
		if !template[prm] {
			rest = append(rest, prm)
		}
	}
	if len(rest) == 1 {
		return rest[0]
	}
	for _, prm := range cands {
		if prm.Name() == "requestTokens" {
			return prm
		}
	}
	return nil
}

// hasTemplateParam: fn (or what it is handed at its call sites) works on a template: one of its parameters is a
// candidate collection, a *WebService, or a []string fed from a template field.
func hasTemplateParam(p *Program, fn *ssa.Function) bool {
	for _, prm := range fn.Params {
		if isCandidateSliceType(prm.Type()) || isPtrToRestful(prm.Type(), "WebService") {
			return true
		}
		if sl, ok := prm.Type().Underlying().(*types.Slice); ok && isPtrToRestful(sl.Elem(), "WebService") {
			return true
		}
	}
	n := 0
	for _, prm := range fn.Params {
		if isStringSlice(prm.Type()) {
			n++
		}
	}
	return n >= 2
}
