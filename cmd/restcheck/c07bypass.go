package main

import (
	"go/token"
	"go/types"
	"strings"

	"golang.org/x/tools/go/ssa"
)

// C07.i. The bytes of an encoded response reach the wrapped writer only as output of the compressor. The wrapped
// (underlying) writer of the compressing writer type is used for nothing that can carry body bytes: a method invoked
// on it (directly or after a type assertion to another interface) has no parameter of type []byte, string or
// io.Reader, and it is passed on only to the constructors/Reset of the compress packages. A Write, WriteString or
// ReadFrom on the wrapped writer puts raw bytes into a body that is labelled gzip/deflate, out of order with what the
// compressor still buffers.

func carriesBytes(t types.Type) bool {
	switch u := t.Underlying().(type) {
	case *types.Basic:
		return u.Info()&types.IsString != 0
	case *types.Slice:
		if b, ok := u.Elem().Underlying().(*types.Basic); ok && b.Kind() == types.Byte {
			return true
		}
		return carriesBytes(u.Elem())
	case *types.Interface:
		for i := 0; i < u.NumMethods(); i++ {
			if n := u.Method(i).Name(); n == "Read" || n == "WriteTo" {
				return true
			}
		}
	}
	return false
}

// compressingWriterTypes: module struct types with a field of type http.ResponseWriter and a field that holds the
// compressor (io.WriteCloser or a compress writer); returns the wrapped-writer fields.
func wrappedWriterFields(p *Program) []*types.Var {
	var out []*types.Var
	pk := p.rootPackage()
	if pk == nil {
		return nil
	}
	sc := pk.Types.Scope()
	for _, n := range sc.Names() {
		tn, ok := sc.Lookup(n).(*types.TypeName)
		if !ok {
			continue
		}
		st, ok := tn.Type().Underlying().(*types.Struct)
		if !ok {
			continue
		}
		var w []*types.Var
		comp := false
		for i := 0; i < st.NumFields(); i++ {
			f := st.Field(i)
			if isHTTPResponseWriter(f.Type()) && !f.Embedded() {
				w = append(w, f)
			}
			ts := f.Type().String()
			if ts == "io.WriteCloser" || strings.Contains(ts, "compress/gzip.Writer") || strings.Contains(ts, "compress/zlib.Writer") || strings.Contains(ts, "compress/flate.Writer") {
				comp = true
			}
		}
		if comp {
			out = append(out, w...)
		}
	}
	return out
}

func ruleC07i(c *Ctx) {
	p := c.P
	flds := wrappedWriterFields(p)
	if len(flds) == 0 {
		c.undecided("-", "wrapped writer of the compressing writer", "-", "no struct with an http.ResponseWriter field next to a compressor field")
		return
	}
	isW := map[*types.Var]bool{}
	for _, f := range flds {
		isW[f] = true
	}
	n := 0
	for _, fn := range p.SrcFunc {
		name := p.fname(fn)
		eachInstr(fn, func(i ssa.Instruction) {
			u, ok := i.(*ssa.UnOp)
			if !ok || u.Op != token.MUL {
				return
			}
			fa, ok := u.X.(*ssa.FieldAddr)
			if !ok || !isW[fieldOfAddr(fa)] {
				return
			}
			// the loaded wrapped writer and what it is converted/asserted to
			seen := map[ssa.Value]bool{}
			var visit func(v ssa.Value, depth int)
			visit = func(v ssa.Value, depth int) {
				if seen[v] || depth > 4 {
					return
				}
				seen[v] = true
				for _, r := range referrers(v) {
					switch x := r.(type) {
					case *ssa.TypeAssert:
						visit(x, depth+1)
					case *ssa.Extract:
						if x.Index == 0 {
							visit(x, depth+1)
						}
					case *ssa.ChangeInterface:
						visit(x, depth+1)
					case *ssa.MakeInterface:
						visit(x, depth+1)
					case *ssa.Phi:
						visit(x, depth+1)
					}
					cc := callCommon(r)
					if cc == nil {
						continue
					}
					if cc.IsInvoke() && cc.Value == v {
						n++
						sig := cc.Method.Type().(*types.Signature)
						bad := ""
						for k := 0; k < sig.Params().Len(); k++ {
							if carriesBytes(sig.Params().At(k).Type()) {
								bad = sig.Params().At(k).Type().String()
							}
						}
						c.check(bad == "", name, "wrapped writer: method "+cc.Method.Name()+" carries no body bytes", p.ipos(r),
							"no parameter of type []byte, string or io.Reader",
							"method "+cc.Method.Name()+" with a parameter of type "+bad+" is called on the writer the compressor writes into: these bytes reach the client raw, inside (and ahead of what the compressor still buffers of) a body that is labelled as encoded")
						continue
					}
					for _, a := range cc.Args {
						if a != v {
							continue
						}
						n++
						cn := calleeName(cc)
						ok := strings.HasPrefix(cn, "compress/") || strings.HasPrefix(cn, "(*compress/")
						if cal := cc.StaticCallee(); cal != nil && p.inModule(cal) {
							// handed to a module function: it may not write either; decided where that function uses its parameter
							ok = !writesBytesTo(p, cal, cc, v, 0)
						}
						c.check(ok, name, "wrapped writer handed to "+shortOr(cc, "a function value"), p.ipos(r),
							"only the compress packages (constructor, Reset) and module functions that do not write receive the wrapped writer",
							"the writer the compressor writes into is handed to "+shortOr(cc, "a function value")+", which can write body bytes past the compressor")
					}
				}
			}
			visit(u, 0)
		})
	}
	if n == 0 {
		c.undecided("-", "uses of the wrapped writer", "-", "the wrapped writer field is never used")
	}
}

func shortOr(cc *ssa.CallCommon, dflt string) string {
	if s := shortCallee(cc); s != "" {
		return s
	}
	return dflt
}

// writesBytesTo: the module function cal, called with v as an argument, invokes a byte-carrying method on that
// parameter or hands it to a foreign function (one level of module calls is followed).
func writesBytesTo(p *Program, cal *ssa.Function, cc *ssa.CallCommon, v ssa.Value, depth int) bool {
	if cal.Blocks == nil || depth > 2 {
		return true
	}
	args := callArgs(cc)
	res := false
	for k, a := range args {
		if a != v || k >= len(cal.Params) {
			continue
		}
		prm := cal.Params[k]
		seen := map[ssa.Value]bool{}
		var visit func(x ssa.Value)
		visit = func(x ssa.Value) {
			if seen[x] {
				return
			}
			seen[x] = true
			for _, r := range referrers(x) {
				switch y := r.(type) {
				case *ssa.TypeAssert:
					visit(y)
				case *ssa.Extract:
					visit(y)
				case *ssa.ChangeInterface:
					visit(y)
				case *ssa.MakeInterface:
					visit(y)
				case *ssa.Phi:
					visit(y)
				}
				c2 := callCommon(r)
				if c2 == nil {
					continue
				}
				if c2.IsInvoke() && c2.Value == x {
					sig := c2.Method.Type().(*types.Signature)
					for j := 0; j < sig.Params().Len(); j++ {
						if carriesBytes(sig.Params().At(j).Type()) {
							res = true
						}
					}
					continue
				}
				for _, a2 := range c2.Args {
					if a2 != x {
						continue
					}
					if g := c2.StaticCallee(); g != nil && p.inModule(g) {
						if writesBytesTo(p, g, c2, x, depth+1) {
							res = true
						}
					} else if cn := calleeName(c2); !strings.HasPrefix(cn, "compress/") && !strings.HasPrefix(cn, "(*compress/") {
						res = true
					}
				}
			}
		}
		visit(prm)
	}
	return res
}
