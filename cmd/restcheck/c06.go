package main

import (
	"go/token"
	"strings"

	"golang.org/x/tools/go/ssa"
)

func init() {
	register(&Property{
		ID:    "C06",
		Title: "Filters run container, service, route in order, each once, per request",
		Decided: "C06.a the routed chain's filter slice is a fresh slice filled, in this order, with the container's, the selected service's and the selected route's filters and nothing else, its target is the selected route's function, and the no-filter shortcut is taken only when all three lists are empty; error and plain-handler chains hold exactly the container filters around a target that runs no service or route code; " +
			"C06.b the chain step performs exactly one dynamic call per invocation: the filter at the old index after advancing the index, or the target when the filters are exhausted, with the method's own arguments; C06.c every chain on the request path is a function-local object processed exactly once with the pair wrapped on that path; " +
			"C06.d the http-middleware adapter rebinds request and response before it continues the chain, exactly once; C06.f every path of the routing-failure branch processes one chain; C06.e the request/response pair handed to the chain or the route function is the one pair built for this request. C06.g no list field is assigned append(<list of another object>, ...), and a list taken over from another object is not grown in place (filters of routes built from one group or service do not share a backing array). C06.h a function literal of route-function shape built by the module works on the *Request/*Response it is called with, not on a captured pair.",
		NotDecided: "what user filters do with the chain pointer they receive (calling ProcessFilter twice re-enters later filters by design of the API).",
		Rules: []Rule{
			{ID: "C06.a", Template: "T-PROV", Required: true,
				Doc: "Composition order and content of each FilterChain built by the framework. A swapped or missing level, a foreign target or a shortcut that ignores one level runs filters in the wrong order, skips them, or runs another route's function.",
				Run: ruleC06a},
			{ID: "C06.b", Template: "T-ONCE", Required: true,
				Doc: "FilterChain.ProcessFilter: guard Index < len(Filters); on the filter path Index is advanced by one before the call, never changed afterwards, the callee is Filters[old Index] with (request, response, chain); on the other path the callee is Target with (request, response); exactly one dynamic call on every path. Otherwise a filter is re-entered or skipped or the target runs twice - visible only with >= 2 filters per level and a filter that passes control on more than once or late.",
				Run: ruleC06b},
			{ID: "C06.c", Template: "T-FRESH", Required: true,
				Doc: "Every FilterChain used by framework code is a local object of the function that builds it, its ProcessFilter is called exactly once on every path after it is built, and the filter slice handed to it is either a shared list used read-only or a fresh slice (never an append onto a shared list).",
				Run: ruleC06c},
			{ID: "C06.d", Template: "T-ORDER", Required: true,
				Doc: "HttpMiddlewareHandlerToFilter: the inner handler stores its own *http.Request and ResponseWriter into the captured Request/Response before chain.ProcessFilter(req, resp), which it calls exactly once; the outer filter invokes the wrapped middleware exactly once with the current writer and request.",
				Run: ruleC06d},
			{ID: "C06.g", Template: "T-FRESH", Required: true, Run: ruleNoSharedBackingArrays,
				Doc: "The filter list of a route (and every other configuration list) is not built on another object's backing array: no field is assigned `append(<list of another object>, ...)`, and a list taken over as it is from another object is not grown in place afterwards. With 3, 5, 6, 7 ... elements in the shared list two routes built from it run each other's last filter."},
			{ID: "C06.h", Template: "T-PROV", Required: false, Run: ruleTargetUsesItsPair,
				Doc: "What runs behind the filters sees what the filters passed on: a function literal of route-function shape built by the module (the Target of the error chain, a wrapped handler) uses the *Request and *Response it is called with, not a pair captured from the enclosing function."},
			{ID: "C06.i", Template: "T-OWN", Required: true, Run: ruleContainerFiltersReadPerRequest,
				Doc: "Container filters may be added after handlers and services were registered: Container.containerFilters is read only by functions on the request path (dispatch, the handler HandleWithFilter registers) and by the function that extends it. A shortcut taken at registration time ('no filters yet: register the bare handler') leaves later filters, also one that blocks, out of that path."},
			{ID: "C06.f", Template: "T-ONCE", Required: true,
				Doc: "Routing failures: on every path from the branch taken when SelectRoute returned an error to a return, exactly one chain is processed (C06.a decides that this chain holds exactly the container filters). An early return for some kinds of error (a custom router's plain error) answers without the container filters.",
				Run: ruleC06f},
		},
	})
}

// spreadAppendChain decomposes v = append(append(append(base, a...), b...), c...) into base and spread operands.
func spreadAppendChain(v ssa.Value) (base ssa.Value, operands []ssa.Value, singles int) {
	v = strip(v)
	for {
		call, ok := v.(*ssa.Call)
		if !ok || !isBuiltinCall(call, "append") {
			break
		}
		arg := strip(call.Call.Args[1])
		if sl, ok := arg.(*ssa.Slice); ok {
			if a, ok := sl.X.(*ssa.Alloc); ok && strings.Contains(a.Comment, "varargs") {
				singles++
			}
		}
		operands = append([]ssa.Value{arg}, operands...)
		v = strip(call.Call.Args[0])
	}
	return v, operands, singles
}

func ruleC06a(c *Ctx) {
	p := c.P
	ds, err := findDispatchers(p)
	if err != nil || len(ds) == 0 {
		c.undecided("-", "dispatching function", "-", "no function invoking RouteSelector.SelectRoute found")
		return
	}
	var routeVar, svcVar Var
	dispatchTop := map[*ssa.Function]*Dispatcher{}
	for _, d := range ds {
		dispatchTop[d.Fn] = d
	}
	nChains := 0
	for _, fn := range p.requestPathFuncs() {
		top := topFunc(fn)
		if d := dispatchTop[top]; d != nil {
			routeVar, svcVar = d.Route, d.Service
		} else {
			routeVar, svcVar = Var{}, Var{}
		}
		name := p.fname(fn)
		for _, chain := range p.allocsOfType(fn, "FilterChain") {
			if strings.Contains(chain.Comment, "complit") {
				continue // the literal temporary; handled through the variable it initialises
			}
			inits := p.structInits(chain)
			if len(inits) == 0 {
				continue
			}
			nChains++
			tgt := inits["Target"]
			flt := inits["Filters"]
			if len(tgt) != 1 || len(flt) != 1 {
				c.undecided(name, "FilterChain literal", p.ipos(chain), "Filters/Target are not each initialised exactly once")
				continue
			}
			if idx := inits["Index"]; len(idx) > 0 {
				zero := true
				for _, s := range idx {
					if n, ok := constInt(s.Val); !ok || n != 0 {
						zero = false
					}
				}
				c.check(zero, name, "FilterChain.Index starts at 0", p.ipos(idx[0]), "explicit zero", "the chain does not start at its first filter")
			}
			targetVal := strip(tgt[0].Val)
			if base, ok := fieldLoadIs(targetVal, "Route", "Function"); ok {
				// routed chain
				c.check(routeVar != (Var{}) && p.isVar(base, routeVar), name, "routed chain: Target is the selected route's Function", p.ipos(tgt[0]),
					"Target = <"+routeVar.String()+">.Function", "Target is the Function of a route other than the one SelectRoute returned")
				base0, ops, singles := spreadAppendChain(refinePhi(flt[0].Val, factsAt(fn)[flt[0].Block()]))
				want := []struct{ owner, field string }{{"Container", "containerFilters"}, {"WebService", "filters"}, {"Route", "Filters"}}
				okOrder := len(ops) == 3 && singles == 0
				detail := ""
				if okOrder {
					for k, w := range want {
						b, ok := fieldLoadIs(ops[k], w.owner, w.field)
						if !ok {
							okOrder = false
							detail = "operand " + itoa(k+1) + " is not " + w.owner + "." + w.field
							break
						}
						switch k {
						case 1:
							if !p.isVar(b, svcVar) {
								okOrder, detail = false, "the service filters are not those of the selected service"
							}
						case 2:
							if !p.isVar(b, routeVar) {
								okOrder, detail = false, "the route filters are not those of the selected route"
							}
						case 0:
							if !isReceiverOrCellOf(p, b, top) {
								okOrder, detail = false, "the container filters are not those of the dispatching container"
							}
						}
					}
				} else {
					detail = "expected three spread appends (container, service, route), found " + itoa(len(ops)) + " operands"
				}
				c.check(okOrder, name, "routed chain: Filters = container ++ service ++ route", p.ipos(flt[0]),
					"append order container, selected service, selected route; nothing else", detail)
				ms, isMake := base0.(*ssa.MakeSlice)
				zeroLen := false
				if isMake {
					if n, ok := constInt(ms.Len); ok && n == 0 {
						zeroLen = true
					}
				}
				c.check(isMake && zeroLen, name, "routed chain: filter slice is built on a fresh empty slice", p.ipos(flt[0]),
					"rooted at make([]FilterFunction, 0, n)", "the chain's slice is not rooted at a fresh, empty make(): it aliases (or starts with the content of) another list")
				continue
			}
			// error / plain-handler chain
			cl, isClosure := targetVal.(*ssa.MakeClosure)
			if !isClosure {
				c.undecided(name, "FilterChain target", p.ipos(tgt[0]), "Target is neither the selected route's Function nor a closure")
				continue
			}
			_, okF := fieldLoadIs(flt[0].Val, "Container", "containerFilters")
			c.check(okF, name, "error/handler chain: Filters is exactly the container's filters", p.ipos(flt[0]),
				"Filters = c.containerFilters (read-only use)", "an error or plain-handler chain must run the container filters and nothing else")
			// the closure runs nothing from a service or route
			clean := true
			what := ""
			for _, f := range withClosures(cl.Fn.(*ssa.Function)) {
				eachInstr(f, func(i ssa.Instruction) {
					if v, ok := i.(ssa.Value); ok {
						if _, ok := fieldLoadIs(v, "WebService", "filters"); ok {
							clean, what = false, "reads WebService.filters"
						}
						if _, ok := fieldLoadIs(v, "Route", "Filters"); ok {
							clean, what = false, "reads Route.Filters"
						}
						if _, ok := fieldLoadIs(v, "Route", "Function"); ok {
							clean, what = false, "reads Route.Function"
						}
					}
					if cc := callCommon(i); cc != nil && cc.StaticCallee() != nil && cc.StaticCallee().Name() == "ProcessFilter" {
						clean, what = false, "continues a chain"
					}
				})
			}
			c.check(clean, name, "error/handler chain: target runs no service or route code", p.ipos(tgt[0]), "the target closure only calls the error handler / the plain handler", "the target "+what)
		}
	}
	c.count("chains", nChains)
	// the no-filter shortcut
	for _, d := range ds {
		for _, fn := range withClosures(d.Fn) {
			facts := factsAt(fn)
			eachInstr(fn, func(i ssa.Instruction) {
				call, ok := i.(*ssa.Call)
				if !ok || !isDynamicCall(&call.Call) {
					return
				}
				base, ok := fieldLoadIs(call.Call.Value, "Route", "Function")
				if !ok {
					return
				}
				name := p.fname(fn)
				c.check(p.isVar(base, d.Route), name, "direct call of Route.Function: selected route", p.ipos(i),
					"the function invoked is the selected route's", "a route function other than the selected one is invoked")
				// guarded by "all three filter lists are empty"
				okGuard := false
				for f := range facts[i.Block()] {
					if isTotalFilterCountTest(p, f, d) {
						okGuard = true
					}
				}
				c.check(okGuard, name, "direct call of Route.Function only when no filter exists at any level", p.ipos(i),
					"guarded by len(container filters)+len(service filters)+len(route filters) == 0",
					"the shortcut that bypasses the chain is not guarded by the emptiness of all three filter lists: filters of the missing level are skipped")
			})
		}
	}
}

// isReceiverOrCellOf: v is the receiver of top (possibly through the cell it was spilled to).
func isReceiverOrCellOf(p *Program, v ssa.Value, top *ssa.Function) bool {
	if len(top.Params) == 0 {
		return false
	}
	recv := top.Params[0]
	for _, s := range p.sources(v, provDefault) {
		if s == ssa.Value(recv) {
			return true
		}
	}
	return false
}

// isTotalFilterCountTest recognises the fact "len(c.containerFilters)+len(svc.filters)+len(route.Filters) > 0 is false"
// (or == 0 is true).
func isTotalFilterCountTest(p *Program, f condFact, d *Dispatcher) bool {
	b, ok := f.Cond.(*ssa.BinOp)
	if !ok {
		return false
	}
	var sum ssa.Value
	switch {
	case b.Op == token.GTR && isZero(b.Y) && !f.Pol:
		sum = b.X
	case b.Op == token.EQL && isZero(b.Y) && f.Pol:
		sum = b.X
	case b.Op == token.NEQ && isZero(b.Y) && !f.Pol:
		sum = b.X
	case b.Op == token.LSS && isZero(b.X) && !f.Pol:
		sum = b.Y
	default:
		return false
	}
	seen := map[string]bool{}
	var leaves func(v ssa.Value) bool
	leaves = func(v ssa.Value) bool {
		v = strip(v)
		if bo, ok := v.(*ssa.BinOp); ok && bo.Op == token.ADD {
			return leaves(bo.X) && leaves(bo.Y)
		}
		call, ok := v.(*ssa.Call)
		if !ok || !isBuiltinCall(call, "len") {
			return false
		}
		arg := call.Call.Args[0]
		// len of the composed list itself: every way the list is obtained is either nil where the three lists were
		// found empty, or the concatenation of exactly the three lists (whose length is the sum of theirs)
		if ph, ok := strip(arg).(*ssa.Phi); ok && ph.Parent() != nil {
			pf := factsAt(ph.Parent())
			for k, e := range ph.Edges {
				if k >= len(ph.Block().Preds) {
					return false
				}
				pr := ph.Block().Preds[k]
				if isNilConst(e) {
					fs := map[condFact]bool{}
					for g := range pf[pr] {
						fs[g] = true
					}
					if iff, ok := pr.Instrs[len(pr.Instrs)-1].(*ssa.If); ok && pr.Succs[0] != pr.Succs[1] {
						addCondFacts(fs, iff.Cond, pr.Succs[0] == ph.Block())
						deriveFacts(fs)
					}
					okEdge := false
					for g := range fs {
						if _, isPhiLen := g.Cond.(*ssa.BinOp); isPhiLen && g != f && isTotalFilterCountTest(p, g, d) {
							okEdge = true
						}
					}
					if !okEdge {
						return false
					}
					continue
				}
				_, ops, singles := spreadAppendChain(e)
				if len(ops) != 3 || singles != 0 {
					return false
				}
				if _, ok := fieldLoadIs(ops[0], "Container", "containerFilters"); !ok {
					return false
				}
				if bb, ok := fieldLoadIs(ops[1], "WebService", "filters"); !ok || !p.isVar(bb, d.Service) {
					return false
				}
				if bb, ok := fieldLoadIs(ops[2], "Route", "Filters"); !ok || !p.isVar(bb, d.Route) {
					return false
				}
			}
			seen["c"], seen["s"], seen["r"] = true, true, true
			return true
		}
		if _, ok := fieldLoadIs(arg, "Container", "containerFilters"); ok {
			seen["c"] = true
			return true
		}
		if bb, ok := fieldLoadIs(arg, "WebService", "filters"); ok && p.isVar(bb, d.Service) {
			seen["s"] = true
			return true
		}
		if bb, ok := fieldLoadIs(arg, "Route", "Filters"); ok && p.isVar(bb, d.Route) {
			seen["r"] = true
			return true
		}
		return false
	}
	return leaves(sum) && len(seen) == 3
}

func isZero(v ssa.Value) bool {
	n, ok := constInt(v)
	return ok && n == 0
}

// ---------------------------------------------------------------------------

func ruleC06b(c *Ctx) {
	p := c.P
	fn := p.fn("(*FilterChain).ProcessFilter")
	if fn == nil {
		c.undecided("-", "FilterChain.ProcessFilter", "-", "method not found")
		return
	}
	name := p.fname(fn)
	recv := fn.Params[0]
	// dynamic calls
	dyn := map[ssa.Instruction]bool{}
	var calls []*ssa.Call
	eachInstr(fn, func(i ssa.Instruction) {
		if call, ok := i.(*ssa.Call); ok && isDynamicCall(&call.Call) {
			dyn[i] = true
			calls = append(calls, call)
		}
		if cc := callCommon(i); cc != nil {
			if _, isCall := i.(*ssa.Call); !isCall && isDynamicCall(cc) {
				dyn[i] = true // go/defer of a filter: counted, and rejected below
			}
		}
	})
	min, max, ok := countOnPaths(fn, nil, dyn)
	c.check(ok && min == 1 && max == 1, name, "exactly one dynamic call per invocation", p.pos(fn.Pos()),
		"min = max = 1 over all entry-to-return paths", "dynamic calls per invocation: min="+itoa(min)+" max="+maxStr(max)+" (a filter or the target is skipped, or run more than once)")
	facts := factsAt(fn)
	// symbolic value of f.Index relative to its value on entry, per load
	idxOffset := symbolicFieldOffsets(fn, recv, "Index")
	for _, call := range calls {
		callee := strip(call.Call.Value)
		if _, ok := fieldLoadIs(callee, "FilterChain", "Target"); ok {
			b, _ := fieldLoadIs(callee, "FilterChain", "Target")
			okArgs := len(call.Call.Args) == 2 && call.Call.Args[0] == ssa.Value(fn.Params[1]) && call.Call.Args[1] == ssa.Value(fn.Params[2])
			c.check(strip(b) == ssa.Value(recv) && okArgs, name, "target call: f.Target(request, response)", p.ipos(call), "own target, own arguments", "the target is called with other arguments or is another chain's target")
			// guard: filters exhausted
			g := false
			for f := range facts[call.Block()] {
				if isIndexGuard(f, recv, false) {
					g = true
				}
			}
			c.check(g, name, "target call only when the filters are exhausted", p.ipos(call), "reached on the false edge of Index < len(Filters)", "the target can run although filters remain")
			continue
		}
		// filter call: callee is load of &Filters[idx]
		u, ok := callee.(*ssa.UnOp)
		var ia *ssa.IndexAddr
		if ok && u.Op == token.MUL {
			ia, _ = u.X.(*ssa.IndexAddr)
		}
		if ia == nil {
			if ix, ok := callee.(*ssa.Index); ok {
				_ = ix
			}
			c.undecided(name, "dynamic call of an unrecognised callee", p.ipos(call), "callee is neither f.Target nor an element of f.Filters")
			continue
		}
		b, okF := fieldLoadIs(ia.X, "FilterChain", "Filters")
		c.check(okF && strip(b) == ssa.Value(recv), name, "filter call: callee is an element of f.Filters", p.ipos(call), "own filter list", "the callee is not taken from this chain's filter list")
		off, okOff := evalOffset(ia.Index, idxOffset)
		c.check(okOff && off == 0, name, "filter call: the filter at the old index", p.ipos(call),
			"index expression evaluates to Index-on-entry", "the index expression does not evaluate to the value Index had on entry (offset "+itoa(off)+"): a filter is skipped or repeated")
		okArgs := len(call.Call.Args) == 3 && call.Call.Args[0] == ssa.Value(fn.Params[1]) && call.Call.Args[1] == ssa.Value(fn.Params[2]) && strip(call.Call.Args[2]) == ssa.Value(recv)
		c.check(okArgs, name, "filter call: arguments (request, response, f)", p.ipos(call), "own arguments and own chain", "the filter receives a different request/response/chain")
		g := false
		for f := range facts[call.Block()] {
			if isIndexGuard(f, recv, true) {
				g = true
			}
		}
		c.check(g, name, "filter call guarded by Index < len(Filters)", p.ipos(call), "reached on the true edge", "the filter call is not guarded by the bounds test")
		// Index advanced by exactly one before the call and untouched afterwards
		var before, after []*ssa.Store
		eachInstr(fn, func(i ssa.Instruction) {
			st, ok := i.(*ssa.Store)
			if !ok {
				return
			}
			fa, ok := st.Addr.(*ssa.FieldAddr)
			if !ok || fieldOfAddr(fa).Name() != "Index" || strip(fa.X) != ssa.Value(recv) {
				return
			}
			if instrDominates(st, call) {
				before = append(before, st)
			} else if canReach(call, st) {
				after = append(after, st)
			} else if canReach(st, call) {
				before = append(before, st) // conditional store before the call: evaluated below
			}
		})
		adv := false
		if len(before) >= 1 {
			last := before[len(before)-1]
			if off, ok := evalOffset(last.Val, idxOffset); ok && off == 1 && instrDominates(last, call) {
				adv = true
			}
		}
		c.check(adv, name, "Index advanced by one before the filter runs", p.ipos(call), "the store Index = old+1 dominates the call",
			"Index is not advanced (by exactly one) before the filter is called: when the filter continues the chain it re-enters itself or skips a filter")
		c.check(len(after) == 0, name, "Index untouched after the filter returns", p.ipos(call), "no store to Index is reachable after the call",
			"Index is modified after the filter returns: the chain position is no longer monotonic, a filter that passes control on late or twice re-runs filters")
	}
}

func maxStr(n int) string {
	if n >= pathInf {
		return "unbounded"
	}
	return itoa(n)
}

// isIndexGuard recognises the fact (f.Index < len(f.Filters)) == pol.
func isIndexGuard(f condFact, recv ssa.Value, pol bool) bool {
	b, ok := f.Cond.(*ssa.BinOp)
	if !ok {
		return false
	}
	var lhs, rhs ssa.Value
	want := pol
	switch b.Op {
	case token.LSS:
		lhs, rhs = b.X, b.Y
	case token.GTR:
		lhs, rhs = b.Y, b.X
	case token.GEQ:
		lhs, rhs, want = b.X, b.Y, !pol
	case token.LEQ:
		lhs, rhs, want = b.Y, b.X, !pol
	default:
		return false
	}
	if f.Pol != want {
		return false
	}
	bi, ok := fieldLoadIs(lhs, "FilterChain", "Index")
	if !ok || strip(bi) != recv {
		return false
	}
	call, ok := strip(rhs).(*ssa.Call)
	if !ok || !isBuiltinCall(call, "len") {
		return false
	}
	bf, ok := fieldLoadIs(call.Call.Args[0], "FilterChain", "Filters")
	return ok && strip(bf) == recv
}

// symbolicFieldOffsets evaluates, for every load of recv.<field> (an int), its value as
// "value on entry + k", following the stores along dominating straight-line code.
// The map gives k per load instruction; loads whose value is not of that form are absent.
func symbolicFieldOffsets(fn *ssa.Function, recv ssa.Value, field string) map[ssa.Value]int {
	out := map[ssa.Value]int{}
	isFieldAddr := func(v ssa.Value) bool {
		fa, ok := v.(*ssa.FieldAddr)
		return ok && fieldOfAddr(fa).Name() == field && strip(fa.X) == recv
	}
	// forward dataflow over blocks: state = known offset or unknown
	type st struct {
		known bool
		off   int
	}
	in := map[*ssa.BasicBlock]st{fn.Blocks[0]: {true, 0}}
	outb := map[*ssa.BasicBlock]st{}
	for iter := 0; iter < 10; iter++ {
		changed := false
		for _, b := range fn.Blocks {
			var cur st
			if b == fn.Blocks[0] {
				cur = st{true, 0}
			} else {
				first := true
				for _, pr := range b.Preds {
					o, ok := outb[pr]
					if !ok {
						continue
					}
					if first {
						cur, first = o, false
					} else if !(o.known && cur.known && o.off == cur.off) {
						cur = st{false, 0}
					}
				}
				if first {
					continue
				}
			}
			in[b] = cur
			for _, ins := range b.Instrs {
				switch x := ins.(type) {
				case *ssa.UnOp:
					if x.Op == token.MUL && isFieldAddr(x.X) && cur.known {
						out[x] = cur.off
					}
				case *ssa.Store:
					if isFieldAddr(x.Addr) {
						if off, ok := evalOffset(x.Val, out); ok {
							cur = st{true, off}
						} else {
							cur = st{false, 0}
						}
					}
				case *ssa.Call:
					// a call may change the field through the receiver - when it is handed the receiver
					if !isBuiltinCall(x, "len") {
						gets := x.Call.IsInvoke() && strip(x.Call.Value) == recv
						for _, a := range x.Call.Args {
							if strip(a) == recv {
								gets = true
							}
						}
						if mc, ok := x.Call.Value.(*ssa.MakeClosure); ok {
							for _, b := range mc.Bindings {
								if strip(b) == recv {
									gets = true
								}
							}
						}
						if gets {
							cur = st{false, 0}
						}
					}
				}
			}
			if o, ok := outb[b]; !ok || o != cur {
				outb[b] = cur
				changed = true
			}
		}
		if !changed {
			break
		}
	}
	return out
}

// evalOffset evaluates v as entry-value + k using the per-load offsets.
func evalOffset(v ssa.Value, loads map[ssa.Value]int) (int, bool) {
	v = strip(v)
	if k, ok := loads[v]; ok {
		return k, true
	}
	if b, ok := v.(*ssa.BinOp); ok {
		if n, ok := constInt(b.Y); ok {
			if k, ok := evalOffset(b.X, loads); ok {
				switch b.Op {
				case token.ADD:
					return k + int(n), true
				case token.SUB:
					return k - int(n), true
				}
			}
		}
		if n, ok := constInt(b.X); ok && b.Op == token.ADD {
			if k, ok := evalOffset(b.Y, loads); ok {
				return k + int(n), true
			}
		}
	}
	return 0, false
}

// ---------------------------------------------------------------------------

func ruleC06c(c *Ctx) {
	p := c.P
	e := newEffectCtx(p)
	for _, fn := range p.requestPathFuncs() {
		name := p.fname(fn)
		// every ProcessFilter call made by framework code
		eachInstr(fn, func(i ssa.Instruction) {
			cc := callCommon(i)
			if cc == nil || cc.StaticCallee() == nil || cc.StaticCallee().Name() != "ProcessFilter" || recvTypeName(cc.StaticCallee()) != "FilterChain" {
				return
			}
			recv := strip(cc.Args[0])
			switch x := recv.(type) {
			case *ssa.Alloc:
				// a chain built here: processed exactly once on every path after its construction
				sites := map[ssa.Instruction]bool{}
				for _, m := range methodCallsOn(fn, x, "ProcessFilter") {
					sites[m] = true
				}
				// start counting at the last initialising store
				var last ssa.Instruction = x
				for _, r := range referrers(x) {
					if st, ok := r.(*ssa.Store); ok && st.Addr == ssa.Value(x) {
						last = st
					}
				}
				min, max, ok := countOnPaths(fn, last, sites)
				c.check(ok && min == 1 && max == 1, name, "chain built here is processed exactly once", p.ipos(i),
					"local FilterChain; ProcessFilter min = max = 1 on every path after construction",
					"ProcessFilter on the chain built here runs min="+itoa(min)+" max="+maxStr(max)+" times")
				if _, isGo := i.(*ssa.Go); isGo {
					c.bad(name, "chain processed in a new goroutine", p.ipos(i), "the chain outlives the request's activation")
				}
			default:
				// continuing a chain received as an argument (a framework filter): must be the filter's own chain parameter
				okParam := false
				for _, s := range p.sources(recv, provDefault) {
					if prm, ok := s.(*ssa.Parameter); ok && isPtrToRestful(prm.Type(), "FilterChain") {
						okParam = true
					} else {
						okParam = false
						break
					}
				}
				c.check(okParam, name, "continues the chain it was given", p.ipos(i), "receiver is the filter's own chain parameter", "ProcessFilter is called on a chain that is neither local nor the filter's own parameter (a stored or foreign chain)")
				checkPairPassedOn(c, fn, i)
			}
		})
		// slices handed to a chain: shared lists read-only, or fresh
		for _, chain := range p.allocsOfType(fn, "FilterChain") {
			for _, st := range p.structInits(chain)["Filters"] {
				v := strip(st.Val)
				if _, _, ok := fieldLoad(v); ok {
					c.ok(name, "chain uses a shared filter list read-only", p.ipos(st), "the list is stored, not appended to")
					continue
				}
				base, _, _ := spreadAppendChain(v)
				r := e.classifySlice(base, 0)
				c.check(r.OK, name, "chain's own filter slice is fresh", p.ipos(st), r.Why,
					"the chain's slice is built by appending onto "+r.Why+": concurrent requests write into one backing array")
			}
		}
	}
}

// ---------------------------------------------------------------------------

func ruleC06d(c *Ctx) {
	p := c.P
	n := 0
	// inner handlers: handler-shaped closures that continue a chain
	for _, inner := range p.SrcFunc {
		if requestShape(inner.Signature) != "http-handler" || inner.Parent() == nil {
			continue
		}
		var pf []ssa.Instruction
		eachInstr(inner, func(i ssa.Instruction) {
			if isProcessFilterCall(i) {
				pf = append(pf, i)
			}
		})
		if len(pf) == 0 {
			continue
		}
		// only adapters: the chain continued is a captured *FilterChain parameter of an enclosing function
		cc0 := callCommon(pf[0])
		captured := false
		for _, s := range p.sources(cc0.Args[0], provDefault) {
			if prm, ok := s.(*ssa.Parameter); ok && prm.Parent() != inner && isPtrToRestful(prm.Type(), "FilterChain") {
				captured = true
			}
		}
		if !captured {
			continue
		}
		n++
		name := p.fname(inner)
		sites := map[ssa.Instruction]bool{}
		for _, i := range pf {
			sites[i] = true
		}
		min, max, ok := countOnPaths(inner, nil, sites)
		c.check(ok && min == 1 && max == 1, name, "adapter continues the chain exactly once", p.pos(inner.Pos()), "min = max = 1", "ProcessFilter runs min="+itoa(min)+" max="+maxStr(max)+" times in the adapter's handler")
		call := pf[0]
		rw, rq := inner.Params[0], inner.Params[1]
		var stReq, stResp *ssa.Store
		eachInstr(inner, func(i ssa.Instruction) {
			st, ok := i.(*ssa.Store)
			if !ok {
				return
			}
			fa, ok := st.Addr.(*ssa.FieldAddr)
			if !ok {
				return
			}
			switch {
			case ownerOfFieldAddr(fa) == "Request" && fieldOfAddr(fa).Name() == "Request" && strip(st.Val) == ssa.Value(rq):
				stReq = st
			case ownerOfFieldAddr(fa) == "Response" && fieldOfAddr(fa).Name() == "ResponseWriter" && strip(st.Val) == ssa.Value(rw):
				stResp = st
			}
		})
		c.check(stReq != nil && instrDominates(stReq, call), name, "request rebound before the chain continues", p.ipos(call),
			"req.Request = r dominates ProcessFilter", "the chain continues with the request the middleware replaced: later filters and the handler do not see what the middleware passed on")
		c.check(stResp != nil && instrDominates(stResp, call), name, "response writer rebound before the chain continues", p.ipos(call),
			"resp.ResponseWriter = rw dominates ProcessFilter", "the chain continues with the old response writer: a wrapping middleware is bypassed")
		cc := callCommon(call)
		argsOK := len(cc.Args) == 3
		if argsOK && stReq != nil && stResp != nil {
			argsOK = p.sameVar(cc.Args[1], stReq.Addr.(*ssa.FieldAddr).X) && p.sameVar(cc.Args[2], stResp.Addr.(*ssa.FieldAddr).X)
		}
		c.check(argsOK, name, "chain continues with the rebound pair", p.ipos(call), "ProcessFilter(req, resp) on the objects just rebound", "ProcessFilter receives a different pair than the one rebound")
		// the chain, request and response the handler continues with belong to the current activation of the filter
		perActivation, whose := true, ""
		for k, a := range cc.Args {
			for _, root := range p.loadOfCell(strip(a)) {
				if requestShape(root.Parent().Signature) != "filter-function" {
					perActivation = false
					whose = []string{"chain", "request", "response"}[k%3] + " variable " + root.Comment + " of " + p.fname(root.Parent())
				}
			}
		}
		c.check(perActivation, name, "adapter state belongs to the current filter activation", p.ipos(call), "the captured chain, request and response are the filter function's own parameters",
			"the handler continues with the "+whose+", which every activation of the filter shares: concurrent (or nested) requests through the same adapter continue each other's chain")
	}
	// outer filters: filter-shaped functions that start a wrapped http.Handler
	for _, outer := range p.SrcFunc {
		if requestShape(outer.Signature) != "filter-function" {
			continue
		}
		serve := map[ssa.Instruction]bool{}
		eachInstr(outer, func(i ssa.Instruction) {
			if cc := callCommon(i); cc != nil && cc.IsInvoke() && cc.Method.Name() == "ServeHTTP" {
				serve[i] = true
			}
		})
		if len(serve) == 0 {
			continue
		}
		n++
		min, max, ok := countOnPaths(outer, nil, serve)
		c.check(ok && min == 1 && max == 1, p.fname(outer), "adapter invokes the middleware exactly once", p.pos(outer.Pos()), "ServeHTTP min = max = 1", "the middleware handler runs min="+itoa(min)+" max="+maxStr(max)+" times")
		for i := range serve {
			cc := callCommon(i)
			_, okW := fieldLoadIs(cc.Args[0], "Response", "ResponseWriter")
			_, okR := fieldLoadIs(cc.Args[1], "Request", "Request")
			c.check(okW && okR, p.fname(outer), "middleware receives the current writer and request", p.ipos(i), "ServeHTTP(resp.ResponseWriter, req.Request)", "the middleware is started with something other than the pair's current writer/request")
		}
	}
	if n == 0 {
		c.note("-", "no http-middleware adapter found", "-", "nothing to decide")
	}
}

// checkPairPassedOn: a framework filter continues the chain with the very *Request and *Response it received
// (the objects earlier filters hold), not with copies.
func checkPairPassedOn(c *Ctx, fn *ssa.Function, i ssa.Instruction) {
	p := c.P
	cc := callCommon(i)
	if len(cc.Args) != 3 {
		return
	}
	name := p.fname(fn)
	for k, what := range map[int]string{1: "Request", 2: "Response"} {
		okParam := false
		src := p.sources(cc.Args[k], provDefault)
		for _, s := range src {
			if prm, ok := s.(*ssa.Parameter); ok && isPtrToRestful(prm.Type(), what) && requestShape(prm.Parent().Signature) == "filter-function" {
				okParam = true
			} else {
				okParam = false
				break
			}
		}
		c.check(okParam, name, "continues the chain with the "+what+" it received", p.ipos(i), "argument is the filter's own *"+what+" parameter",
			"the chain continues with a different *"+what+" object (a copy or a new wrapper): what later filters and the handler record on it (status, length, attributes) is invisible to the filters that ran before")
	}
}

// ---------------------------------------------------------------------------
// C06.f: a request that fails routing still passes the container filters: from the branch taken when the selector
// returned an error, every path to a return runs a chain exactly once (C06.a decides that such a chain holds
// exactly the container filters).

func chainRunners(p *Program) map[*ssa.Function]bool {
	// module functions that process a chain exactly once on every path (helpers a dispatcher may delegate to)
	out := map[*ssa.Function]bool{}
	for _, fn := range p.SrcFunc {
		if fn.Parent() != nil || fn.Blocks == nil || (fn.Name() == "ProcessFilter" && recvTypeName(fn) == "FilterChain") {
			continue
		}
		sites := map[ssa.Instruction]bool{}
		eachInstr(fn, func(i ssa.Instruction) {
			if isProcessFilterCall(i) {
				sites[i] = true
			}
		})
		if len(sites) == 0 {
			continue
		}
		if min, max, ok := countOnPaths(fn, nil, sites); ok && min == 1 && max == 1 {
			out[fn] = true
		}
	}
	return out
}

func ruleC06f(c *Ctx) {
	p := c.P
	ds, err := findDispatchers(p)
	if err != nil || len(ds) == 0 {
		c.undecided("-", "dispatching function", "-", "no function invoking RouteSelector.SelectRoute found")
		return
	}
	runners := chainRunners(p)
	n := 0
	for _, d := range ds {
		fn := d.Fn
		name := p.fname(fn)
		sites := map[ssa.Instruction]int{}
		eachInstr(fn, func(i ssa.Instruction) {
			if isProcessFilterCall(i) {
				sites[i] = 1
				return
			}
			if cc := callCommon(i); cc != nil && cc.StaticCallee() != nil && runners[cc.StaticCallee()] {
				sites[i] = 1
			}
		})
		for _, b := range fn.Blocks {
			iff, ok := b.Instrs[len(b.Instrs)-1].(*ssa.If)
			if !ok {
				continue
			}
			bo, ok := iff.Cond.(*ssa.BinOp)
			if !ok || (bo.Op != token.NEQ && bo.Op != token.EQL) || !isNilConst(bo.Y) || !p.isVar(bo.X, d.Err) {
				continue
			}
			if inTraceRegion(b) {
				continue // a test of the error made only to word a trace line
			}
			errSucc := b.Succs[0]
			if bo.Op == token.EQL {
				errSucc = b.Succs[1]
			}
			n++
			min, max, ok2 := countWeighted(fn, nil, errSucc, sites, nil)
			c.check(ok2 && min == 1 && max == 1, name, "a routing failure passes the container filters exactly once", p.ipos(iff),
				"every path from the error branch to a return processes one chain (min = max = 1)",
				"chains processed on the paths from the routing-error branch to a return: min="+itoa(min)+" max="+maxStr(max)+": some routing failure is answered without the container filters (or runs them twice)")
		}
	}
	if n == 0 {
		c.undecided("-", "routing-error branch", "-", "no test of the selector's error result found in the dispatching function")
	}
}
