package main

import (
	"go/token"
	"go/types"

	"golang.org/x/tools/go/ssa"
)

// Configuration lists are not built on one another's backing arrays (C06.g = C01.i). The lists that decide what runs
// for a route (filters, conditions, and the other slice fields of WebService, RouteBuilder, Route and similar
// builder objects) belong to one object each:
//  (ii) a list stored into a field is never `append(<list of ANOTHER object>, ...)`: when that other list has spare
//       capacity the appended elements land in its backing array, and the next object built the same way overwrites them;
//  (i)  a list taken over as it is from another object (`a.f = b.g`) is never grown in place afterwards
//       (`x.f = append(x.f, ...)` exists for that field): two takers then write the same slots.
// Both are invisible with 0, 1, 2, 4 or 8 elements and wrong with 3, 5, 6, 7 ...

func sliceFieldLoadOf(p *Program, v ssa.Value) (base ssa.Value, f *types.Var, ok bool) {
	for _, src := range append([]ssa.Value{strip(v)}, p.sources(v, provOpt{ThroughCells: true})...) {
		u, isU := strip(src).(*ssa.UnOp)
		if !isU || u.Op != token.MUL {
			continue
		}
		fa, isFA := u.X.(*ssa.FieldAddr)
		if !isFA {
			continue
		}
		if _, isSlice := fieldOfAddr(fa).Type().Underlying().(*types.Slice); !isSlice {
			continue
		}
		if fieldOfAddr(fa).Pkg() == nil || fieldOfAddr(fa).Pkg().Path() != modulePath {
			continue
		}
		return strip(fa.X), fieldOfAddr(fa), true
	}
	return nil, nil, false
}

// sameObjectPath: a and b denote the same object: the same value or variable, or loads of the same field of the same object.
func (p *Program) sameObjectPath(a, b ssa.Value, depth int) bool {
	a, b = strip(a), strip(b)
	if a == b || p.sameVar(a, b) {
		return true
	}
	if depth > 3 {
		return false
	}
	// two loads of one package variable
	if ua, ok := a.(*ssa.UnOp); ok && ua.Op == token.MUL {
		if ub, ok := b.(*ssa.UnOp); ok && ub.Op == token.MUL {
			if ga, ok := ua.X.(*ssa.Global); ok && ua.X == ub.X {
				_ = ga
				return true
			}
		}
	}
	ba, fa, oka := fieldLoad(a)
	bb, fb, okb := fieldLoad(b)
	if oka && okb && fa == fb {
		return p.sameObjectPath(ba, bb, depth+1)
	}
	// address of an embedded struct field: &x.f
	xa, isA := a.(*ssa.FieldAddr)
	xb, isB := b.(*ssa.FieldAddr)
	if isA && isB && fieldOfAddr(xa) == fieldOfAddr(xb) {
		return p.sameObjectPath(xa.X, xb.X, depth+1)
	}
	return false
}

func ruleNoSharedBackingArrays(c *Ctx) {
	p := c.P
	// fields that are grown in place somewhere: x.f = append(x.f, ...)
	grown := map[*types.Var]bool{}
	for _, fn := range p.SrcFunc {
		eachInstr(fn, func(i ssa.Instruction) {
			st, ok := i.(*ssa.Store)
			if !ok {
				return
			}
			fa, ok := st.Addr.(*ssa.FieldAddr)
			if !ok {
				return
			}
			call, ok := strip(st.Val).(*ssa.Call)
			if !ok || !isBuiltinCall(call, "append") {
				return
			}
			if b, f, ok := sliceFieldLoadOf(p, call.Call.Args[0]); ok && f == fieldOfAddr(fa) && p.sameObjectPath(b, fa.X, 0) {
				grown[f] = true
			}
		})
	}
	n := 0
	for _, fn := range p.SrcFunc {
		if p.Roles().RequestPath[fn] {
			continue // request-time appends onto shared storage are C19.a's
		}
		name := p.fname(fn)
		eachInstr(fn, func(i ssa.Instruction) {
			st, ok := i.(*ssa.Store)
			if !ok {
				return
			}
			fa, ok := st.Addr.(*ssa.FieldAddr)
			if !ok {
				return
			}
			dst := fieldOfAddr(fa)
			if _, isSlice := dst.Type().Underlying().(*types.Slice); !isSlice || dst.Pkg() == nil || dst.Pkg().Path() != modulePath {
				return
			}
			val := strip(st.Val)
			// (ii) append onto another object's list
			if call, ok := val.(*ssa.Call); ok && isBuiltinCall(call, "append") {
				b, f, ok := sliceFieldLoadOf(p, call.Call.Args[0])
				if !ok {
					return
				}
				n++
				same := f == dst && p.sameObjectPath(b, fa.X, 0)
				c.check(same, name, "a list is grown on its own backing array only", p.ipos(i),
					"append onto the very list that is assigned",
					"the list stored in "+ownerOfFieldAddr(fa)+"."+dst.Name()+" is built by appending onto "+f.Name()+" of another object: with spare capacity there the new elements are written into that object's backing array, and the next list built the same way overwrites them (a route ends up with another route's filter or condition)")
				return
			}
			// (i) taken over as it is, and grown in place elsewhere
			if b, f, ok := sliceFieldLoadOf(p, val); ok {
				if f == dst && p.sameObjectPath(b, fa.X, 0) {
					return
				}
				if !grown[dst] {
					return
				}
				if p.freshBase(fa) && !grown[f] {
					// a fresh object taking over a list that is never grown either
					return
				}
				n++
				c.bad(name, "a list taken over from another object is not grown in place", p.ipos(i),
					ownerOfFieldAddr(fa)+"."+dst.Name()+" is assigned the list "+f.Name()+" of another object as it is, and elsewhere "+dst.Name()+" is grown with append in place: every object that took the same list over writes its additions into the same slots, so the last one wins")
			}
		})
	}
	if n == 0 {
		c.triv("-", "configuration lists are not built on one another's backing arrays", "-", "no list field is assigned an append onto, or an in-place-grown alias of, another object's list")
	}
}
