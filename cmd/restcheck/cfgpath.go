package main

import (
	"go/token"

	"golang.org/x/tools/go/ssa"
)

const pathInf = 1 << 30

// countOnPaths returns the minimum and maximum number of designated instructions executed
// on a path from `from` (exclusive; nil = function entry) to a normal exit (Return) of fn.
// A designated instruction on a cycle gives max = pathInf. Paths ending in panic are not
// normal exits and are ignored. ok=false when no normal exit is reachable.
// stopAt, when non-nil, ends a path (counted as an exit) at those instructions.
func countOnPaths(fn *ssa.Function, from ssa.Instruction, sites map[ssa.Instruction]bool) (min, max int, ok bool) {
	w := map[ssa.Instruction]int{}
	for s, b := range sites {
		if b {
			w[s] = 1
		}
	}
	return countWeighted(fn, from, nil, w, nil)
}

// countWeighted is countOnPaths with a weight per designated instruction, an optional
// start block (instead of `from`), and an optional single target Return (other returns
// then do not count as exits).
func countWeighted(fn *ssa.Function, from ssa.Instruction, startBlock *ssa.BasicBlock, sites map[ssa.Instruction]int, target *ssa.Return) (min, max int, ok bool) {
	if fn.Blocks == nil {
		return 0, 0, false
	}
	// cycles: strongly connected components over the (recover-free) CFG
	inCycle := blocksOnCycles(fn)
	type res struct {
		min, max int
		ok       bool
	}
	memo := map[*ssa.BasicBlock]res{}
	onStack := map[*ssa.BasicBlock]bool{}
	var visit func(b *ssa.BasicBlock, start int) res
	visit = func(b *ssa.BasicBlock, start int) res {
		if start == 0 {
			if r, done := memo[b]; done {
				return r
			}
			if onStack[b] {
				return res{0, 0, false} // back edge: contributes nothing new
			}
			onStack[b] = true
			defer func() { onStack[b] = false }()
		}
		n := 0
		for k := start; k < len(b.Instrs); k++ {
			ins := b.Instrs[k]
			if wgt := sites[ins]; wgt > 0 {
				if inCycle[b] {
					n = pathInf
				} else {
					n = addSat(n, wgt)
				}
			}
			switch rr := ins.(type) {
			case *ssa.Return:
				r := res{n, n, true}
				if target != nil && rr != target {
					r = res{0, 0, false}
				}
				if start == 0 {
					memo[b] = r
				}
				return r
			case *ssa.Panic:
				r := res{0, 0, false}
				if start == 0 {
					memo[b] = r
				}
				return r
			}
		}
		out := res{pathInf, 0, false}
		for _, s := range b.Succs {
			r := visit(s, 0)
			if !r.ok {
				continue
			}
			out.ok = true
			if r.min < out.min {
				out.min = r.min
			}
			if r.max > out.max {
				out.max = r.max
			}
		}
		if out.ok {
			out.min = addSat(out.min, n)
			out.max = addSat(out.max, n)
		}
		if start == 0 {
			memo[b] = out
		}
		return out
	}
	var r res
	if startBlock != nil {
		r = visit(startBlock, 0)
	} else if from == nil {
		r = visit(fn.Blocks[0], 0)
	} else {
		// start after `from`; memo must not be polluted with the partial block
		r = visit(from.Block(), indexInBlock(from)+1)
	}
	// a designated instruction inside a loop may run any number of times
	var reach map[*ssa.BasicBlock]bool
	for s, wgt := range sites {
		if wgt <= 0 || !inCycle[s.Block()] {
			continue
		}
		if reach == nil {
			if startBlock != nil {
				reach = reachableBlocks([]*ssa.BasicBlock{startBlock}, nil)
			} else if from == nil {
				reach = reachableBlocks([]*ssa.BasicBlock{fn.Blocks[0]}, nil)
			} else {
				reach = reachableAfter(from.Block(), nil)
				reach[from.Block()] = reach[from.Block()] || inCycle[from.Block()]
			}
		}
		if reach[s.Block()] {
			r.max = pathInf
		}
	}
	return r.min, r.max, r.ok
}

func addSat(a, b int) int {
	if a >= pathInf || b >= pathInf {
		return pathInf
	}
	return a + b
}

// blocksOnCycles returns the blocks that lie on some CFG cycle.
func blocksOnCycles(fn *ssa.Function) map[*ssa.BasicBlock]bool {
	out := map[*ssa.BasicBlock]bool{}
	for _, b := range fn.Blocks {
		// b is on a cycle iff b is reachable from one of its successors
		r := reachableAfter(b, nil)
		if r[b] {
			out[b] = true
		}
	}
	return out
}

// exitsReachable lists the Return instructions reachable from instruction a.
func exitsReachable(a ssa.Instruction) []*ssa.Return {
	var out []*ssa.Return
	for _, r := range returnsOf(a.Parent()) {
		if canReach(a, r) {
			out = append(out, r)
		}
	}
	return out
}

// blockFactsHave reports whether cond==pol is known on entry to block b.
func blockFactsHave(facts map[*ssa.BasicBlock]map[condFact]bool, b *ssa.BasicBlock, cond ssa.Value, pol bool) bool {
	return facts[b][condFact{cond, pol}]
}

// reachEdgeSensitive computes the blocks reachable when control enters `start` from `pred`,
// with one refinement (DESIGN §2.1 A-cfg): a block that branches on a Phi of boolean
// constants defined in that same block chooses its successor by the incoming edge
// (the `found := false ... found = true; break ... if found` idiom).
func reachEdgeSensitive(start, pred *ssa.BasicBlock) map[*ssa.BasicBlock]bool {
	type node struct{ b, from *ssa.BasicBlock }
	seen := map[node]bool{}
	out := map[*ssa.BasicBlock]bool{}
	stack := []node{{start, pred}}
	for len(stack) > 0 {
		n := stack[len(stack)-1]
		stack = stack[:len(stack)-1]
		if seen[n] {
			continue
		}
		seen[n] = true
		out[n.b] = true
		succs := n.b.Succs
		if iff, ok := n.b.Instrs[len(n.b.Instrs)-1].(*ssa.If); ok && n.from != nil {
			cond := iff.Cond
			neg := false
			for {
				u, ok := cond.(*ssa.UnOp)
				if !ok || u.Op != token.NOT {
					break
				}
				cond, neg = u.X, !neg
			}
			if phi, vals, ok := phiBoolConsts(cond); ok && phi.Block() == n.b {
				for k, p := range n.b.Preds {
					if p == n.from {
						v := vals[k] != neg
						if v {
							succs = []*ssa.BasicBlock{n.b.Succs[0]}
						} else {
							succs = []*ssa.BasicBlock{n.b.Succs[1]}
						}
					}
				}
			}
		}
		for _, s := range succs {
			stack = append(stack, node{s, n.b})
		}
	}
	return out
}

// ---------------------------------------------------------------------------
// acyclic path enumeration (for functions whose decisions merge again, where block-level
// must-facts are lost at the join): every path visits a block at most once.

type cfgPath struct {
	Blocks []*ssa.BasicBlock
	Facts  map[condFact]bool
}

// enumPaths lists the acyclic paths from the entry of fn to block `to` (or, when to is nil, to
// every block ending in a Return). It gives up (ok=false) beyond limit paths.
func enumPaths(fn *ssa.Function, to *ssa.BasicBlock, limit int) (paths []cfgPath, ok bool) {
	if fn.Blocks == nil {
		return nil, false
	}
	ok = true
	var cur []*ssa.BasicBlock
	on := map[*ssa.BasicBlock]bool{}
	var canReachTo map[*ssa.BasicBlock]bool
	if to != nil {
		canReachTo = map[*ssa.BasicBlock]bool{to: true}
		for changed := true; changed; {
			changed = false
			for _, b := range fn.Blocks {
				if canReachTo[b] {
					continue
				}
				for _, s := range b.Succs {
					if canReachTo[s] {
						canReachTo[b] = true
						changed = true
					}
				}
			}
		}
	}
	var walk func(b *ssa.BasicBlock)
	walk = func(b *ssa.BasicBlock) {
		if !ok || on[b] {
			return
		}
		if canReachTo != nil && !canReachTo[b] {
			return
		}
		on[b] = true
		cur = append(cur, b)
		defer func() { on[b] = false; cur = cur[:len(cur)-1] }()
		end := false
		if to != nil {
			end = b == to
		} else if _, isRet := b.Instrs[len(b.Instrs)-1].(*ssa.Return); isRet {
			end = true
		}
		if end {
			if len(paths) >= limit {
				ok = false
				return
			}
			p := cfgPath{Blocks: append([]*ssa.BasicBlock{}, cur...), Facts: map[condFact]bool{}}
			for k := 0; k+1 < len(p.Blocks); k++ {
				pr, nx := p.Blocks[k], p.Blocks[k+1]
				if iff, isIf := pr.Instrs[len(pr.Instrs)-1].(*ssa.If); isIf && pr.Succs[0] != pr.Succs[1] {
					addCondFacts(p.Facts, iff.Cond, pr.Succs[0] == nx)
				}
			}
			feasible := resolvePhisOnPath(&p)
			if !feasible {
				return
			}
			// a comparison made twice with the same operands has one value on a path
			type cmpKey struct {
				op   token.Token
				x, y ssa.Value
			}
			seen := map[cmpKey]bool{}
			pol := map[cmpKey]bool{}
			for f := range p.Facts {
				if bo, isB := f.Cond.(*ssa.BinOp); isB {
					k := cmpKey{bo.Op, canonOperand(bo.X), canonOperand(bo.Y)}
					if seen[k] && pol[k] != f.Pol {
						return // infeasible
					}
					seen[k], pol[k] = true, f.Pol
				}
			}
			if len(seen) > 0 {
				for _, pb := range fn.Blocks {
					for _, ins := range pb.Instrs {
						if bo, isB := ins.(*ssa.BinOp); isB {
							if k := (cmpKey{bo.Op, canonOperand(bo.X), canonOperand(bo.Y)}); seen[k] {
								p.Facts[condFact{bo, pol[k]}] = true
							}
						}
					}
				}
			}
			deriveFacts(p.Facts)
			paths = append(paths, p)
			return
		}
		succs := b.Succs
		// a block branching on a phi of its own: the incoming edge decides where its value is a constant
		if len(cur) >= 2 {
			succs = threadedSuccs(b, cur[len(cur)-2])
		}
		for _, s := range succs {
			walk(s)
		}
	}
	walk(fn.Blocks[0])
	return paths, ok
}

// resolvePhisOnPath: a boolean phi whose value is known on this path has, on this path, the value of the edge the
// path took into its block: that value is known too (and a contradicting constant makes the path infeasible).
func resolvePhisOnPath(p *cfgPath) bool {
	feasible := true
	idx := map[*ssa.BasicBlock]int{}
	for k, pb := range p.Blocks {
		idx[pb] = k
	}
	for round := 0; round < 4 && feasible; round++ {
		added := false
		for f := range p.Facts {
			ph, isPhi := f.Cond.(*ssa.Phi)
			if !isPhi {
				continue
			}
			k, onPath := idx[ph.Block()]
			if !onPath || k == 0 {
				continue
			}
			from := p.Blocks[k-1]
			for e, pr := range ph.Block().Preds {
				if pr != from || e >= len(ph.Edges) {
					continue
				}
				if v, isC := constBool(ph.Edges[e]); isC {
					if v != f.Pol {
						feasible = false
					}
					continue
				}
				if !p.Facts[condFact{ph.Edges[e], f.Pol}] {
					addCondFacts(p.Facts, ph.Edges[e], f.Pol)
					added = true
				}
			}
		}
		if !added {
			break
		}
	}
	return feasible
}

// enumPathsBetween lists the acyclic paths from block `from` to block `to` (both included).
func enumPathsBetween(fn *ssa.Function, from, to *ssa.BasicBlock, limit int) (paths []cfgPath, ok bool) {
	ok = true
	var cur []*ssa.BasicBlock
	on := map[*ssa.BasicBlock]bool{}
	var walk func(b *ssa.BasicBlock)
	walk = func(b *ssa.BasicBlock) {
		if !ok {
			return
		}
		if b == to && len(cur) > 0 {
			if len(paths) >= limit {
				ok = false
				return
			}
			p := cfgPath{Blocks: append(append([]*ssa.BasicBlock{}, cur...), b), Facts: map[condFact]bool{}}
			for k := 0; k+1 < len(p.Blocks); k++ {
				pr, nx := p.Blocks[k], p.Blocks[k+1]
				if iff, isIf := pr.Instrs[len(pr.Instrs)-1].(*ssa.If); isIf && pr.Succs[0] != pr.Succs[1] {
					addCondFacts(p.Facts, iff.Cond, pr.Succs[0] == nx)
				}
			}
			if !resolvePhisOnPath(&p) {
				return
			}
			deriveFacts(p.Facts)
			paths = append(paths, p)
			return
		}
		if on[b] {
			return
		}
		on[b] = true
		cur = append(cur, b)
		for _, s := range b.Succs {
			walk(s)
		}
		cur = cur[:len(cur)-1]
		on[b] = false
	}
	walk(from)
	return paths, ok
}

// instrsOn lists the instructions executed along the path, in order.
func (p cfgPath) instrs() []ssa.Instruction {
	var out []ssa.Instruction
	for _, b := range p.Blocks {
		out = append(out, b.Instrs...)
	}
	return out
}

func (p cfgPath) has(b *ssa.BasicBlock) bool {
	for _, x := range p.Blocks {
		if x == b {
			return true
		}
	}
	return false
}

// calleeImpliedFacts: what is known inside a boolean module helper whenever it returns pol: the conditions common to
// every path of the helper that can return that value (over the helper's own values; its parameters stand for the
// call's arguments). nil when the callee is not a module function with one boolean result or has too many paths.
func calleeImpliedFacts(p *Program, call *ssa.Call, pol bool) map[condFact]bool {
	h := call.Call.StaticCallee()
	if h == nil || !p.inModule(h) || h.Blocks == nil || h.Signature.Results().Len() != 1 || !isBoolResult(call) {
		return nil
	}
	paths, ok := enumPaths(h, nil, 200)
	if !ok {
		return nil
	}
	var common map[condFact]bool
	for _, pa := range paths {
		ret, isRet := pa.Blocks[len(pa.Blocks)-1].Instrs[len(pa.Blocks[len(pa.Blocks)-1].Instrs)-1].(*ssa.Return)
		if !isRet || len(ret.Results) != 1 {
			return nil
		}
		fs := map[condFact]bool{}
		for f := range pa.Facts {
			fs[f] = true
		}
		if v, isC := constBool(ret.Results[0]); isC {
			if v != pol {
				continue
			}
		} else {
			addCondFacts(fs, ret.Results[0], pol)
			if fs[condFact{ret.Results[0], !pol}] {
				continue // the path cannot return pol
			}
			// `return a && b` returns a phi: on the path that skipped b it is the constant false
			pp := cfgPath{Blocks: pa.Blocks, Facts: fs}
			if !resolvePhisOnPath(&pp) {
				continue
			}
		}
		if common == nil {
			common = fs
			continue
		}
		for f := range common {
			if !fs[f] {
				delete(common, f)
			}
		}
	}
	return common
}

// isLoopHeader: b dominates one of its predecessors.
func isLoopHeader(b *ssa.BasicBlock) bool {
	for _, pr := range b.Preds {
		if b.Dominates(pr) {
			return true
		}
	}
	return false
}

// naturalLoop: the blocks of the loop headed by h - dominated by h and able to come back to h without leaving the
// blocks h dominates.
func naturalLoop(h *ssa.BasicBlock) map[*ssa.BasicBlock]bool {
	in := map[*ssa.BasicBlock]bool{h: true}
	var work []*ssa.BasicBlock
	for _, pr := range h.Preds {
		if h.Dominates(pr) && !in[pr] {
			in[pr] = true
			work = append(work, pr)
		}
	}
	for len(work) > 0 {
		b := work[len(work)-1]
		work = work[:len(work)-1]
		for _, pr := range b.Preds {
			if !in[pr] && h.Dominates(pr) {
				in[pr] = true
				work = append(work, pr)
			}
		}
	}
	return in
}

// innermostLoop: the header of the innermost natural loop that contains b, and that loop's blocks.
func innermostLoop(b *ssa.BasicBlock) (*ssa.BasicBlock, map[*ssa.BasicBlock]bool) {
	for h := b; h != nil; h = h.Idom() {
		if isLoopHeader(h) {
			if l := naturalLoop(h); l[b] {
				return h, l
			}
		}
	}
	return nil, nil
}
