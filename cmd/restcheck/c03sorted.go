package main

import (
	"go/token"

	"golang.org/x/tools/go/ssa"
)

// Sorted before read (C03.b, second clause). The rule about returns ("the sort dominates every return that hands the
// candidates on") is about one function; when selection and ranking live in one function there is no such return.
// What the property needs is independent of where the function boundaries are: once a candidate has been added, no
// element of the collection is read (indexed, ranged over, sliced, passed on, returned) outside the loop that adds
// candidates unless sort.Sort ran in between, or the collection holds fewer than two elements.

// sameCollection: the SSA values that stand for the sorted collection: the value itself and every load of the
// variable it was loaded from.
func (p *Program) sameCollection(coll ssa.Value) (vals map[ssa.Value]bool, cells []*ssa.Alloc) {
	vals = map[ssa.Value]bool{strip(coll): true}
	cells = p.loadOfCell(strip(coll))
	for _, a := range cells {
		for _, l := range p.cellLoads(a) {
			vals[l] = true
		}
	}
	return
}

// populationSites: the instructions that add an element to the collection.
func (p *Program) populationSites(fn *ssa.Function, vals map[ssa.Value]bool, cells []*ssa.Alloc) []ssa.Instruction {
	isCell := map[ssa.Value]bool{}
	for _, a := range cells {
		isCell[a] = true
	}
	var out []ssa.Instruction
	eachInstr(fn, func(i ssa.Instruction) {
		if cc := callCommon(i); cc != nil {
			if cal := cc.StaticCallee(); cal != nil && appendsParamToReceiver(cal) && len(cc.Args) > 0 && isCell[cc.Args[0]] {
				out = append(out, i)
			}
		}
		if st, ok := i.(*ssa.Store); ok && isCell[st.Addr] {
			if call, ok := strip(st.Val).(*ssa.Call); ok && isBuiltinCall(call, "append") {
				out = append(out, i)
			}
		}
		// a collection kept in registers: v2 = append(v1, x) where v1 is (a phi of) the collection
		if call, ok := i.(*ssa.Call); ok && isBuiltinCall(call, "append") && len(cells) == 0 {
			for v := range vals {
				if phi, ok := v.(*ssa.Phi); ok {
					for _, e := range phi.Edges {
						if e == ssa.Value(call) {
							out = append(out, i)
						}
					}
				}
			}
		}
	})
	return out
}

// smallLenEdge: leaving block b through successor k asserts that the collection has fewer than two elements.
func smallLenEdge(b *ssa.BasicBlock, k int, vals map[ssa.Value]bool) bool {
	ifi, ok := b.Instrs[len(b.Instrs)-1].(*ssa.If)
	if !ok {
		return false
	}
	bo, ok := ifi.Cond.(*ssa.BinOp)
	if !ok {
		return false
	}
	pol := k == 0
	x, y, op := bo.X, bo.Y, bo.Op
	if _, isC := constInt(x); isC {
		x, y = y, x
		op = mirrorOp[op]
	}
	call, ok := x.(*ssa.Call)
	if !ok || !isBuiltinCall(call, "len") || !vals[strip(call.Call.Args[0])] {
		return false
	}
	n, ok := constInt(y)
	if !ok {
		return false
	}
	if !pol {
		op = complementOp[op]
	}
	switch op {
	case token.LSS:
		return n <= 2
	case token.LEQ:
		return n <= 1
	case token.EQL:
		return n <= 1
	}
	return false
}

// reachesSkipping: b can execute after a on a path that does not execute `stop` and does not leave a block through an
// edge rejected by edgeOK.
func reachesSkipping(a, b, stop ssa.Instruction, edgeOK func(blk *ssa.BasicBlock, k int) bool) bool {
	seen := map[*ssa.BasicBlock]bool{}
	var walk func(blk *ssa.BasicBlock, from int) bool
	walk = func(blk *ssa.BasicBlock, from int) bool {
		for k := from; k < len(blk.Instrs); k++ {
			if blk.Instrs[k] == b {
				return true
			}
			if blk.Instrs[k] == stop {
				return false
			}
		}
		for k, s := range blk.Succs {
			if seen[s] || !edgeOK(blk, k) {
				continue
			}
			seen[s] = true
			if walk(s, 0) {
				return true
			}
		}
		return false
	}
	return walk(a.Block(), indexInBlock(a)+1)
}

// elementReads: instructions that read elements of the collection or hand it on.
func elementReads(fn *ssa.Function, vals map[ssa.Value]bool, sortCall ssa.Instruction) []ssa.Instruction {
	var out []ssa.Instruction
	seen := map[ssa.Instruction]bool{}
	add := func(i ssa.Instruction) {
		if !seen[i] {
			seen[i] = true
			out = append(out, i)
		}
	}
	var visit func(v ssa.Value, depth int)
	visit = func(v ssa.Value, depth int) {
		if depth > 3 {
			return
		}
		for _, r := range referrers(v) {
			switch x := r.(type) {
			case *ssa.IndexAddr:
				if x.X == v {
					add(x)
				}
			case *ssa.Index:
				if x.X == v {
					add(x)
				}
			case *ssa.Range:
				add(x)
			case *ssa.Slice:
				if x.X == v {
					add(x)
				}
			case *ssa.Return:
				add(x)
			case *ssa.ChangeType:
				visit(x, depth+1)
			case *ssa.MakeInterface:
				visit(x, depth+1)
			case *ssa.Call:
				if x == sortCall || isBuiltinCall(x, "len") || isBuiltinCall(x, "cap") || isBuiltinCall(x, "append") {
					continue
				}
				if n := calleeName(&x.Call); n == "sort.Reverse" || n == "sort.Sort" || n == "sort.Stable" || n == "sort.IsSorted" {
					continue
				}
				add(x)
			}
		}
	}
	for v := range vals {
		visit(v, 0)
	}
	return out
}

func ruleC03bReads(c *Ctx, s sortSite) {
	p := c.P
	fn := s.Fn
	name := p.fname(fn)
	vals, cells := p.sameCollection(s.Coll)
	pops := p.populationSites(fn, vals, cells)
	if len(pops) == 0 {
		return // the collection was filled elsewhere: the rule about returns of the filling function applies there
	}
	edgeOK := func(b *ssa.BasicBlock, k int) bool { return !smallLenEdge(b, k, vals) }
	n := 0
	for _, u := range elementReads(fn, vals, s.Call) {
		// reads inside the loop that adds candidates are about the candidates seen so far, not about the ranking
		inPopLoop := false
		for _, a := range pops {
			if u.Block() == a.Block() || (reachableAfter(u.Block(), nil)[a.Block()] && reachableAfter(a.Block(), nil)[u.Block()]) {
				inPopLoop = true
			}
		}
		if inPopLoop {
			continue
		}
		n++
		skipped := ""
		for _, a := range pops {
			if reachesSkipping(a, u, s.Call, edgeOK) {
				skipped = p.ipos(a)
			}
		}
		c.check(skipped == "", name, "the candidates are sorted before an element is read", p.ipos(u),
			"every path from an addition to this read passes sort.Sort (or has fewer than two candidates)",
			"after the addition at "+skipped+" this read is reached on a path that does not sort: the candidates are used in the order they were registered")
	}
	_ = n
}

// ruleC03bCoversReturn: the return hands on the sorted collection itself and the function adds the candidates: the
// path-wise clause decides it.
func ruleC03bCoversReturn(c *Ctx, s sortSite, r *ssa.Return) bool {
	vals, cells := c.P.sameCollection(s.Coll)
	if len(c.P.populationSites(s.Fn, vals, cells)) == 0 {
		return false
	}
	for _, u := range elementReads(s.Fn, vals, s.Call) {
		if u == ssa.Instruction(r) {
			return true
		}
	}
	return false
}

// fewerThanTwoAt: the facts at return r say that the sorted collection (or the slice field of the collection object
// that holds the candidates) has fewer than two elements.
func fewerThanTwoAt(p *Program, s sortSite, r *ssa.Return) bool {
	vals, _ := p.sameCollection(s.Coll)
	isColl := func(v ssa.Value) bool {
		v = strip(v)
		if vals[v] {
			return true
		}
		if b, _, ok := fieldLoad(v); ok {
			b = strip(b)
			if vals[b] || p.sameVar(b, s.Coll) {
				return true
			}
		}
		return false
	}
	for f := range factsAt(s.Fn)[r.Block()] {
		bo, ok := f.Cond.(*ssa.BinOp)
		if !ok {
			continue
		}
		x, y, op := bo.X, bo.Y, bo.Op
		if _, isC := constInt(x); isC {
			x, y = y, x
			op = mirrorOp[op]
		}
		call, ok := x.(*ssa.Call)
		if !ok || !isBuiltinCall(call, "len") || !isColl(call.Call.Args[0]) {
			continue
		}
		n, ok := constInt(y)
		if !ok {
			continue
		}
		if !f.Pol {
			op = complementOp[op]
		}
		switch op {
		case token.LSS:
			if n <= 2 {
				return true
			}
		case token.LEQ, token.EQL:
			if n <= 1 {
				return true
			}
		}
	}
	return false
}
