package main

import (
	"fmt"
	"go/constant"
	"go/token"
	"go/types"
	"os"
	"path/filepath"
	"sort"
	"strings"

	"golang.org/x/tools/go/packages"
	"golang.org/x/tools/go/ssa"
	"golang.org/x/tools/go/ssa/ssautil"
)

const modulePath = "github.com/emicklei/go-restful/v3"

// Program is the type-checked, SSA-converted build of the repository under analysis.
type Program struct {
	fieldStoreCache map[*types.Var][]*ssa.Store
	Repo            string
	Fset            *token.FileSet
	Pkgs            []*packages.Package
	Prog            *ssa.Program
	Restful         *ssa.Package
	Log             *ssa.Package
	// Funcs are all functions (source functions, closures and synthetic wrappers)
	// that belong to the module, sorted by position then name.
	Funcs   []*ssa.Function
	SrcFunc []*ssa.Function // Funcs without synthetic wrappers
	byName  map[string]*ssa.Function
	NFiles  int

	cellsOnce    bool
	fvBinding    map[*ssa.FreeVar][]ssa.Value // free variable -> values bound at MakeClosure sites
	closureOf    map[*ssa.Function][]*ssa.MakeClosure
	cg           *CallGraph
	cgBuilding   bool
	roles        *Roles
	takenCache   map[*ssa.Function]bool
	reqTaint     map[ssa.Value]bool
	alwaysStatus map[*ssa.Function]bool
	Env          []string
	Opt          loadOptions
	Canonical    []string // identifiers rewritten to their canonical names (names.go)
	Overlay      map[string][]byte
	bceDone      bool
	tokCache     *tokenAnalysis
	bce          []bceSite
	bceErr       error
}

type loadOptions struct {
	Tests   bool
	GOARCH  string
	Overlay map[string][]byte // file name -> content replacing the file on disk (normal forms, inline.go)
	Quiet   bool              // do not print load errors (a normal form that does not type-check is simply unavailable)
}

// load type-checks ./... in repo and builds SSA for the module's packages.
// Any load problem is fatal: a check must never pass because nothing was analysed.
func load(repo string, opt loadOptions) (*Program, error) {
	abs, err := filepath.Abs(repo)
	if err != nil {
		return nil, err
	}
	env := os.Environ()
	filtered := env[:0:0]
	for _, e := range env {
		if strings.HasPrefix(e, "GOWORK=") || strings.HasPrefix(e, "GOFLAGS=") || strings.HasPrefix(e, "GOARCH=") {
			continue
		}
		filtered = append(filtered, e)
	}
	filtered = append(filtered, "GOWORK=off", "GOFLAGS=-mod=mod", "GOPROXY=off", "GOSUMDB=off", "GOTOOLCHAIN=local")
	if opt.GOARCH != "" {
		filtered = append(filtered, "GOARCH="+opt.GOARCH)
	}
	fset := token.NewFileSet()
	cfg := &packages.Config{
		Mode:    packages.LoadSyntax | packages.NeedModule,
		Dir:     abs,
		Fset:    fset,
		Env:     filtered,
		Tests:   opt.Tests,
		Overlay: opt.Overlay,
	}
	pkgs, err := packages.Load(cfg, "./...")
	if err != nil {
		return nil, fmt.Errorf("go/packages: %v", err)
	}
	if len(pkgs) == 0 {
		return nil, fmt.Errorf("no packages loaded from %s", abs)
	}
	nerr := 0
	packages.Visit(pkgs, nil, func(p *packages.Package) {
		for _, e := range p.Errors {
			if !opt.Quiet {
				fmt.Fprintf(os.Stderr, "load error: %s: %v\n", p.PkgPath, e)
			}
			nerr++
		}
	})
	if nerr > 0 {
		return nil, fmt.Errorf("%d load/type errors in %s", nerr, abs)
	}
	sort.Slice(pkgs, func(i, j int) bool { return pkgs[i].ID < pkgs[j].ID })
	prog, spkgs := ssautil.Packages(pkgs, ssa.InstantiateGenerics)
	p := &Program{Repo: abs, Fset: fset, Pkgs: pkgs, Prog: prog, byName: map[string]*ssa.Function{}, Env: filtered, Opt: opt, Overlay: opt.Overlay}
	for i, sp := range spkgs {
		if sp == nil {
			continue
		}
		id := pkgs[i].ID
		if strings.HasSuffix(id, ".test") {
			continue
		}
		variant := strings.Contains(id, "[")
		switch pkgs[i].PkgPath {
		case modulePath:
			// with Tests=true prefer the variant that also holds the in-package _test.go files
			if p.Restful == nil || variant == opt.Tests {
				p.Restful = sp
			}
		case modulePath + "/log":
			if p.Log == nil || variant == opt.Tests {
				p.Log = sp
			}
		}
	}
	if p.Restful == nil || p.Log == nil {
		return nil, fmt.Errorf("expected packages %s and %s/log, loaded %d packages", modulePath, modulePath, len(pkgs))
	}
	prog.Build()
	for _, pk := range pkgs {
		if pk.PkgPath == modulePath || pk.PkgPath == modulePath+"/log" {
			if !strings.Contains(pk.ID, "[") && !strings.HasSuffix(pk.ID, ".test") {
				for _, f := range pk.CompiledGoFiles {
					if !strings.HasSuffix(f, "_test.go") {
						p.NFiles++
					}
				}
			}
		}
	}
	p.collectFuncs()
	p.unspillReturns()
	p.canonComparisons()
	if len(p.SrcFunc) < 50 {
		return nil, fmt.Errorf("only %d source functions found; refusing to analyse a stub", len(p.SrcFunc))
	}
	return p, nil
}

func (p *Program) inModule(fn *ssa.Function) bool {
	root := fn
	for root.Parent() != nil {
		root = root.Parent()
	}
	if root.Pkg != nil {
		return root.Pkg == p.Restful || root.Pkg == p.Log
	}
	if o := root.Object(); o != nil && o.Pkg() != nil {
		return o.Pkg() == p.Restful.Pkg || o.Pkg() == p.Log.Pkg
	}
	return false
}

func (p *Program) collectFuncs() {
	all := ssautil.AllFunctions(p.Prog)
	seen := map[*ssa.Function]bool{}
	var add func(fn *ssa.Function)
	add = func(fn *ssa.Function) {
		if fn == nil || seen[fn] {
			return
		}
		seen[fn] = true
		p.Funcs = append(p.Funcs, fn)
		for _, a := range fn.AnonFuncs {
			add(a)
		}
	}
	for fn := range all {
		if p.inModule(fn) {
			add(fn)
		}
	}
	sort.Slice(p.Funcs, func(i, j int) bool {
		a, b := p.Funcs[i], p.Funcs[j]
		if a.Pos() != b.Pos() {
			return a.Pos() < b.Pos()
		}
		return a.String() < b.String()
	})
	for _, fn := range p.Funcs {
		if fn.Synthetic == "" && fn.Blocks != nil {
			p.SrcFunc = append(p.SrcFunc, fn)
		}
		p.byName[p.fname(fn)] = fn
	}
}

// fname is the stable, package-relative name of a function:
// "(*Container).dispatch", "(*Container).dispatch$1", "tokenizePath".
func (p *Program) fname(fn *ssa.Function) string {
	if fn == nil {
		return "<nil>"
	}
	from := p.Restful.Pkg
	s := fn.RelString(from)
	if fn.Synthetic != "" && !strings.Contains(s, "$") {
		if strings.HasPrefix(fn.Synthetic, "wrapper") || strings.HasPrefix(fn.Synthetic, "bound") || strings.HasPrefix(fn.Synthetic, "thunk") {
			s += "#" + strings.Fields(fn.Synthetic)[0]
		}
	}
	return s
}

// fn looks a function up by its package-relative name; nil if absent.
func (p *Program) fn(name string) *ssa.Function { return p.byName[name] }

func (p *Program) pos(pos token.Pos) string {
	if !pos.IsValid() {
		return "-"
	}
	ps := p.Fset.Position(pos)
	rel, err := filepath.Rel(p.Repo, ps.Filename)
	if err != nil || strings.HasPrefix(rel, "..") {
		rel = filepath.Base(ps.Filename)
	}
	return fmt.Sprintf("%s:%d", rel, ps.Line)
}

// instrPos gives the best available position of an instruction.
func (p *Program) ipos(i ssa.Instruction) string {
	if i == nil {
		return "-"
	}
	if i.Pos().IsValid() {
		return p.pos(i.Pos())
	}
	// fall back to some positioned instruction of the same block, then the function
	if b := i.Block(); b != nil {
		for _, j := range b.Instrs {
			if j.Pos().IsValid() {
				return p.pos(j.Pos()) + "~"
			}
		}
		if b.Parent() != nil {
			return p.pos(b.Parent().Pos()) + "~"
		}
	}
	return "-"
}

// namedType returns the named type of package restful with that name.
func (p *Program) namedType(name string) *types.Named {
	o := p.Restful.Pkg.Scope().Lookup(name)
	if o == nil {
		return nil
	}
	n, _ := o.Type().(*types.Named)
	return n
}

// field returns the field object of struct type typeName.
func (p *Program) field(typeName, fieldName string) *types.Var {
	n := p.namedType(typeName)
	if n == nil {
		return nil
	}
	st, ok := n.Underlying().(*types.Struct)
	if !ok {
		return nil
	}
	for i := 0; i < st.NumFields(); i++ {
		if st.Field(i).Name() == fieldName {
			return st.Field(i)
		}
	}
	return nil
}

// methodsOf returns the source functions that are methods of the named type (value or pointer receiver).
func (p *Program) methodsOf(typeName string) []*ssa.Function {
	var out []*ssa.Function
	for _, fn := range p.SrcFunc {
		if fn.Parent() != nil || fn.Signature.Recv() == nil {
			continue
		}
		if recvTypeName(fn) == typeName {
			out = append(out, fn)
		}
	}
	return out
}

func recvTypeName(fn *ssa.Function) string {
	if fn.Signature.Recv() == nil {
		return ""
	}
	t := fn.Signature.Recv().Type()
	if pt, ok := t.(*types.Pointer); ok {
		t = pt.Elem()
	}
	if n, ok := t.(*types.Named); ok {
		return n.Obj().Name()
	}
	return ""
}

// canonComparisons puts a comparison that has its constant on the left (`nil != err`, `0 == len(s)`, `"" == x`)
// into the usual order, mirroring the operator: the rules then see one form of it.
func (p *Program) canonComparisons() {
	mirror := map[token.Token]token.Token{token.EQL: token.EQL, token.NEQ: token.NEQ, token.LSS: token.GTR, token.GTR: token.LSS, token.LEQ: token.GEQ, token.GEQ: token.LEQ}
	for _, fn := range p.Funcs {
		if fn.Blocks == nil || !p.inModule(fn) {
			continue
		}
		for _, b := range fn.Blocks {
			for _, ins := range b.Instrs {
				bo, ok := ins.(*ssa.BinOp)
				if !ok {
					continue
				}
				m, isCmp := mirror[bo.Op]
				if !isCmp {
					continue
				}
				_, cx := bo.X.(*ssa.Const)
				_, cy := bo.Y.(*ssa.Const)
				if cx && !cy {
					bo.X, bo.Y, bo.Op = bo.Y, bo.X, m
				}
				// len(s) == 0 for a string s is s == "" (and len(s) > 0 is s != "")
				call, isCall := bo.X.(*ssa.Call)
				if !isCall || len(call.Call.Args) != 1 {
					continue
				}
				if bi, isB := call.Call.Value.(*ssa.Builtin); !isB || bi.Name() != "len" {
					continue
				}
				str := call.Call.Args[0]
				if bt, isBasic := str.Type().Underlying().(*types.Basic); !isBasic || bt.Info()&types.IsString == 0 {
					continue
				}
				k, isK := bo.Y.(*ssa.Const)
				if !isK || k.Value == nil || k.Value.Kind() != constant.Int {
					continue
				}
				n, exact := constant.Int64Val(k.Value)
				if !exact {
					continue
				}
				var op token.Token
				switch {
				case (bo.Op == token.EQL && n == 0) || (bo.Op == token.LEQ && n == 0) || (bo.Op == token.LSS && n == 1):
					op = token.EQL
				case (bo.Op == token.NEQ && n == 0) || (bo.Op == token.GTR && n == 0) || (bo.Op == token.GEQ && n == 1):
					op = token.NEQ
				default:
					continue
				}
				bo.X, bo.Y, bo.Op = str, ssa.NewConst(constant.MakeString(""), str.Type()), op
				if refs := str.Referrers(); refs != nil {
					*refs = append(*refs, bo)
				}
			}
		}
	}
}

// unspillReturns undoes, where it is safe, what go/ssa does to the return statements of a function that defers: each
// `return a, b` becomes stores into result variables, `rundefers`, loads of the variables and a return of the loads.
// When no closure captures a result variable nothing can change it between the store and the load, and the return
// is given back the stored value as its operand. A function that merely gains a defer statement then looks to the
// rules as it did before.
func (p *Program) unspillReturns() {
	for _, fn := range p.Funcs {
		if fn.Blocks == nil || !p.inModule(fn) {
			continue
		}
		for _, b := range fn.Blocks {
			r, ok := b.Instrs[len(b.Instrs)-1].(*ssa.Return)
			if !ok {
				continue
			}
			for k, v := range r.Results {
				u, ok := v.(*ssa.UnOp)
				if !ok || u.Op != token.MUL {
					continue
				}
				a, ok := u.X.(*ssa.Alloc)
				if !ok || a.Parent() != fn {
					continue
				}
				private := true
				for _, ref := range *a.Referrers() {
					switch x := ref.(type) {
					case *ssa.Store:
						if x.Addr != ssa.Value(a) {
							private = false
						}
					case *ssa.UnOp, *ssa.DebugRef:
					default:
						private = false
					}
				}
				if !private {
					continue
				}
				nv := resultAt(r, k)
				if nv == v || nv == nil {
					continue
				}
				r.Results[k] = nv
				if refs := nv.Referrers(); refs != nil {
					*refs = append(*refs, r)
				}
			}
		}
	}
}
