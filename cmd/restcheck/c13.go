package main

import (
	"go/token"
	"go/types"

	"golang.org/x/tools/go/ssa"
)

func init() {
	register(&Property{
		ID:    "C13",
		Title: "Pooled compressors are never shared, lost twice, or a reason to block",
		Decided: "C13.a acquire/release typestate at the framework's own acquire sites (deferred release for local owners; the compressor field is closed, released once by the matching method and set to nil, second Close refused); " +
			"C13.b Reset onto the target before first use of an acquired object; C13.c every channel operation in a CompressorProvider method of the module is a case of a select with default and no lock/wait is taken (acquire and release never block); " +
			"C13.d each Acquire* hands out a channel receive, a sync.Pool.Get or a fresh object.",
		NotDecided: "custom providers (user code); that concurrent responses decode to their own payload (follows from exclusivity plus compress/* contracts, not checked); sync.Pool internals.",
		Assumptions: []string{"sync.Pool.Get/Put never block and never hand out an object twice", "select with default never blocks"},
		Rules: []Rule{
			{ID: "C13.c", Template: "T-TYPESTATE", Required: true,
				Doc: "In every method of a module type implementing CompressorProvider, each channel send/receive is a case of a non-blocking select and no Lock/Wait is called. A bare send after a len() check is check-then-act: two concurrent releases into one free slot block the second forever inside a response's deferred Close.",
				Run: ruleC13c},
		},
	})
}

// providerMethods returns the source methods of module types that implement CompressorProvider.
func providerMethods(p *Program) []*ssa.Function {
	nt := p.namedType("CompressorProvider")
	if nt == nil {
		return nil
	}
	it := nt.Underlying().(*types.Interface)
	var out []*ssa.Function
	for k := 0; k < it.NumMethods(); k++ {
		for _, f := range p.implementations(nt, it.Method(k)) {
			f = p.unwrap(f)
			if f.Synthetic == "" {
				out = append(out, f)
			}
		}
	}
	return dedupFuncs(out)
}

func ruleC13c(c *Ctx) {
	p := c.P
	cg := p.callGraph()
	methods := providerMethods(p)
	// the provider methods and the module helpers they call
	reach := cg.reach(methods, func(e Edge) bool { return e.Kind == EdgeEscape })
	c.count("provider_methods", len(methods))
	for _, fn := range p.SrcFunc {
		if !reach[fn] {
			continue
		}
		nops := 0
		name := p.fname(fn)
		eachInstr(fn, func(i ssa.Instruction) {
			switch x := i.(type) {
			case *ssa.Send:
				nops++
				c.bad(name, "channel send", p.ipos(i),
					"channel send outside a select with default: blocks when the channel is full; a preceding len() check is check-then-act and not atomic, so two concurrent releases into one free slot block the second forever")
			case *ssa.UnOp:
				if x.Op == token.ARROW {
					nops++
					c.bad(name, "channel receive", p.ipos(i), "channel receive outside a select with default: blocks when the channel is empty")
				}
			case *ssa.Select:
				nops++
				if x.Blocking {
					c.bad(name, "select", p.ipos(i), "select without default may block")
				} else {
					c.ok(name, "select", p.ipos(i), "every channel operation here is a case of a select with default (never blocks)")
				}
			}
			if cc := callCommon(i); cc != nil {
				switch calleeName(cc) {
				case "(*sync.Mutex).Lock", "(*sync.RWMutex).Lock", "(*sync.RWMutex).RLock", "(*sync.Cond).Wait", "(*sync.WaitGroup).Wait", "time.Sleep":
					nops++
					c.bad(name, "blocking call "+shortCallee(cc), p.ipos(i), "a provider method must not wait for another goroutine")
				case "(*sync.Pool).Get", "(*sync.Pool).Put":
					nops++
					c.ok(name, shortCallee(cc), p.ipos(i), "sync.Pool operations are modelled non-blocking")
				}
			}
		})
		if nops == 0 {
			c.triv(name, "no channel or lock operation", p.pos(fn.Pos()), "nothing that can block")
		}
	}
}
