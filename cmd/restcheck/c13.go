package main

import (
	"go/token"
	"go/types"

	"golang.org/x/tools/go/ssa"
)

func init() {
	register(&Property{
		ID:    "C13",
		Title: "Pooled compressors are never shared, lost twice, or a reason to block",
		Decided: "C13.a acquire/release typestate at the framework's own acquire sites (deferred release for local owners; the compressor field is closed, released once by the matching method and set to nil, second Close refused); " +
			"C13.b Reset onto the target before first use of an acquired object; C13.c every channel operation in a CompressorProvider method of the module is a case of a select with default and no lock/wait is taken (acquire and release never block); " +
			"C13.d each Acquire* hands out a channel receive, a sync.Pool.Get or a fresh object. C13.f no compress/* struct is copied by value; C13.g = C07.c (the coding recorded for Close is the constant of the codec acquired); C13.h a cache is pre-filled by a loop bounded by the capacity its channel was made with. A closure deferred before the release defer (it runs after the release) does not read the acquired object or the place it was stored in.",
		NotDecided:  "custom providers (user code); that concurrent responses decode to their own payload (follows from exclusivity plus compress/* contracts, not checked); sync.Pool internals.",
		Assumptions: []string{"sync.Pool.Get/Put never block and never hand out an object twice", "select with default never blocks"},
		Rules: []Rule{
			{ID: "C13.c", Template: "T-TYPESTATE", Required: true,
				Doc: "In every method of a module type implementing CompressorProvider, each channel send/receive is a case of a non-blocking select and no Lock/Wait is called. A bare send after a len() check is check-then-act: two concurrent releases into one free slot block the second forever inside a response's deferred Close.",
				Run: ruleC13c},
			{ID: "C13.i", Template: "T-TYPESTATE", Required: false, Run: ruleNoUseAfterHandOver,
				Doc: "A provider's Release* method does not touch the object after it was handed over (sync.Pool.Put, channel send): from then on another request may hold it. A Reset placed after the Put resets a compressor that already serves someone else."},
			{ID: "C13.a", Template: "T-TYPESTATE", Required: true,
				Doc: "Every object acquired from the CompressorProvider by framework code is released exactly once: a local owner registers `defer Release(x)` directly after acquiring; the field owner (CompressingResponseWriter.compressor) is stored only from an acquire result, released only by the closing function, after compressor.Close(), behind the nil guard that refuses a second Close, and the field is set to nil on every path after the release with no use in between; every other use of the field is behind the nil guard. Breaking any link releases an object twice (two responses share one compressor), never, or uses it after release.",
				Run: ruleC13a},
			{ID: "C13.e", Template: "T-DEFER", Required: true, Run: ruleC07e,
				Doc: "Every response encoder installed by the framework is closed by a defer registered before the install (same obligation as C07.e): Close is the only place the acquired compressor is released, so an install without it loses the object on some exit."},
			{ID: "C13.b", Template: "T-ORDER", Required: true,
				Doc: "Between an Acquire* and the first use of the acquired object there is a Reset onto this request's target: what the previous user left in a pooled object can then not reach this request (also the history clause of C16).",
				Run: ruleC13b},
			{ID: "C13.d", Template: "T-PROV", Required: true,
				Doc: "Each Acquire* of a module provider returns a channel receive, a sync.Pool.Get or the result of a constructor that allocates a fresh object, and keeps no other reference to it; pool constructors are fresh as well. Otherwise a provider hands out an object that is still in use.",
				Run: ruleC13d},
			{ID: "C13.f", Template: "T-OWN", Required: true, Run: ruleNoCompressorCopy,
				Doc: "Compressors and decompressors are only handled through the pointers their constructors return; no value of a compress/* struct type is copied by dereference. Shallow copies are distinct objects for a pool but share the inner flate state: a provider that pre-fills its cache with copies of one reader hands 'different' objects to two requests that then corrupt each other."},
			{ID: "C13.g", Template: "T-GUARD", Required: true, Run: ruleC07c,
				Doc: "'Released exactly once': the writer's constructor stores the constant of the coding it acquired a compressor for, and Close releases by that field (same obligations as C07.c). Storing the caller's spelling ('GZIP') while Close compares with the constants acquires a compressor that is never released."},
			{ID: "C13.h", Template: "T-GUARD", Required: false, Run: ruleFillWithinCapacity,
				Doc: "'Never a reason to block, whatever the pool capacity': outside Acquire/Release the module sends on a channel only to pre-fill a cache, in a loop bounded by the capacity the channel was made with. A channel made with the writers' capacity and filled with the readers' count blocks the constructor forever when readers > writers."},
		},
	})
}

// providerMethods returns the source methods of module types that implement CompressorProvider.
func providerMethods(p *Program) []*ssa.Function {
	nt := p.namedType("CompressorProvider")
	if nt == nil {
		return nil
	}
	it := nt.Underlying().(*types.Interface)
	var out []*ssa.Function
	for k := 0; k < it.NumMethods(); k++ {
		for _, f := range p.implementations(nt, it.Method(k)) {
			f = p.unwrap(f)
			if f.Synthetic == "" {
				out = append(out, f)
			}
		}
	}
	return dedupFuncs(out)
}

func ruleC13c(c *Ctx) {
	p := c.P
	cg := p.callGraph()
	methods := providerMethods(p)
	// the provider methods and the module helpers they call
	reach := cg.reach(methods, func(e Edge) bool { return e.Kind == EdgeEscape })
	c.count("provider_methods", len(methods))
	for _, fn := range p.SrcFunc {
		if !reach[fn] {
			continue
		}
		nops := 0
		name := p.fname(fn)
		eachInstr(fn, func(i ssa.Instruction) {
			switch x := i.(type) {
			case *ssa.Send:
				nops++
				c.bad(name, "channel send", p.ipos(i),
					"channel send outside a select with default: blocks when the channel is full; a preceding len() check is check-then-act and not atomic, so two concurrent releases into one free slot block the second forever")
			case *ssa.UnOp:
				if x.Op == token.ARROW {
					nops++
					c.bad(name, "channel receive", p.ipos(i), "channel receive outside a select with default: blocks when the channel is empty")
				}
			case *ssa.Select:
				nops++
				if x.Blocking {
					c.bad(name, "select", p.ipos(i), "select without default may block")
				} else {
					c.ok(name, "select", p.ipos(i), "every channel operation here is a case of a select with default (never blocks)")
				}
			}
			if cc := callCommon(i); cc != nil {
				switch calleeName(cc) {
				case "(*sync.Mutex).Lock", "(*sync.RWMutex).Lock", "(*sync.RWMutex).RLock", "(*sync.Cond).Wait", "(*sync.WaitGroup).Wait", "time.Sleep":
					nops++
					c.bad(name, "blocking call "+shortCallee(cc), p.ipos(i), "a provider method must not wait for another goroutine")
				case "(*sync.Pool).Get", "(*sync.Pool).Put":
					nops++
					c.ok(name, shortCallee(cc), p.ipos(i), "sync.Pool operations are modelled non-blocking")
				}
			}
		})
		if nops == 0 {
			c.triv(name, "no channel or lock operation", p.pos(fn.Pos()), "nothing that can block")
		}
	}
}

// ---------------------------------------------------------------------------

type acquireSite struct {
	Call *ssa.Call
	Kind string // GzipWriter, GzipReader, ZlibWriter
	Fn   *ssa.Function
}

// providerCall matches an invoke of CompressorProvider.<prefix><Kind>.
func providerCall(p *Program, i ssa.Instruction, prefix string) (kind string, ok bool) {
	c := callCommon(i)
	if c == nil || !c.IsInvoke() {
		return "", false
	}
	if !isRestfulNamed(c.Value.Type(), "CompressorProvider") {
		return "", false
	}
	n := c.Method.Name()
	if len(n) > len(prefix) && n[:len(prefix)] == prefix {
		return n[len(prefix):], true
	}
	return "", false
}

func acquireSites(p *Program) []acquireSite {
	var out []acquireSite
	for _, fn := range p.SrcFunc {
		eachInstr(fn, func(i ssa.Instruction) {
			if call, ok := i.(*ssa.Call); ok {
				if k, ok := providerCall(p, i, "Acquire"); ok {
					out = append(out, acquireSite{call, k, fn})
				}
			}
		})
	}
	return out
}

// isNilTestOfField reports whether cond (possibly a call to a one-line module helper)
// is the comparison `load(field) == nil`; pol gives the polarity (true: EQL, false: NEQ).
func isNilTestOfField(p *Program, cond ssa.Value, fld *types.Var) (isTest bool, eql bool) {
	switch x := cond.(type) {
	case *ssa.BinOp:
		if x.Op != token.EQL && x.Op != token.NEQ {
			return false, false
		}
		for _, pair := range [][2]ssa.Value{{x.X, x.Y}, {x.Y, x.X}} {
			if isNilConst(pair[0]) {
				if _, f, ok := fieldLoad(strip(pair[1])); ok && f == fld {
					return true, x.Op == token.EQL
				}
			}
		}
	case *ssa.Call:
		if cal := x.Call.StaticCallee(); cal != nil && p.inModule(cal) && cal.Blocks != nil {
			rets := returnsOf(cal)
			if len(rets) == 1 && len(rets[0].Results) == 1 {
				return isNilTestOfField(p, rets[0].Results[0], fld)
			}
		}
	case *ssa.UnOp:
		if x.Op == token.NOT {
			t, e := isNilTestOfField(p, x.X, fld)
			return t, !e
		}
	}
	return false, false
}

// guardedNonNil reports whether block b is only entered when field fld was tested non-nil.
func guardedNonNil(p *Program, facts map[*ssa.BasicBlock]map[condFact]bool, b *ssa.BasicBlock, fld *types.Var) bool {
	for f := range facts[b] {
		if t, eql := isNilTestOfField(p, f.Cond, fld); t {
			// cond true means (field==nil) when eql; we need field != nil
			if eql != f.Pol {
				return true
			}
		}
	}
	return false
}

func ruleC13a(c *Ctx) { ruleC13aScoped(c, func(string) bool { return true }) }

// ruleC13aWriters / ruleC13aReaders restrict the typestate rule to the objects a property speaks about.
func ruleC13aWriters(c *Ctx) {
	ruleC13aScoped(c, func(k string) bool { return k == "GzipWriter" || k == "ZlibWriter" })
}
func ruleC13aReaders(c *Ctx) { ruleC13aScoped(c, func(k string) bool { return k == "GzipReader" }) }

func ruleC13aScoped(c *Ctx, inScope func(kind string) bool) {
	p := c.P
	var sites []acquireSite
	for _, s := range acquireSites(p) {
		if inScope(s.Kind) {
			sites = append(sites, s)
		}
	}
	c.count("acquire_sites", len(sites))
	ownerFields := map[*types.Var]bool{}
	for _, s := range sites {
		name := p.fname(s.Fn)
		construct := "Acquire" + s.Kind
		// who receives the acquired value?
		var deferRel []*ssa.Defer
		var otherRel []ssa.Instruction
		var fieldStores []*types.Var
		var walk func(v ssa.Value, seen map[ssa.Value]bool)
		walk = func(v ssa.Value, seen map[ssa.Value]bool) {
			if seen[v] {
				return
			}
			seen[v] = true
			for _, r := range referrers(v) {
				switch x := r.(type) {
				case *ssa.Defer:
					if k, ok := providerCall(p, x, "Release"); ok && len(x.Call.Args) == 1 && strip(x.Call.Args[0]) == s.Call {
						if k == s.Kind {
							deferRel = append(deferRel, x)
						} else {
							c.bad(name, construct+" released as "+k, p.ipos(x), "release method does not match the acquire method")
						}
					}
				case *ssa.Call:
					if _, ok := providerCall(p, x, "Release"); ok && len(x.Call.Args) == 1 && strip(x.Call.Args[0]) == s.Call {
						otherRel = append(otherRel, x)
					}
				case *ssa.MakeInterface:
					walk(x, seen)
				case *ssa.ChangeInterface:
					walk(x, seen)
				case *ssa.Phi:
					walk(x, seen)
				case *ssa.Store:
					if x.Val == v {
						if fa, ok := x.Addr.(*ssa.FieldAddr); ok {
							f := fieldOfAddr(fa)
							// a field of a module struct that is not a request body slot
							if tn := fieldOwnerName(fa); tn != "" && p.namedType(tn) != nil && tn != "Request" {
								fieldStores = append(fieldStores, f)
							}
						}
					}
				}
			}
		}
		walk(s.Call, map[ssa.Value]bool{})
		switch {
		case len(deferRel) == 1 && len(otherRel) == 0 && len(fieldStores) == 0:
			d := deferRel[0]
			// registered before anything that can return or panic: same block, only loads in between
			okAdj := d.Block() == s.Call.Block()
			if okAdj {
				from, to := indexInBlock(s.Call), indexInBlock(d)
				for k := from + 1; k < to; k++ {
					switch y := s.Call.Block().Instrs[k].(type) {
					case *ssa.UnOp, *ssa.FieldAddr, *ssa.MakeInterface, *ssa.ChangeInterface, *ssa.ChangeType:
						_ = y
					default:
						okAdj = false
					}
				}
			}
			// an object that is parked in memory others read (the request body) must not be released by a helper:
			// the deferred release fires when this function returns, while its caller still consumes the object
			if esc := escapesToHeap(s.Call); esc != nil {
				entry := false
				if o := s.Fn.Object(); o != nil && o.Exported() && s.Fn.Parent() == nil {
					entry = true
				}
				c.check(entry, name, construct+" is released by the function that owns the whole operation", p.ipos(esc),
					"the acquired object is stored into longer-lived memory, and the deferring function is an API entry point: its return ends the operation",
					"the acquired object is stored into memory that outlives this function ("+esc.String()+") but the deferred release fires when this unexported helper returns: its caller goes on using a released object, which the provider may already have handed to another request")
			}
			// deferred calls run last-in first-out: a closure deferred BEFORE the release defer runs AFTER the release.
			// It must not touch the object: neither through a captured variable nor by reading the place the object
			// was parked in (the request body).
			late := lateUseAfterDeferredRelease(p, s.Fn, s.Call, d)
			c.check(late == nil, name, construct+": nothing deferred earlier uses the object after its release", p.ipos(d),
				"no closure deferred before the release defer reads the acquired object or the place it is stored in",
				"a closure deferred earlier (so it runs after the deferred release) uses the object at "+p.iposOrEmpty(late)+": the framework reads from a decompressor it has already given back, which the provider may have handed to another request")
			c.check(okAdj, name, construct+" local owner", p.ipos(s.Call),
				"defer Release"+s.Kind+"(x) is registered directly after the acquire (runs once on every exit, including panic); no other release of x",
				"the deferred release is not registered directly after the acquire: a return or panic in between loses the object")
		case len(deferRel) == 0 && len(otherRel) == 0 && len(fieldStores) >= 1:
			for _, f := range fieldStores {
				ownerFields[f] = true
			}
			c.ok(name, construct+" field owner", p.ipos(s.Call), "acquired object is handed to field "+fieldStores[0].Name()+"; its release discipline is decided on the field")
		case len(deferRel) == 0 && len(otherRel) == 0:
			c.bad(name, construct+" never released", p.ipos(s.Call), "acquired object has no deferred release and is not handed to an owning field")
		default:
			c.bad(name, construct+" release discipline", p.ipos(s.Call),
				"acquired object must have exactly one owner: one deferred release, or one owning field (found deferred="+itoa(len(deferRel))+" plain="+itoa(len(otherRel))+" fields="+itoa(len(fieldStores))+"); a non-deferred release is skipped by a panic in between and a second release hands the object to two users")
		}
	}
	// field owners
	for fld := range ownerFields {
		c13FieldOwner(c, fld)
	}
	// Release may be called by nobody else
	for _, fn := range p.SrcFunc {
		eachInstr(fn, func(i ssa.Instruction) {
			k, ok := providerCall(p, i, "Release")
			if !ok || !inScope(k) {
				return
			}
			cc := callCommon(i)
			arg := strip(cc.Args[0])
			if ta, ok := arg.(*ssa.TypeAssert); ok {
				arg = strip(ta.X)
			}
			if call, ok := arg.(*ssa.Call); ok {
				if _, isAcq := providerCall(p, call, "Acquire"); isAcq {
					return // handled above
				}
			}
			if _, f, ok := fieldLoad(arg); ok && ownerFields[f] {
				return // handled by the field-owner rule
			}
			c.bad(p.fname(fn), "Release"+k+" of a value that is neither an acquire result nor the owning field", p.ipos(i),
				"a release outside the acquire/owner discipline can hand one object to two users")
		})
	}
}

func fieldOwnerName(fa *ssa.FieldAddr) string {
	pt := fa.X.Type().Underlying().(*types.Pointer)
	if n, ok := types.Unalias(pt.Elem()).(*types.Named); ok {
		return n.Obj().Name()
	}
	return ""
}

func itoa(n int) string {
	return fmtInt(n)
}

// c13FieldOwner decides the typestate of an owning field such as CompressingResponseWriter.compressor.
func c13FieldOwner(c *Ctx, fld *types.Var) {
	p := c.P
	type access struct {
		fn    *ssa.Function
		instr ssa.Instruction
		store *ssa.Store // non-nil for stores
		load  *ssa.UnOp
	}
	var stores, loads []access
	for _, fn := range p.SrcFunc {
		eachInstr(fn, func(i ssa.Instruction) {
			switch x := i.(type) {
			case *ssa.Store:
				if fa, ok := x.Addr.(*ssa.FieldAddr); ok && fieldOfAddr(fa) == fld {
					stores = append(stores, access{fn: fn, instr: i, store: x})
				}
			case *ssa.UnOp:
				if x.Op == token.MUL {
					if fa, ok := x.X.(*ssa.FieldAddr); ok && fieldOfAddr(fa) == fld {
						loads = append(loads, access{fn: fn, instr: i, load: x})
					}
				}
			}
		})
	}
	fname := "field " + fld.Name()
	// (1) stores: acquire result in a function that allocates the owner, or nil in the closing function
	closers := map[*ssa.Function][]*ssa.Store{}
	for _, s := range stores {
		v := strip(s.store.Val)
		if isNilConst(v) {
			closers[s.fn] = append(closers[s.fn], s.store)
			continue
		}
		isAcq := false
		if call, ok := v.(*ssa.Call); ok {
			_, isAcq = providerCall(p, call, "Acquire")
		}
		// a local that holds the acquire result of whichever branch ran (`compressor = w` in each case)
		if !isAcq {
			srcs := p.sources(s.store.Val, provDefault)
			all := len(srcs) > 0
			for _, src := range srcs {
				call, ok := strip(src).(*ssa.Call)
				if !ok {
					all = false
					break
				}
				if _, acq := providerCall(p, call, "Acquire"); !acq {
					all = false
				}
			}
			isAcq = all
		}
		fa := s.store.Addr.(*ssa.FieldAddr)
		fresh := false
		for _, src := range p.sources(fa.X, provDefault) {
			if a, ok := src.(*ssa.Alloc); ok && a.Heap {
				fresh = true
			}
		}
		c.check(isAcq && fresh, p.fname(s.fn), fname+" stored non-nil", p.ipos(s.instr),
			"stored from an Acquire* result into a freshly allocated owner",
			"the owning field may only be set from an acquire result on a fresh owner (anything else shares or re-arms a released object)")
	}
	if len(closers) == 0 {
		c.bad("-", fname+" is never set to nil", "-", "no closing function: the acquired object is never given up, or can be released repeatedly")
	}
	// (2..5) releases of the field's value
	for _, fn := range p.SrcFunc {
		facts := factsAt(fn)
		var rels []ssa.Instruction
		eachInstr(fn, func(i ssa.Instruction) {
			if _, ok := providerCall(p, i, "Release"); !ok {
				return
			}
			arg := strip(callCommon(i).Args[0])
			if ta, ok := arg.(*ssa.TypeAssert); ok {
				arg = strip(ta.X)
			}
			if _, f, ok := fieldLoad(arg); ok && f == fld {
				rels = append(rels, i)
			}
		})
		if len(rels) == 0 {
			continue
		}
		name := p.fname(fn)
		nilStores := closers[fn]
		if len(nilStores) == 0 {
			c.bad(name, fname+" released without being set to nil", p.ipos(rels[0]), "a second call releases the same object again: two users then share it")
			continue
		}
		// find the stream-finishing call: invoke Close on a load of the field
		var closeCalls []ssa.Instruction
		eachInstr(fn, func(i ssa.Instruction) {
			cc := callCommon(i)
			if cc != nil && cc.IsInvoke() && cc.Method.Name() == "Close" {
				if _, f, ok := fieldLoad(strip(cc.Value)); ok && f == fld {
					closeCalls = append(closeCalls, i)
				}
			}
		})
		for _, r := range rels {
			k, _ := providerCall(p, r, "Release")
			// guard: only entered when the field was tested non-nil
			c.check(guardedNonNil(p, facts, r.Block(), fld), name, "Release"+k+" behind the nil guard", p.ipos(r),
				"only reached when the field is non-nil: a second Close releases nothing",
				"release is not guarded by the field's nil test: closing twice releases the object twice")
			if _, isDefer := r.(*ssa.Defer); isDefer {
				c.bad(name, "Release"+k+" is deferred in the closing function", p.ipos(r), "runs after the field was cleared; ordering with the stream close cannot be established")
				continue
			}
			closed := false
			for _, cl := range closeCalls {
				if instrDominates(cl, r) {
					closed = true
				}
			}
			c.check(closed, name, "Release"+k+" after compressor.Close()", p.ipos(r),
				"the stream is finished (trailer written) before the object goes back to the pool",
				"released before/without compressor.Close(): the next user resets an object whose stream was never finished, and this response lacks its trailer")
			// nil store on every path after the release, no use of the field in between except releases and the store
			for _, ret := range returnsOf(fn) {
				if !canReach(r, ret) {
					continue
				}
				stops := make([]ssa.Instruction, 0, len(nilStores))
				for _, s := range nilStores {
					stops = append(stops, s)
				}
				c.check(!canReachAvoiding(r, ret, stops), name, "field set to nil after Release"+k, p.ipos(r),
					"every path from the release to the return clears the field",
					"a path from the release to the return at "+p.ipos(ret)+" leaves the field set: the object can be released or written again")
			}
			for _, l := range loads {
				if l.fn != fn || !canReach(r, l.instr) {
					continue
				}
				// uses after the release: allowed only as argument of a (different-kind) release, guarded by its own encoding test
				allowed := false
				for _, r2 := range rels {
					arg := strip(callCommon(r2).Args[0])
					if ta, ok := arg.(*ssa.TypeAssert); ok {
						arg = strip(ta.X)
					}
					if arg == l.load {
						allowed = true
					}
				}
				stops := make([]ssa.Instruction, 0, len(nilStores))
				for _, s := range nilStores {
					stops = append(stops, s)
				}
				// a path from this release to the use would need the object's kind field to equal two different constants
				if !allowed && contradictoryKinds(fn, facts[r.Block()], facts[l.instr.Block()]) {
					allowed = true
				}
				if !allowed && canReachAvoiding(r, l.instr, stops) {
					c.bad(name, "use of the field after Release"+k, p.ipos(l.instr), "the object is used after it went back to the pool")
				}
			}
		}
	}
	// (6) every other use of the field is behind the nil guard
	for _, l := range loads {
		fn := l.fn
		if len(closers[fn]) > 0 {
			// closing function: uses must be guarded as well
		}
		// the guard helper itself (its only use of the field is the nil comparison)
		onlyTest := true
		for _, r := range referrers(l.load) {
			if b, ok := r.(*ssa.BinOp); !ok || !(b.Op == token.EQL || b.Op == token.NEQ) || !(isNilConst(b.X) || isNilConst(b.Y)) {
				onlyTest = false
			}
		}
		if onlyTest {
			continue
		}
		// a read on the object this very activation allocated (the constructor, after it stored the field): nobody
		// can have closed it yet
		if u := l.load; u != nil {
			if fa, ok := u.X.(*ssa.FieldAddr); ok && p.freshBase(fa) {
				c.ok(p.fname(fn), "use of "+fname+" on the object being constructed", p.ipos(l.instr), "the object was allocated in this activation and has not been handed out: it cannot have been closed")
				continue
			}
		}
		facts := factsAt(fn)
		c.check(guardedNonNil(p, facts, l.instr.Block(), fld), p.fname(fn), "use of "+fname+" behind the nil guard", p.ipos(l.instr),
			"the field is only used where it was tested non-nil (not yet released)",
			"the field is used without the nil test: a write after Close reaches a released object")
	}
}

// ---------------------------------------------------------------------------

func ruleC13b(c *Ctx) {
	p := c.P
	for _, s := range acquireSites(p) {
		name := p.fname(s.Fn)
		var resets []ssa.Instruction
		var uses []ssa.Instruction
		for _, r := range referrers(s.Call) {
			if _, ok := providerCall(p, r, "Release"); ok {
				continue
			}
			if cc := callCommon(r); cc != nil && !cc.IsInvoke() && cc.StaticCallee() != nil && cc.StaticCallee().Name() == "Reset" && len(cc.Args) >= 1 && cc.Args[0] == s.Call {
				if _, isDefer := r.(*ssa.Defer); !isDefer {
					resets = append(resets, r)
					continue
				}
			}
			if _, ok := r.(*ssa.DebugRef); ok {
				continue
			}
			// a comparison with nil looks at the pointer, not at the object
			if bo, ok := r.(*ssa.BinOp); ok && (bo.Op == token.EQL || bo.Op == token.NEQ) && (isNilConst(bo.X) || isNilConst(bo.Y)) {
				continue
			}
			uses = append(uses, r)
		}
		if len(resets) == 0 {
			c.bad(name, "Acquire"+s.Kind+" without Reset", p.ipos(s.Call), "the pooled object is used with whatever target and state its previous user left")
			continue
		}
		okAll := true
		var offender ssa.Instruction
		for _, u := range uses {
			dom := false
			for _, r := range resets {
				if instrDominates(r, u) {
					dom = true
				}
			}
			if !dom {
				okAll = false
				offender = u
			}
		}
		if okAll {
			c.ok(name, "Acquire"+s.Kind+" then Reset", p.ipos(s.Call), "Reset at "+p.ipos(resets[0])+" precedes every other use of the acquired object ("+itoa(len(uses))+" uses)")
		} else {
			c.bad(name, "Acquire"+s.Kind+" used before Reset", p.ipos(offender), "a use of the acquired object is not preceded by Reset on every path")
		}
	}
}

// ---------------------------------------------------------------------------

var freshCompressorCtors = map[string]bool{
	"compress/gzip.NewWriterLevel": true, "compress/gzip.NewWriter": true, "compress/gzip.NewReader": true,
	"compress/zlib.NewWriterLevel": true, "compress/zlib.NewWriter": true, "compress/flate.NewWriter": true,
}

// freshCtor reports whether every value fn returns is the result of an external compressor
// constructor called in fn (or of another fresh constructor), i.e. a new object per call.
func freshCtor(p *Program, fn *ssa.Function, depth int) bool {
	if fn == nil || fn.Blocks == nil || depth > 3 {
		return false
	}
	rets := returnsOf(fn)
	if len(rets) == 0 {
		return false
	}
	for _, r := range rets {
		if len(r.Results) != 1 {
			return false
		}
		for _, s := range p.sources(r.Results[0], provDefault) {
			var call *ssa.Call
			switch x := s.(type) {
			case *ssa.Call:
				call = x
			case *ssa.Extract:
				call, _ = x.Tuple.(*ssa.Call)
				if x.Index != 0 {
					return false
				}
			}
			if call == nil {
				return false
			}
			if freshCompressorCtors[calleeName(&call.Call)] {
				continue
			}
			if cal := call.Call.StaticCallee(); cal != nil && p.inModule(cal) && freshCtor(p, cal, depth+1) {
				continue
			}
			return false
		}
	}
	return true
}

func ruleC13d(c *Ctx) {
	p := c.P
	for _, m := range providerMethods(p) {
		if len(m.Name()) < 7 || m.Name()[:7] != "Acquire" {
			continue
		}
		name := p.fname(m)
		okAll := true
		why := ""
		kinds := map[string]bool{}
		for _, r := range returnsOf(m) {
			for _, s := range p.sources(r.Results[0], provDefault) {
				switch x := s.(type) {
				case *ssa.Extract:
					if sel, ok := x.Tuple.(*ssa.Select); ok && x.Index >= 2 {
						_ = sel
						kinds["channel receive"] = true
						continue
					}
					okAll, why = false, "returns "+s.String()
				case *ssa.UnOp:
					if x.Op == token.ARROW {
						kinds["channel receive"] = true
						continue
					}
					okAll, why = false, "returns "+s.String()
				case *ssa.Call:
					if calleeName(&x.Call) == "(*sync.Pool).Get" {
						kinds["sync.Pool.Get"] = true
						continue
					}
					if cal := x.Call.StaticCallee(); cal != nil && p.inModule(cal) && freshCtor(p, cal, 0) {
						kinds["fresh "+cal.Name()+"()"] = true
						continue
					}
					okAll, why = false, "returns the result of "+shortCallee(&x.Call)+", which is not a fresh-object constructor"
				case *ssa.Const:
					if x.Value == nil {
						okAll, why = false, "can return nil (a branch does not assign the result): the caller dereferences it"
						continue
					}
					okAll, why = false, "returns a constant"
				default:
					okAll, why = false, "returns "+s.Name()+" ("+s.String()+"), neither an idle pooled object nor a fresh one"
				}
			}
		}
		// the method keeps no other reference: no store/send of pointer-typed values
		eachInstr(m, func(i ssa.Instruction) {
			switch x := i.(type) {
			case *ssa.Send:
				okAll, why = false, "Acquire sends on a channel"
			case *ssa.Store:
				if _, isAlloc := x.Addr.(*ssa.Alloc); !isAlloc {
					okAll, why = false, "Acquire stores to non-local memory at "+p.ipos(i)
				}
			}
			if cc := callCommon(i); cc != nil && calleeName(cc) == "(*sync.Pool).Put" {
				okAll, why = false, "Acquire puts an object back"
			}
		})
		ks := ""
		for k := range kinds {
			if ks != "" {
				ks += " | "
			}
			ks += k
		}
		c.check(okAll, name, "result provenance", p.pos(m.Pos()), "hands out: "+sortedJoin(kinds), why)
	}
	// sync.Pool New functions of the module
	for _, fn := range p.SrcFunc {
		eachInstr(fn, func(i ssa.Instruction) {
			st, ok := i.(*ssa.Store)
			if !ok {
				return
			}
			fa, ok := st.Addr.(*ssa.FieldAddr)
			if !ok || !isNamed(fa.X.Type().Underlying().(*types.Pointer).Elem(), "sync", "Pool") || fieldOfAddr(fa).Name() != "New" {
				return
			}
			f := p.funcValue(st.Val)
			c.check(f != nil && freshCtor(p, f, 0), p.fname(fn), "sync.Pool.New", p.ipos(i),
				"the pool's constructor returns a fresh object per call", "the pool's New does not provably allocate a fresh object per call: two Gets may share one compressor")
		})
	}
}

// escapesToHeap returns the store that parks v (through interface conversions) in non-local memory, if any.
func escapesToHeap(v ssa.Value) ssa.Instruction {
	var found ssa.Instruction
	seen := map[ssa.Value]bool{}
	var walk func(x ssa.Value)
	walk = func(x ssa.Value) {
		if seen[x] || found != nil {
			return
		}
		seen[x] = true
		for _, r := range referrers(x) {
			switch y := r.(type) {
			case *ssa.MakeInterface:
				walk(y)
			case *ssa.ChangeInterface:
				walk(y)
			case *ssa.Phi:
				walk(y)
			case *ssa.Store:
				if y.Val == x {
					if _, isAlloc := y.Addr.(*ssa.Alloc); !isAlloc {
						found = y
					}
				}
			case *ssa.Return:
				found = y
			}
		}
	}
	walk(v)
	return found
}

// contradictoryKinds: a holds `K1 == x.f` and b holds `K2 == x.f` for two different constants and the same field of the
// same object, and fn never stores into that field: no execution satisfies both.
func contradictoryKinds(fn *ssa.Function, a, b map[condFact]bool) bool {
	type eq struct {
		base ssa.Value
		fld  *types.Var
		k    string
	}
	collect := func(m map[condFact]bool) []eq {
		var out []eq
		for f := range m {
			bo, ok := f.Cond.(*ssa.BinOp)
			if !ok || !((bo.Op == token.EQL && f.Pol) || (bo.Op == token.NEQ && !f.Pol)) {
				continue
			}
			for _, pr := range [][2]ssa.Value{{bo.X, bo.Y}, {bo.Y, bo.X}} {
				k, isC := constStr(pr[0])
				if !isC {
					continue
				}
				if base, fld, ok := fieldLoad(strip(pr[1])); ok {
					out = append(out, eq{strip(base), fld, k})
				}
			}
		}
		return out
	}
	ea, eb := collect(a), collect(b)
	for _, x := range ea {
		for _, y := range eb {
			if x.fld != y.fld || x.base != y.base || x.k == y.k {
				continue
			}
			stored := false
			eachInstr(fn, func(i ssa.Instruction) {
				if st, ok := i.(*ssa.Store); ok {
					if fa, ok := st.Addr.(*ssa.FieldAddr); ok && fieldOfAddr(fa) == x.fld {
						stored = true
					}
				}
			})
			if !stored {
				return true
			}
		}
	}
	return false
}

func (p *Program) iposOrEmpty(i ssa.Instruction) string {
	if i == nil {
		return ""
	}
	return p.ipos(i)
}

// lateUseAfterDeferredRelease: rel is `defer Release(obj)` in fn. Returns a use of obj (or of the field obj was stored
// into) inside a closure whose defer statement can execute before rel's: that closure runs after the release.
func lateUseAfterDeferredRelease(p *Program, fn *ssa.Function, obj ssa.Value, rel *ssa.Defer) ssa.Instruction {
	// where the object is parked
	parked := map[*types.Var]bool{}
	objVals := map[ssa.Value]bool{obj: true}
	var walk func(x ssa.Value)
	walk = func(x ssa.Value) {
		for _, r := range referrers(x) {
			switch y := r.(type) {
			case *ssa.MakeInterface:
				if !objVals[y] {
					objVals[y] = true
					walk(y)
				}
			case *ssa.ChangeInterface:
				if !objVals[y] {
					objVals[y] = true
					walk(y)
				}
			case *ssa.Store:
				if y.Val == x {
					if fa, ok := y.Addr.(*ssa.FieldAddr); ok {
						parked[fieldOfAddr(fa)] = true
					}
				}
			}
		}
	}
	walk(obj)
	var found ssa.Instruction
	used := func(v ssa.Value) ssa.Instruction {
		for _, r := range referrers(v) {
			if cc := callCommon(r); cc != nil {
				if cc.IsInvoke() && cc.Value == v {
					return r
				}
				for _, a := range cc.Args {
					if a == v {
						return r
					}
				}
			}
			switch r.(type) {
			case *ssa.MakeInterface, *ssa.ChangeInterface, *ssa.TypeAssert:
				for _, r2 := range referrers(r.(ssa.Value)) {
					if callCommon(r2) != nil {
						return r2
					}
				}
			}
		}
		return nil
	}
	eachInstr(fn, func(i ssa.Instruction) {
		d2, ok := i.(*ssa.Defer)
		if !ok || d2 == rel || found != nil {
			return
		}
		if !canReach(d2, rel) {
			return // registered after the release defer: runs before it
		}
		cl := p.funcValue(d2.Call.Value)
		if cl == nil {
			return // a plain deferred call: its operands were evaluated at the defer statement, before the acquire
		}
		for _, g := range withClosures(cl) {
			eachInstr(g, func(j ssa.Instruction) {
				if found != nil {
					return
				}
				u, ok := j.(*ssa.UnOp)
				if !ok || u.Op != token.MUL {
					return
				}
				if fa, ok := u.X.(*ssa.FieldAddr); ok && parked[fieldOfAddr(fa)] {
					if at := used(u); at != nil {
						found = at
					}
				}
			})
		}
		// the object captured by the closure
		eachInstr(fn, func(j ssa.Instruction) {
			mc, ok := j.(*ssa.MakeClosure)
			if !ok || mc.Fn != ssa.Value(cl) || found != nil {
				return
			}
			for k, b := range mc.Bindings {
				hit := objVals[b]
				if a, ok := b.(*ssa.Alloc); ok {
					for _, st := range p.cellStores(a) {
						if objVals[st.Val] {
							hit = true
						}
					}
				}
				if hit && k < len(cl.FreeVars) && len(referrers(cl.FreeVars[k])) > 0 {
					found = referrers(cl.FreeVars[k])[0]
				}
			}
		})
	})
	return found
}
