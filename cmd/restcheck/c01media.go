package main

import (
	"go/token"

	"golang.org/x/tools/go/ssa"
)

// C01.h (= C02.p). The media-type matchers answer "the route admits this request" only for a reason the route's
// declaration gives. Content-Type against Consumes: a positive answer lies under an equality in which one operand is
// an element of the declared list (with the request's type, or with the declared wildcard "*/*"), or under "nothing
// declared" (len(Consumes) == 0), or under "no Content-Type sent" (the bodiless-method rules). A wildcard in the
// REQUEST's Content-Type is not a reason: `Content-Type: */*` is not consumed by a route that declares
// application/json. Accept against Produces: the same, and here a `*/*` range in the request is a reason (the client
// takes anything). The rule follows a matcher into the helper it returns the answer of, binding the declared list
// to the helper's parameter, so a loop shared by both matchers is analysed once per caller with that caller's rules.

type mediaCtx struct {
	p         *Program
	c         *Ctx
	top       string
	declared  string // for messages
	allowWild bool
	depth     int
	npos      int // positive answers seen
	nbad      int // ... without a reason
}

// declElem: v is (a copy of) an element of a declared list.
func (m *mediaCtx) declElem(v ssa.Value, isList func(ssa.Value) bool) bool {
	for _, s := range m.p.sources(v, provDefault) {
		u, ok := strip(s).(*ssa.UnOp)
		if !ok || u.Op != token.MUL {
			continue
		}
		ia, ok := u.X.(*ssa.IndexAddr)
		if !ok {
			continue
		}
		if isList(strip(ia.X)) {
			return true
		}
		for _, s2 := range m.p.sources(ia.X, provDefault) {
			if isList(strip(s2)) {
				return true
			}
		}
	}
	return false
}

func lenIsZeroFact(f condFact, is func(ssa.Value) bool) bool {
	bo, ok := f.Cond.(*ssa.BinOp)
	if !ok {
		return false
	}
	// s == "" for a string
	for _, pr := range [][2]ssa.Value{{bo.X, bo.Y}, {bo.Y, bo.X}} {
		if k, isS := constStr(pr[1]); isS && k == "" && is(strip(pr[0])) {
			if (bo.Op == token.EQL && f.Pol) || (bo.Op == token.NEQ && !f.Pol) {
				return true
			}
		}
	}
	x, y, op := bo.X, bo.Y, bo.Op
	if _, isC := constInt(x); isC {
		x, y = y, x
		op = mirrorOp[op]
	}
	call, ok := x.(*ssa.Call)
	if !ok || !isBuiltinCall(call, "len") || !is(strip(call.Call.Args[0])) {
		return false
	}
	n, ok := constInt(y)
	if !ok {
		return false
	}
	if !f.Pol {
		op = complementOp[op]
	}
	switch op {
	case token.EQL:
		return n == 0
	case token.LEQ:
		return n == 0
	case token.LSS:
		return n == 1
	}
	return false
}

func (m *mediaCtx) reason(facts map[condFact]bool, isList func(ssa.Value) bool, isReqParam func(ssa.Value) bool) string {
	why := ""
	for f := range facts {
		if lenIsZeroFact(f, isList) {
			why = "nothing is declared (len(" + m.declared + ") == 0)"
		}
		if isReqParam != nil && lenIsZeroFact(f, isReqParam) {
			why = "the request names no media type (the bodiless-method rules apply)"
		}
		// a membership helper answered true: its own positive answers must have a reason, with the list bound to its parameter
		if call, isCall := f.Cond.(*ssa.Call); isCall && f.Pol && m.depth < 3 {
			if cal := call.Call.StaticCallee(); cal != nil && m.p.inModule(cal) && cal.Blocks != nil {
				var listParams []ssa.Value
				for k, a := range callArgs(&call.Call) {
					if k < len(cal.Params) && isList(strip(a)) {
						listParams = append(listParams, cal.Params[k])
					}
				}
				if len(listParams) > 0 {
					sub := &mediaCtx{p: m.p, c: nil, top: m.top, declared: m.declared, allowWild: m.allowWild, depth: m.depth + 1}
					sub.analyse(cal, func(v ssa.Value) bool {
						for _, lp := range listParams {
							if v == lp {
								return true
							}
						}
						return false
					}, nil, 0)
					if sub.npos > 0 && sub.nbad == 0 {
						why = "the membership helper " + cal.Name() + " found the request's type in the declared list"
					}
				}
			}
		}
		bo, ok := f.Cond.(*ssa.BinOp)
		if !ok || !((bo.Op == token.EQL && f.Pol) || (bo.Op == token.NEQ && !f.Pol)) {
			continue
		}
		if m.declElem(bo.X, isList) || m.declElem(bo.Y, isList) {
			why = "an element of the declared list equals the request's type or the declared wildcard"
		}
		if m.allowWild {
			for _, pr := range [][2]ssa.Value{{bo.X, bo.Y}, {bo.Y, bo.X}} {
				if s, isS := constStr(pr[1]); isS && s == "*/*" {
					why = "the request's range is */* (the client accepts anything)"
				}
			}
		}
	}
	return why
}

func (m *mediaCtx) analyse(fn *ssa.Function, isList func(ssa.Value) bool, isReqParam func(ssa.Value) bool, depth int) {
	p, c := m.p, m.c
	name := p.fname(fn)
	for _, vr := range virtualReturns(fn) {
		if len(vr.Results) != 1 {
			continue
		}
		res := vr.Results[0]
		if b, isC := constBool(res); isC {
			if !b {
				continue
			}
			why := m.reason(vr.Facts, isList, isReqParam)
			if why == "" && len(vr.Block.Preds) > 1 {
				// `a || b`: the returning block is entered over several edges, each with its own reason
				all := true
				facts := factsAt(fn)
				for _, pr := range vr.Block.Preds {
					f := map[condFact]bool{}
					for g := range facts[pr] {
						f[g] = true
					}
					if iff, ok := pr.Instrs[len(pr.Instrs)-1].(*ssa.If); ok && pr.Succs[0] != pr.Succs[1] {
						addCondFacts(f, iff.Cond, pr.Succs[0] == vr.Block)
					}
					deriveFacts(f)
					if w := m.reason(f, isList, isReqParam); w == "" {
						all = false
					} else {
						why = w
					}
				}
				if !all {
					why = ""
				}
			}
			if why == "" {
				// the condition was computed into a variable first (`ok := a || b; if ok {`): no single edge carries
				// the reason, every path into the block does
				if paths, okP := enumPaths(fn, vr.Block, 600); okP && len(paths) > 0 {
					all := true
					w := ""
					for _, pa := range paths {
						if w = m.reason(pa.Facts, isList, isReqParam); w == "" {
							all = false
							break
						}
					}
					if all {
						why = w
					}
				}
			}
			m.npos++
			if why == "" {
				m.nbad++
			}
			if c != nil {
				c.check(why != "", name, m.top+": a positive answer has a reason in the route's declaration", p.ipos(vr.Ret),
					why, "this path answers 'admitted' although no element of "+m.declared+" was found equal to the request's media type (nor is the list empty): a request whose header merely contains a wildcard, or anything this path lets through, runs a route that does not declare it")
			}
			continue
		}
		if false {
			why := ""
			for f := range vr.Facts {
				if lenIsZeroFact(f, isList) {
					why = "nothing is declared (len(" + m.declared + ") == 0)"
				}
				if isReqParam != nil && lenIsZeroFact(f, isReqParam) {
					why = "the request names no media type (the bodiless-method rules apply)"
				}
				bo, ok := f.Cond.(*ssa.BinOp)
				if !ok || !((bo.Op == token.EQL && f.Pol) || (bo.Op == token.NEQ && !f.Pol)) {
					continue
				}
				if m.declElem(bo.X, isList) || m.declElem(bo.Y, isList) {
					why = "an element of the declared list equals the request's type or the declared wildcard"
				}
				if m.allowWild {
					for _, pr := range [][2]ssa.Value{{bo.X, bo.Y}, {bo.Y, bo.X}} {
						if s, isS := constStr(pr[1]); isS && s == "*/*" {
							why = "the request's range is */* (the client accepts anything)"
						}
					}
				}
			}
			c.check(why != "", name, m.top+": a positive answer has a reason in the route's declaration", p.ipos(vr.Ret),
				why, "this path answers 'admitted' although no element of "+m.declared+" was found equal to the request's media type (nor is the list empty): a request whose header merely contains a wildcard, or anything this path lets through, runs a route that does not declare it")
			continue
		}
		// the answer of a helper: analysed with the declared list bound to its parameter
		if call, ok := strip(res).(*ssa.Call); ok && depth < 3 {
			if cal := call.Call.StaticCallee(); cal != nil && p.inModule(cal) && cal.Blocks != nil {
				args := callArgs(&call.Call)
				var listParams, reqParams []ssa.Value
				for k, a := range args {
					if k >= len(cal.Params) {
						continue
					}
					if isList(strip(a)) {
						listParams = append(listParams, cal.Params[k])
					} else {
						for _, s := range p.sources(a, provDefault) {
							if isList(strip(s)) {
								listParams = append(listParams, cal.Params[k])
							}
						}
					}
				}
				_ = reqParams
				if len(listParams) > 0 {
					m.analyse(cal, func(v ssa.Value) bool {
						for _, lp := range listParams {
							if v == lp {
								return true
							}
						}
						return false
					}, nil, depth+1)
					continue
				}
			}
		}
		// a computed answer: an equality with a declared element is the reason itself
		if bo, ok := strip(res).(*ssa.BinOp); ok && bo.Op == token.EQL && (m.declElem(bo.X, isList) || m.declElem(bo.Y, isList)) {
			m.npos++
			if c == nil {
				continue
			}
			c.ok(name, m.top+": a positive answer has a reason in the route's declaration", p.ipos(vr.Ret), "the answer is the equality of a declared element with the request's type")
		}
	}
}

func ruleMediaMatchers(c *Ctx) {
	p := c.P
	n := 0
	for _, spec := range []struct {
		fn, field string
		wild      bool
	}{{"(Route).matchesContentType", "Consumes", false}, {"(Route).matchesAccept", "Produces", true}} {
		fn := p.fn(spec.fn)
		if fn == nil {
			c.undecided("-", spec.fn, "-", "matcher not found")
			continue
		}
		n++
		m := &mediaCtx{p: p, c: c, top: fn.Name(), declared: "Route." + spec.field, allowWild: spec.wild}
		field := spec.field
		isList := func(v ssa.Value) bool {
			_, ok := fieldLoadIs(v, "Route", field)
			return ok
		}
		var isReq func(ssa.Value) bool
		if !spec.wild && len(fn.Params) >= 2 {
			// the Content-Type value: the string parameter (or the variable it is kept in)
			prm := fn.Params[len(fn.Params)-1]
			isReq = func(v ssa.Value) bool {
				if v == ssa.Value(prm) {
					return true
				}
				for _, s := range p.sources(v, provDefault) {
					if s == ssa.Value(prm) {
						return true
					}
				}
				return false
			}
		}
		before := len(c.Obls)
		m.analyse(fn, isList, isReq, 0)
		if len(c.Obls) == before {
			c.undecided(p.fname(fn), "positive answers of the matcher", p.pos(fn.Pos()), "no positive answer recognised")
		}
	}
}
