package main

import (
	"go/types"

	"golang.org/x/tools/go/ssa"
)

// Rules added after the fifteenth round of seeded changes (DESIGN §13.1k).

// C02.s — every loop on the request path can be left from every one of its cycles. A loop is left through a block
// that has a successor outside it; a cycle inside the loop that passes no such block repeats for ever once it is
// entered with an input that takes it again (a `continue` placed in front of the only exit test of a `for { }` over
// the elements of a header: `Accept: text/plain,,` never returns). Necessary for "exactly one outcome".
func ruleLoopsCanExit(c *Ctx) {
	p := c.P
	n := 0
	for _, fn := range p.requestPathFuncs() {
		if fn.Blocks == nil || !p.inModule(fn) {
			continue
		}
		name := p.fname(fn)
		for _, h := range fn.Blocks {
			if !isLoopHeader(h) {
				continue
			}
			loop := naturalLoop(h)
			exits := map[*ssa.BasicBlock]bool{}
			for b := range loop {
				for _, s := range b.Succs {
					if !loop[s] {
						exits[b] = true
					}
				}
				// a call that does not return counts as leaving
				for _, ins := range b.Instrs {
					if _, isPanic := ins.(*ssa.Panic); isPanic {
						exits[b] = true
					}
				}
			}
			// a cycle through h inside loop \ exits?
			var stuck *ssa.BasicBlock
			if !exits[h] {
				seen := map[*ssa.BasicBlock]bool{}
				var dfs func(b *ssa.BasicBlock) bool
				dfs = func(b *ssa.BasicBlock) bool {
					for _, s := range b.Succs {
						if !loop[s] || exits[s] {
							continue
						}
						if s == h {
							stuck = b
							return true
						}
						if seen[s] {
							continue
						}
						seen[s] = true
						if dfs(s) {
							return true
						}
					}
					return false
				}
				dfs(h)
			}
			n++
			pos := p.pos(fn.Pos())
			if len(h.Instrs) > 0 {
				pos = p.ipos(h.Instrs[len(h.Instrs)-1])
			}
			if stuck == nil {
				c.triv(name, "every cycle of the loop passes a test that can leave it", pos, "no way round the loop avoids all of its exit tests")
			} else {
				c.bad(name, "every cycle of the loop passes a test that can leave it", p.ipos(stuck.Instrs[len(stuck.Instrs)-1]),
					"control comes back to the head of the loop from here without having passed any test that can leave the loop: a request that takes this way round twice never gets an answer")
			}
		}
	}
	c.count("loops", n)
}

// C06.h — the target at the end of a chain works on the pair the chain hands it. A function literal of the shape
// func(*Request, *Response) that the module builds (the Target of a FilterChain, a wrapped route function) does not
// reach for a *Request or *Response of the enclosing function: a filter may have passed on a replacement, and what
// runs behind the filters must see it.
func ruleTargetUsesItsPair(c *Ctx) {
	p := c.P
	n := 0
	for _, fn := range p.SrcFunc {
		if fn.Parent() == nil || fn.Blocks == nil || !p.inModule(fn) || requestShape(fn.Signature) != "route-function" {
			continue
		}
		n++
		name := p.fname(fn)
		var captured *ssa.FreeVar
		for _, fv := range fn.FreeVars {
			t := fv.Type()
			if pt, ok := t.Underlying().(*types.Pointer); ok {
				t = pt.Elem() // a captured variable is captured by reference
			}
			if isPtrToRestful(t, "Request") || isPtrToRestful(t, "Response") || isPtrToRestful(fv.Type(), "Request") || isPtrToRestful(fv.Type(), "Response") {
				if len(referrers(fv)) > 0 {
					captured = fv
				}
			}
		}
		if captured == nil {
			c.ok(name, "works on the request and response it is called with", p.pos(fn.Pos()), "no *Request / *Response of the enclosing function is used")
		} else {
			c.bad(name, "works on the request and response it is called with", p.pos(fn.Pos()),
				"the function uses "+captured.Name()+" of the enclosing function instead of (or besides) the pair it is called with: a filter that passed on a replacement request or response is bypassed")
		}
	}
	if n == 0 {
		c.note("-", "no function literal of route-function shape", "-", "nothing to decide")
	}
}

// C10.h — the function that recovers does not panic itself. In a module function (or literal) that calls recover(),
// no panic statement is reachable: a re-panic "for values net/http understands" escapes ServeHTTP, no 500 is written
// and the RecoverHandler is not told. (DoNotRecover(true) is the documented way to let panics through; it installs no
// recovering function at all.)
func ruleRecoverDoesNotPanic(c *Ctx) {
	p := c.P
	n := 0
	for _, fn := range p.requestPathFuncs() {
		if fn.Blocks == nil || !p.inModule(fn) {
			continue
		}
		recovers := false
		eachInstr(fn, func(i ssa.Instruction) {
			if call, ok := i.(*ssa.Call); ok && isBuiltinCall(call, "recover") {
				recovers = true
			}
		})
		if !recovers {
			continue
		}
		n++
		name := p.fname(fn)
		var pan ssa.Instruction
		eachInstr(fn, func(i ssa.Instruction) {
			if _, ok := i.(*ssa.Panic); ok && pan == nil {
				pan = i
			}
		})
		if pan == nil {
			c.ok(name, "the recovering function does not panic", p.pos(fn.Pos()), "no panic statement in the function that calls recover()")
		} else {
			c.bad(name, "the recovering function does not panic", p.ipos(pan), "a panic raised here, while the first one is being handled, leaves dispatch: no 500 is written, the RecoverHandler does not run and the caller of ServeHTTP sees the panic")
		}
	}
	if n == 0 {
		c.note("-", "no function on the request path calls recover()", "-", "nothing to decide (C10.a decides that the mechanism exists)")
	}
}
