package main

import (
	"go/token"
	"go/types"

	"golang.org/x/tools/go/ssa"
)

// Rules added after the fifteenth round of seeded changes (DESIGN §13.1k).

// C02.s — every loop on the request path can be left from every one of its cycles. A loop is left through a block
// that has a successor outside it; a cycle inside the loop that passes no such block repeats for ever once it is
// entered with an input that takes it again (a `continue` placed in front of the only exit test of a `for { }` over
// the elements of a header: `Accept: text/plain,,` never returns). Necessary for "exactly one outcome".
func ruleLoopsCanExit(c *Ctx) {
	p := c.P
	n := 0
	for _, fn := range p.requestPathFuncs() {
		if fn.Blocks == nil || !p.inModule(fn) {
			continue
		}
		name := p.fname(fn)
		for _, h := range fn.Blocks {
			if !isLoopHeader(h) {
				continue
			}
			loop := naturalLoop(h)
			exits := map[*ssa.BasicBlock]bool{}
			for b := range loop {
				for _, s := range b.Succs {
					if !loop[s] {
						exits[b] = true
					}
				}
				// a call that does not return counts as leaving
				for _, ins := range b.Instrs {
					if _, isPanic := ins.(*ssa.Panic); isPanic {
						exits[b] = true
					}
				}
			}
			// a cycle through h inside loop \ exits?
			var stuck *ssa.BasicBlock
			if !exits[h] {
				seen := map[*ssa.BasicBlock]bool{}
				var dfs func(b *ssa.BasicBlock) bool
				dfs = func(b *ssa.BasicBlock) bool {
					for _, s := range b.Succs {
						if !loop[s] || exits[s] {
							continue
						}
						if s == h {
							stuck = b
							return true
						}
						if seen[s] {
							continue
						}
						seen[s] = true
						if dfs(s) {
							return true
						}
					}
					return false
				}
				dfs(h)
			}
			n++
			pos := p.pos(fn.Pos())
			if len(h.Instrs) > 0 {
				pos = p.ipos(h.Instrs[len(h.Instrs)-1])
			}
			if stuck == nil {
				c.triv(name, "every cycle of the loop passes a test that can leave it", pos, "no way round the loop avoids all of its exit tests")
			} else {
				c.bad(name, "every cycle of the loop passes a test that can leave it", p.ipos(stuck.Instrs[len(stuck.Instrs)-1]),
					"control comes back to the head of the loop from here without having passed any test that can leave the loop: a request that takes this way round twice never gets an answer")
			}
		}
	}
	c.count("loops", n)
}

// C06.h — the target at the end of a chain works on the pair the chain hands it. A function literal of the shape
// func(*Request, *Response) that the module builds (the Target of a FilterChain, a wrapped route function) does not
// reach for a *Request or *Response of the enclosing function: a filter may have passed on a replacement, and what
// runs behind the filters must see it.
func ruleTargetUsesItsPair(c *Ctx) {
	p := c.P
	n := 0
	for _, fn := range p.SrcFunc {
		if fn.Parent() == nil || fn.Blocks == nil || !p.inModule(fn) || requestShape(fn.Signature) != "route-function" {
			continue
		}
		n++
		name := p.fname(fn)
		var captured *ssa.FreeVar
		for _, fv := range fn.FreeVars {
			t := fv.Type()
			if pt, ok := t.Underlying().(*types.Pointer); ok {
				t = pt.Elem() // a captured variable is captured by reference
			}
			if isPtrToRestful(t, "Request") || isPtrToRestful(t, "Response") || isPtrToRestful(fv.Type(), "Request") || isPtrToRestful(fv.Type(), "Response") ||
				isHTTPResponseWriter(t) || isHTTPRequestPtr(t) || isHTTPResponseWriter(fv.Type()) || isHTTPRequestPtr(fv.Type()) {
				// the server's own writer or request, captured where the chain passes on a (possibly replaced) pair
				if len(referrers(fv)) > 0 {
					captured = fv
				}
			}
		}
		if captured == nil {
			c.ok(name, "works on the request and response it is called with", p.pos(fn.Pos()), "no *Request / *Response / http.ResponseWriter / *http.Request of the enclosing function is used")
		} else {
			c.bad(name, "works on the request and response it is called with", p.pos(fn.Pos()),
				"the function uses "+captured.Name()+" of the enclosing function instead of (or besides) the pair it is called with: a filter that passed on a replacement request or response is bypassed")
		}
	}
	if n == 0 {
		c.note("-", "no function literal of route-function shape", "-", "nothing to decide")
	}
}

// C10.h — the function that recovers does not panic itself. In a module function (or literal) that calls recover(),
// no panic statement is reachable: a re-panic "for values net/http understands" escapes ServeHTTP, no 500 is written
// and the RecoverHandler is not told. (DoNotRecover(true) is the documented way to let panics through; it installs no
// recovering function at all.)
func ruleRecoverDoesNotPanic(c *Ctx) {
	p := c.P
	n := 0
	for _, fn := range p.requestPathFuncs() {
		if fn.Blocks == nil || !p.inModule(fn) {
			continue
		}
		recovers := false
		eachInstr(fn, func(i ssa.Instruction) {
			if call, ok := i.(*ssa.Call); ok && isBuiltinCall(call, "recover") {
				recovers = true
			}
		})
		if !recovers {
			continue
		}
		n++
		name := p.fname(fn)
		var pan ssa.Instruction
		eachInstr(fn, func(i ssa.Instruction) {
			if _, ok := i.(*ssa.Panic); ok && pan == nil {
				pan = i
			}
		})
		if pan == nil {
			c.ok(name, "the recovering function does not panic", p.pos(fn.Pos()), "no panic statement in the function that calls recover()")
		} else {
			c.bad(name, "the recovering function does not panic", p.ipos(pan), "a panic raised here, while the first one is being handled, leaves dispatch: no 500 is written, the RecoverHandler does not run and the caller of ServeHTTP sees the panic")
		}
	}
	if n == 0 {
		c.note("-", "no function on the request path calls recover()", "-", "nothing to decide (C10.a decides that the mechanism exists)")
	}
}

// C15.f — "the failing call returns that error". In the functions of the Response's writing API (methods of Response
// and the module functions they reach) a call that hands bytes towards the underlying writer - Write, WriteString,
// Flush, ReadFrom, WriteTo, Encode, io.Copy, fmt.Fprint* - and returns an error has that error looked at: the result is
// not discarded. A bufio.Writer put in front of the response whose Flush error is dropped makes WriteAsXml return nil
// for a writer that failed.
func ruleWriteErrorsKept(c *Ctx) {
	p := c.P
	var roots []*ssa.Function
	for _, fn := range p.methodsOf("Response") {
		roots = append(roots, fn)
	}
	reach := p.callGraph().reach(roots, func(e Edge) bool { return e.Kind == EdgeEscape })
	errType := types.Universe.Lookup("error").Type()
	names := map[string]bool{"Write": true, "WriteString": true, "Flush": true, "ReadFrom": true, "WriteTo": true, "Encode": true, "Copy": true, "CopyN": true,
		"Fprint": true, "Fprintf": true, "Fprintln": true, "WriteByte": true, "WriteRune": true}
	n := 0
	for _, fn := range p.SrcFunc {
		if !reach[fn] || fn.Blocks == nil || !p.inModule(fn) {
			continue
		}
		name := p.fname(fn)
		eachInstr(fn, func(i ssa.Instruction) {
			cc := callCommon(i)
			if cc == nil {
				return
			}
			if _, isDefer := i.(*ssa.Defer); isDefer {
				return
			}
			var mname string
			var sig *types.Signature
			if cc.IsInvoke() {
				mname, sig = cc.Method.Name(), cc.Method.Type().(*types.Signature)
			} else if cal := cc.StaticCallee(); cal != nil {
				mname, sig = cal.Name(), cal.Signature
				if p.inModule(cal) {
					return // the module's own functions are looked at themselves
				}
			} else {
				return
			}
			if !names[mname] || sig.Results().Len() == 0 {
				return
			}
			last := sig.Results().Len() - 1
			if !types.Identical(sig.Results().At(last).Type(), errType) {
				return
			}
			// the trace logger and in-memory buffers cannot fail towards the client
			if cc.IsInvoke() && isLoadOfGlobal(strip(cc.Value), "traceLogger") {
				return
			}
			recv := cc.Value
			if !cc.IsInvoke() && len(cc.Args) > 0 {
				recv = cc.Args[0]
			}
			if recv != nil {
				t := recv.Type()
				if pt, ok := t.Underlying().(*types.Pointer); ok {
					t = pt.Elem()
				}
				if isNamed(t, "bytes", "Buffer") || isNamed(t, "strings", "Builder") {
					return
				}
			}
			v, isVal := i.(ssa.Value)
			if !isVal {
				return
			}
			n++
			used := false
			if sig.Results().Len() == 1 {
				used = len(referrers(v)) > 0
			} else {
				for _, r := range referrers(v) {
					if ex, ok := r.(*ssa.Extract); ok && ex.Index == last && len(referrers(ex)) > 0 {
						used = true
					}
				}
			}
			c.check(used, name, "the error of "+mname+" towards the writer is looked at", p.ipos(i), "the error result is used",
				"the error this call returns is discarded: when the underlying writer fails here the writing call of the Response still returns nil")
		})
	}
	if n == 0 {
		c.note("-", "no fallible write call in the Response's writing functions", "-", "nothing to decide")
	}
}

// C05.k — every range of the Accept header takes part in the ranking. In the loop over the pieces of a header value
// (elements of strings.Split of a request-derived string) no branch is decided by a lookup in a map that the same
// loop fills: a "seen" set that skips a range listed a second time ignores the occurrence that may carry the higher
// q-value (`application/xml;q=0.1, application/json;q=0.5, application/xml`).
func ruleHeaderElementsIndependent(c *Ctx) {
	p := c.P
	n := 0
	for _, fn := range p.requestPathFuncs() {
		if fn.Blocks == nil || !p.inModule(fn) {
			continue
		}
		name := p.fname(fn)
		for _, h := range fn.Blocks {
			if !isLoopHeader(h) {
				continue
			}
			loop := naturalLoop(h)
			// a loop over the elements of strings.Split(x, ",")
			overSplit := false
			for b := range loop {
				for _, ins := range b.Instrs {
					ia, ok := ins.(*ssa.IndexAddr)
					if !ok {
						continue
					}
					for _, src := range p.sources(ia.X, provDefault) {
						if call, ok := src.(*ssa.Call); ok && calleeName(&call.Call) == "strings.Split" {
							if sep, isC := constStr(call.Call.Args[1]); isC && sep == "," {
								overSplit = true
							}
						}
					}
				}
			}
			if !overSplit {
				continue
			}
			n++
			// maps updated inside the loop
			updated := map[ssa.Value]bool{}
			for b := range loop {
				for _, ins := range b.Instrs {
					if mu, ok := ins.(*ssa.MapUpdate); ok {
						updated[strip(mu.Map)] = true
					}
				}
			}
			why := ""
			var dep func(v ssa.Value, d int) bool
			dep = func(v ssa.Value, d int) bool {
				if d > 5 || v == nil {
					return false
				}
				switch x := v.(type) {
				case *ssa.Lookup:
					return updated[strip(x.X)]
				case *ssa.Extract:
					return dep(x.Tuple, d+1)
				case *ssa.UnOp:
					return dep(x.X, d+1)
				case *ssa.BinOp:
					return dep(x.X, d+1) || dep(x.Y, d+1)
				case *ssa.Phi:
					for _, e := range x.Edges {
						if dep(e, d+1) {
							return true
						}
					}
				}
				return false
			}
			for b := range loop {
				if iff, ok := b.Instrs[len(b.Instrs)-1].(*ssa.If); ok && dep(iff.Cond, 0) {
					why = p.ipos(iff)
				}
			}
			pos := p.pos(fn.Pos())
			if len(h.Instrs) > 0 {
				pos = p.ipos(h.Instrs[len(h.Instrs)-1])
			}
			c.check(why == "", name, "each element of the header list is treated on its own", pos, "no branch of the loop reads a map the loop fills",
				"the branch at "+why+" looks an element up in a set that earlier iterations filled: an element listed again is skipped although it may carry the higher quality value (or the stricter requirement)")
		}
	}
	if n == 0 {
		c.note("-", "no loop over the elements of a comma-separated header value", "-", "nothing to decide")
	}
}

// C07.j — "through Handle and HandleWithFilter": what the module registers on the ServeMux for a plain handler is,
// as a whole, the function that installs the compressor - so that the container filters of HandleWithFilter run
// inside it and everything they write goes through the one compressor. Each handler value registered by a function of
// the Handle family (not the dispatcher, not a replayed record) resolves - through parameters to the arguments at the
// call sites, through module functions to what they return - to function literals that install the compressing
// writer themselves. Wrapping only the innermost handler leaves a filter's own bytes outside the encoded stream.
func ruleRegisteredHandlerEncodes(c *Ctx) {
	p := c.P
	installs := func(fn *ssa.Function) bool {
		found := false
		var scan func(f *ssa.Function, d int)
		scan = func(f *ssa.Function, d int) {
			if f == nil || f.Blocks == nil || d > 1 {
				return
			}
			eachInstr(f, func(i ssa.Instruction) {
				if cc := callCommon(i); cc != nil && cc.StaticCallee() != nil {
					if cc.StaticCallee().Name() == "NewCompressingResponseWriter" {
						found = true
					} else if p.inModule(cc.StaticCallee()) && cc.StaticCallee().Parent() == nil {
						scan(cc.StaticCallee(), d+1)
					}
				}
			})
		}
		scan(fn, 0)
		return found
	}
	var resolve func(v ssa.Value, d int, out *[]*ssa.Function, unknown *string)
	resolve = func(v ssa.Value, d int, out *[]*ssa.Function, unknown *string) {
		v = strip(v)
		if d > 6 {
			*unknown = "resolution too deep"
			return
		}
		switch x := v.(type) {
		case *ssa.MakeClosure:
			if f, ok := x.Fn.(*ssa.Function); ok {
				*out = append(*out, f)
			}
		case *ssa.Function:
			*out = append(*out, x)
		case *ssa.Phi:
			for _, e := range x.Edges {
				resolve(e, d+1, out, unknown)
			}
		case *ssa.Parameter:
			fn := x.Parent()
			idx := -1
			for k, prm := range fn.Params {
				if prm == x {
					idx = k
				}
			}
			n := 0
			for _, e := range p.callGraph().In[fn] {
				if cc := callCommon(e.Site); cc != nil && !cc.IsInvoke() && idx >= 0 && idx < len(cc.Args) {
					n++
					resolve(cc.Args[idx], d+1, out, unknown)
				}
			}
			if n == 0 {
				*unknown = "the caller's handler (exported entry)"
			}
		case *ssa.Call:
			if cal := x.Call.StaticCallee(); cal != nil && p.inModule(cal) && cal.Blocks != nil {
				for _, r := range returnsOf(cal) {
					if len(r.Results) > 0 {
						resolve(r.Results[0], d+1, out, unknown)
					}
				}
				return
			}
			*unknown = "result of " + shortCallee(&x.Call)
		case *ssa.UnOp:
			for _, a := range p.loadOfCell(x) {
				for _, st := range p.cellStores(a) {
					resolve(st.Val, d+1, out, unknown)
				}
			}
		default:
			*unknown = operandDesc(v)
		}
	}
	n := 0
	for _, reg := range serviceRegistrations(p) {
		cc := callCommon(reg.Call)
		if cc == nil || len(cc.Args) < 3 {
			continue
		}
		h := strip(cc.Args[2])
		// the dispatcher: a method value of the container
		if mc, ok := h.(*ssa.MakeClosure); ok {
			if f, ok := mc.Fn.(*ssa.Function); ok && f.Synthetic != "" {
				continue
			}
		}
		var fns []*ssa.Function
		unknown := ""
		resolve(h, 0, &fns, &unknown)
		if len(fns) == 0 {
			continue // a handler of the caller registered as it is: nothing of the module to look at
		}
		n++
		bad := ""
		for _, f := range fns {
			if !installs(f) {
				bad = p.fname(f)
			}
		}
		c.check(bad == "", p.fname(reg.Fn), "what is registered for a plain handler installs the compressor itself", p.ipos(reg.Call),
			"every function literal that reaches this registration installs the compressing writer",
			"the function "+bad+" is registered on the mux without being the one that installs the compressor: what it writes itself (the container filters of HandleWithFilter) goes to the client outside the encoded stream, under a Content-Encoding label")
	}
	if n == 0 {
		c.note("-", "no function literal of the module is registered on the mux", "-", "nothing to decide")
	}
}

// C13.i — a provider gives a compressor away and is done with it. In the Release* methods of the module's
// CompressorProviders nothing touches the released object after it was handed over (put into the sync.Pool, sent on
// the cache channel): from that moment another request may hold it. A `Reset(io.Discard)` "to drop the reference to
// the response" placed after the Put resets a writer that is already compressing someone else's response.
func ruleNoUseAfterHandOver(c *Ctx) {
	p := c.P
	n := 0
	for _, fn := range p.SrcFunc {
		if fn.Blocks == nil || !p.inModule(fn) || fn.Signature.Recv() == nil || fn.Parent() != nil || len(fn.Params) < 2 {
			continue
		}
		if len(fn.Name()) < 8 || fn.Name()[:7] != "Release" {
			continue
		}
		obj := fn.Params[1]
		var handOvers []ssa.Instruction
		eachInstr(fn, func(i ssa.Instruction) {
			if cc := callCommon(i); cc != nil && calleeName(cc) == "(*sync.Pool).Put" && len(cc.Args) > 1 && strip(cc.Args[1]) == ssa.Value(obj) {
				handOvers = append(handOvers, i)
			}
			if snd, ok := i.(*ssa.Send); ok && strip(snd.X) == ssa.Value(obj) {
				handOvers = append(handOvers, i)
			}
			if sel, ok := i.(*ssa.Select); ok {
				for _, st := range sel.States {
					if st.Send != nil && strip(st.Send) == ssa.Value(obj) {
						handOvers = append(handOvers, i)
					}
				}
			}
		})
		if len(handOvers) == 0 {
			continue
		}
		n++
		name := p.fname(fn)
		var late ssa.Instruction
		eachInstr(fn, func(i ssa.Instruction) {
			uses := false
			for _, op := range i.Operands(nil) {
				if *op != nil && strip(*op) == ssa.Value(obj) {
					uses = true
				}
			}
			if !uses {
				return
			}
			for _, h := range handOvers {
				if i != h && canReach(h, i) && late == nil {
					late = i
				}
			}
		})
		if late == nil {
			c.ok(name, "nothing touches the object after it was handed over", p.pos(fn.Pos()), "no use of the released object is reachable from the Put / send")
		} else {
			c.bad(name, "nothing touches the object after it was handed over", p.ipos(late), "the released object is used after it was put into the pool (sent on the channel): another request may already have taken it, and this use disturbs its stream")
		}
	}
	if n == 0 {
		c.note("-", "no Release* method hands an object over", "-", "nothing to decide")
	}
}

// C18.k — both routers read the root of a WebService from what was compiled from it (pathExpr: the Matcher for
// RouterJSR311, the tokens for CurlyRouter), the routes carry the root path string itself in Route.Path. Whenever a
// function assigns WebService.rootPath it recompiles pathExpr, under no condition the assignment itself is not under:
// "compile only if there is none yet" leaves expression and tokens describing the old root after a second Path() call,
// while the routes built afterwards carry the new one - the token router and the regex router then serve different URLs.
func ruleRootRecompiled(c *Ctx) {
	p := c.P
	n := 0
	storesPathExpr := func(fn *ssa.Function) bool {
		found := false
		if fn == nil || fn.Blocks == nil {
			return false
		}
		eachInstr(fn, func(i ssa.Instruction) {
			if st, ok := i.(*ssa.Store); ok {
				if fa, ok := st.Addr.(*ssa.FieldAddr); ok && fieldOfAddr(fa).Name() == "pathExpr" && ownerOfFieldAddr(fa) == "WebService" {
					found = true
				}
			}
		})
		return found
	}
	for _, fn := range p.SrcFunc {
		if fn.Blocks == nil || !p.inModule(fn) {
			continue
		}
		var rootStores []*ssa.Store
		eachInstr(fn, func(i ssa.Instruction) {
			if st, ok := i.(*ssa.Store); ok {
				if fa, ok := st.Addr.(*ssa.FieldAddr); ok && fieldOfAddr(fa).Name() == "rootPath" && ownerOfFieldAddr(fa) == "WebService" {
					rootStores = append(rootStores, st)
				}
			}
		})
		if len(rootStores) == 0 {
			continue
		}
		name := p.fname(fn)
		facts := factsAt(fn)
		// recompilations in this function: a direct store to pathExpr or a call of a module function that stores it
		var recompiles []ssa.Instruction
		eachInstr(fn, func(i ssa.Instruction) {
			if st, ok := i.(*ssa.Store); ok {
				if fa, ok := st.Addr.(*ssa.FieldAddr); ok && fieldOfAddr(fa).Name() == "pathExpr" && ownerOfFieldAddr(fa) == "WebService" {
					recompiles = append(recompiles, i)
				}
			}
			if cc := callCommon(i); cc != nil && cc.StaticCallee() != nil && p.inModule(cc.StaticCallee()) && storesPathExpr(cc.StaticCallee()) {
				recompiles = append(recompiles, i)
			}
		})
		for _, rs := range rootStores {
			n++
			ok := false
			for _, rc := range recompiles {
				if !canReach(rs, rc) {
					continue
				}
				extra := false
				for f := range facts[rc.Block()] {
					if !facts[rs.Block()][f] {
						// a condition on the new root path itself (empty -> "/") is not a condition on the old state
						if _, fld, isF := fieldLoad(strip(condRoot(f.Cond))); isF && fld.Name() == "rootPath" {
							continue
						}
						extra = true
					}
				}
				if !extra {
					ok = true
				}
			}
			c.check(ok, name, "an assignment of the root path is followed by the recompilation of its expression", p.ipos(rs),
				"pathExpr is recomputed under no condition the assignment is not under",
				"the root path is assigned here but pathExpr (Matcher and tokens) is recompiled only under a further condition, or not at all: after a second assignment the routers match the old root while the routes carry the new one")
		}
	}
	if n == 0 {
		c.undecided("-", "assignment of WebService.rootPath", "-", "no function assigns the root path")
	}
}

// C11.m — replaying is not recording. A loop over a list of records kept on the Container (what Handle registered)
// that registers each record again calls nothing that adds to that same list: a shared "register and remember" helper
// used by the replay doubles the list on every Remove, and the second replay registers one pattern twice - the mux
// panics in the middle of the rebuild.
func ruleReplayDoesNotRecord(c *Ctx) {
	p := c.P
	roles := p.Roles()
	n := 0
	appendsTo := func(fn *ssa.Function, fld *types.Var, depth int) bool { return false }
	var rec func(fn *ssa.Function, fld *types.Var, depth int) bool
	rec = func(fn *ssa.Function, fld *types.Var, depth int) bool {
		if fn == nil || fn.Blocks == nil || depth > 2 {
			return false
		}
		found := false
		eachInstr(fn, func(i ssa.Instruction) {
			if st, ok := i.(*ssa.Store); ok {
				if fa, ok := st.Addr.(*ssa.FieldAddr); ok && fieldOfAddr(fa) == fld {
					if call, ok := strip(st.Val).(*ssa.Call); ok && isBuiltinCall(call, "append") {
						found = true
					}
				}
			}
			if cc := callCommon(i); cc != nil && cc.StaticCallee() != nil && p.inModule(cc.StaticCallee()) && cc.StaticCallee() != fn {
				if rec(cc.StaticCallee(), fld, depth+1) {
					found = true
				}
			}
		})
		return found
	}
	appendsTo = rec
	for _, fn := range p.SrcFunc {
		if fn.Blocks == nil || !p.inModule(fn) || !roles.MutatorPath[fn] {
			continue
		}
		name := p.fname(fn)
		for _, h := range fn.Blocks {
			if !isLoopHeader(h) {
				continue
			}
			loop := naturalLoop(h)
			// the list ranged over: an element address whose slice was loaded from a Container field
			var fld *types.Var
			for b := range loop {
				for _, ins := range b.Instrs {
					ia, ok := ins.(*ssa.IndexAddr)
					if !ok {
						continue
					}
					for _, src := range p.sources(ia.X, provDefault) {
						if l, ok := src.(*ssa.UnOp); ok {
							if fa, ok := l.X.(*ssa.FieldAddr); ok && ownerOfFieldAddr(fa) == "Container" {
								if _, isSl := fieldOfAddr(fa).Type().Underlying().(*types.Slice); isSl && fieldOfAddr(fa).Name() != "webServices" {
									fld = fieldOfAddr(fa)
								}
							}
						}
					}
				}
			}
			if fld == nil {
				continue
			}
			// does the loop register on a mux (directly or through a helper)?
			n++
			var bad ssa.Instruction
			for b := range loop {
				for _, ins := range b.Instrs {
					if cc := callCommon(ins); cc != nil && cc.StaticCallee() != nil && p.inModule(cc.StaticCallee()) {
						if appendsTo(cc.StaticCallee(), fld, 0) {
							bad = ins
						}
					}
					// ... or the loop body does it itself
					if st, ok := ins.(*ssa.Store); ok {
						if fa, ok := st.Addr.(*ssa.FieldAddr); ok && fieldOfAddr(fa) == fld {
							if call, ok := strip(st.Val).(*ssa.Call); ok && isBuiltinCall(call, "append") {
								bad = ins
							}
						}
					}
				}
			}
			pos := p.pos(fn.Pos())
			if len(h.Instrs) > 0 {
				pos = p.ipos(h.Instrs[len(h.Instrs)-1])
			}
			if bad == nil {
				c.ok(name, "a loop over Container."+fld.Name()+" adds nothing to that list", pos, "no callee of the loop body appends to the list being replayed")
			} else {
				c.bad(name, "a loop over Container."+fld.Name()+" adds nothing to that list", p.ipos(bad),
					"the loop walks the recorded registrations and calls a function that records again: the list doubles on every pass, and the next replay registers one pattern twice (http.ServeMux panics in the middle of the rebuild)")
			}
		}
	}
	if n == 0 {
		c.note("-", "no loop over a list of records on the Container", "-", "nothing to decide")
	}
}

// C11.n — the root pattern "/" is registered at most once per mux. The function that may register it (it contains a
// mux registration with the constant pattern "/" and reports it through a boolean result) is called only where the
// flag that receives that result is known to be false: `if !flag { flag = addHandler(...) }`, in Add (the Container's
// field) and in the rebuild loop of Remove (its local). Without the guard a second service whose fixed prefix is the
// root registers "/" again and http.ServeMux panics - in Remove, in the middle of the rebuild.
func ruleRootRegisteredOnce(c *Ctx) {
	p := c.P
	n := 0
	registersRoot := func(fn *ssa.Function) bool {
		if fn == nil || fn.Blocks == nil || fn.Signature.Results().Len() != 1 {
			return false
		}
		if b, ok := fn.Signature.Results().At(0).Type().Underlying().(*types.Basic); !ok || b.Kind() != types.Bool {
			return false
		}
		found := false
		eachInstr(fn, func(i ssa.Instruction) {
			if cc := callCommon(i); cc != nil {
				switch calleeName(cc) {
				case "(*net/http.ServeMux).HandleFunc", "(*net/http.ServeMux).Handle":
					if k, isC := constStr(cc.Args[1]); isC && k == "/" {
						found = true
					}
				}
			}
		})
		return found
	}
	for _, fn := range p.SrcFunc {
		if fn.Blocks == nil || !p.inModule(fn) {
			continue
		}
		name := p.fname(fn)
		var facts map[*ssa.BasicBlock]map[condFact]bool
		eachInstr(fn, func(i ssa.Instruction) {
			call, ok := i.(*ssa.Call)
			if !ok || call.Call.StaticCallee() == nil || !registersRoot(call.Call.StaticCallee()) {
				return
			}
			n++
			if facts == nil {
				facts = factsAt(fn)
			}
			// where the result goes: a field, or a variable carried round a loop
			var fields []*types.Var
			phis := map[*ssa.Phi]bool{}
			var follow func(v ssa.Value, d int)
			follow = func(v ssa.Value, d int) {
				if d > 3 {
					return
				}
				for _, r := range referrers(v) {
					switch y := r.(type) {
					case *ssa.Store:
						if fa, ok := y.Addr.(*ssa.FieldAddr); ok && y.Val == v {
							fields = append(fields, fieldOfAddr(fa))
						}
					case *ssa.Phi:
						if !phis[y] {
							phis[y] = true
							follow(y, d+1)
						}
					}
				}
			}
			follow(call, 0)
			guarded := false
			for f := range facts[call.Block()] {
				root := condRoot(f.Cond)
				neg := 0
				for v := f.Cond; ; {
					u, ok := v.(*ssa.UnOp)
					if !ok || u.Op != token.NOT {
						break
					}
					neg++
					v = u.X
				}
				isFalse := f.Pol == (neg%2 == 1)
				if !isFalse {
					continue
				}
				if ph, ok := root.(*ssa.Phi); ok && phis[ph] {
					guarded = true
				}
				if _, fld, ok := fieldLoad(strip(root)); ok {
					for _, g := range fields {
						if g == fld {
							guarded = true
						}
					}
				}
			}
			c.check(guarded, name, "the function that may register \"/\" is called only while the root flag is false", p.ipos(call),
				"controlled by the false value of the flag its result is stored in",
				"this call can register the pattern \"/\" although an earlier call already has: for two services whose fixed prefix is the root http.ServeMux panics on the second registration (in Remove: in the middle of the rebuild, leaving the container half rewritten)")
		})
	}
	if n == 0 {
		c.note("-", "no function registers the constant pattern \"/\" and reports it", "-", "nothing to decide")
	}
}

// C06.i (round 19): the list of container filters is looked at per request, never at registration time.
// Container.Filter may be called after Handle/HandleWithFilter/Add: a function that is not on the request path and is
// not the one that stores the list must not read it (a shortcut "no filters yet: register the bare handler" freezes
// the answer of the moment of registration).
func ruleContainerFiltersReadPerRequest(c *Ctx) {
	p := c.P
	roles := p.Roles()
	n := 0
	for _, fn := range p.SrcFunc {
		if fn.Blocks == nil || !p.inModule(fn) {
			continue
		}
		acc := p.fieldAccesses(fn)
		stores := false
		for _, a := range acc {
			if a.Owner == "Container" && a.Field != nil && a.Field.Name() == "containerFilters" && a.Kind == "store" {
				stores = true
			}
		}
		for _, a := range acc {
			if a.Owner != "Container" || a.Field == nil || a.Field.Name() != "containerFilters" || a.Kind == "store" {
				continue
			}
			name := p.fname(fn)
			switch {
			case roles.RequestPath[fn]:
				n++
				c.ok(name, "container filter list is read while serving a request", p.ipos(a.Instr), "function is on the request path")
			case stores:
				c.triv(name, "container filter list is read by the function that extends it", p.ipos(a.Instr), "read-modify-write of the list")
			default:
				c.bad(name, "container filter list is read while serving a request", p.ipos(a.Instr),
					"the list is read at registration time: filters added with Container.Filter afterwards do not run for what this function registered")
			}
		}
	}
	if n == 0 {
		c.bad("-", "container filter list is read while serving a request", "-", "no read of Container.containerFilters on the request path found (expected: dispatch, the handler HandleWithFilter registers)")
	}
}
