package main

func ruleAllow405(c *Ctx) { c.note("-", "pending", "-", "implemented with C02.b") }
