package main

import (
	"fmt"
	"go/token"
	"go/types"
	"os"
	"sort"
	"strings"

	"golang.org/x/tools/go/ssa"
)

// Field-based must-lockset analysis (DESIGN §2.1 A-lock). A lock is identified by the
// struct field it lives in; the mode distinguishes read from write acquisition.

type lockMode int

const (
	lockNone lockMode = iota
	lockR
	lockW
)

type lockSet map[*types.Var]lockMode

func (s lockSet) clone() lockSet {
	o := lockSet{}
	for k, v := range s {
		o[k] = v
	}
	return o
}

func (s lockSet) equal(o lockSet) bool {
	if len(s) != len(o) {
		return false
	}
	for k, v := range s {
		if o[k] != v {
			return false
		}
	}
	return true
}

// meet keeps locks held in both, in the weaker mode.
func meet(a, b lockSet) lockSet {
	o := lockSet{}
	for k, v := range a {
		if w, ok := b[k]; ok {
			if w < v {
				v = w
			}
			o[k] = v
		}
	}
	return o
}

type lockOp struct {
	Lock    *types.Var
	Acquire bool
	Mode    lockMode
}

// lockOpOf recognises sync.Mutex / sync.RWMutex operations and the field holding the mutex.
func lockOpOf(i ssa.Instruction) (lockOp, bool) {
	c := callCommon(i)
	if c == nil {
		return lockOp{}, false
	}
	var op lockOp
	switch calleeName(c) {
	case "(*sync.RWMutex).Lock", "(*sync.Mutex).Lock":
		op = lockOp{Acquire: true, Mode: lockW}
	case "(*sync.RWMutex).RLock":
		op = lockOp{Acquire: true, Mode: lockR}
	case "(*sync.RWMutex).Unlock", "(*sync.Mutex).Unlock":
		op = lockOp{Acquire: false, Mode: lockW}
	case "(*sync.RWMutex).RUnlock":
		op = lockOp{Acquire: false, Mode: lockR}
	default:
		return lockOp{}, false
	}
	if len(c.Args) == 0 {
		return lockOp{}, false
	}
	recv := strip(c.Args[0])
	switch x := recv.(type) {
	case *ssa.FieldAddr:
		op.Lock = fieldOfAddr(x)
	case *ssa.UnOp:
		if x.Op == token.MUL {
			if fa, ok := x.X.(*ssa.FieldAddr); ok {
				op.Lock = fieldOfAddr(fa)
			}
		}
	}
	if op.Lock == nil {
		return lockOp{}, false
	}
	return op, true
}

type LockInfo struct {
	p        *Program
	entry    map[*ssa.Function]lockSet // nil entry = TOP (not yet constrained)
	at       map[ssa.Instruction]lockSet
	acquires map[*ssa.Function]map[*types.Var]bool // transitive
	eligible map[*ssa.Function]bool
}

func (p *Program) addressTaken() map[*ssa.Function]bool {
	taken := map[*ssa.Function]bool{}
	for _, fn := range p.Funcs {
		eachInstr(fn, func(i ssa.Instruction) {
			var ops []*ssa.Value
			ops = i.Operands(ops)
			c := callCommon(i)
			for _, op := range ops {
				if *op == nil {
					continue
				}
				switch v := (*op).(type) {
				case *ssa.Function:
					if c != nil && c.Value == v {
						continue
					}
					if mc, isMC := i.(*ssa.MakeClosure); isMC && mc.Fn == ssa.Value(v) {
						continue // the function literal itself; what happens to the closure value is examined below
					}
					taken[v] = true
				case *ssa.MakeClosure:
					if c != nil && c.Value == v {
						continue
					}
					taken[v.Fn.(*ssa.Function)] = true
				}
			}
			// a closure value flowing anywhere but into a call operand position
			if mc, ok := i.(*ssa.MakeClosure); ok {
				for _, r := range referrers(mc) {
					rc := callCommon(r)
					if rc == nil || rc.Value != ssa.Value(mc) {
						taken[mc.Fn.(*ssa.Function)] = true
					}
				}
			}
		})
	}
	return taken
}

func (p *Program) lockInfo() *LockInfo {
	cg := p.callGraph()
	li := &LockInfo{p: p, entry: map[*ssa.Function]lockSet{}, at: map[ssa.Instruction]lockSet{}, eligible: map[*ssa.Function]bool{}}
	taken := p.addressTaken()
	for _, fn := range p.Funcs {
		if fn.Blocks == nil {
			continue
		}
		exported := false
		if o := fn.Object(); o != nil && o.Exported() && fn.Parent() == nil {
			exported = true
		}
		hasCaller := false
		for _, e := range cg.In[fn] {
			if e.Kind == EdgeStatic || e.Kind == EdgeClosure {
				hasCaller = true
			}
			if e.Kind == EdgeInvoke || e.Kind == EdgeEscape || e.Kind == EdgeMux {
				exported = true // reachable through an interface: callers unknown
			}
			if _, isDefer := e.Site.(*ssa.Defer); isDefer && !(e.Kind == EdgeStatic || e.Kind == EdgeClosure) {
				exported = true // runs at function exit through an unknown callee
			}
			if _, isGo := e.Site.(*ssa.Go); isGo {
				exported = true
			}
		}
		if os.Getenv("RESTCHECK_DEBUG_LOCKS") != "" && strings.Contains(fn.Name(), "$") {
			fmt.Fprintf(os.Stderr, "elig %s exported=%v taken=%v hasCaller=%v in=%d\n", fn.String(), exported, taken[fn], hasCaller, len(cg.In[fn]))
		}
		if !exported && !taken[fn] && hasCaller && fn.Synthetic == "" {
			li.eligible[fn] = true
		} else {
			li.entry[fn] = lockSet{}
		}
	}
	// fixpoint over entry locksets
	for iter := 0; iter < 20; iter++ {
		changed := false
		li.at = map[ssa.Instruction]lockSet{}
		newEntry := map[*ssa.Function]lockSet{}
		for _, fn := range p.Funcs {
			if fn.Blocks == nil {
				continue
			}
			ent, ok := li.entry[fn]
			if !ok {
				continue // TOP: not analysed in this round
			}
			li.analyse(fn, ent)
			for _, e := range cg.Out[fn] {
				if !li.eligible[e.Callee] || !(e.Kind == EdgeStatic || e.Kind == EdgeClosure) {
					continue
				}
				ls := li.at[e.Site]
				if d, isDefer := e.Site.(*ssa.Defer); isDefer {
					ls = li.deferredContext(d)
					if os.Getenv("RESTCHECK_DEBUG_LOCKS") != "" {
						fmt.Fprintf(os.Stderr, "deferred %s from %s: at=%s ctx=%s\n", e.Callee.Name(), fn.Name(), lockSetString(li.at[d]), lockSetString(ls))
					}
				}
				if cur, ok := newEntry[e.Callee]; ok {
					newEntry[e.Callee] = meet(cur, ls)
				} else {
					newEntry[e.Callee] = ls.clone()
				}
			}
		}
		for fn, ls := range newEntry {
			if old, ok := li.entry[fn]; !ok || !old.equal(ls) {
				li.entry[fn] = ls
				changed = true
			}
		}
		if !changed {
			break
		}
	}
	// functions never reached from an analysed caller keep the empty set
	for _, fn := range p.Funcs {
		if fn.Blocks == nil {
			continue
		}
		if _, ok := li.entry[fn]; !ok {
			li.entry[fn] = lockSet{}
			li.analyse(fn, lockSet{})
		}
	}
	// transitive acquires
	li.acquires = map[*ssa.Function]map[*types.Var]bool{}
	for _, fn := range p.Funcs {
		m := map[*types.Var]bool{}
		eachInstr(fn, func(i ssa.Instruction) {
			if op, ok := lockOpOf(i); ok && op.Acquire {
				m[op.Lock] = true
			}
		})
		li.acquires[fn] = m
	}
	for changed := true; changed; {
		changed = false
		for _, fn := range p.Funcs {
			for _, e := range cg.Out[fn] {
				for l := range li.acquires[e.Callee] {
					if !li.acquires[fn][l] {
						li.acquires[fn][l] = true
						changed = true
					}
				}
			}
		}
	}
	return li
}

func (li *LockInfo) analyse(fn *ssa.Function, entry lockSet) {
	in := map[*ssa.BasicBlock]lockSet{}
	in[fn.Blocks[0]] = entry.clone()
	out := map[*ssa.BasicBlock]lockSet{}
	for changed := true; changed; {
		changed = false
		for _, b := range fn.Blocks {
			var cur lockSet
			if b == fn.Blocks[0] {
				cur = entry.clone()
			} else {
				first := true
				for _, pr := range b.Preds {
					o, ok := out[pr]
					if !ok {
						continue
					}
					if first {
						cur = o.clone()
						first = false
					} else {
						cur = meet(cur, o)
					}
				}
				if first {
					continue
				}
			}
			in[b] = cur.clone()
			for _, i := range b.Instrs {
				li.at[i] = cur.clone()
				if op, ok := lockOpOf(i); ok {
					switch i.(type) {
					case *ssa.Defer:
						// deferred unlock: held until exit; deferred lock: ignore
					case *ssa.Go:
					default:
						if op.Acquire {
							cur[op.Lock] = op.Mode
						} else {
							delete(cur, op.Lock)
						}
					}
				}
			}
			if o, ok := out[b]; !ok || !o.equal(cur) {
				out[b] = cur
				changed = true
			}
		}
	}
}

func (li *LockInfo) heldAt(i ssa.Instruction) lockSet { return li.at[i] }

// deferredContext: the locks held while the call deferred at d runs. Deferred calls run last-in first-out at exit: a
// lock held at the defer statement is still held then if its release is itself deferred, by a defer statement that
// executes before d on every path (so it runs after d's call), and no plain release of it can execute after d.
func (li *LockInfo) deferredContext(d *ssa.Defer) lockSet {
	out := lockSet{}
	fn := d.Parent()
	for l, mode := range li.at[d] {
		deferredEarlier, plainLater := false, false
		eachInstr(fn, func(i ssa.Instruction) {
			op, ok := lockOpOf(i)
			if !ok || op.Acquire || op.Lock != l {
				return
			}
			if _, isDefer := i.(*ssa.Defer); isDefer {
				if instrDominates(i, d) {
					deferredEarlier = true
				}
				return
			}
			if canReach(d, i) {
				plainLater = true
			}
		})
		if deferredEarlier && !plainLater {
			out[l] = mode
		}
	}
	return out
}

func lockSetString(s lockSet) string {
	var ks []string
	for k, m := range s {
		mode := "R"
		if m == lockW {
			mode = "W"
		}
		ks = append(ks, k.Name()+":"+mode)
	}
	sort.Strings(ks)
	out := "{"
	for i, k := range ks {
		if i > 0 {
			out += ","
		}
		out += k
	}
	return out + "}"
}
