package main

import (
	"go/token"
	"go/types"

	"golang.org/x/tools/go/ssa"
)

// C02.q. The router's error decides the outcome class (404, 405 with Allow, 415, 406). In the function that hands that
// error to the service error handler, anything else that may answer in its place - another function value kept in a
// Container field, called with the request and response - is chosen under a comparison of the error's Code with a
// constant. A "not found" handler chosen because no route was selected answers 405, 415 and 406 as well: the selectors
// return a nil route for every error.

func ruleAlternativeAnswers(c *Ctx) {
	p := c.P
	n := 0
	for _, fn := range p.requestPathFuncs() {
		// the function that calls the service error handler
		var seh *ssa.Call
		eachInstr(fn, func(i ssa.Instruction) {
			if call, ok := i.(*ssa.Call); ok && isDynamicCall(&call.Call) {
				if _, ok := fieldLoadIs(call.Call.Value, "Container", "serviceErrorHandleFunc"); ok {
					seh = call
				}
			}
		})
		if seh == nil {
			continue
		}
		n++
		name := p.fname(fn)
		facts := factsAt(fn)
		alt := 0
		eachInstr(fn, func(i ssa.Instruction) {
			call, ok := i.(*ssa.Call)
			if !ok || call == seh || !isDynamicCall(&call.Call) {
				return
			}
			v := singleAssignment(call.Call.Value)
			_, f, ok := fieldLoad(strip(v))
			if !ok || f.Pkg() == nil || f.Pkg().Path() != modulePath {
				return
			}
			if _, isFunc := f.Type().Underlying().(*types.Signature); !isFunc {
				return
			}
			if f.Name() == "serviceErrorHandleFunc" || f.Name() == "recoverHandleFunc" {
				return
			}
			// takes the response (it can answer)
			answers := false
			for _, a := range call.Call.Args {
				if isPtrToRestful(a.Type(), "Response") || isHTTPResponseWriter(a.Type()) {
					answers = true
				}
			}
			if !answers {
				return
			}
			alt++
			byCode := false
			for ft := range facts[call.Block()] {
				bo, ok := ft.Cond.(*ssa.BinOp)
				if !ok || !((bo.Op == token.EQL && ft.Pol) || (bo.Op == token.NEQ && !ft.Pol)) {
					continue
				}
				for _, pr := range [][2]ssa.Value{{bo.X, bo.Y}, {bo.Y, bo.X}} {
					if _, isC := constInt(pr[1]); !isC {
						continue
					}
					switch x := strip(pr[0]).(type) {
					case *ssa.Field:
						if st, ok := x.X.Type().Underlying().(*types.Struct); ok && st.Field(x.Field).Name() == "Code" {
							byCode = true
						}
					case *ssa.UnOp:
						if _, cf, ok := fieldLoad(x); ok && cf.Name() == "Code" {
							byCode = true
						}
					}
				}
			}
			c.check(byCode, name, "what answers instead of the service error handler is chosen by the error's code", p.ipos(i),
				"the call of Container."+f.Name()+" lies under a comparison of the ServiceError's Code with a constant",
				"Container."+f.Name()+" answers in place of the service error handler without a test of the error's code: the selectors return a nil route for every error, so 405 (and its Allow header), 415 and 406 are answered by it as well")
		})
		if alt == 0 {
			c.triv(name, "nothing answers instead of the service error handler", p.ipos(seh), "the router's ServiceError is the only answer of the error branch")
		}
	}
	if n == 0 {
		c.undecided("-", "call of the service error handler", "-", "not found on the request path")
	}
}
