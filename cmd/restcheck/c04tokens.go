package main

import (
	"go/types"
	"strings"

	"golang.org/x/tools/go/ssa"
)

// C04.g. Values are bound from the tokens of the request path. Between tokenisation and binding nothing writes into
// the token slice: no store to an element of the slice (or of a sub-slice, which shares the backing array), no
// copy() into it, no in-place sort, in the function that tokenised or in any module function the slice is handed to.
// A helper that "only formats" the tokens for a log line but shortens them in place changes what is bound.

var knownSliceMutators = map[string]bool{"sort.Strings": true, "sort.Sort": true, "sort.Stable": true, "sort.Slice": true, "sort.SliceStable": true, "slices.Sort": true, "slices.Reverse": true, "slices.SortFunc": true}

// sliceWrites: writes into the backing array of slice value v in fn, following sub-slices, phis and module callees.
func (p *Program) sliceWrites(v ssa.Value, depth int, seenFn map[*ssa.Function]bool) []ssa.Instruction {
	var out []ssa.Instruction
	seen := map[ssa.Value]bool{}
	var visit func(x ssa.Value)
	visit = func(x ssa.Value) {
		if seen[x] {
			return
		}
		seen[x] = true
		for _, r := range referrers(x) {
			switch y := r.(type) {
			case *ssa.IndexAddr:
				if y.X != x {
					continue
				}
				for _, rr := range referrers(y) {
					if st, ok := rr.(*ssa.Store); ok && st.Addr == ssa.Value(y) {
						out = append(out, st)
					}
				}
			case *ssa.Slice:
				if y.X == x {
					visit(y)
				}
			case *ssa.Phi:
				visit(y)
			case *ssa.ChangeType:
				visit(y)
			case *ssa.MakeInterface:
				visit(y)
			case *ssa.Store:
				// the slice kept in a local variable: the loads of that variable are the same slice
				if y.Val == x {
					if a, ok := y.Addr.(*ssa.Alloc); ok {
						for _, l := range p.cellLoads(a) {
							visit(l)
						}
					}
				}
			}
			cc := callCommon(r)
			if cc == nil {
				continue
			}
			if call, ok := r.(*ssa.Call); ok && isBuiltinCall(call, "copy") && len(cc.Args) == 2 && cc.Args[0] == x {
				out = append(out, r)
				continue
			}
			if call, ok := r.(*ssa.Call); ok && isBuiltinCall(call, "append") && len(cc.Args) > 0 && cc.Args[0] == x {
				// append(tokens[:k], ...) overwrites tokens[k:] when the capacity allows
				if _, isSub := x.(*ssa.Slice); isSub {
					out = append(out, r)
				}
				continue
			}
			if knownSliceMutators[calleeName(cc)] {
				for _, a := range cc.Args {
					if a == x {
						out = append(out, r)
					}
				}
				continue
			}
			cal := cc.StaticCallee()
			if cal == nil || !p.inModule(cal) || cal.Blocks == nil || depth >= 3 || seenFn[cal] {
				continue
			}
			args := callArgs(cc)
			for k, a := range args {
				if a == x && k < len(cal.Params) {
					seenFn[cal] = true
					out = append(out, p.sliceWrites(cal.Params[k], depth+1, seenFn)...)
					// what the callee returns may be the same slice again
					for _, ret := range returnsOf(cal) {
						for _, res := range ret.Results {
							if strip(res) == ssa.Value(cal.Params[k]) {
								if val, ok := r.(ssa.Value); ok {
									visit(val)
								}
							}
						}
					}
				}
			}
		}
	}
	visit(v)
	return out
}

func ruleC04g(c *Ctx) {
	p := c.P
	n := 0
	for _, fn := range p.requestPathFuncs() {
		name := p.fname(fn)
		eachInstr(fn, func(i ssa.Instruction) {
			call, ok := i.(*ssa.Call)
			if !ok {
				return
			}
			isTok := false
			if cal := call.Call.StaticCallee(); cal != nil && p.inModule(cal) && cal.Name() == "tokenizePath" {
				isTok = true
			}
			if cn := calleeName(&call.Call); (cn == "strings.Split" || cn == "strings.SplitN" || cn == "strings.Fields") && fn.Name() != "tokenizePath" {
				// a binder that splits the URL path itself
				for _, s := range p.sources(call.Call.Args[0], provDefault) {
					if prm, ok := s.(*ssa.Parameter); ok && strings.Contains(strings.ToLower(prm.Name()), "path") {
						isTok = true
					}
				}
			}
			if !isTok {
				return
			}
			if _, isSlice := call.Type().Underlying().(*types.Slice); !isSlice {
				return
			}
			n++
			ws := p.sliceWrites(call, 0, map[*ssa.Function]bool{})
			detail := ""
			if len(ws) > 0 {
				detail = "written at " + p.ipos(ws[0]) + " (in " + p.fname(ws[0].Parent()) + ")"
			}
			c.check(len(ws) == 0, name, "the tokens of the request path are not modified after tokenisation", p.ipos(i),
				"no element store, copy, truncating append or in-place sort reaches the token slice or a sub-slice of it, here or in a module function it is handed to",
				"the token slice is "+detail+": the values bound to the path parameters (and the tokens routes are matched against) are no longer the URL's segments")
		})
	}
	if n == 0 {
		c.undecided("-", "tokenisation of the request path", "-", "no call of tokenizePath on the request path")
	}
}
