package main

import (
	"go/token"

	"golang.org/x/tools/go/ssa"
)

func init() {
	register(&Property{
		ID:    "C10",
		Title: "A panic anywhere in the chain becomes one 500 and leaves the container usable",
		Decided: "C10.a in the dispatching function a deferred closure that calls recover() directly is registered exactly when recovery is enabled, before route selection and both chains, and calls the recover handler at most once with the recovered value; with recovery off no recover() is reachable; " +
			"C10.b the recover handler receives the active (possibly compressing) writer and the deferred Close of that writer is registered before the recover defer, so it runs after the handler wrote; C10.c every lock taken on the request path is released on every exit, by a defer wherever user code or an interface call runs inside the critical section; " +
			"C10.d no compressor is lost on the panic path (the Close defer covers every install; C13.a decides that Close releases exactly once); C10.e the default recover handler writes the 500 status before the body on its writer. C10.f = C07.h (a complete, decodable body: no declared length from framework writers). C10.g the recover closure dereferences no variable of the dispatching function that can still be nil at a crash point (no store before the defer statement and no nil test), and asserts no type without comma-ok. C10.h a function that calls recover() contains no panic statement.",
		NotDecided:  "what a user-supplied recover handler does; that compress/gzip can finish a stream after a partial write; panics raised by net/http itself.",
		Assumptions: []string{"Go runs deferred calls LIFO on panic and recover() only works when called directly by the deferred function"},
		Rules: []Rule{
			{ID: "C10.a", Template: "T-DEFER", Required: true, Run: ruleC10a,
				Doc: "Recovery is installed iff enabled and covers selection, the error chain and the route chain; the recover handler runs at most once, only for a non-nil recovered value."},
			{ID: "C10.b", Template: "T-DEFER", Required: true, Run: ruleC10b,
				Doc: "The recover handler is given the same writer variable the Close-defer closes (the compressing writer after an install), and the Close-defer is registered first (LIFO: the handler writes, then the stream is finished). Otherwise the 500 body is written raw under a gzip label or into a closed encoder."},
			{ID: "C10.c", Template: "T-LOCK", Required: true, Run: ruleC10c,
				Doc: "No lock survives a panic: each Lock/RLock on the request path is released by a defer in the same function when a user callback or interface call can run inside the critical section; otherwise it is released on every path with nothing that can panic in between. A read lock left behind by a panicking route condition blocks the next Add forever."},
			{ID: "C10.d", Template: "T-DEFER", Required: true, Run: ruleC07e,
				Doc: "No compressor is lost when a panic unwinds: the deferred Close of the active writer is registered before each install (same obligation as C07.e)."},
			{ID: "C10.e", Template: "T-ORDER", Required: true, Run: ruleC10e,
				Doc: "The default recover handler calls WriteHeader(500) before Write, both on the writer it was given."},
			{ID: "C10.h", Template: "T-SINK", Required: false, Run: ruleRecoverDoesNotPanic,
				Doc: "The function that recovers does not panic itself: a re-panic for selected values (http.ErrAbortHandler) leaves dispatch without a 500 and without the RecoverHandler having run. DoNotRecover(true) is the documented way to let panics through."},
			{ID: "C10.g", Template: "T-DEFER", Required: true, Run: ruleC10g,
				Doc: "The recover closure runs for a panic at any crash point after its registration, also before the dispatching function assigned its variables (route, web service). A dereference of such a variable in the closure, not under a nil test, is a second panic after recover() consumed the first: the handler is not called and the panic escapes Dispatch."},
			{ID: "C10.f", Template: "T-SINK", Required: true, Run: ruleNoDeclaredLength,
				Doc: "'A complete, decodable body': the recover handler (and every other framework writer) declares no Content-Length, because the writer it is given may be encoding (same obligations as C07.h)."},
		},
	})
}

// recoverClosures returns the closures of fn that call the builtin recover() directly.
func callsRecover(fn *ssa.Function) *ssa.Call {
	var out *ssa.Call
	eachInstr(fn, func(i ssa.Instruction) {
		if call, ok := i.(*ssa.Call); ok && isBuiltinCall(call, "recover") {
			out = call
		}
	})
	return out
}

func ruleC10a(c *Ctx) {
	p := c.P
	ds, _ := findDispatchers(p)
	if len(ds) == 0 {
		c.undecided("-", "dispatching function", "-", "no function invoking RouteSelector.SelectRoute found")
		return
	}
	for _, d := range ds {
		fn := d.Fn
		name := p.fname(fn)
		facts := factsAt(fn)
		var recDefers []*ssa.Defer
		eachInstr(fn, func(i ssa.Instruction) {
			df, ok := i.(*ssa.Defer)
			if !ok {
				return
			}
			if cl := deferredFunc(p, df); cl != nil && callsRecover(cl) != nil {
				recDefers = append(recDefers, df)
			}
		})
		if len(recDefers) != 1 {
			c.bad(name, "deferred recover", p.pos(fn.Pos()), "expected exactly one deferred closure that calls recover() directly in the dispatching function, found "+itoa(len(recDefers))+" (recover() in a helper called by the deferred function does not stop the panic)")
			continue
		}
		df := recDefers[0]
		// registered iff enabled
		var guard *condFact
		for f := range facts[df.Block()] {
			if _, ok := fieldLoadIs(f.Cond, "Container", "doNotRecover"); ok {
				ff := f
				guard = &ff
			}
		}
		c.check(guard != nil && !guard.Pol, name, "recover defer registered only when recovery is enabled", p.ipos(df),
			"on the false edge of c.doNotRecover", "the recover defer is not guarded by !doNotRecover: with recovery switched off the panic must propagate to the caller unchanged")
		// ... and always when enabled, before selection: the defer's block is the sole successor on that edge
		// and the deciding If dominates the selection
		selSite := selectionSiteIn(p, d)
		covers := false
		if guard != nil && selSite != nil {
			// the If that tests the switch dominates the selection, and from its "recovery enabled" edge the selection
			// is not reached without executing the defer statement (other statements may sit between the test and the defer)
			for _, ifb := range fn.Blocks {
				iff, ok := ifb.Instrs[len(ifb.Instrs)-1].(*ssa.If)
				if !ok {
					continue
				}
				if _, ok := fieldLoadIs(strip(condRoot(iff.Cond)), "Container", "doNotRecover"); !ok {
					continue
				}
				if !ifb.Dominates(df.Block()) || !ifb.Dominates(selSite.Block()) {
					continue
				}
				// the enabled edge: the successor from which the defer is reachable under the guard's polarity
				for k, s := range ifb.Succs {
					enabled := (k == 0) == guard.Pol
					if negations(iff.Cond)%2 == 1 {
						enabled = !enabled
					}
					if !enabled || len(s.Instrs) == 0 {
						continue
					}
					first := s.Instrs[0]
					if first == ssa.Instruction(df) || !reachesSkipping(first, selSite, df, func(*ssa.BasicBlock, int) bool { return true }) && first != selSite {
						covers = true
					}
				}
			}
		}
		c.check(covers, name, "recovery covers route selection and both chains", p.ipos(df),
			"every path with recovery enabled registers the defer before the selection; everything after the selection runs under it",
			"with recovery enabled some path reaches route selection (and the chains after it) without the recover defer registered")
		// the closure
		cl := deferredFunc(p, df)
		rec := callsRecover(cl)
		cfacts := factsAt(cl)
		dyn := map[ssa.Instruction]bool{}
		var hcalls []*ssa.Call
		eachInstr(cl, func(i ssa.Instruction) {
			if call, ok := i.(*ssa.Call); ok && isDynamicCall(&call.Call) {
				if _, ok := fieldLoadIs(call.Call.Value, "Container", "recoverHandleFunc"); ok {
					dyn[i] = true
					hcalls = append(hcalls, call)
				}
			}
		})
		_, max, _ := countOnPaths(cl, nil, dyn)
		c.check(len(hcalls) >= 1 && max == 1, p.fname(cl), "recover handler called at most once", p.pos(cl.Pos()), "max = 1 over all paths", "the recover handler is called "+maxStr(max)+" times on some path (or never)")
		for _, h := range hcalls {
			nonNil := false
			for f := range cfacts[h.Block()] {
				if bo, ok := f.Cond.(*ssa.BinOp); ok && bo.Op == token.NEQ && f.Pol {
					if (strip(bo.X) == ssa.Value(rec) && isNilConst(bo.Y)) || (strip(bo.Y) == ssa.Value(rec) && isNilConst(bo.X)) {
						nonNil = true
					}
				}
			}
			c.check(nonNil && len(h.Call.Args) == 2 && strip(h.Call.Args[0]) == ssa.Value(rec), p.fname(cl), "recover handler gets the recovered value, only when non-nil", p.ipos(h),
				"called with r under r != nil", "the recover handler runs without a panic, or with something other than the recovered value")
		}
	}
	// with recovery off no recover() is reachable: every recover() on the request path sits in such a guarded closure
	for _, fn := range p.requestPathFuncs() {
		rec := callsRecover(fn)
		if rec == nil {
			continue
		}
		// every defer that runs this function (as a closure or as a named function) is guarded
		guarded := false
		unguarded := false
		for _, g := range p.Funcs {
			eachInstr(g, func(i ssa.Instruction) {
				df, ok := i.(*ssa.Defer)
				if !ok || p.funcValue(df.Call.Value) != fn {
					if !ok || df.Call.StaticCallee() != fn {
						return
					}
				}
				okG := false
				for f := range factsAt(df.Parent())[df.Block()] {
					if _, ok := fieldLoadIs(f.Cond, "Container", "doNotRecover"); ok && !f.Pol {
						okG = true
					}
				}
				if okG {
					guarded = true
				} else {
					unguarded = true
				}
			})
		}
		guarded = guarded && !unguarded
		c.check(guarded, p.fname(fn), "recover() only under !doNotRecover", p.ipos(rec), "the closure is only ever deferred on the false edge of doNotRecover",
			"a recover() on the request path is not guarded by the DoNotRecover setting: with recovery off the panic no longer propagates unchanged")
	}
}

// deferredFunc: the module function a defer statement runs (closure or named function).
func deferredFunc(p *Program, df *ssa.Defer) *ssa.Function {
	if f := p.funcValue(df.Call.Value); f != nil {
		return f
	}
	if f := df.Call.StaticCallee(); f != nil && p.inModule(f) {
		return f
	}
	return nil
}

// negations: the number of `!` around the condition's root.
func negations(v ssa.Value) int {
	n := 0
	for {
		u, ok := v.(*ssa.UnOp)
		if !ok || u.Op != token.NOT {
			return n
		}
		n++
		v = u.X
	}
}

func condRoot(v ssa.Value) ssa.Value {
	for {
		u, ok := v.(*ssa.UnOp)
		if !ok || u.Op != token.NOT {
			return v
		}
		v = u.X
	}
}

// selectionSiteIn returns the instruction of the dispatcher's outer function at which
// selection happens: the SelectRoute invoke itself or the call of the closure that contains it.
func selectionSiteIn(p *Program, d *Dispatcher) ssa.Instruction {
	if d.Site != nil && d.Site.Parent() == d.Fn {
		return d.Site
	}
	if d.SelectCall.Parent() == d.Fn {
		return d.SelectCall
	}
	var site ssa.Instruction
	eachInstr(d.Fn, func(i ssa.Instruction) {
		if cc := callCommon(i); cc != nil {
			if f := p.funcValue(cc.Value); f != nil && f == d.SelectCall.Parent() {
				site = i
			}
		}
	})
	return site
}

func ruleC10b(c *Ctx) {
	p := c.P
	ds, _ := findDispatchers(p)
	for _, d := range ds {
		fn := d.Fn
		name := p.fname(fn)
		var recDefer *ssa.Defer
		eachInstr(fn, func(i ssa.Instruction) {
			if df, ok := i.(*ssa.Defer); ok {
				if cl := deferredFunc(p, df); cl != nil && callsRecover(cl) != nil {
					recDefer = df
				}
			}
		})
		if recDefer == nil {
			c.bad(name, "recover defer", p.pos(fn.Pos()), "no deferred recover in the dispatching function")
			continue
		}
		// the writer variable of this function: the one its install site stores to
		var site *installSite
		for _, s := range installSites(p) {
			if topFunc(s.Fn) == fn {
				site = s
			}
		}
		if site == nil {
			c.note(name, "no encoder is installed in the dispatching function", "-", "the recover handler trivially writes to the only writer")
			continue
		}
		cl := deferredFunc(p, recDefer)
		eachInstr(cl, func(i ssa.Instruction) {
			call, ok := i.(*ssa.Call)
			if !ok || !isDynamicCall(&call.Call) {
				return
			}
			if _, ok := fieldLoadIs(call.Call.Value, "Container", "recoverHandleFunc"); !ok {
				return
			}
			warg := call.Call.Args[len(call.Call.Args)-1]
			late := true
			if prm, ok := strip(warg).(*ssa.Parameter); ok && cl.Parent() == nil {
				// a named function deferred with arguments: they were evaluated when the defer statement ran
				for k, q := range cl.Params {
					if q == prm && k < len(recDefer.Call.Args) {
						warg = recDefer.Call.Args[k]
						// the writer variable must not be assigned after the defer statement
						if site.Writer.Cell != nil {
							for _, st := range p.cellStores(site.Writer.Cell) {
								if st.Parent() == fn && canReach(recDefer, st) {
									late = false
								}
							}
						} else {
							late = false
						}
					}
				}
			}
			c.check(len(call.Call.Args) == 2 && p.isVar(warg, site.Writer) && late, p.fname(cl), "recover handler writes to the active writer", p.ipos(i),
				"second argument is a load of "+site.Writer.String()+", the variable the install stores the compressing writer into",
				"the recover handler is given a writer other than the active one: after an install its 500 body goes out raw under a Content-Encoding label")
		})
		// ... and nothing else in the recover closure is handed another writer of this request: whatever answers the
		// panic (a second handler, a Response built for it) writes through the active one
		if cl.Parent() != nil {
			eachInstr(cl, func(i ssa.Instruction) {
				cc := callCommon(i)
				if cc == nil {
					return
				}
				for _, a := range callArgs(cc) {
					if !isHTTPResponseWriter(a.Type()) {
						continue
					}
					if _, isConst := a.(*ssa.Const); isConst {
						continue
					}
					if p.isVar(a, site.Writer) {
						continue
					}
					// a writer that is not the active variable: the raw parameter of the dispatching function (or anything else)
					raw := false
					for _, src := range p.sources(a, provOpt{ThroughCells: true}) {
						if prm, ok := strip(src).(*ssa.Parameter); ok && prm.Parent() == fn && isHTTPResponseWriter(prm.Type()) {
							raw = true
						}
					}
					if raw {
						c.bad(p.fname(cl), "every writer used while recovering is the active one", p.ipos(i),
							"the recover closure hands the dispatching function's raw writer to "+shortOr(cc, "a function value")+" instead of "+site.Writer.String()+": after an install the answer to the panic goes out raw under a Content-Encoding label (and the deferred Close appends an empty compressed stream)")
					}
				}
			})
		}
		if site.CloseDef == nil {
			c.bad(name, "Close-defer before recover-defer", p.ipos(recDefer), "no deferred Close of the active writer in the dispatching function")
			continue
		}
		c.check(instrDominates(site.CloseDef, recDefer), name, "Close-defer is registered before the recover-defer", p.ipos(recDefer),
			"LIFO: recovery writes first, then the encoder is closed", "the encoder is closed before the recover handler writes: the 500 body is lost (write on a closed compressor) and the client sees an empty or truncated stream")
	}
}

// mayPanicOrCallUser: the instruction can run user code or code whose panics the framework does not control.
func mayRunUserCode(p *Program, i ssa.Instruction, cg *CallGraph, memo map[*ssa.Function]bool) bool {
	cc := callCommon(i)
	if cc == nil {
		return false
	}
	if _, ok := lockOpOf(i); ok {
		return false
	}
	if _, ok := cc.Value.(*ssa.Builtin); ok {
		return false
	}
	if cc.IsInvoke() {
		return true
	}
	if isDynamicCall(cc) {
		if f := p.funcValue(cc.Value); f == nil {
			return true
		}
	}
	if cal := cc.StaticCallee(); cal != nil && p.inModule(cal) {
		return funcMayRunUserCode(p, cal, cg, memo)
	}
	return false
}

func funcMayRunUserCode(p *Program, fn *ssa.Function, cg *CallGraph, memo map[*ssa.Function]bool) bool {
	if v, ok := memo[fn]; ok {
		return v
	}
	memo[fn] = false
	res := false
	eachInstr(fn, func(i ssa.Instruction) {
		if res {
			return
		}
		if mayRunUserCode(p, i, cg, memo) {
			res = true
		}
	})
	memo[fn] = res
	return res
}

func ruleC10c(c *Ctx) {
	p := c.P
	cg := p.callGraph()
	memo := map[*ssa.Function]bool{}
	n := 0
	for _, fn := range p.requestPathFuncs() {
		name := p.fname(fn)
		eachInstr(fn, func(i ssa.Instruction) {
			op, ok := lockOpOf(i)
			if !ok || !op.Acquire {
				return
			}
			if _, isDefer := i.(*ssa.Defer); isDefer {
				return
			}
			n++
			construct := "release of " + op.Lock.Name()
			// deferred release in the same function, registered right after
			var defRel *ssa.Defer
			var plainRel []ssa.Instruction
			eachInstr(fn, func(j ssa.Instruction) {
				o2, ok := lockOpOf(j)
				if !ok || o2.Acquire || o2.Lock != op.Lock || o2.Mode != op.Mode {
					return
				}
				if d, isDefer := j.(*ssa.Defer); isDefer {
					if instrDominates(i, d) {
						defRel = d
					}
				} else {
					plainRel = append(plainRel, j)
				}
			})
			if defRel != nil {
				// nothing that can panic between acquire and defer
				clean := defRel.Block() == i.Block()
				if clean {
					for k := indexInBlock(i) + 1; k < indexInBlock(defRel); k++ {
						if mayRunUserCode(p, i.Block().Instrs[k], cg, memo) {
							clean = false
						}
					}
				}
				c.check(clean, name, construct+" is deferred", p.ipos(i), "defer "+lockModeName(op.Mode, false)+" directly after the acquire: released on return and on panic",
					"user code can run between the acquire and the registration of the deferred release")
				return
			}
			// not deferred: released on every path, nothing that can run user code in between
			if len(plainRel) == 0 {
				c.bad(name, construct+" missing", p.ipos(i), "the lock is acquired and never released in this function")
				return
			}
			leak := false
			for _, r := range returnsOf(fn) {
				if canReachAvoiding(i, r, plainRel) {
					leak = true
				}
			}
			user := false
			// instructions reachable from the acquire before any release
			visited := map[ssa.Instruction]bool{}
			var walk func(b *ssa.BasicBlock, from int)
			seenB := map[*ssa.BasicBlock]bool{}
			walk = func(b *ssa.BasicBlock, from int) {
				for k := from; k < len(b.Instrs); k++ {
					ins := b.Instrs[k]
					for _, r := range plainRel {
						if r == ins {
							return
						}
					}
					visited[ins] = true
					if mayRunUserCode(p, ins, cg, memo) {
						user = true
					}
				}
				for _, s := range b.Succs {
					if !seenB[s] {
						seenB[s] = true
						walk(s, 0)
					}
				}
			}
			walk(i.Block(), indexInBlock(i)+1)
			switch {
			case leak:
				c.bad(name, construct+" on every path", p.ipos(i), "a path from the acquire to a return passes no release")
			case user:
				c.bad(name, construct+" must be deferred", p.ipos(i),
					"a user callback or interface call runs inside the critical section and the release is not deferred: a panic there leaves the lock held and the next writer (Add/Remove/Route) blocks forever")
			default:
				c.ok(name, construct+" on every path, nothing can panic in between", p.ipos(i), itoa(len(visited))+" instruction(s) inside the critical section, none runs user code")
			}
		})
	}
	c.count("lock_acquisitions_on_request_path", n)
}

func lockModeName(m lockMode, acquire bool) string {
	switch {
	case m == lockR && acquire:
		return "RLock"
	case m == lockR:
		return "RUnlock"
	case acquire:
		return "Lock"
	}
	return "Unlock"
}

func ruleC10e(c *Ctx) {
	p := c.P
	// the default handler: whatever NewContainer stores into recoverHandleFunc
	var defaults []*ssa.Function
	for _, fn := range p.SrcFunc {
		eachInstr(fn, func(i ssa.Instruction) {
			st, ok := i.(*ssa.Store)
			if !ok {
				return
			}
			fa, ok := st.Addr.(*ssa.FieldAddr)
			if !ok || ownerOfFieldAddr(fa) != "Container" || fieldOfAddr(fa).Name() != "recoverHandleFunc" {
				return
			}
			if f := p.funcValue(st.Val); f != nil {
				defaults = append(defaults, f)
			}
		})
	}
	defaults = dedupFuncs(defaults)
	if len(defaults) == 0 {
		c.undecided("-", "default recover handler", "-", "no function constant is stored into Container.recoverHandleFunc")
		return
	}
	for _, fn := range defaults {
		name := p.fname(fn)
		var w *ssa.Parameter
		for _, prm := range fn.Params {
			if isHTTPResponseWriter(prm.Type()) {
				w = prm
			}
		}
		var wh, wr []ssa.Instruction
		eachInstr(fn, func(i ssa.Instruction) {
			cc := callCommon(i)
			if cc == nil || !cc.IsInvoke() || strip(cc.Value) != ssa.Value(w) {
				return
			}
			switch cc.Method.Name() {
			case "WriteHeader":
				wh = append(wh, i)
			case "Write":
				wr = append(wr, i)
			}
		})
		if len(wh) != 1 {
			c.bad(name, "status written once", p.pos(fn.Pos()), "expected exactly one WriteHeader on the handler's writer, found "+itoa(len(wh)))
			continue
		}
		code, okc := constInt(callCommon(wh[0]).Args[0])
		c.check(okc && code == 500, name, "default status is 500", p.ipos(wh[0]), "WriteHeader(500)", "the default recover handler does not answer 500")
		before := true
		for _, w := range wr {
			if !instrDominates(wh[0], w) {
				before = false
			}
		}
		c.check(before, name, "status before body", p.ipos(wh[0]), "WriteHeader dominates every Write", "the body is written before the status: net/http sends 200")
		// reaches every exit
		min, _, ok := countOnPaths(fn, nil, map[ssa.Instruction]bool{wh[0]: true})
		c.check(ok && min == 1, name, "status written on every path", p.ipos(wh[0]), "min = 1", "some path through the default recover handler writes no status")
	}
}
