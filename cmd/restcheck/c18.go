package main

import (
	"go/token"
	"go/types"
	"sort"
	"strings"

	"golang.org/x/tools/go/ssa"
)

// C18 — CurlyRouter and RouterJSR311 agree wherever both are specified.
//
// Extensional equality of two algorithms is not decidable by looking at them. What can be looked at is where the two
// are written to coincide: sibling clauses (DESIGN §5 C18), each of which, when broken, gives a table of the common
// fragment on which the routers part.

func init() {
	register(&Property{
		ID:    "C18",
		Title: "CurlyRouter and RouterJSR311 agree wherever both are specified",
		Decided: "C18.a the route rankings of the module's RouteSelectors end in the same tie-break - a strict comparison of Route.Path - and leave the same end of that order in front (direction of the comparison, sort.Reverse at the call site taken into account); " +
			"C18.b their primary ranking keys are measured in the same unit (one per literal segment, or the number of literal characters) (known finding: they are not); " +
			"C18.c the 405 Allow list of the shared method stage is a function of the set of path-matching candidates, not of their order (same obligations as C17.c); " +
			"C18.d what the default binder binds is the text its matcher compared (same obligations as C01.d), and the JSR311 binder reads the match the JSR311 router made (C04.e); " +
			"C18.f inside a loop that collects route candidates no branch is decided by a variable carried over from earlier iterations (= C03.f); C18.g the path expressions are compiled from the template literals unchanged while request paths are matched decoded (= C02.l); " +
			"C18.h a selector admits a WebService (candidate append, best-so-far update) only under the answer of a call that was given that service's pathExpr; " +
			"C18.i a derived copy of the route table that the request path reads follows every change of it (= C11.l); " +
			"C18.j a selector takes a route of the service's table into its candidates only under the answer of a call that was given the route's pathExpr or pathParts; " +
			"C18.k an assignment of WebService.rootPath is followed by the recompilation of pathExpr under no further condition; " +
			"C18.e every module RouteSelector ends in one and the same method/media stage, hands it this request, and returns its route and its error untouched; the errors a selector builds itself carry the same status as its sibling's at the same stage (no service, no route).",
		NotDecided: "that token matching and regular-expression matching admit the same (template, URL) pairs, and that the rankings coincide beyond the clauses above: value-level relations between two algorithms on every table of the common fragment.",
		Rules: []Rule{
			{ID: "C18.a", Template: "T-SIBLING", Required: true, Run: ruleC18a,
				Doc: "When two templates tie on every count, both routers fall back to the route path. The same key compared in the same effective direction picks the same route; a flipped comparison or another key (the expression source, where '(' sorts before letters and '{' after) picks a different one for the same table and URL."},
			{ID: "C18.b", Template: "T-SIBLING", Required: true, Run: ruleC18b,
				Doc: "Both rankings put the 'more literal' template first. Counted per segment in one router and per character in the other, `/aaaa/{x}/{y}` and `/{x}/b/c` are ordered differently for the URL /aaaa/b/c."},
			{ID: "C18.c", Template: "T-PROV", Required: true, Run: ruleAllow405,
				Doc: "The two routers hand the shared stage the same set of candidates in different orders whenever their rankings differ. An Allow list that leaves candidates out by position or by comparison with the first one differs between the routers."},
			{ID: "C18.d", Template: "T-SIBLING", Required: true, Run: ruleC18d,
				Doc: "The same function must see the same parameter values under both routers: each binder binds the URL text its router matched, unrewritten."},
			{ID: "C18.f", Template: "T-EFFECT", Required: true, Run: ruleCandidateLoopStateless,
				Doc: "Both routers collect, for one URL, the set of routes whose template matches it. A collecting loop that remembers what it has seen (a flag, a counter) and skips later routes makes the set depend on registration order - the sibling, which has no such memory, collects another set and answers another status or Allow list."},
			{ID: "C18.g", Template: "T-SIBLING", Required: true, Run: ruleLiteralEncoding,
				Doc: "RouterJSR311 runs expressions compiled from the template against the decoded URL.Path; CurlyRouter compares the template's tokens with the tokens of the same path. The expressions must be compiled from the template literals unchanged (same obligations as C02.l): an escaper applied to the literals makes the regex router miss URLs the token router matches."},
			{ID: "C18.h", Template: "T-GUARD", Required: true, Run: ruleC18h,
				Doc: "Both selectors decide which WebService is responsible from the service's compiled path expression (Matcher, or the tokens kept with it): whole segments. An admission controlled by anything else - a prefix test on the root path string - admits /api for /apiary in one router only."},
			{ID: "C18.i", Template: "T-SIBLING", Required: false, Run: ruleDerivedRegistrationState,
				Doc: "Neither router keeps route tables of its own today. A derived copy one of them introduces (an index by token count, a snapshot) must follow every change of WebService.routes, or the router that has it answers from a stale table where its sibling reads the live one (same obligations as C11.l)."},
			{ID: "C18.j", Template: "T-GUARD", Required: true, Run: ruleC18j,
				Doc: "Both selectors decide whether a route's template matches the rest of the URL from what was compiled from the template: the pathExpr (regular expression) or the pathParts (tokens). A route taken from the service's table into the candidates under any other test - a comparison of path strings for 'literal' routes - is admitted for other URLs than under the sibling."},
			{ID: "C18.k", Template: "T-SIBLING", Required: true, Run: ruleRootRecompiled,
				Doc: "Both routers read the root of a WebService from what was compiled from it (pathExpr: Matcher and tokens); the routes carry the root path string. An assignment of rootPath is followed by the recompilation of pathExpr under no further condition: 'compile only if there is none' leaves the routers matching the old root after a second Path() while new routes carry the new one."},
			{ID: "C18.e", Template: "T-SIBLING", Required: true, Run: ruleC18e,
				Doc: "Method, Content-Type and Accept are decided in one place for both routers; a selector that post-processes the stage's answer, or answers its own stages with another status than its sibling, is observable when the router is switched."},
		},
	})
}

// routeRankings: the route-level sort sites, by the selector type that owns the sorting function.
type ranking struct {
	site  sortSite
	owner string
	cm    *comparator
	dir   map[string]int
}

func selectorOwner(p *Program, fn *ssa.Function) string {
	// the module RouteSelector whose SelectRoute reaches fn
	cg := p.callGraph()
	var owners []string
	for _, sel := range moduleSelectors(p) {
		if cg.reach([]*ssa.Function{sel}, func(e Edge) bool { return e.Kind != EdgeStatic })[fn] || sel == fn {
			owners = append(owners, recvTypeName(sel))
		}
	}
	sort.Strings(owners)
	return strings.Join(owners, "+")
}

// moduleSelectors: SelectRoute methods of module types.
func moduleSelectors(p *Program) []*ssa.Function {
	var out []*ssa.Function
	for _, fn := range p.SrcFunc {
		if fn.Name() == "SelectRoute" && fn.Signature.Recv() != nil && fn.Blocks != nil && p.inModule(fn) && fn.Parent() == nil {
			out = append(out, fn)
		}
	}
	return out
}

func routeRankings(p *Program) ([]ranking, string) {
	var out []ranking
	for _, s := range sortSites(p) {
		st := elemStruct(s.Coll.Type())
		hasRoute := false
		if st != nil {
			for i := 0; i < st.NumFields(); i++ {
				if isRestfulNamed(st.Field(i).Type(), "Route") {
					hasRoute = true
				}
			}
		}
		if !hasRoute {
			continue
		}
		cm := newComparator(p, s.Less)
		if cm == nil {
			return nil, "no source for " + p.fname(s.Less)
		}
		if _, ok := cm.less(map[string]int{}); !ok {
			return nil, "the comparator evaluator does not understand " + p.fname(s.Less) + ": " + cm.problem
		}
		for iter := 0; iter < 6; iter++ {
			before := len(cm.keys)
			var enum func(k int, rel map[string]int)
			enum = func(k int, rel map[string]int) {
				if k == len(cm.keys) {
					cm.less(rel)
					return
				}
				for _, v := range []int{-1, 0, 1} {
					rel[cm.keys[k]] = v
					enum(k+1, rel)
				}
			}
			enum(0, map[string]int{})
			if len(cm.keys) == before {
				break
			}
		}
		dir := map[string]int{}
		for _, k := range cm.keys {
			lt, ok1 := cm.less(map[string]int{k: -1})
			gt, ok2 := cm.less(map[string]int{k: 1})
			if !ok1 || !ok2 {
				return nil, "the comparator evaluator does not understand " + p.fname(s.Less) + ": " + cm.problem
			}
			switch {
			case lt && !gt:
				dir[k] = 1
			case gt && !lt:
				dir[k] = -1
			}
			if s.Reversed {
				dir[k] = -dir[k]
			}
		}
		out = append(out, ranking{s, selectorOwner(p, s.Fn), cm, dir})
	}
	sort.SliceStable(out, func(i, j int) bool { return p.fname(out[i].site.Less) < p.fname(out[j].site.Less) })
	return out, ""
}

func dirStr(d int) string {
	switch {
	case d < 0:
		return "greatest first"
	case d > 0:
		return "smallest first"
	}
	return "no fixed direction"
}

func ruleC18a(c *Ctx) {
	p := c.P
	rs, problem := routeRankings(p)
	if problem != "" {
		c.undecided("-", "route rankings", "-", problem)
		return
	}
	if len(rs) < 2 {
		c.undecided("-", "route rankings", "-", "fewer than two route-level rankings found (one per RouteSelector expected)")
		return
	}
	ref := rs[0]
	for _, r := range rs {
		c.relate(p.fname(r.site.Less))
	}
	for _, r := range rs[1:] {
		name := p.fname(r.site.Less)
		la, lb := ref.cm.keys[len(ref.cm.keys)-1], r.cm.keys[len(r.cm.keys)-1]
		ka, kb := lastSegments(la), lastSegments(lb)
		c.check(ka == kb && ka == "route.Path", name, "tie-break key agrees with "+p.fname(ref.site.Less), p.pos(r.site.Less.Pos()),
			"both end in "+ka, "the rankings end in different keys ("+la+" in "+p.fname(ref.site.Less)+", "+lb+" here): for two templates that tie on the counts the routers select different routes")
		c.check(ref.dir[la] == r.dir[lb] && r.dir[lb] != 0, name, "tie-break direction agrees with "+p.fname(ref.site.Less), p.ipos(r.site.Call),
			"both leave the "+strings.TrimSuffix(dirStr(r.dir[lb]), " first")+" path in front (sort.Reverse taken into account)",
			"on a tie "+p.fname(ref.site.Less)+" puts the "+dirStr(ref.dir[la])+", this ranking the "+dirStr(r.dir[lb])+": the same table and URL select different routes under the two routers")
	}
}

// lastSegments: "a.route.Path" -> "route.Path" (the field of the carried Route).
func lastSegments(k string) string {
	parts := strings.Split(k, ".")
	for i, s := range parts {
		if s == "route" || s == "Route" {
			return "route." + strings.Join(parts[i+1:], ".")
		}
	}
	return k
}

// ---------------------------------------------------------------------------
// C18.b: the unit of the primary key

// keyUnit follows the primary key field of the ranked element to where its value is accumulated and classifies the
// increments: "segment" (+1), "character" (+len(x)), or a description of anything else.
func keyUnit(p *Program, elem *types.Struct, key string) (unit string, where string) {
	var fld *types.Var
	for i := 0; i < elem.NumFields(); i++ {
		if elem.Field(i).Name() == key {
			fld = elem.Field(i)
		}
	}
	if fld == nil {
		return "", "field " + key + " not found"
	}
	units := map[string]bool{}
	var visitVal func(v ssa.Value, depth int, seen map[ssa.Value]bool)
	visitField := func(f *types.Var, depth int, seen map[ssa.Value]bool) {
		for _, st := range p.storesToField(f) {
			visitVal(st.Val, depth, seen)
		}
	}
	visitVal = func(v ssa.Value, depth int, seen map[ssa.Value]bool) {
		v = strip(v)
		if seen[v] || depth > 6 {
			return
		}
		seen[v] = true
		switch x := v.(type) {
		case *ssa.Const:
			return
		case *ssa.Phi:
			for _, e := range x.Edges {
				visitVal(e, depth, seen)
			}
		case *ssa.BinOp:
			if x.Op != token.ADD {
				units["computed by "+x.Op.String()] = true
				return
			}
			visitVal(x.X, depth, seen)
			inc := strip(x.Y)
			if n, ok := constInt(inc); ok {
				if n == 1 {
					units["segment"] = true
					where = p.ipos(x)
				} else {
					units["constant "+itoa(int(n))] = true
				}
				return
			}
			if call, ok := inc.(*ssa.Call); ok && isBuiltinCall(call, "len") && isStringType(call.Call.Args[0].Type()) {
				units["character"] = true
				where = p.ipos(x)
				return
			}
			visitVal(inc, depth, seen)
		case *ssa.Extract:
			if call, ok := x.Tuple.(*ssa.Call); ok {
				if cal := call.Call.StaticCallee(); cal != nil && p.inModule(cal) && cal.Blocks != nil {
					for _, r := range returnsOf(cal) {
						if x.Index < len(r.Results) {
							visitVal(r.Results[x.Index], depth+1, seen)
						}
					}
					return
				}
			}
			units["opaque"] = true
		case *ssa.Call:
			if cal := x.Call.StaticCallee(); cal != nil && p.inModule(cal) && cal.Blocks != nil {
				for _, r := range returnsOf(cal) {
					if len(r.Results) > 0 {
						visitVal(r.Results[0], depth+1, seen)
					}
				}
				return
			}
			units["opaque"] = true
		case *ssa.UnOp:
			if x.Op == token.MUL {
				if _, f, ok := fieldLoad(x); ok {
					visitField(f, depth+1, seen)
					return
				}
				for _, a := range p.loadOfCell(x) {
					for _, st := range p.cellStores(a) {
						visitVal(st.Val, depth, seen)
					}
				}
				return
			}
			units["opaque"] = true
		case *ssa.Parameter:
			// a constructor parameter: the arguments at the call sites
			fn := x.Parent()
			for k, prm := range fn.Params {
				if prm != x {
					continue
				}
				for _, e := range p.callGraph().In[fn] {
					if cc := callCommon(e.Site); cc != nil && !cc.IsInvoke() && k < len(cc.Args) {
						visitVal(cc.Args[k], depth+1, seen)
					}
				}
			}
		default:
			units["opaque"] = true
		}
	}
	visitField(fld, 0, map[ssa.Value]bool{})
	var us []string
	for u := range units {
		us = append(us, u)
	}
	sort.Strings(us)
	return strings.Join(us, "+"), where
}

func ruleC18b(c *Ctx) {
	p := c.P
	rs, problem := routeRankings(p)
	if problem != "" || len(rs) < 2 {
		c.undecided("-", "route rankings", "-", "route rankings not found or not understood: "+problem)
		return
	}
	type ku struct {
		r     ranking
		key   string
		unit  string
		where string
	}
	var kus []ku
	for _, r := range rs {
		key := r.cm.keys[0]
		st := elemStruct(r.site.Coll.Type())
		u, where := keyUnit(p, st, key)
		kus = append(kus, ku{r, key, u, where})
		c.relate(p.fname(r.site.Less))
	}
	ref := kus[0]
	for _, k := range kus[1:] {
		name := p.fname(k.r.site.Less)
		if ref.unit == "" || k.unit == "" || strings.Contains(ref.unit, "opaque") || strings.Contains(k.unit, "opaque") {
			c.undecided(name, "unit of the primary ranking key", p.pos(k.r.site.Less.Pos()), "cannot follow "+ref.key+" ("+ref.unit+") or "+k.key+" ("+k.unit+") to its accumulation")
			continue
		}
		c.check(ref.unit == k.unit, name, "primary ranking key is measured like that of "+p.fname(ref.r.site.Less), p.pos(k.r.site.Less.Pos()),
			"both count one per literal "+k.unit,
			ref.key+" of "+p.fname(ref.r.site.Less)+" counts one per literal "+ref.unit+" ("+ref.where+"), "+k.key+" here one per literal "+k.unit+" ("+k.where+"): "+
				"GET /aaaa/{x}/{y} and GET /{x}/b/c under one root, request /aaaa/b/c - CurlyRouter runs the second, RouterJSR311 the first")
	}
}

// ---------------------------------------------------------------------------

func ruleC18d(c *Ctx) {
	ruleC01d(c)
	ruleC04e(c)
}

// ---------------------------------------------------------------------------
// C18.e

func ruleC18e(c *Ctx) {
	p := c.P
	sels := moduleSelectors(p)
	if len(sels) < 2 {
		c.undecided("-", "module RouteSelectors", "-", "fewer than two SelectRoute implementations in the module")
		return
	}
	sf := stageFunction(p)
	if sf == nil {
		c.undecided("-", "stage function", "-", "not found")
		return
	}
	type own struct {
		noService []int64
		noRoute   []int64
	}
	owns := map[*ssa.Function]*own{}
	for _, sel := range sels {
		name := p.fname(sel)
		// a decorator: the selection is left to another RouteSelector, whose answer is returned as it is
		var inner *ssa.Call
		eachInstr(sel, func(i ssa.Instruction) {
			if call, ok := i.(*ssa.Call); ok && call.Call.IsInvoke() && call.Call.Method.Name() == "SelectRoute" {
				inner = call
			}
		})
		if inner != nil {
			okAll := true
			for _, r := range returnsOf(sel) {
				if r.Block().Comment == "recover" {
					continue
				}
				for k := range r.Results {
					if !fromCall(p, reach1(p, resultAt(r, k)), inner) {
						okAll = false
					}
				}
			}
			c.check(okAll, name, "a delegating selector returns the delegate's answer", p.ipos(inner), "service, route and error are the results of the inner SelectRoute", "this selector calls another RouteSelector but returns something else than its answer")
			continue
		}
		// the stage call: a call (possibly through module wrappers that only forward) whose callee reaches sf
		var stage *ssa.Call
		eachInstr(sel, func(i ssa.Instruction) {
			call, ok := i.(*ssa.Call)
			if !ok || call.Call.StaticCallee() == nil {
				return
			}
			cal := call.Call.StaticCallee()
			if cal == sf || forwardsTo(p, cal, sf, 0) {
				stage = call
			}
		})
		if stage == nil {
			c.bad(name, "ends in the shared method/media stage", p.pos(sel.Pos()), "this selector does not call "+p.fname(sf)+" (directly or through a forwarding wrapper): method, Content-Type and Accept are decided by other code than its sibling's")
			continue
		}
		// the request handed on is this request
		reqOK := false
		for _, a := range stage.Call.Args {
			if isHTTPRequestPtr(a.Type()) {
				if prm, ok := strip(a).(*ssa.Parameter); ok && prm.Parent() == sel {
					reqOK = true
				}
			}
		}
		c.check(reqOK, name, "the stage is given this request", p.ipos(stage), "the *http.Request parameter, unchanged", "the stage does not see the request the selector was called with")
		// returns: route (#1) and error (#2) on the paths behind the stage call come from the stage
		o := &own{}
		owns[sel] = o
		for _, r := range returnsOf(sel) {
			if len(r.Results) != 3 {
				continue
			}
			svc, rt, er := reach1(p, resultAt(r, 0)), reach1(p, resultAt(r, 1)), reach1(p, resultAt(r, 2))
			behind := stage.Block() == r.Block() || reachableBlocks([]*ssa.BasicBlock{stage.Block()}, nil)[r.Block()]
			if behind && !(isNilConst(rt) && !isNilConst(er) && !fromCall(p, er, stage)) || fromCall(p, rt, stage) || fromCall(p, er, stage) {
				okRt := isNilConst(rt) || fromCall(p, rt, stage)
				okEr := isNilConst(er) || fromCall(p, er, stage)
				c.check(okRt && okEr, name, "route and error of the stage are returned untouched", p.ipos(r),
					"results #1 and #2 are the stage's (or nil)", "behind the stage call this return gives back something other than what "+p.fname(sf)+" answered: the router post-processes the shared decision")
				// ... together with the service that was detected: the container lists the allowed methods of the
				// service SelectRoute returns, also when the stage refused
				c.check(!isNilConst(svc), name, "the detected service is returned with the stage's answer", p.ipos(r),
					"result #0 is not the nil constant", "behind the stage call this return gives back no WebService: the allowed-methods computation, which asks the router for the service of a URL, finds none under this router and the sibling's under the other")
				continue
			}
			// an exit of the selector's own stages: status of the error it builds
			code, ok := errorStatus(p, er)
			if !ok {
				c.undecided(name, "status of the selector's own error", p.ipos(r), "cannot read the status of the error returned here")
				continue
			}
			if isNilConst(svc) {
				o.noService = append(o.noService, code)
			} else {
				o.noRoute = append(o.noRoute, code)
			}
		}
	}
	// sibling agreement on the own-stage statuses
	var ref *ssa.Function
	for _, sel := range sels {
		if owns[sel] == nil {
			continue
		}
		if ref == nil {
			ref = sel
			continue
		}
		a, b := owns[ref], owns[sel]
		c.check(sameCodes(a.noService, b.noService) && len(b.noService) > 0, p.fname(sel), "status when no WebService matches agrees with "+p.fname(ref), p.pos(sel.Pos()),
			"both "+codesStr(b.noService)+" with a nil service", p.fname(ref)+" answers "+codesStr(a.noService)+", this selector "+codesStr(b.noService)+" when no WebService matches the URL")
		c.check(sameCodes(a.noRoute, b.noRoute) && len(b.noRoute) > 0, p.fname(sel), "status when no route of the service matches agrees with "+p.fname(ref), p.pos(sel.Pos()),
			"both "+codesStr(b.noRoute)+" with the detected service", p.fname(ref)+" answers "+codesStr(a.noRoute)+", this selector "+codesStr(b.noRoute)+" (or does not return the detected service) when no route of the service matches: status or Allow differ between the routers")
	}
}

// forwardsTo: fn's body is a call of target whose results it returns (a forwarding wrapper), possibly nested.
func forwardsTo(p *Program, fn, target *ssa.Function, depth int) bool {
	if fn == nil || fn.Blocks == nil || !p.inModule(fn) || depth > 2 {
		return false
	}
	var inner *ssa.Call
	n := 0
	eachInstr(fn, func(i ssa.Instruction) {
		if call, ok := i.(*ssa.Call); ok && call.Call.StaticCallee() != nil && p.inModule(call.Call.StaticCallee()) {
			if call.Call.StaticCallee() == target || forwardsTo(p, call.Call.StaticCallee(), target, depth+1) {
				inner = call
				n++
			}
		}
	})
	if n != 1 {
		return false
	}
	for _, r := range returnsOf(fn) {
		if r.Block().Comment == "recover" {
			continue
		}
		for k := range r.Results {
			if !fromCall(p, resultAt(r, k), inner) {
				return false
			}
		}
	}
	return true
}

// fromCall: v is (a result of) call, possibly through forwarding wrappers' results, phis of it and nil-checks.
func fromCall(p *Program, v ssa.Value, call *ssa.Call) bool {
	v = strip(v)
	switch x := v.(type) {
	case *ssa.Extract:
		return x.Tuple == ssa.Value(call)
	case *ssa.Call:
		return x == call
	case *ssa.Phi:
		any := false
		for _, e := range x.Edges {
			if isNilConst(e) {
				continue
			}
			if !fromCall(p, e, call) {
				return false
			}
			any = true
		}
		return any
	case *ssa.UnOp:
		if x.Op == token.MUL {
			cells := p.loadOfCell(x)
			if len(cells) == 0 {
				return false
			}
			any := false
			for _, a := range cells {
				for _, st := range p.cellStores(a) {
					if isNilConst(st.Val) {
						continue
					}
					if !fromCall(p, st.Val, call) {
						return false
					}
					any = true
				}
			}
			return any
		}
	}
	return false
}

// errorStatus: v is NewError(<const>, ...) or a ServiceError literal with a constant Code.
func errorStatus(p *Program, v ssa.Value) (int64, bool) {
	v = strip(v)
	if call, ok := v.(*ssa.Call); ok {
		if cal := call.Call.StaticCallee(); cal != nil && p.inModule(cal) {
			for _, a := range call.Call.Args {
				if n, ok := constInt(a); ok && n >= 100 && n < 600 {
					return n, true
				}
			}
		}
	}
	if u, ok := v.(*ssa.UnOp); ok && u.Op == token.MUL {
		if a, ok := u.X.(*ssa.Alloc); ok {
			for _, st := range p.structInits(a)["Code"] {
				if n, ok := constInt(st.Val); ok {
					return n, true
				}
			}
		}
	}
	return 0, false
}

func sameCodes(a, b []int64) bool {
	sa, sb := map[int64]bool{}, map[int64]bool{}
	for _, x := range a {
		sa[x] = true
	}
	for _, x := range b {
		sb[x] = true
	}
	if len(sa) != len(sb) {
		return false
	}
	for x := range sa {
		if !sb[x] {
			return false
		}
	}
	return true
}

func codesStr(a []int64) string {
	seen := map[int64]bool{}
	var s []string
	for _, x := range a {
		if !seen[x] {
			seen[x] = true
			s = append(s, itoa(int(x)))
		}
	}
	sort.Strings(s)
	if len(s) == 0 {
		return "nothing"
	}
	return strings.Join(s, "/")
}

// ---------------------------------------------------------------------------
// C18.f = C03.f: the candidates of a URL are a set. Inside a loop that collects candidates (an append to a slice of
// routes, of route pointers or of structs carrying a route) no branch is decided by a variable carried from one
// iteration to the next, other than the loop's own position. A flag like "an all-literal route was seen already"
// makes the admission of a route depend on which routes were registered before it: the candidate set then depends on
// registration order (C03) and is no longer the set the sibling router collects for the same table (C18).

func ruleCandidateLoopStateless(c *Ctx) {
	p := c.P
	var scope []*ssa.Function
	seen := map[*ssa.Function]bool{}
	cg := p.callGraph()
	for _, sel := range moduleSelectors(p) {
		for fn := range cg.reach([]*ssa.Function{sel}, func(e Edge) bool { return e.Kind != EdgeStatic }) {
			if !seen[fn] && fn.Blocks != nil && p.inModule(fn) {
				seen[fn] = true
				scope = append(scope, fn)
			}
		}
	}
	sort.Slice(scope, func(i, j int) bool { return p.fname(scope[i]) < p.fname(scope[j]) })
	n := 0
	for _, fn := range scope {
		cyc := blocksOnCycles(fn)
		var appends []ssa.Instruction
		eachInstr(fn, func(i ssa.Instruction) {
			call, ok := i.(*ssa.Call)
			if !ok || !cyc[i.Block()] {
				return
			}
			if isBuiltinCall(call, "append") && isCandidateSliceType(call.Type()) {
				appends = append(appends, i)
				return
			}
			// candidates.add(x): a module helper that appends to the collection
			if cal := call.Call.StaticCallee(); cal != nil && cal != fn && p.inModule(cal) && cal.Blocks != nil {
				adds := false
				eachInstr(cal, func(j ssa.Instruction) {
					if jc, ok := j.(*ssa.Call); ok && isBuiltinCall(jc, "append") && isCandidateSliceType(jc.Type()) && !blocksOnCycles(cal)[j.Block()] {
						adds = true
					}
				})
				if adds {
					appends = append(appends, i)
				}
			}
		})
		if len(appends) == 0 {
			continue
		}
		name := p.fname(fn)
		for _, ap := range appends {
			why, inLoop := loopCarriedBranch(p, fn, ap)
			if !inLoop {
				continue
			}
			n++
			c.check(why == "", name, "each route is admitted on its own", p.ipos(ap), "no branch of the collecting loop reads a variable carried from one iteration to the next",
				why+": whether a route becomes a candidate depends on the routes visited before it, i.e. on registration order, and the candidate set differs from the one the sibling router collects")
		}
	}
	if n == 0 {
		c.undecided("-", "candidate-collecting loops", "-", "no loop that appends route candidates found under the selectors")
	}
}

// ---------------------------------------------------------------------------
// C18.h: a WebService is responsible for a URL when its root path matches it segment by segment. Both selectors have
// that from the service's compiled path expression (its Matcher, or the tokens kept next to it). Wherever a selector
// admits a service - appends it to its candidates or makes it the best so far - the admission is controlled by the
// answer of a call that was given a part of that service's pathExpr. A test on anything else (a prefix test on the
// root path string) admits /api for /apiary/1 in one router and not in the other.

func mentionsWebService(t types.Type, depth int) bool {
	if depth > 2 {
		return false
	}
	if isPtrToRestful(t, "WebService") {
		return true
	}
	if st, ok := t.Underlying().(*types.Struct); ok {
		for i := 0; i < st.NumFields(); i++ {
			if mentionsWebService(st.Field(i).Type(), depth+1) {
				return true
			}
		}
	}
	return false
}

// fromPathExprCall: v is (a comparison of, a negation of, a result of) a call one of whose arguments is loaded from
// the pathExpr of a WebService.
func fromPathExprCall(p *Program, v ssa.Value, d int) bool {
	if d > 6 || v == nil {
		return false
	}
	switch x := v.(type) {
	case *ssa.BinOp:
		return fromPathExprCall(p, x.X, d+1) || fromPathExprCall(p, x.Y, d+1)
	case *ssa.UnOp:
		if x.Op == token.MUL {
			for _, a := range p.loadOfCell(x) {
				for _, st := range p.cellStores(a) {
					if fromPathExprCall(p, st.Val, d+1) {
						return true
					}
				}
			}
			return false
		}
		return fromPathExprCall(p, x.X, d+1)
	case *ssa.Extract:
		return fromPathExprCall(p, x.Tuple, d+1)
	case *ssa.Phi:
		for _, e := range x.Edges {
			if fromPathExprCall(p, e, d+1) {
				return true
			}
		}
	case *ssa.Call:
		if isBuiltinCall(x, "len") {
			return fromPathExprCall(p, x.Call.Args[0], d+1)
		}
		for _, a := range x.Call.Args {
			cur := strip(a)
			for hop := 0; hop < 3; hop++ {
				b, f, ok := fieldLoad(cur)
				if !ok {
					break
				}
				if f.Name() == "pathExpr" && (isPtrToRestful(b.Type(), "WebService") || isRestfulNamed(b.Type(), "WebService")) {
					return true
				}
				cur = strip(b)
			}
		}
	}
	return false
}

func ruleC18h(c *Ctx) {
	p := c.P
	cg := p.callGraph()
	seen := map[*ssa.Function]bool{}
	var scope []*ssa.Function
	for _, sel := range moduleSelectors(p) {
		for fn := range cg.reach([]*ssa.Function{sel}, func(e Edge) bool { return e.Kind != EdgeStatic }) {
			if !seen[fn] && fn.Blocks != nil && p.inModule(fn) {
				seen[fn] = true
				scope = append(scope, fn)
			}
		}
	}
	sort.Slice(scope, func(i, j int) bool { return p.fname(scope[i]) < p.fname(scope[j]) })
	n := 0
	for _, fn := range scope {
		cyc := blocksOnCycles(fn)
		facts := factsAt(fn)
		name := p.fname(fn)
		var sites []ssa.Instruction
		var blocks []*ssa.BasicBlock
		eachInstr(fn, func(i ssa.Instruction) {
			if !cyc[i.Block()] {
				return
			}
			switch x := i.(type) {
			case *ssa.Call:
				if isBuiltinCall(x, "append") {
					if sl, ok := x.Type().Underlying().(*types.Slice); ok && mentionsWebService(sl.Elem(), 0) && !mentionsRoute(sl.Elem(), 0) {
						sites = append(sites, i)
						blocks = append(blocks, i.Block())
					}
				}
			case *ssa.Phi:
				// best-so-far: a loop-carried *WebService; each edge that brings a new service in is an admission
				if !isPtrToRestful(x.Type(), "WebService") {
					return
				}
				hdr := false
				for _, pr := range x.Block().Preds {
					if x.Block().Dominates(pr) {
						hdr = true
					}
				}
				if !hdr {
					return
				}
				var visit func(v ssa.Value, from *ssa.BasicBlock, d int)
				visit = func(v ssa.Value, from *ssa.BasicBlock, d int) {
					if d > 4 || v == ssa.Value(x) || isNilConst(v) {
						return
					}
					if ph, ok := v.(*ssa.Phi); ok && ph != x {
						for k, e := range ph.Edges {
							visit(e, ph.Block().Preds[k], d+1)
						}
						return
					}
					sites = append(sites, x)
					blocks = append(blocks, from)
				}
				for k, e := range x.Edges {
					if x.Block().Dominates(x.Block().Preds[k]) {
						visit(e, x.Block().Preds[k], 0)
					}
				}
			}
		})
		for k, site := range sites {
			n++
			ok := false
			for f := range facts[blocks[k]] {
				if fromPathExprCall(p, f.Cond, 0) {
					ok = true
				}
			}
			c.check(ok, name, "a WebService is admitted on the answer of its path expression", p.ipos(site),
				"controlled by a call that was given the service's pathExpr (Matcher or tokens)",
				"this admission is not controlled by a match of the service's path expression or of its tokens: a test on other text (a prefix of the root path string) admits a service for URLs that only share characters with its root, where the sibling router matches whole segments")
		}
	}
	if n == 0 {
		c.undecided("-", "WebService admission", "-", "no place found where a selector admits a WebService (candidate append or best-so-far update)")
	}
}

// reach1: a load of a local that one store reaches stands for the stored value (named results kept in memory
// because a deferred function literal reads them).
func reach1(p *Program, v ssa.Value) ssa.Value {
	for hop := 0; hop < 4; hop++ {
		u, ok := strip(v).(*ssa.UnOp)
		if !ok || u.Op != token.MUL {
			return v
		}
		a, ok := u.X.(*ssa.Alloc)
		if !ok {
			return v
		}
		sts, zero, ok := p.reachingStores(u, a)
		if !ok || zero || len(sts) != 1 {
			return v
		}
		v = sts[0].Val
	}
	return v
}

// loopCarriedBranch: ap lies in a loop; is a branch of that loop decided by a variable carried from one iteration to
// the next (a phi of the loop header) other than the range index, an integer used as an index, or a slice?
func loopCarriedBranch(p *Program, fn *ssa.Function, ap ssa.Instruction) (why string, inLoop bool) {
	header, loop := innermostLoop(ap.Block())
	if header == nil {
		return "", false
	}
	state := map[*ssa.Phi]bool{}
	for _, ins := range header.Instrs {
		ph, ok := ins.(*ssa.Phi)
		if !ok {
			break
		}
		if ph.Comment == "rangeindex" {
			continue
		}
		if _, isSl := ph.Type().Underlying().(*types.Slice); isSl {
			continue // a collection being built
		}
		if b, isB := ph.Type().Underlying().(*types.Basic); isB && b.Info()&types.IsInteger != 0 {
			// the position of a three-clause loop: used as an index
			idx := false
			for _, r := range referrers(ph) {
				switch y := r.(type) {
				case *ssa.IndexAddr:
					idx = idx || y.Index == ssa.Value(ph)
				case *ssa.Index:
					idx = idx || y.Index == ssa.Value(ph)
				}
			}
			if idx {
				continue
			}
		}
		state[ph] = true
	}
	var dep func(v ssa.Value, d int) *ssa.Phi
	dep = func(v ssa.Value, d int) *ssa.Phi {
		if d > 6 || v == nil {
			return nil
		}
		switch x := v.(type) {
		case *ssa.Phi:
			if state[x] {
				return x
			}
			if x.Block() != header {
				for _, e := range x.Edges {
					if r := dep(e, d+1); r != nil {
						return r
					}
				}
			}
		case *ssa.BinOp:
			if r := dep(x.X, d+1); r != nil {
				return r
			}
			return dep(x.Y, d+1)
		case *ssa.UnOp:
			if x.Op != token.MUL {
				return dep(x.X, d+1)
			}
		case *ssa.ChangeType:
			return dep(x.X, d+1)
		case *ssa.Convert:
			return dep(x.X, d+1)
		}
		return nil
	}
	for _, b := range fn.Blocks {
		if !loop[b] {
			continue
		}
		iff, ok := b.Instrs[len(b.Instrs)-1].(*ssa.If)
		if !ok {
			continue
		}
		if ph := dep(iff.Cond, 0); ph != nil {
			nm := ph.Comment
			if nm == "" {
				nm = ph.Name()
			}
			why = "the branch at " + p.ipos(iff) + " is decided by " + nm + ", carried over from earlier iterations"
		}
	}
	return why, true
}

// C17.i: the methods of a URL are collected route by route. In a loop that adds Route.Method values to a list no
// branch reads a variable carried over from earlier iterations: a "most specific template so far" that resets the
// list makes the OPTIONS answer (and the preflight default) name fewer methods than the routers serve.
func ruleMethodLoopStateless(c *Ctx) {
	p := c.P
	n := 0
	for _, fn := range p.requestPathFuncs() {
		if fn.Blocks == nil || !p.inModule(fn) {
			continue
		}
		name := p.fname(fn)
		eachInstr(fn, func(i ssa.Instruction) {
			call, ok := i.(*ssa.Call)
			if !ok || !isBuiltinCall(call, "append") || !isStringSlice(call.Type()) || len(call.Call.Args) < 2 {
				return
			}
			// appended elements: Method of a route
			isMethod := false
			if sl, ok := strip(call.Call.Args[1]).(*ssa.Slice); ok {
				if a, ok := sl.X.(*ssa.Alloc); ok {
					for _, ref := range referrers(a) {
						if ia, ok := ref.(*ssa.IndexAddr); ok {
							for _, rr := range referrers(ia) {
								if st, ok := rr.(*ssa.Store); ok && st.Addr == ssa.Value(ia) {
									if b, f, ok := fieldLoad(strip(st.Val)); ok && f.Name() == "Method" && isRouteish(b.Type()) {
										isMethod = true
									}
								}
							}
						}
					}
				}
			}
			if !isMethod {
				return
			}
			why, inLoop := loopCarriedBranch(p, fn, i)
			if !inLoop {
				return
			}
			n++
			c.check(why == "", name, "each route's method is collected on its own", p.ipos(i), "no branch of the collecting loop reads a variable carried from one iteration to the next",
				why+": which methods are listed depends on more than whether each route matches the URL - the list names fewer methods than are routable there")
		})
	}
	if n == 0 {
		c.note("-", "no loop collects Route.Method values", "-", "nothing to decide")
	}
}

// ---------------------------------------------------------------------------
// C18.j: a route of the selected service becomes a candidate when its template matches the rest of the URL. Both
// selectors have that from what was compiled from the template: the route's pathExpr (RouterJSR311) or its pathParts
// (CurlyRouter). Wherever a selector takes a route out of the service's route table (WebService.Routes() / routes)
// into a candidate collection, a fact that holds there derives from a call that was given the route's pathExpr or
// pathParts. A comparison of path strings for "literal" routes admits and refuses other URLs than the sibling does
// (a route declared without a leading slash, a doubled slash).

func fromRouteTemplateCall(p *Program, v ssa.Value, d int) bool {
	if d > 6 || v == nil {
		return false
	}
	switch x := v.(type) {
	case *ssa.BinOp:
		return fromRouteTemplateCall(p, x.X, d+1) || fromRouteTemplateCall(p, x.Y, d+1)
	case *ssa.UnOp:
		if x.Op == token.MUL {
			for _, a := range p.loadOfCell(x) {
				for _, st := range p.cellStores(a) {
					if fromRouteTemplateCall(p, st.Val, d+1) {
						return true
					}
				}
			}
			return false
		}
		return fromRouteTemplateCall(p, x.X, d+1)
	case *ssa.Extract:
		return fromRouteTemplateCall(p, x.Tuple, d+1)
	case *ssa.Phi:
		for _, e := range x.Edges {
			if fromRouteTemplateCall(p, e, d+1) {
				return true
			}
		}
	case *ssa.Call:
		if isBuiltinCall(x, "len") {
			return fromRouteTemplateCall(p, x.Call.Args[0], d+1)
		}
		for _, a := range x.Call.Args {
			cur := strip(a)
			for hop := 0; hop < 3; hop++ {
				b, f, ok := fieldLoad(cur)
				if !ok {
					break
				}
				if (f.Name() == "pathExpr" || f.Name() == "pathParts") && isRouteish(b.Type()) {
					return true
				}
				cur = strip(b)
			}
		}
	}
	return false
}

// fromRouteTable: v is (a struct built around) an element of the service's route table.
func fromRouteTable(p *Program, v ssa.Value, d int) bool {
	v = strip(v)
	if d > 5 || v == nil {
		return false
	}
	switch x := v.(type) {
	case *ssa.UnOp:
		if x.Op != token.MUL {
			return false
		}
		if ia, ok := x.X.(*ssa.IndexAddr); ok {
			for _, src := range p.sources(ia.X, provDefault) {
				if call, ok := src.(*ssa.Call); ok {
					if cal := call.Call.StaticCallee(); cal != nil && cal.Name() == "Routes" && recvTypeName(cal) == "WebService" {
						return true
					}
				}
				if _, f, ok := fieldLoad(strip(src)); ok && f.Name() == "routes" {
					return true
				}
			}
			return false
		}
		if a, ok := x.X.(*ssa.Alloc); ok {
			// a struct literal: one of its fields is the route
			for _, sts := range p.structInits(a) {
				for _, st := range sts {
					if mentionsRoute(st.Val.Type(), 0) && fromRouteTable(p, st.Val, d+1) {
						return true
					}
				}
			}
			for _, st := range p.cellStores(a) {
				if fromRouteTable(p, st.Val, d+1) {
					return true
				}
			}
		}
	case *ssa.IndexAddr: // &routes[i]
		return fromRouteTable(p, &ssa.UnOp{Op: token.MUL, X: x}, d+1)
	case *ssa.Phi:
		for _, e := range x.Edges {
			if fromRouteTable(p, e, d+1) {
				return true
			}
		}
	}
	return false
}

func ruleC18j(c *Ctx) {
	p := c.P
	cg := p.callGraph()
	seen := map[*ssa.Function]bool{}
	var scope []*ssa.Function
	for _, sel := range moduleSelectors(p) {
		for fn := range cg.reach([]*ssa.Function{sel}, func(e Edge) bool { return e.Kind != EdgeStatic }) {
			if !seen[fn] && fn.Blocks != nil && p.inModule(fn) {
				seen[fn] = true
				scope = append(scope, fn)
			}
		}
	}
	sort.Slice(scope, func(i, j int) bool { return p.fname(scope[i]) < p.fname(scope[j]) })
	n := 0
	for _, fn := range scope {
		cyc := blocksOnCycles(fn)
		facts := factsAt(fn)
		name := p.fname(fn)
		eachInstr(fn, func(i ssa.Instruction) {
			call, ok := i.(*ssa.Call)
			if !ok || !cyc[i.Block()] {
				return
			}
			var elems []ssa.Value
			if isBuiltinCall(call, "append") && isCandidateSliceType(call.Type()) && len(call.Call.Args) > 1 {
				if sl, ok := strip(call.Call.Args[1]).(*ssa.Slice); ok {
					if a, ok := sl.X.(*ssa.Alloc); ok {
						for _, ref := range referrers(a) {
							if ia, ok := ref.(*ssa.IndexAddr); ok {
								for _, rr := range referrers(ia) {
									if st, ok := rr.(*ssa.Store); ok && st.Addr == ssa.Value(ia) {
										elems = append(elems, st.Val)
									}
								}
							}
						}
					}
				}
			} else if cal := call.Call.StaticCallee(); cal != nil && cal != fn && p.inModule(cal) && appendsParamToReceiver(cal) && len(call.Call.Args) > 1 {
				elems = append(elems, call.Call.Args[1])
			}
			taken := false
			for _, e := range elems {
				if fromRouteTable(p, e, 0) {
					taken = true
				}
			}
			if !taken {
				return
			}
			n++
			ok2 := false
			for f := range facts[i.Block()] {
				if fromRouteTemplateCall(p, f.Cond, 0) {
					ok2 = true
				}
			}
			c.check(ok2, name, "a route is admitted on the answer of what was compiled from its template", p.ipos(i),
				"controlled by a call that was given the route's pathExpr or pathParts",
				"a route of the service's table becomes a candidate here without a match of its path expression or of its template tokens deciding it: a comparison of path strings admits and refuses other URLs than the sibling router, which matches the compiled template")
		})
	}
	if n == 0 {
		c.undecided("-", "route admission", "-", "no place found where a selector takes a route of the service's table into its candidates")
	}
}

// ---------------------------------------------------------------------------
// C03.g: the candidates a selector collects from the service's route table are ranked before they are handed on: the
// function that admits routes (C18.j's sites) hands the collection to sort.Sort / sort.Stable / sort.Slice. "Only the
// best one is needed, move it to the front" leaves the rest in registration order, and the stage that follows picks
// the first survivor of the method and media filters - which then depends on that order.
func ruleCandidatesRanked(c *Ctx) {
	p := c.P
	cg := p.callGraph()
	seen := map[*ssa.Function]bool{}
	var scope []*ssa.Function
	for _, sel := range moduleSelectors(p) {
		for fn := range cg.reach([]*ssa.Function{sel}, func(e Edge) bool { return e.Kind != EdgeStatic }) {
			if !seen[fn] && fn.Blocks != nil && p.inModule(fn) {
				seen[fn] = true
				scope = append(scope, fn)
			}
		}
	}
	sort.Slice(scope, func(i, j int) bool { return p.fname(scope[i]) < p.fname(scope[j]) })
	sites := sortSites(p)
	n := 0
	for _, fn := range scope {
		cyc := blocksOnCycles(fn)
		var admission ssa.Instruction
		var collType types.Type
		eachInstr(fn, func(i ssa.Instruction) {
			call, ok := i.(*ssa.Call)
			if !ok || !cyc[i.Block()] {
				return
			}
			var elems []ssa.Value
			var ct types.Type
			if isBuiltinCall(call, "append") && isCandidateSliceType(call.Type()) && len(call.Call.Args) > 1 {
				ct = call.Type()
				if sl, ok := strip(call.Call.Args[1]).(*ssa.Slice); ok {
					if a, ok := sl.X.(*ssa.Alloc); ok {
						for _, ref := range referrers(a) {
							if ia, ok := ref.(*ssa.IndexAddr); ok {
								for _, rr := range referrers(ia) {
									if st, ok := rr.(*ssa.Store); ok && st.Addr == ssa.Value(ia) {
										elems = append(elems, st.Val)
									}
								}
							}
						}
					}
				}
			} else if cal := call.Call.StaticCallee(); cal != nil && cal != fn && p.inModule(cal) && appendsParamToReceiver(cal) && len(call.Call.Args) > 1 {
				elems = append(elems, call.Call.Args[1])
				if pt, ok := call.Call.Args[0].Type().Underlying().(*types.Pointer); ok {
					ct = pt.Elem()
				}
			}
			for _, e := range elems {
				if fromRouteTable(p, e, 0) {
					admission, collType = i, ct
				}
			}
		})
		if admission == nil {
			continue
		}
		n++
		ranked := false
		for _, s := range sites {
			if s.Fn != fn {
				continue
			}
			st := s.Coll.Type()
			if pt, ok := st.Underlying().(*types.Pointer); ok {
				st = pt.Elem()
			}
			if collType == nil || types.Identical(st, collType) || mentionsRoute(st, 0) {
				ranked = true
			}
			if es := elemStruct(s.Coll.Type()); es != nil {
				ranked = true
			}
		}
		c.check(ranked, p.fname(fn), "the candidates taken from the route table are sorted before they are handed on", p.ipos(admission),
			"the collecting function hands the collection to sort.Sort/sort.Stable/sort.Slice",
			"the routes admitted here are not ranked as a whole (no sort of the collection in this function): behind the best one they keep registration order, and the first survivor of the method and media filters depends on that order")
	}
	if n == 0 {
		c.undecided("-", "route admission", "-", "no place found where a selector takes routes of the service's table into a candidate collection")
	}
}
