package main

import (
	"go/token"
	"go/types"

	"golang.org/x/tools/go/ssa"
)

func init() {
	register(&Property{
		ID:    "C07",
		Title: "Encoded responses decode to exactly what was written, and are labelled so",
		Decided: "for every site that installs a CompressingResponseWriter on the request path: C07.a it is guarded by 'not already compressing', by wantsCompressedResponse on the same request and writer (which refuses when Content-Encoding is already set and only answers gzip/deflate when the request mentions it) and by an enablement test, and uses the coding that call chose; " +
			"C07.b in a function that selects a route the enablement is the route's own setting when present, else the container's, and no install site lies upstream of route selection; C07.c the Content-Encoding label is set first and equals the codec acquired and released; " +
			"C07.d after an install everything downstream receives the compressing writer (the raw writer only on the install-failure path) and CompressingResponseWriter.Write forwards to the compressor only; C07.e a deferred Close of the active writer is registered before the install on every path, so the stream is finished on normal, error and panic exits. C07.h no framework code on the request path sets Content-Length (the writer it holds may be encoding). C07.i on the wrapped writer of the compressing writer no method with a []byte, string or io.Reader parameter is invoked (directly or after a type assertion) and it is handed only to the compress packages: body bytes reach it through the compressor only.",
		NotDecided:  "the byte-level round trip (compress/gzip and compress/zlib's contract); chunking; that Accept-Encoding quality values such as gzip;q=0 are honoured (the property only requires the coding to be mentioned).",
		Assumptions: []string{"gzip/zlib writers produce a stream that decodes to the bytes written once Close has run", "net/http ignores header changes after the first write"},
		Rules: []Rule{
			{ID: "C07.a", Template: "T-GUARD", Required: true, Run: ruleC07a,
				Doc: "Guarded install: never encode twice, never without the request asking for that coding, never when the writer already carries a Content-Encoding, never when encoding is disabled."},
			{ID: "C07.b", Template: "T-PROV", Required: true, Run: ruleC07b,
				Doc: "Route override wins: an installed encoder cannot be taken back, so the enablement value at an install in a route-selecting function must be the selected route's setting when it has one, and an install site must not have route selection downstream of it."},
			{ID: "C07.c", Template: "T-GUARD", Required: true, Run: ruleC07c,
				Doc: "Label = codec: the constructor sets Content-Encoding to its encoding argument before anything else, acquires the gzip writer only under encoding==gzip and the zlib writer only under encoding==deflate, resets it onto the same writer that carries the header, rejects any other encoding without acquiring; Close releases by the same constant."},
			{ID: "C07.d", Template: "T-PROV", Required: true, Run: ruleC07d,
				Doc: "After an install the values handed downstream (request/response wrappers, mux, plain handler, recover handler) are the compressing writer; the raw writer is used after an install only on the failure path. CompressingResponseWriter.Write forwards every byte to compressor.Write. Otherwise plain bytes are sent under a gzip label."},
			{ID: "C07.f", Template: "T-PROV", Required: true, Run: ruleC10b,
				Doc: "The recover handler is a downstream writer too: it receives the active (compressing) writer and runs before the deferred Close (same obligation as C10.b), otherwise a recovered-panic response carries raw bytes under a Content-Encoding label or loses its body."},
			{ID: "C07.g", Template: "T-TYPESTATE", Required: true, Run: ruleC13aWriters,
				Doc: "The encoder is finished before its compressor is handed back: Close calls compressor.Close() (trailer) before releasing, releases once, clears the field (same obligation as C13.a). A compressor released early is reset by the next response while this one still has unflushed data."},
			{ID: "C07.e", Template: "T-DEFER", Required: true, Run: ruleC07e,
				Doc: "In each install function a defer that closes the active writer when it is a *CompressingResponseWriter is registered on a block dominating the install: the trailer is written on normal, error and panic exits, exactly once (Close itself refuses a second close, C13.a)."},
			{ID: "C07.j", Template: "T-PROV", Required: false, Run: ruleRegisteredHandlerEncodes,
				Doc: "'Through Handle and HandleWithFilter': what the module registers on the ServeMux for a plain handler is, as a whole, the function that installs the compressor, so that the container filters of HandleWithFilter run inside it. Wrapping only the innermost handler leaves a filter's own bytes outside the encoded stream."},
			{ID: "C07.i", Template: "T-SINK", Required: true, Run: ruleC07i,
				Doc: "Body bytes reach the wrapped writer only through the compressor: no method with a []byte, string or io.Reader parameter (Write, WriteString, ReadFrom) is invoked on the wrapped writer of the compressing writer, directly or after a type assertion, and it is handed only to the compress packages. A forwarded ReadFrom fast path sends raw bytes under a gzip label; httptest.ResponseRecorder has no ReadFrom, so no test can see it."},
			{ID: "C07.h", Template: "T-SINK", Required: true, Run: ruleNoDeclaredLength,
				Doc: "Framework code never sets Content-Length: the writer it holds may be the encoding writer, whose Header() is the underlying map while Write goes through the encoder, so a length computed from the plain bytes makes the client read a truncated, undecodable body. (The default recover handler and error writers receive exactly that writer.)"},
		},
	})
}

// installSite describes one call of NewCompressingResponseWriter on the request path.
type installSite struct {
	Fn       *ssa.Function // function containing the call
	Call     *ssa.Call
	Writer   Var            // variable holding the active writer (receives the install result)
	RawW     *ssa.Parameter // the incoming http.ResponseWriter
	Req      *ssa.Parameter // the incoming *http.Request
	ErrVal   ssa.Value      // error result of the install
	CloseDef *ssa.Defer     // deferred close of the active writer (nil if absent)
}

func installSites(p *Program) []*installSite {
	var out []*installSite
	ctor := p.fn("NewCompressingResponseWriter")
	for _, fn := range p.requestPathFuncs() {
		eachInstr(fn, func(i ssa.Instruction) {
			call, ok := i.(*ssa.Call)
			if !ok || call.Call.StaticCallee() == nil || call.Call.StaticCallee() != ctor {
				return
			}
			s := &installSite{Fn: fn, Call: call}
			for _, prm := range fn.Params {
				if isHTTPResponseWriter(prm.Type()) && s.RawW == nil {
					s.RawW = prm
				}
				if isHTTPRequestPtr(prm.Type()) && s.Req == nil {
					s.Req = prm
				}
			}
			for _, r := range referrers(call) {
				ex, ok := r.(*ssa.Extract)
				if !ok {
					continue
				}
				if ex.Index == 1 {
					s.ErrVal = ex
				}
				if ex.Index == 0 {
					s.Writer = Var{Val: ex}
					// follow conversions to the store into the writer variable
					var follow func(v ssa.Value)
					follow = func(v ssa.Value) {
						for _, rr := range referrers(v) {
							switch y := rr.(type) {
							case *ssa.MakeInterface:
								follow(y)
							case *ssa.ChangeInterface:
								follow(y)
							case *ssa.Store:
								if y.Val == v {
									if cv, ok := p.varOfStoreTarget(y.Addr); ok {
										s.Writer = cv
									}
								}
							}
						}
					}
					follow(ex)
				}
			}
			s.CloseDef = findCloseDefer(p, fn, s.Writer)
			out = append(out, s)
		})
	}
	return out
}

// findCloseDefer finds `defer func(){ if cw, ok := writer.(*CompressingResponseWriter); ok { cw.Close() } }()`
// for the given writer variable.
func findCloseDefer(p *Program, fn *ssa.Function, w Var) *ssa.Defer {
	var found *ssa.Defer
	// closesWhat: cl closes the compressing writer it finds, on the ok edge of a comma-ok assertion, in a value isW accepts
	closesWhat := func(cl *ssa.Function, isW func(v ssa.Value) bool) bool {
		closes := false
		eachInstr(cl, func(j ssa.Instruction) {
			cc := callCommon(j)
			if cc == nil || cc.StaticCallee() == nil || cc.StaticCallee().Name() != "Close" || recvTypeName(cc.StaticCallee()) != "CompressingResponseWriter" {
				return
			}
			// receiver: type assertion of a load of the writer variable, on the ok edge
			recv := strip(cc.Args[0])
			ex, ok := recv.(*ssa.Extract)
			if !ok {
				return
			}
			ta, ok := ex.Tuple.(*ssa.TypeAssert)
			if !ok || !ta.CommaOk {
				return
			}
			if !isW(ta.X) {
				return
			}
			facts := factsAt(cl)
			for f := range facts[j.Block()] {
				if e2, ok := f.Cond.(*ssa.Extract); ok && e2.Tuple == ssa.Value(ta) && e2.Index == 1 && f.Pol {
					closes = true
				}
			}
		})
		return closes
	}
	eachInstr(fn, func(i ssa.Instruction) {
		d, ok := i.(*ssa.Defer)
		if !ok || found != nil {
			return
		}
		if mc, ok := d.Call.Value.(*ssa.MakeClosure); ok {
			cl := mc.Fn.(*ssa.Function)
			if closesWhat(cl, func(v ssa.Value) bool { return p.isVar(v, w) }) {
				found = d
			}
			return
		}
		// defer helper(&writer): the helper reads the variable when it runs
		if h := d.Call.StaticCallee(); h != nil && p.inModule(h) && h.Blocks != nil && w.Cell != nil {
			for k, a := range d.Call.Args {
				if a != ssa.Value(w.Cell) || k >= len(h.Params) {
					continue
				}
				prm := h.Params[k]
				if closesWhat(h, func(v ssa.Value) bool {
					u, ok := strip(v).(*ssa.UnOp)
					return ok && u.Op == token.MUL && u.X == ssa.Value(prm)
				}) {
					found = d
				}
			}
		}
	})
	return found
}

// isParam: v is parameter prm, possibly through the cell it was spilled into.
func (p *Program) isParam(v ssa.Value, prm *ssa.Parameter) bool {
	if prm == nil {
		return false
	}
	src := p.sources(v, provOpt{ThroughCells: true})
	return len(src) == 1 && src[0] == ssa.Value(prm)
}

func ruleC07a(c *Ctx) {
	p := c.P
	sites := installSites(p)
	c.count("install_sites", len(sites))
	for _, s := range sites {
		name := p.fname(s.Fn)
		facts := factsAt(s.Fn)[s.Call.Block()]
		pos := p.ipos(s.Call)
		// (i) not already compressing
		okI := false
		for f := range facts {
			if ex, ok := f.Cond.(*ssa.Extract); ok && ex.Index == 1 && !f.Pol {
				if ta, ok := ex.Tuple.(*ssa.TypeAssert); ok && ta.CommaOk && isPtrToRestful(ta.AssertedType, "CompressingResponseWriter") && p.isParam(ta.X, s.RawW) {
					okI = true
				}
			}
		}
		c.check(okI, name, "install only when the incoming writer is not already compressing", pos,
			"dominated by the false edge of httpWriter.(*CompressingResponseWriter)", "no guard against wrapping a CompressingResponseWriter again: the response would be encoded twice")
		// (ii) the request wants it
		var wants *ssa.Call
		for f := range facts {
			if ex, ok := f.Cond.(*ssa.Extract); ok && ex.Index == 0 && f.Pol {
				if call, ok := ex.Tuple.(*ssa.Call); ok && call.Call.StaticCallee() != nil && call.Call.StaticCallee().Name() == "wantsCompressedResponse" {
					wants = call
				}
			}
		}
		if wants == nil {
			c.bad(name, "install only when the request asks for a supported coding", pos, "the install is not dominated by the true edge of wantsCompressedResponse(...)")
		} else {
			// arguments by type: the request and the writer, in whatever order the function takes them
			okArgs := len(wants.Call.Args) == 2
			for _, a := range wants.Call.Args {
				switch {
				case isHTTPRequestPtr(a.Type()):
					okArgs = okArgs && p.isParam(a, s.Req)
				case isHTTPResponseWriter(a.Type()):
					okArgs = okArgs && p.isParam(a, s.RawW)
				default:
					okArgs = false
				}
			}
			c.check(okArgs, name, "wantsCompressedResponse is asked about this request and this writer", p.ipos(wants), "arguments are the function's own request and writer", "the decision is taken on a different request or writer")
			enc := strip(refinePhi(s.Call.Call.Args[1], facts))
			ex, ok := enc.(*ssa.Extract)
			c.check(ok && ex.Tuple == ssa.Value(wants) && ex.Index == 1, name, "the coding installed is the one chosen for the request", pos, "encoding argument = result #1 of the same wantsCompressedResponse call", "the installed coding is not the one wantsCompressedResponse selected from Accept-Encoding")
			c.check(p.isParam(s.Call.Call.Args[0], s.RawW), name, "the encoder wraps the incoming writer", pos, "first argument is the function's own writer", "the encoder wraps a different writer than the one that was checked")
		}
		// (iii) enablement
		okEn := false
		for f := range facts {
			if f.Pol && mentionsField(p, f.Cond, "contentEncodingEnabled") {
				okEn = true
			}
		}
		c.check(okEn, name, "install only when content encoding is enabled", pos, "dominated by the true edge of an enablement test", "the install is not guarded by any contentEncodingEnabled setting")
	}
	// wantsCompressedResponse itself
	if fn := p.fn("wantsCompressedResponse"); fn != nil {
		c07Wants(c, fn)
	} else {
		c.undecided("-", "wantsCompressedResponse", "-", "function not found")
	}
}

// mentionsField: some source of v is a load of a field with that name, directly or as what a module helper
// called for the value returns (`c.enabledFor(route)` returning the container's or the route's setting).
func mentionsField(p *Program, v ssa.Value, field string) bool {
	return mentionsFieldDepth(p, v, field, 0)
}

func mentionsFieldDepth(p *Program, v ssa.Value, field string, depth int) bool {
	for _, s := range p.sources(v, provDefault) {
		if _, f, ok := fieldLoad(s); ok && f.Name() == field {
			return true
		}
		if u, ok := s.(*ssa.UnOp); ok && u.Op == token.MUL {
			// *ptr where ptr is a load of the field
			if _, f, ok := fieldLoad(strip(u.X)); ok && f.Name() == field {
				return true
			}
		}
		if call, ok := s.(*ssa.Call); ok && depth < 2 {
			if g := call.Call.StaticCallee(); g != nil && p.inModule(g) && g.Blocks != nil {
				for _, r := range returnsOf(g) {
					for _, res := range r.Results {
						if mentionsFieldDepth(p, res, field, depth+1) {
							return true
						}
					}
				}
			}
		}
	}
	return false
}

// headerGet matches v = X.Header().Get(name) / X.Header.Get(name) and returns the header owner and name.
func headerGet(v ssa.Value) (owner ssa.Value, name string, ok bool) {
	call, isCall := strip(singleAssignment(v)).(*ssa.Call)
	if !isCall || calleeName(&call.Call) != "(net/http.Header).Get" {
		return nil, "", false
	}
	name, ok = constStr(call.Call.Args[1])
	if !ok {
		return nil, "", false
	}
	h := strip(call.Call.Args[0])
	switch x := h.(type) {
	case *ssa.Call:
		if x.Call.IsInvoke() && x.Call.Method.Name() == "Header" {
			return strip(x.Call.Value), name, true
		}
		if n := calleeName(&x.Call); n == "(*"+modulePath+".CompressingResponseWriter).Header" {
			return strip(x.Call.Args[0]), name, true
		}
	case *ssa.UnOp:
		if b, f, ok := fieldLoad(x); ok && f.Name() == "Header" {
			return strip(b), name, true
		}
	}
	return h, name, true
}

func c07Wants(c *Ctx, fn *ssa.Function) {
	p := c.P
	name := p.fname(fn)
	_ = factsAt
	var wParam, rParam *ssa.Parameter
	for _, prm := range fn.Params {
		if isHTTPResponseWriter(prm.Type()) {
			wParam = prm
		}
		if isHTTPRequestPtr(prm.Type()) {
			rParam = prm
		}
	}
	// isHeaderOrPart: v is the request's Accept-Encoding value, or a piece of it (a part returned by strings.Cut, a
	// slice): what is found in a piece is in the header
	var isHeaderOrPart func(v ssa.Value, depth int) bool
	isHeaderOrPart = func(v ssa.Value, depth int) bool {
		if owner, hname, ok := headerGet(v); ok && hname == "Accept-Encoding" && owner == ssa.Value(rParam) {
			return true
		}
		if depth > 3 {
			return false
		}
		switch x := strip(singleAssignment(v)).(type) {
		case *ssa.Extract:
			if call, ok := x.Tuple.(*ssa.Call); ok && x.Index < 2 {
				if n := calleeName(&call.Call); n == "strings.Cut" || n == "strings.CutPrefix" || n == "strings.CutSuffix" {
					return isHeaderOrPart(call.Call.Args[0], depth+1)
				}
			}
		case *ssa.Slice:
			return isHeaderOrPart(x.X, depth+1)
		case *ssa.Call:
			if n := calleeName(&x.Call); n == "strings.TrimSpace" || n == "strings.Trim" || n == "strings.TrimLeft" || n == "strings.TrimRight" || n == "strings.TrimPrefix" || n == "strings.TrimSuffix" {
				return isHeaderOrPart(x.Call.Args[0], depth+1)
			}
		}
		return false
	}
	// indexOf[E] = the strings.Index(header, E) values
	isIndexOf := func(v ssa.Value, enc string) bool {
		call, ok := strip(v).(*ssa.Call)
		if !ok {
			return false
		}
		n := calleeName(&call.Call)
		if n != "strings.Index" && n != "strings.Contains" && n != "strings.LastIndex" {
			return false
		}
		s, ok := constStr(call.Call.Args[1])
		if !ok || s != enc {
			return false
		}
		return isHeaderOrPart(call.Call.Args[0], 0)
	}
	// mentioned(v, enc, pol): v==pol means "header mentions enc"
	var mentions func(v ssa.Value, enc string) (isTest bool, whenTrue bool)
	mentions = func(v ssa.Value, enc string) (bool, bool) {
		v = strip(v)
		if call, ok := v.(*ssa.Call); ok && calleeName(&call.Call) == "strings.Contains" && isIndexOf(v, enc) {
			return true, true
		}
		// the "found" result of strings.Cut(header, enc)
		if ex, ok := v.(*ssa.Extract); ok && ex.Index == 2 {
			if call, ok := ex.Tuple.(*ssa.Call); ok && calleeName(&call.Call) == "strings.Cut" {
				if sep, ok := constStr(call.Call.Args[1]); ok && sep == enc && isHeaderOrPart(call.Call.Args[0], 0) {
					return true, true
				}
			}
		}
		b, ok := v.(*ssa.BinOp)
		if !ok {
			return false, false
		}
		var idx, k ssa.Value
		if isIndexOf(b.X, enc) {
			idx, k = b.X, b.Y
		} else if isIndexOf(b.Y, enc) {
			idx, k = b.Y, b.X
		}
		if idx == nil {
			return false, false
		}
		n, ok := constInt(k)
		if !ok {
			return false, false
		}
		// strings.Index answers -1 or a position: a comparison with a constant that -1 does not satisfy says "mentioned"
		// when it is true (idx == 0, idx >= 0, idx != -1), one that -1 satisfies says so when it is false (idx == -1, idx < 0)
		op := b.Op
		if idx == b.Y {
			if m, ok := mirrorOp[op]; ok {
				op = m
			}
		}
		var sat bool
		switch op {
		case token.EQL:
			sat = -1 == n
		case token.NEQ:
			sat = -1 != n
		case token.LSS:
			sat = -1 < n
		case token.LEQ:
			sat = -1 <= n
		case token.GTR:
			sat = -1 > n
		case token.GEQ:
			sat = -1 >= n
		default:
			return false, false
		}
		return true, !sat
	}
	n := 0
	for _, vr := range virtualReturns(fn) {
		r := vr
		if len(r.Results) != 2 {
			continue
		}
		n++
		b0, isConstBool := constBool(r.Results[0])
		if isConstBool && !b0 {
			c.triv(name, "return false", p.ipos(vr.Ret), "no coding requested")
			continue
		}
		enc, okEnc := constStr(r.Results[1])
		construct := "positive answer names a coding the request mentions"
		if !okEnc || (enc != "gzip" && enc != "deflate") {
			c.bad(name, construct, p.ipos(vr.Ret), "a possibly-true answer does not carry one of the constants gzip/deflate")
			continue
		}
		okM := false
		if isConstBool && b0 {
			for f := range vr.Facts {
				if t, whenTrue := mentions(f.Cond, enc); t && whenTrue == f.Pol {
					okM = true
				}
			}
			// the facts common to all paths may not say it where every single feasible path does (a switch that
			// tests one comparison in two cases)
			if !okM && vr.Block == vr.Ret.Block() {
				if paths, okP := enumPaths(fn, vr.Ret.Block(), 500); okP && len(paths) > 0 {
					all := true
					for _, pa := range paths {
						has := false
						for f := range pa.Facts {
							if t, whenTrue := mentions(f.Cond, enc); t && whenTrue == f.Pol {
								has = true
							}
						}
						if !has {
							all = false
						}
					}
					okM = all
				}
			}
		} else if t, whenTrue := mentions(r.Results[0], enc); t && whenTrue {
			okM = true
		}
		c.check(okM, name, construct+" ("+enc+")", p.ipos(vr.Ret), "the answer is true only where strings.Index(Accept-Encoding, \""+enc+"\") != -1",
			"the function can answer ("+enc+", true) although the request's Accept-Encoding does not mention "+enc)
		// already-encoded guard
		okCE := false
		for f := range vr.Facts {
			b, ok := f.Cond.(*ssa.BinOp)
			if !ok {
				continue
			}
			var hv, other ssa.Value = b.X, b.Y
			if _, _, ok := headerGet(hv); !ok {
				hv, other = b.Y, b.X
			}
			owner, hname, ok := headerGet(hv)
			if !ok || hname != "Content-Encoding" || owner != ssa.Value(wParam) {
				continue
			}
			if s, ok := constStr(other); ok && s == "" {
				if (b.Op == token.NEQ && !f.Pol) || (b.Op == token.EQL && f.Pol) {
					okCE = true
				}
			}
		}
		c.check(okCE, name, "no coding when the writer already carries Content-Encoding ("+enc+")", p.ipos(vr.Ret),
			"only reached when writer.Header().Get(Content-Encoding) == \"\"", "a coding can be chosen although the response already has a Content-Encoding")
	}
	if n == 0 {
		c.undecided(name, "returns", p.pos(fn.Pos()), "no (bool, string) returns found")
	}
}

// ---------------------------------------------------------------------------

func ruleC07b(c *Ctx) {
	p := c.P
	ds, _ := findDispatchers(p)
	dispByTop := map[*ssa.Function]*Dispatcher{}
	for _, d := range ds {
		dispByTop[d.Fn] = d
	}
	cg := p.callGraph()
	for _, s := range installSites(p) {
		name := p.fname(s.Fn)
		pos := p.ipos(s.Call)
		d := dispByTop[topFunc(s.Fn)]
		if d != nil {
			// (1) the enablement value honours the route's own setting
			factsAll := factsAt(s.Fn)
			var en ssa.Value
			for f := range factsAll[s.Call.Block()] {
				if f.Pol && mentionsField(p, f.Cond, "contentEncodingEnabled") {
					en = f.Cond
				}
			}
			if en == nil {
				c.bad(name, "enablement honours the route's override", pos, "no enablement test dominates the install")
			} else {
				ok, why := routeOverrideShape(p, en, d, factsAll)
				c.check(ok, name, "enablement honours the route's override", pos, "value = *route.contentEncodingEnabled when that pointer is non-nil, else the container flag", why)
			}
			// install after selection
			after := false
			if site := selectionSiteIn(p, d); site != nil && site.Parent() == s.Fn && instrDominates(site, s.Call) {
				after = true
			}
			c.check(after, name, "install happens after route selection", pos, "the selection dominates the install", "the encoder is installed before the route (and its override) is known")
			continue
		}
		// (2) no route selection downstream of this install
		var downstream []*ssa.Function
		for _, e := range cg.Out[s.Fn] {
			if canReach(s.Call, e.Site) {
				downstream = append(downstream, e.Callee)
			}
		}
		reach := cg.reach(downstream, nil)
		var hit *Dispatcher
		for _, d2 := range ds {
			if reach[d2.Fn] {
				hit = d2
			}
		}
		if hit != nil {
			c.bad(name, "install upstream of route selection", pos,
				"this install is decided on the container flag alone, and "+p.fname(hit.Fn)+" (which selects the route) runs downstream of it: a route with ContentEncodingEnabled(false) is still encoded, and an installed encoder cannot be taken back")
		} else {
			c.ok(name, "no route selection downstream of this install", pos, "only the plain handler runs below; the container flag is the only setting that applies")
		}
	}
}

// routeOverrideShape checks the Phi that merges the container flag with the route's setting.
func routeOverrideShape(p *Program, en ssa.Value, d *Dispatcher, facts map[*ssa.BasicBlock]map[condFact]bool) (bool, string) {
	isContainerFlag := func(v ssa.Value) bool {
		_, ok := fieldLoadIs(v, "Container", "contentEncodingEnabled")
		return ok
	}
	// *load(route.contentEncodingEnabled)
	isRouteDeref := func(v ssa.Value) (ssa.Value, bool) {
		u, ok := strip(v).(*ssa.UnOp)
		if !ok || u.Op != token.MUL {
			return nil, false
		}
		b, ok := fieldLoadIs(u.X, "Route", "contentEncodingEnabled")
		if !ok || !p.isVar(b, d.Route) {
			return nil, false
		}
		return u.X, true
	}
	ptrNonNil := func(b *ssa.BasicBlock) bool {
		for f := range facts[b] {
			bo, ok := f.Cond.(*ssa.BinOp)
			if !ok || (bo.Op != token.NEQ && bo.Op != token.EQL) {
				continue
			}
			var x ssa.Value
			if isNilConst(bo.Y) {
				x = bo.X
			} else if isNilConst(bo.X) {
				x = bo.Y
			} else {
				continue
			}
			if bb, ok := fieldLoadIs(x, "Route", "contentEncodingEnabled"); ok && p.isVar(bb, d.Route) {
				if (bo.Op == token.NEQ) == f.Pol {
					return true
				}
			}
		}
		return false
	}
	phi, ok := strip(en).(*ssa.Phi)
	if !ok {
		if isContainerFlag(en) {
			return false, "the install in a route-selecting function is decided on the container flag alone: the route's ContentEncodingEnabled setting is ignored"
		}
		return false, "unrecognised enablement expression"
	}
	sawRoute := false
	for k, e := range phi.Edges {
		pred := phi.Block().Preds[k]
		if _, isDeref := isRouteDeref(e); isDeref {
			if !ptrNonNil(pred) {
				return false, "the route's setting is dereferenced on an edge where the pointer was not tested non-nil"
			}
			// the override must be reachable for a selected route: no `route == nil` on that edge
			for f := range facts[pred] {
				if bo, ok := f.Cond.(*ssa.BinOp); ok && f.Pol && bo.Op == token.EQL && isNilConst(bo.Y) && p.isVar(bo.X, d.Route) {
					return false, "the route's setting is only consulted where the route is nil: for a selected route the override never applies"
				}
			}
			sawRoute = true
			continue
		}
		if isContainerFlag(e) {
			if ptrNonNil(pred) {
				return false, "the container flag is used although the route has its own setting (edge from block " + pred.String() + ")"
			}
			continue
		}
		return false, "an enablement value is neither the container flag nor the route's setting"
	}
	if !sawRoute {
		return false, "the route's own setting never reaches the enablement test"
	}
	return true, ""
}

// ---------------------------------------------------------------------------

func ruleC07c(c *Ctx) {
	p := c.P
	ctor := p.fn("NewCompressingResponseWriter")
	if ctor == nil {
		c.undecided("-", "NewCompressingResponseWriter", "-", "constructor not found")
		return
	}
	name := p.fname(ctor)
	facts := factsAt(ctor)
	var wParam, encParam *ssa.Parameter
	for _, prm := range ctor.Params {
		if isHTTPResponseWriter(prm.Type()) {
			wParam = prm
		}
		if b, ok := prm.Type().Underlying().(*types.Basic); ok && b.Kind() == types.String {
			encParam = prm
		}
	}
	// header set first
	var setCall *ssa.Call
	eachInstr(ctor, func(i ssa.Instruction) {
		call, ok := i.(*ssa.Call)
		if !ok || calleeName(&call.Call) != "(net/http.Header).Set" {
			return
		}
		if k, ok := constStr(call.Call.Args[1]); ok && k == "Content-Encoding" {
			setCall = call
		}
	})
	if setCall == nil {
		c.bad(name, "Content-Encoding label", p.pos(ctor.Pos()), "the constructor does not set Content-Encoding")
	} else {
		hc, _ := strip(setCall.Call.Args[0]).(*ssa.Call)
		okOwner := hc != nil && hc.Call.IsInvoke() && hc.Call.Method.Name() == "Header" && strip(hc.Call.Value) == ssa.Value(wParam)
		c.check(okOwner && strip(setCall.Call.Args[2]) == ssa.Value(encParam), name, "Content-Encoding is set to the encoding argument on the wrapped writer", p.ipos(setCall),
			"httpWriter.Header().Set(Content-Encoding, encoding)", "the label is not the encoding argument, or is set on another writer")
	}
	encFact := func(b *ssa.BasicBlock, want string) bool {
		for f := range facts[b] {
			bo, ok := f.Cond.(*ssa.BinOp)
			if !ok || bo.Op != token.EQL || !f.Pol {
				continue
			}
			for _, pr := range [][2]ssa.Value{{bo.X, bo.Y}, {bo.Y, bo.X}} {
				if s, ok := constStr(pr[0]); ok && s == want && strip(pr[1]) == ssa.Value(encParam) {
					return true
				}
			}
		}
		return false
	}
	wantEnc := map[string]string{"GzipWriter": "gzip", "ZlibWriter": "deflate"}
	nAcq := 0
	eachInstr(ctor, func(i ssa.Instruction) {
		kind, ok := providerCall(p, i, "Acquire")
		if !ok {
			return
		}
		nAcq++
		call := i.(*ssa.Call)
		enc := wantEnc[kind]
		c.check(enc != "" && encFact(i.Block(), enc), name, "Acquire"+kind+" only under encoding == "+enc, p.ipos(i),
			"dominated by the true edge of the comparison with the constant", "the codec acquired does not follow from the encoding label: a "+kind+" is used under another Content-Encoding")
		if setCall != nil {
			c.check(instrDominates(setCall, i), name, "label set before Acquire"+kind, p.ipos(i), "Header().Set dominates the acquire", "the header is set after the compressor is obtained (and possibly after a write)")
		}
		// Reset onto the same writer
		okReset := false
		for _, r := range referrers(call) {
			if cc := callCommon(r); cc != nil && cc.StaticCallee() != nil && cc.StaticCallee().Name() == "Reset" && len(cc.Args) == 2 {
				if strip(cc.Args[1]) == ssa.Value(wParam) {
					okReset = true
				}
			}
		}
		c.check(okReset, name, "Acquire"+kind+" is reset onto the wrapped writer", p.ipos(i), "Reset(httpWriter) with the writer that carries the label", "the compressor writes to a different target than the writer that carries the Content-Encoding header")
		// the encoding recorded for Close equals the constant of this branch
		// every path from the acquire to a return records this branch's constant (or the argument, which equals it
		// here), and no other value is recorded on the way
		right := map[ssa.Instruction]bool{}
		wrong := false
		reach := reachableAfter(i.Block(), nil)
		reach[i.Block()] = true
		eachInstr(ctor, func(ins ssa.Instruction) {
			st, ok := ins.(*ssa.Store)
			if !ok || !reach[ins.Block()] {
				return
			}
			if ins.Block() == i.Block() && indexInBlock(ins) < indexInBlock(i) {
				return
			}
			fa, ok := st.Addr.(*ssa.FieldAddr)
			if !ok || fieldOfAddr(fa) == nil || fieldOfAddr(fa).Name() != "encoding" {
				return
			}
			if s, ok := constStr(st.Val); ok && s == enc {
				right[ins] = true
			} else if strip(st.Val) == ssa.Value(encParam) {
				right[ins] = true
			} else {
				wrong = true
			}
		})
		min, _, okPaths := countOnPaths(ctor, i, right)
		okRec := okPaths && min >= 1 && !wrong
		c.check(okRec, name, "encoding recorded for Close matches ("+enc+")", p.ipos(i), "c.encoding = "+enc+" in the same branch", "the encoding remembered for Close differs from the codec acquired: Close releases it to the wrong pool")
	})
	if nAcq == 0 {
		c.bad(name, "no compressor acquired", p.pos(ctor.Pos()), "constructor acquires nothing")
	}
	// unknown encoding: error without acquiring
	for _, r := range returnsOf(ctor) {
		if encFact(r.Block(), "gzip") || encFact(r.Block(), "deflate") {
			continue
		}
		// a return reached under neither equality: only acceptable if it is the join after the branches or returns an error
		reachedAfterAcquire := false
		eachInstr(ctor, func(i ssa.Instruction) {
			if _, ok := providerCall(p, i, "Acquire"); ok && canReach(i, r) {
				reachedAfterAcquire = true
			}
		})
		// does some path reach r without any acquire?
		var acq []ssa.Instruction
		eachInstr(ctor, func(i ssa.Instruction) {
			if _, ok := providerCall(p, i, "Acquire"); ok {
				acq = append(acq, i)
			}
		})
		first := ctor.Blocks[0].Instrs[0]
		noAcquirePath := canReachAvoiding(first, r, acq) || first == ssa.Instruction(r)
		if !noAcquirePath {
			continue
		}
		_ = reachedAfterAcquire
		errNonNil := false
		if len(r.Results) == 2 {
			for _, s := range p.sources(r.Results[1], provDefault) {
				if !isNilConst(s) {
					errNonNil = true
				} else {
					errNonNil = false
					break
				}
			}
		}
		wNil := len(r.Results) == 2 && isNilConst(r.Results[0])
		c.check(errNonNil && wNil, name, "unknown encoding is an error, nothing acquired", p.ipos(r), "returns (nil, error) on the path that acquires nothing", "a path that acquires no compressor returns success: the response is labelled but not encoded")
	}
	// Close: release method chosen by the same constant
	for _, fn := range p.methodsOf("CompressingResponseWriter") {
		f2 := factsAt(fn)
		eachInstr(fn, func(i ssa.Instruction) {
			kind, ok := providerCall(p, i, "Release")
			if !ok {
				return
			}
			enc := wantEnc[kind]
			okG := false
			for f := range f2[i.Block()] {
				bo, ok := f.Cond.(*ssa.BinOp)
				if !ok || bo.Op != token.EQL || !f.Pol {
					continue
				}
				for _, pr := range [][2]ssa.Value{{bo.X, bo.Y}, {bo.Y, bo.X}} {
					if s, ok := constStr(pr[0]); ok && s == enc {
						if _, fld, ok := fieldLoad(strip(pr[1])); ok && fld.Name() == "encoding" {
							okG = true
						}
					}
				}
			}
			c.check(okG, p.fname(fn), "Release"+kind+" only under encoding == "+enc, p.ipos(i), "same constant as the constructor's acquire", "the object is released to a pool of another kind than it was acquired from")
		})
	}
}

// ---------------------------------------------------------------------------

func ruleC07d(c *Ctx) {
	p := c.P
	for _, s := range installSites(p) {
		name := p.fname(s.Fn)
		facts := factsAt(s.Fn)
		failure := func(b *ssa.BasicBlock) bool {
			for f := range facts[b] {
				bo, ok := f.Cond.(*ssa.BinOp)
				if !ok {
					continue
				}
				if (strip(bo.X) == s.ErrVal && isNilConst(bo.Y)) || (strip(bo.Y) == s.ErrVal && isNilConst(bo.X)) {
					if (bo.Op == token.NEQ) == f.Pol {
						return true
					}
				}
				// an error variable that is nil or the install's error (the install sits in a helper that also
				// returns the raw writer with a nil error): non-nil means the install failed
				if isNilConst(bo.Y) && (bo.Op == token.NEQ) == f.Pol && s.ErrVal != nil && isErrorType(bo.X.Type()) {
					has, only := false, true
					for _, src := range p.sources(bo.X, provDefault) {
						switch {
						case strip(src) == s.ErrVal:
							has = true
						case isNilConst(src):
						default:
							only = false
						}
					}
					if has && only {
						return true
					}
				}
			}
			return false
		}
		n := 0
		eachInstr(s.Fn, func(i ssa.Instruction) {
			cc := callCommon(i)
			if cc == nil || !canReach(s.Call, i) {
				return
			}
			if _, isDefer := i.(*ssa.Defer); isDefer {
				return
			}
			for k, a := range callArgs(cc) {
				if !isHTTPResponseWriter(a.Type()) && !(cc.IsInvoke() && k == 0 && isHTTPResponseWriter(cc.Value.Type())) {
					continue
				}
				n++
				construct := "writer handed to " + shortCallee(cc)
				if shortCallee(cc) == "" {
					construct = "writer handed to a function value"
				}
				if p.isParam(a, s.RawW) {
					if failure(i.Block()) {
						c.ok(name, construct+" on the install-failure path", p.ipos(i), "the raw writer is used only where the install returned an error")
					} else {
						c.bad(name, construct+" is the raw writer", p.ipos(i), "after a successful install the raw writer is handed downstream: plain bytes are written under a "+"Content-Encoding label")
					}
					continue
				}
				if p.isVar(a, s.Writer) {
					c.ok(name, construct+" is the active writer", p.ipos(i), "load of "+s.Writer.String())
					continue
				}
				c.undecided(name, construct, p.ipos(i), "the writer argument is neither the raw parameter nor the active-writer variable")
			}
		})
		if n == 0 {
			c.bad(name, "nothing downstream of the install receives a writer", p.ipos(s.Call), "the installed encoder is never handed on")
		}
	}
	// CompressingResponseWriter.Write forwards to the compressor only
	for _, fn := range p.methodsOf("CompressingResponseWriter") {
		name := p.fname(fn)
		eachInstr(fn, func(i ssa.Instruction) {
			cc := callCommon(i)
			if cc == nil || !cc.IsInvoke() || cc.Method.Name() != "Write" {
				return
			}
			_, f, ok := fieldLoad(strip(cc.Value))
			if ok && f.Name() == "writer" {
				c.bad(name, "direct Write on the wrapped writer", p.ipos(i), "bytes bypass the compressor under a Content-Encoding label")
			}
		})
		if fn.Name() == "Write" {
			okFwd := false
			for _, r := range returnsOf(fn) {
				if len(r.Results) != 2 {
					continue
				}
				if ex, ok := strip(r.Results[0]).(*ssa.Extract); ok {
					if call, ok := ex.Tuple.(*ssa.Call); ok && call.Call.IsInvoke() && call.Call.Method.Name() == "Write" {
						if _, f, ok := fieldLoad(strip(call.Call.Value)); ok && f.Name() == "compressor" && len(call.Call.Args) == 1 && call.Call.Args[0] == ssa.Value(fn.Params[1]) {
							okFwd = true
						}
					}
				}
			}
			c.check(okFwd, name, "Write forwards the caller's bytes to compressor.Write", p.pos(fn.Pos()), "returns compressor.Write(bytes)", "Write does not forward the bytes it was given to the compressor")
		}
	}
}

// ---------------------------------------------------------------------------

func ruleC07e(c *Ctx) {
	p := c.P
	for _, s := range installSites(p) {
		name := p.fname(s.Fn)
		if s.CloseDef == nil {
			// alternative idiom: defer result.Close() right after a successful install
			alt := false
			eachInstr(s.Fn, func(i ssa.Instruction) {
				d, ok := i.(*ssa.Defer)
				if !ok || d.Call.StaticCallee() == nil || d.Call.StaticCallee().Name() != "Close" || len(d.Call.Args) != 1 {
					return
				}
				if ex, ok := strip(d.Call.Args[0]).(*ssa.Extract); ok && ex.Tuple == ssa.Value(s.Call) && ex.Index == 0 {
					// every success path from the install passes this defer before any other call
					alt = d.Block() == s.Call.Block() || (len(d.Block().Preds) == 1 && d.Block().Preds[0] == s.Call.Block())
				}
			})
			c.check(alt, name, "deferred Close of the active writer", p.ipos(s.Call), "defer Close() on the install result directly after the install",
				"no deferred Close covers this install: on some exit (return, routing error, panic) the compressor is never closed - the body lacks its trailer and the pooled object is lost")
			continue
		}
		c.check(s.CloseDef.Block().Dominates(s.Call.Block()) && instrDominates(s.CloseDef, s.Call), name, "deferred Close is registered before the install on every path", p.ipos(s.CloseDef),
			"the defer's block dominates the install: it runs on normal, error and panic exits", "the deferred Close is not registered on every path that reaches the install")
	}
}
