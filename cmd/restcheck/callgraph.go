package main

import (
	"go/types"
	"sort"

	"golang.org/x/tools/go/ssa"
)

// The deciding call graph (DESIGN §2.1 A-cg): static callees, invokes of interfaces
// resolved by CHA restricted to the module's types, directly applied/deferred closures,
// and RTA-style escape edges for module types converted to external interfaces.
// Calls through function values are user callbacks: no edge, the callee is opaque.

type EdgeKind int

const (
	EdgeStatic EdgeKind = iota
	EdgeInvoke
	EdgeClosure // closure created here and called/deferred here
	EdgeEscape  // module type converted to an external interface: its methods may be called
	EdgeMux     // (*http.ServeMux).ServeHTTP may call what the module registered
)

type Edge struct {
	Caller *ssa.Function
	Callee *ssa.Function
	Site   ssa.Instruction
	Kind   EdgeKind
}

type CallGraph struct {
	Out map[*ssa.Function][]Edge
	In  map[*ssa.Function][]Edge
}

func (p *Program) moduleNamedTypes() []*types.Named {
	var out []*types.Named
	for _, pkg := range []*ssa.Package{p.Restful, p.Log} {
		sc := pkg.Pkg.Scope()
		for _, n := range sc.Names() {
			if tn, ok := sc.Lookup(n).(*types.TypeName); ok && !tn.IsAlias() {
				if nt, ok := tn.Type().(*types.Named); ok {
					out = append(out, nt)
				}
			}
		}
	}
	return out
}

// implementations returns the module methods that an invoke of iface.method may reach.
func (p *Program) implementations(recv types.Type, method *types.Func) []*ssa.Function {
	iface, ok := recv.Underlying().(*types.Interface)
	if !ok {
		return nil
	}
	var out []*ssa.Function
	for _, nt := range p.moduleNamedTypes() {
		if _, isIface := nt.Underlying().(*types.Interface); isIface {
			continue
		}
		for _, t := range []types.Type{nt, types.NewPointer(nt)} {
			if !types.Implements(t, iface) {
				continue
			}
			sel := p.Prog.MethodSets.MethodSet(t).Lookup(method.Pkg(), method.Name())
			if sel == nil {
				continue
			}
			if f := p.Prog.MethodValue(sel); f != nil {
				out = append(out, f)
			}
		}
	}
	return dedupFuncs(out)
}

func dedupFuncs(in []*ssa.Function) []*ssa.Function {
	seen := map[*ssa.Function]bool{}
	var out []*ssa.Function
	for _, f := range in {
		if !seen[f] {
			seen[f] = true
			out = append(out, f)
		}
	}
	return out
}

// unwrap follows synthetic wrapper/bound/thunk functions to the source method they forward to.
func (p *Program) unwrap(fn *ssa.Function) *ssa.Function {
	for k := 0; k < 4 && fn != nil && fn.Synthetic != "" && fn.Blocks != nil; k++ {
		var next *ssa.Function
		n := 0
		eachInstr(fn, func(i ssa.Instruction) {
			if c := callCommon(i); c != nil {
				if sc := c.StaticCallee(); sc != nil && p.inModule(sc) {
					next = sc
					n++
				}
			}
		})
		if n != 1 {
			return fn
		}
		fn = next
	}
	return fn
}

func (p *Program) isModuleInterface(t types.Type) bool {
	nt, ok := types.Unalias(t).(*types.Named)
	if !ok {
		return false
	}
	o := nt.Obj()
	return o.Pkg() != nil && (o.Pkg() == p.Restful.Pkg || o.Pkg() == p.Log.Pkg)
}

func (p *Program) callGraph() *CallGraph {
	if p.cg != nil {
		return p.cg
	}
	p.initCells()
	p.cgBuilding = true
	defer func() { p.cgBuilding = false }()
	cg := &CallGraph{Out: map[*ssa.Function][]Edge{}, In: map[*ssa.Function][]Edge{}}
	add := func(e Edge) {
		if e.Callee == nil {
			return
		}
		cg.Out[e.Caller] = append(cg.Out[e.Caller], e)
		cg.In[e.Callee] = append(cg.In[e.Callee], e)
	}
	// functions the module registers on a ServeMux
	var muxRegistered []*ssa.Function
	for _, fn := range p.Funcs {
		eachInstr(fn, func(i ssa.Instruction) {
			c := callCommon(i)
			if c == nil {
				return
			}
			switch calleeName(c) {
			case "(*net/http.ServeMux).HandleFunc", "(*net/http.ServeMux).Handle":
				if len(c.Args) == 3 {
					for _, s := range p.sources(c.Args[2], provDefault) {
						if f := p.funcValue(s); f != nil {
							muxRegistered = append(muxRegistered, f)
						}
					}
				}
			}
		})
	}
	muxRegistered = dedupFuncs(muxRegistered)
	for _, fn := range p.Funcs {
		fn := fn
		eachInstr(fn, func(i ssa.Instruction) {
			switch x := i.(type) {
			case *ssa.MakeInterface:
				// RTA-style escape to an external interface with methods
				it, ok := x.Type().Underlying().(*types.Interface)
				if !ok || it.NumMethods() == 0 || p.isModuleInterface(x.Type()) {
					return
				}
				ms := p.Prog.MethodSets.MethodSet(x.X.Type())
				for k := 0; k < it.NumMethods(); k++ {
					m := it.Method(k)
					if sel := ms.Lookup(m.Pkg(), m.Name()); sel != nil {
						if f := p.Prog.MethodValue(sel); f != nil && p.inModule(f) {
							add(Edge{fn, f, i, EdgeEscape})
						}
					}
				}
				return
			}
			c := callCommon(i)
			if c == nil {
				return
			}
			if c.IsInvoke() {
				// CHA only for interfaces the module declares; an invoke through an external
				// interface (http.Handler, io.Writer, ...) is a user callback unless an escape edge says otherwise
				if !p.isModuleInterface(c.Value.Type()) {
					return
				}
				for _, f := range p.implementations(c.Value.Type(), c.Method) {
					add(Edge{fn, f, i, EdgeInvoke})
				}
				return
			}
			if f := c.StaticCallee(); f != nil {
				kind := EdgeStatic
				if _, ok := c.Value.(*ssa.MakeClosure); ok {
					kind = EdgeClosure
				}
				if p.inModule(f) {
					add(Edge{fn, f, i, kind})
				}
				if calleeName(c) == "(*net/http.ServeMux).ServeHTTP" {
					for _, r := range muxRegistered {
						add(Edge{fn, r, i, EdgeMux})
					}
				}
				return
			}
			// call of a local variable that only ever holds closures made here
			if _, isBuiltin := c.Value.(*ssa.Builtin); isBuiltin {
				return
			}
			for _, s := range p.sources(c.Value, provDefault) {
				if mc, ok := s.(*ssa.MakeClosure); ok {
					add(Edge{fn, mc.Fn.(*ssa.Function), i, EdgeClosure})
				}
			}
		})
	}
	// synthetic wrappers nobody calls or references are not part of the program
	p.cg = cg
	taken := p.addressTaken()
	for changed := true; changed; {
		changed = false
		for _, fn := range p.Funcs {
			if fn.Synthetic == "" || len(cg.Out[fn]) == 0 || len(cg.In[fn]) > 0 || taken[fn] {
				continue
			}
			for _, e := range cg.Out[fn] {
				ins := cg.In[e.Callee][:0:0]
				for _, e2 := range cg.In[e.Callee] {
					if e2.Caller != fn {
						ins = append(ins, e2)
					}
				}
				cg.In[e.Callee] = ins
			}
			delete(cg.Out, fn)
			changed = true
		}
	}
	return cg
}

// funcValue: if v denotes a known function (function constant, closure, bound method), return it.
func (p *Program) funcValue(v ssa.Value) *ssa.Function {
	switch x := strip(v).(type) {
	case *ssa.Function:
		return x
	case *ssa.MakeClosure:
		return x.Fn.(*ssa.Function)
	}
	return nil
}

// reach returns the call-graph closure of roots (through every edge kind in kinds; nil = all).
func (cg *CallGraph) reach(roots []*ssa.Function, skip func(Edge) bool) map[*ssa.Function]bool {
	seen := map[*ssa.Function]bool{}
	var stack []*ssa.Function
	for _, r := range roots {
		if r != nil && !seen[r] {
			seen[r] = true
			stack = append(stack, r)
		}
	}
	for len(stack) > 0 {
		f := stack[len(stack)-1]
		stack = stack[:len(stack)-1]
		for _, e := range cg.Out[f] {
			if skip != nil && skip(e) {
				continue
			}
			if !seen[e.Callee] {
				seen[e.Callee] = true
				stack = append(stack, e.Callee)
			}
		}
	}
	return seen
}

// ---------------------------------------------------------------------------
// roles

type Roles struct {
	RequestRoots []*ssa.Function
	RequestPath  map[*ssa.Function]bool
	MutatorRoots []*ssa.Function
	MutatorPath  map[*ssa.Function]bool
}

func isHTTPResponseWriter(t types.Type) bool { return isNamed(t, "net/http", "ResponseWriter") }
func isHTTPRequestPtr(t types.Type) bool {
	pt, ok := t.(*types.Pointer)
	return ok && isNamed(pt.Elem(), "net/http", "Request")
}
func isPtrToRestful(t types.Type, name string) bool {
	pt, ok := t.(*types.Pointer)
	return ok && isRestfulNamed(pt.Elem(), name)
}
func isEmptyInterface(t types.Type) bool {
	it, ok := t.Underlying().(*types.Interface)
	return ok && it.NumMethods() == 0
}

// requestShape classifies a signature (receiver ignored) as one of the request-root shapes.
func requestShape(sig *types.Signature) string {
	ps := sig.Params()
	at := func(i int) types.Type { return ps.At(i).Type() }
	switch ps.Len() {
	case 2:
		if isHTTPResponseWriter(at(0)) && isHTTPRequestPtr(at(1)) {
			return "http-handler"
		}
		if isPtrToRestful(at(0), "Request") && isPtrToRestful(at(1), "Response") {
			return "route-function"
		}
		if isEmptyInterface(at(0)) && isHTTPResponseWriter(at(1)) {
			return "recover-handler"
		}
	case 3:
		if isPtrToRestful(at(0), "Request") && isPtrToRestful(at(1), "Response") && isPtrToRestful(at(2), "FilterChain") {
			return "filter-function"
		}
		if isRestfulNamed(at(0), "ServiceError") && isPtrToRestful(at(1), "Request") && isPtrToRestful(at(2), "Response") {
			return "service-error-handler"
		}
	}
	return ""
}

var requestScopedTypes = []string{"Request", "Response", "FilterChain", "CompressingResponseWriter"}
var moduleInterfaces = []string{"RouteSelector", "PathProcessor", "CompressorProvider", "EntityReaderWriter"}

func (p *Program) Roles() *Roles {
	if p.roles != nil {
		return p.roles
	}
	cg := p.callGraph()
	r := &Roles{}
	isRoot := map[*ssa.Function]string{}
	for _, fn := range p.SrcFunc {
		if s := requestShape(fn.Signature); s != "" {
			isRoot[fn] = s
			continue
		}
		// constructors handed to sync.Pool: run by Acquire* on the request path
		if fn.Parent() != nil && fn.Signature.Params().Len() == 0 && fn.Signature.Results().Len() == 1 &&
			isEmptyInterface(fn.Signature.Results().At(0).Type()) {
			isRoot[fn] = "pool-constructor"
			continue
		}
		if fn.Parent() == nil {
			rt := recvTypeName(fn)
			for _, n := range requestScopedTypes {
				if rt == n {
					isRoot[fn] = "method of request-scoped " + n
				}
			}
		}
	}
	for _, in := range moduleInterfaces {
		nt := p.namedType(in)
		if nt == nil {
			continue
		}
		it := nt.Underlying().(*types.Interface)
		for k := 0; k < it.NumMethods(); k++ {
			for _, f := range p.implementations(nt, it.Method(k)) {
				f = p.unwrap(f)
				if f.Synthetic == "" {
					if _, ok := isRoot[f]; !ok {
						isRoot[f] = "implements " + in
					}
				}
			}
		}
	}
	for fn := range isRoot {
		r.RequestRoots = append(r.RequestRoots, fn)
	}
	sort.Slice(r.RequestRoots, func(i, j int) bool { return r.RequestRoots[i].Pos() < r.RequestRoots[j].Pos() })
	r.RequestPath = cg.reach(r.RequestRoots, nil)
	for _, n := range []string{"(*Container).Add", "(*Container).Remove", "(*WebService).Route", "(*WebService).RemoveRoute"} {
		if f := p.fn(n); f != nil {
			r.MutatorRoots = append(r.MutatorRoots, f)
		}
	}
	r.MutatorPath = cg.reach(r.MutatorRoots, nil)
	// any other exported operation of Container / WebService that assigns a field the four known operations assign
	// (a new RemoveAll, ReplaceRoute ...) changes the registration as well
	regFields := map[*types.Var]bool{}
	for _, root := range r.MutatorRoots {
		eachInstr(root, func(i ssa.Instruction) {
			if st, ok := i.(*ssa.Store); ok {
				if fa, ok := st.Addr.(*ssa.FieldAddr); ok {
					if o := ownerOfFieldAddr(fa); (o == "Container" || o == "WebService") && !p.freshBase(fa) {
						// the two lists that ARE the registration (not bookkeeping next to them)
						if n := fieldOfAddr(fa).Name(); n == "webServices" || n == "routes" {
							regFields[fieldOfAddr(fa)] = true
						}
					}
				}
			}
		})
	}
	added := false
	for _, fn := range p.SrcFunc {
		if fn.Parent() != nil || r.MutatorPath[fn] || r.RequestPath[fn] {
			continue
		}
		o := fn.Object()
		if o == nil || !o.Exported() {
			continue
		}
		if rt := recvTypeName(fn); rt != "Container" && rt != "WebService" {
			continue
		}
		stores := false
		eachInstr(fn, func(i ssa.Instruction) {
			if st, ok := i.(*ssa.Store); ok {
				if fa, ok := st.Addr.(*ssa.FieldAddr); ok && regFields[fieldOfAddr(fa)] && !p.freshBase(fa) {
					stores = true
				}
			}
		})
		if stores {
			r.MutatorRoots = append(r.MutatorRoots, fn)
			added = true
		}
	}
	if added {
		r.MutatorPath = cg.reach(r.MutatorRoots, nil)
	}
	p.roles = r
	return r
}

// requestPathFuncs returns the source functions on the request path, sorted.
func (p *Program) requestPathFuncs() []*ssa.Function {
	r := p.Roles()
	var out []*ssa.Function
	for _, fn := range p.SrcFunc {
		if r.RequestPath[fn] {
			out = append(out, fn)
		}
	}
	return out
}
