package main

import (
	"go/token"

	"golang.org/x/tools/go/ssa"
)

// C17.h: in the stage function every addition to a list of candidates that is made under a test of the route's
// declared Method is made under equality with the request's method and under nothing else about that Method.
func ruleC17h(c *Ctx) {
	p := c.P
	sf := stageFunction(p)
	if sf == nil {
		c.undecided("-", "stage function", "-", "the function that compares Route.Method with the request's method was not found")
		return
	}
	name := p.fname(sf)
	facts := factsAt(sf)
	nEq := 0
	eachInstr(sf, func(i ssa.Instruction) {
		call, ok := i.(*ssa.Call)
		if !ok || !isBuiltinCall(call, "append") || !isCandidateSliceType(call.Type()) {
			return
		}
		eq, bad := false, ""
		for f := range facts[i.Block()] {
			bo, ok := f.Cond.(*ssa.BinOp)
			if !ok || (bo.Op != token.EQL && bo.Op != token.NEQ) {
				continue
			}
			for _, pr := range [][2]ssa.Value{{bo.X, bo.Y}, {bo.Y, bo.X}} {
				b, fld, ok := fieldLoad(strip(pr[0]))
				if !ok || fld.Name() != "Method" || !isRouteish(b.Type()) {
					continue
				}
				if b2, f2, ok := fieldLoad(strip(pr[1])); ok && f2.Name() == "Method" && isHTTPRequestPtr(b2.Type()) {
					if (bo.Op == token.EQL) == f.Pol {
						eq = true
						continue
					}
				}
				other := "something that is not the request's method"
				if str, isC := constStr(pr[1]); isC {
					other = "\"" + str + "\""
				}
				op := bo.Op
				if !f.Pol {
					op = map[token.Token]token.Token{token.EQL: token.NEQ, token.NEQ: token.EQL}[op]
				}
				if d := "`Route.Method " + op.String() + " " + other + "`"; bad == "" || d < bad {
					bad = d
				}
			}
		}
		if eq {
			nEq++
		}
		if bad != "" {
			c.bad(name, "a route is admitted by its declared Method only when that equals the request's", p.ipos(i),
				"this addition to the candidates is made under the test "+bad+" of a route's Method: the route becomes routable for a method it does not declare, and the Allow header of a 405 and the OPTIONS filter, which list declared methods, do not announce it")
		}
	})
	c.check(nEq > 0, name, "the method stage admits by equality of Route.Method with the request's method", p.pos(sf.Pos()),
		itoa(nEq)+" addition(s) to the candidates under request.Method == route.Method, none under another test of Route.Method", "no candidate is admitted under equality of its Method with the request's method")
}
