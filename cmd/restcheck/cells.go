package main

import (
	"go/token"
	"go/types"
	"sort"

	"golang.org/x/tools/go/ssa"
)

// A cell is a local variable that go/ssa did not lift to registers because a closure
// captures it or its address is taken: an *ssa.Alloc together with every FreeVar bound
// to it through MakeClosure. Loads and stores of a cell range over the allocating
// function and all its closures.

func (p *Program) initCells() {
	if p.cellsOnce {
		return
	}
	p.cellsOnce = true
	p.fvBinding = map[*ssa.FreeVar][]ssa.Value{}
	p.closureOf = map[*ssa.Function][]*ssa.MakeClosure{}
	for _, fn := range p.Funcs {
		eachInstr(fn, func(i ssa.Instruction) {
			mc, ok := i.(*ssa.MakeClosure)
			if !ok {
				return
			}
			cl := mc.Fn.(*ssa.Function)
			p.closureOf[cl] = append(p.closureOf[cl], mc)
			for k, b := range mc.Bindings {
				if k < len(cl.FreeVars) {
					fv := cl.FreeVars[k]
					p.fvBinding[fv] = append(p.fvBinding[fv], b)
				}
			}
		})
	}
}

// cellRoots resolves an address value to the Alloc(s) it denotes, following FreeVar
// bindings outward. A value that is not a cell address yields nil.
func (p *Program) cellRoots(addr ssa.Value) []*ssa.Alloc {
	p.initCells()
	var out []*ssa.Alloc
	seen := map[ssa.Value]bool{}
	var walk func(v ssa.Value)
	walk = func(v ssa.Value) {
		if seen[v] {
			return
		}
		seen[v] = true
		switch x := v.(type) {
		case *ssa.Alloc:
			out = append(out, x)
		case *ssa.FreeVar:
			for _, b := range p.fvBinding[x] {
				walk(b)
			}
		}
	}
	walk(addr)
	return out
}

func (p *Program) sameCell(a, b ssa.Value) bool {
	ra, rb := p.cellRoots(a), p.cellRoots(b)
	for _, x := range ra {
		for _, y := range rb {
			if x == y {
				return true
			}
		}
	}
	return false
}

// topFunc returns the outermost enclosing function.
func topFunc(fn *ssa.Function) *ssa.Function {
	for fn.Parent() != nil {
		fn = fn.Parent()
	}
	return fn
}

// cellStores returns every Store whose address is the cell `alloc`, in the allocating
// function and all closures nested in it.
func (p *Program) cellStores(alloc *ssa.Alloc) []*ssa.Store {
	var out []*ssa.Store
	for _, fn := range withClosures(topFunc(alloc.Parent())) {
		eachInstr(fn, func(i ssa.Instruction) {
			if s, ok := i.(*ssa.Store); ok {
				for _, r := range p.cellRoots(s.Addr) {
					if r == alloc {
						out = append(out, s)
					}
				}
			}
		})
	}
	return out
}

// cellLoads returns every load (*addr) of the cell.
func (p *Program) cellLoads(alloc *ssa.Alloc) []*ssa.UnOp {
	var out []*ssa.UnOp
	for _, fn := range withClosures(topFunc(alloc.Parent())) {
		eachInstr(fn, func(i ssa.Instruction) {
			if u, ok := i.(*ssa.UnOp); ok && u.Op == token.MUL {
				for _, r := range p.cellRoots(u.X) {
					if r == alloc {
						out = append(out, u)
					}
				}
			}
		})
	}
	return out
}

// loadOfCell: if v is a load of a cell, return the cell roots.
func (p *Program) loadOfCell(v ssa.Value) []*ssa.Alloc {
	u, ok := v.(*ssa.UnOp)
	if !ok || u.Op != token.MUL {
		return nil
	}
	return p.cellRoots(u.X)
}

// ---------------------------------------------------------------------------
// provenance: backward slice through representation-preserving steps

type provOpt struct {
	ThroughCells      bool // a load of a cell becomes the union of everything stored into it
	ThroughTypeAssert bool // x.(T) is looked through
	ThroughCalls      int  // inlining bound for results of in-module static callees (0 = calls are leaves)
}

var provDefault = provOpt{ThroughCells: true, ThroughTypeAssert: true}

// sources returns the leaf values v may originate from.
func (p *Program) sources(v ssa.Value, opt provOpt) []ssa.Value {
	var out []ssa.Value
	seen := map[ssa.Value]bool{}
	outSeen := map[ssa.Value]bool{}
	emit := func(x ssa.Value) {
		if !outSeen[x] {
			outSeen[x] = true
			out = append(out, x)
		}
	}
	var walk func(v ssa.Value, depth int, subst map[*ssa.Parameter]ssa.Value)
	walk = func(v ssa.Value, depth int, subst map[*ssa.Parameter]ssa.Value) {
		v = strip(v)
		if seen[v] {
			return
		}
		seen[v] = true
		switch x := v.(type) {
		case *ssa.Phi:
			for _, e := range x.Edges {
				walk(e, depth, subst)
			}
			return
		case *ssa.TypeAssert:
			if opt.ThroughTypeAssert {
				walk(x.X, depth, subst)
				return
			}
		case *ssa.Extract:
			if ta, ok := x.Tuple.(*ssa.TypeAssert); ok && x.Index == 0 && opt.ThroughTypeAssert {
				walk(ta.X, depth, subst)
				return
			}
			if call, ok := x.Tuple.(*ssa.Call); ok && depth > 0 {
				if cal := call.Call.StaticCallee(); cal != nil && p.inModule(cal) && cal.Blocks != nil {
					ns := map[*ssa.Parameter]ssa.Value{}
					for k, a := range call.Call.Args {
						if k < len(cal.Params) {
							ns[cal.Params[k]] = a
						}
					}
					for _, r := range returnsOf(cal) {
						if x.Index < len(r.Results) {
							walk(r.Results[x.Index], depth-1, ns)
						}
					}
					return
				}
			}
		case *ssa.Call:
			if depth > 0 {
				if cal := x.Call.StaticCallee(); cal != nil && p.inModule(cal) && cal.Blocks != nil {
					ns := map[*ssa.Parameter]ssa.Value{}
					for k, a := range x.Call.Args {
						if k < len(cal.Params) {
							ns[cal.Params[k]] = a
						}
					}
					for _, r := range returnsOf(cal) {
						if len(r.Results) == 1 {
							walk(r.Results[0], depth-1, ns)
						}
					}
					return
				}
			}
		case *ssa.Parameter:
			if subst != nil {
				if a, ok := subst[x]; ok {
					// back in the caller's context: no further substitution
					walk(a, depth, nil)
					return
				}
			}
		case *ssa.FreeVar:
			p.initCells()
			if bs := p.fvBinding[x]; len(bs) > 0 && opt.ThroughCells {
				for _, b := range bs {
					walk(b, depth, nil)
				}
				return
			}
		case *ssa.Field:
			// a field of a method object: x.f where x is the receiver of a method of an unexported struct type -
			// what the field holds is what every construction site of the receiver stored into it
			if vals, ok := p.methodObjectField(x.X, x.Field); ok && opt.ThroughCells {
				for _, val := range vals {
					walk(val, depth, nil)
				}
				return
			}
		case *ssa.UnOp:
			if x.Op == token.MUL && opt.ThroughCells {
				if fa, ok := x.X.(*ssa.FieldAddr); ok {
					if vals, ok := p.methodObjectField(fa.X, fa.Field); ok {
						for _, val := range vals {
							walk(val, depth, nil)
						}
						return
					}
				}
			}
			if x.Op == token.MUL && opt.ThroughCells {
				if roots := p.cellRoots(x.X); len(roots) > 0 {
					any := false
					for _, r := range roots {
						for _, s := range p.cellStores(r) {
							any = true
							walk(s.Val, depth, subst)
						}
					}
					if any {
						return
					}
				}
			}
		}
		emit(v)
	}
	walk(v, opt.ThroughCalls, nil)
	return out
}

// onlySource reports whether every leaf of v satisfies pred (and there is at least one leaf).
func (p *Program) allSources(v ssa.Value, opt provOpt, pred func(ssa.Value) bool) bool {
	src := p.sources(v, opt)
	if len(src) == 0 {
		return false
	}
	for _, s := range src {
		if !pred(s) {
			return false
		}
	}
	return true
}

// derivesFrom reports whether v may originate from target (identity after provenance).
func (p *Program) derivesFrom(v, target ssa.Value, opt provOpt) bool {
	t := strip(target)
	for _, s := range p.sources(v, opt) {
		if s == t {
			return true
		}
	}
	return false
}

// isLoadOfCellValue reports whether v is (after stripping) a load of the given cell.
func (p *Program) isLoadOf(v ssa.Value, cell *ssa.Alloc) bool {
	for _, r := range p.loadOfCell(strip(v)) {
		if r == cell {
			return true
		}
	}
	return false
}

// valueOrCellIs reports whether v is target itself, or both are loads of the same cell.
// This is the notion of "the same variable" used by T-PROV rules.
func (p *Program) sameVar(a, b ssa.Value) bool {
	a, b = strip(a), strip(b)
	if a == b {
		return true
	}
	ra, rb := p.loadOfCell(a), p.loadOfCell(b)
	for _, x := range ra {
		for _, y := range rb {
			if x == y {
				return true
			}
		}
	}
	return false
}

// methodObjectField: recv is the receiver parameter of a method of an unexported module struct type (a closure
// written as a struct with a method). It returns the values stored into field idx at every place the receiver comes
// from: static calls, bound method values, conversions to an interface. ok=false when some origin is not a local
// composite literal whose field stores are all visible.
func (p *Program) methodObjectField(recv ssa.Value, idx int) ([]ssa.Value, bool) {
	if p.cgBuilding {
		return nil, false // provenance asked for while the call graph itself is being built
	}
	// a value receiver whose fields are addressed is spilled: `t0 = local T (p); *t0 = p; &t0.f`
	if a, isAlloc := recv.(*ssa.Alloc); isAlloc {
		var whole []*ssa.Store
		fieldStores := 0
		for _, r := range referrers(a) {
			switch y := r.(type) {
			case *ssa.Store:
				if y.Addr == ssa.Value(a) {
					whole = append(whole, y)
				}
			case *ssa.FieldAddr:
				for _, r2 := range referrers(y) {
					if st, ok := r2.(*ssa.Store); ok && st.Addr == ssa.Value(y) {
						fieldStores++
					}
				}
			}
		}
		if len(whole) == 1 && fieldStores == 0 {
			if prm0, ok := whole[0].Val.(*ssa.Parameter); ok {
				recv = prm0
			}
		}
	}
	prm, ok := recv.(*ssa.Parameter)
	if !ok || prm.Parent() == nil || prm.Parent().Signature.Recv() == nil || len(prm.Parent().Params) == 0 || prm.Parent().Params[0] != prm {
		return nil, false
	}
	t := prm.Type()
	if pt, ok := t.Underlying().(*types.Pointer); ok {
		t = pt.Elem()
	}
	nt, ok := types.Unalias(t).(*types.Named)
	if !ok || nt.Obj().Exported() || nt.Obj().Pkg() == nil || nt.Obj().Pkg() != p.Restful.Pkg {
		return nil, false
	}
	if _, ok := nt.Underlying().(*types.Struct); !ok {
		return nil, false
	}
	m := prm.Parent()
	var recvs []ssa.Value
	okAll := true
	seenFn := map[*ssa.Function]bool{}
	var collect func(fn *ssa.Function, depth int)
	collect = func(fn *ssa.Function, depth int) {
		if seenFn[fn] || depth > 3 {
			return
		}
		seenFn[fn] = true
		in := p.callGraph().In[fn]
		if len(in) == 0 && fn == m {
			okAll = false
		}
		for _, e := range in {
			switch site := e.Site.(type) {
			case *ssa.MakeInterface:
				recvs = append(recvs, site.X)
			case ssa.CallInstruction:
				cc := site.Common()
				if cc.StaticCallee() == fn && len(cc.Args) > 0 {
					recvs = append(recvs, cc.Args[0])
				} else if e.Kind == EdgeEscape || cc.IsInvoke() {
					okAll = false
				} else {
					okAll = false
				}
			case *ssa.MakeClosure:
				if len(site.Bindings) > 0 {
					recvs = append(recvs, site.Bindings[0])
				}
			default:
				okAll = false
			}
		}
	}
	collect(m, 0)
	// bound-method and pointer-receiver wrappers
	for _, w := range p.Funcs {
		if w.Synthetic == "" || w.Blocks == nil {
			continue
		}
		calls := false
		eachInstr(w, func(i ssa.Instruction) {
			if cc := callCommon(i); cc != nil && cc.StaticCallee() == m {
				calls = true
			}
		})
		if !calls {
			continue
		}
		// the wrapper's receiver: its free variable (bound method) or first parameter
		for _, fv := range w.FreeVars {
			p.initCells()
			recvs = append(recvs, p.fvBinding[fv]...)
		}
		if len(w.FreeVars) == 0 {
			collect(w, 1)
		}
	}
	if !okAll || len(recvs) == 0 {
		return nil, false
	}
	var out []ssa.Value
	for _, rv := range recvs {
		rv = strip(rv)
		if rv == ssa.Value(prm) {
			continue
		}
		var obj *ssa.Alloc
		switch x := rv.(type) {
		case *ssa.Alloc:
			obj = x
		case *ssa.UnOp:
			if a, ok := x.X.(*ssa.Alloc); ok && x.Op == token.MUL {
				obj = a
			}
		case *ssa.FreeVar, *ssa.Parameter:
			// the wrapper's own receiver: already followed above
			continue
		}
		if obj == nil {
			return nil, false
		}
		n := 0
		for _, r := range referrers(obj) {
			switch y := r.(type) {
			case *ssa.FieldAddr:
				if y.Field != idx {
					continue
				}
				for _, r2 := range referrers(y) {
					if st, ok := r2.(*ssa.Store); ok && st.Addr == ssa.Value(y) {
						out = append(out, st.Val)
						n++
					}
				}
			case *ssa.Store:
				if y.Addr == ssa.Value(obj) {
					return nil, false // whole-struct store: not followed
				}
			}
		}
		if n == 0 {
			return nil, false // zero value: not an origin we can name
		}
	}
	return out, len(out) > 0
}

// reachingStores: the stores to the local variable `a` that can be the last one executed before load u, when the
// variable is only loaded and stored by its function - apart from function literals that are merely deferred (they
// run when the function is left) or that never assign it. ok=false when the variable can change behind the
// function's back; callers then fall back to "every store ever".
func (p *Program) reachingStores(u *ssa.UnOp, a *ssa.Alloc) (stores []*ssa.Store, zero bool, ok bool) {
	fn := a.Parent()
	if fn == nil || u.Parent() != fn {
		return nil, false, false
	}
	for _, ref := range referrers(a) {
		switch x := ref.(type) {
		case *ssa.Store:
			if x.Addr != ssa.Value(a) {
				return nil, false, false
			}
		case *ssa.UnOp, *ssa.DebugRef:
		case *ssa.MakeClosure:
			cl, isFn := x.Fn.(*ssa.Function)
			if !isFn {
				return nil, false, false
			}
			onlyDeferred := true
			for _, r2 := range referrers(x) {
				switch r2.(type) {
				case *ssa.Defer, *ssa.DebugRef:
				default:
					onlyDeferred = false
				}
			}
			assigns := false
			for k, b := range x.Bindings {
				if b == ssa.Value(a) && k < len(cl.FreeVars) {
					for _, g := range withClosures(cl) {
						_ = g
					}
					for _, r3 := range referrers(cl.FreeVars[k]) {
						if st, isSt := r3.(*ssa.Store); isSt && st.Addr == ssa.Value(cl.FreeVars[k]) {
							assigns = true
						}
						if _, isMC := r3.(*ssa.MakeClosure); isMC {
							assigns = true // handed further down: not followed
						}
					}
				}
			}
			if !onlyDeferred && assigns {
				return nil, false, false
			}
		default:
			return nil, false, false
		}
	}
	// forward may-analysis over blocks: the set of stores (nil = the zero value) that reach the block's end
	type set map[*ssa.Store]bool
	out := map[*ssa.BasicBlock]set{}
	zeroOut := map[*ssa.BasicBlock]bool{}
	lastStore := func(b *ssa.BasicBlock, before int) *ssa.Store {
		for i := before - 1; i >= 0; i-- {
			if st, ok := b.Instrs[i].(*ssa.Store); ok && st.Addr == ssa.Value(a) {
				return st
			}
		}
		return nil
	}
	inOf := func(b *ssa.BasicBlock) (set, bool) {
		in := set{}
		z := false
		if b == fn.Blocks[0] {
			z = true
		}
		for _, pr := range b.Preds {
			for st := range out[pr] {
				in[st] = true
			}
			if zeroOut[pr] {
				z = true
			}
		}
		return in, z
	}
	for changed := true; changed; {
		changed = false
		for _, b := range fn.Blocks {
			var o set
			z := false
			if st := lastStore(b, len(b.Instrs)); st != nil {
				o = set{st: true}
			} else {
				o, z = inOf(b)
			}
			if len(o) != len(out[b]) || z != zeroOut[b] {
				out[b] = o
				zeroOut[b] = z
				changed = true
			}
		}
	}
	if st := lastStore(u.Block(), indexInBlock(u)); st != nil {
		return []*ssa.Store{st}, false, true
	}
	in, z := inOf(u.Block())
	for st := range in {
		stores = append(stores, st)
	}
	sort.Slice(stores, func(i, j int) bool { return stores[i].Pos() < stores[j].Pos() })
	return stores, z, true
}
