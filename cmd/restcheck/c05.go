package main

import (
	"go/token"
	"go/types"
	"strings"

	"golang.org/x/tools/go/ssa"
)

func init() {
	register(&Property{
		ID:    "C05",
		Title: "Written entity's media type is produced by the route and best for Accept",
		Decided: "C05.a every piece cut from Accept / Content-Type / Access-Control-Request-Headers is trimmed after its last cut before it is compared, looked up or parsed (router and writer side alike); C05.b no result-affecting dependence on map iteration order on the request path; C05.c Content-Type is set before the status is written, with the accessor's own type, which the built-in registrations bind to the key they are registered under; " +
			"C05.d the Response is given the request's Accept header verbatim and the selected route's Produces; C05.e inside the negotiation loop an entity writer is only returned for a media type taken from the route's Produces (directly, or an Accept range shown equal to a Produces entry); C05.g a framework filter passes on the pair it received; C05.h registry keys are normalised alike on registration and lookup; C05.f Accept ranges are ranked by a stable insertion (strictly-greater test), not by an unstable sort. Header text is never searched for a literal that spans a separator and a neighbouring token (such as \"q=\"), which optional whitespace would defeat. C05.i where a token of Accept/Content-Type is compared for equality with a declared value, both operands were case-folded by the same functions or neither. C05.j a number (q-value) is parsed from a piece that was cut at every separator of its level. C05.k in a loop over the elements of a comma-separated header value no branch is decided by a lookup in a map the same loop fills.",
		NotDecided: "the q-value ordering and the fallback order as values (ranking semantics over the Accept grammar); 'never 406 after the router admitted' beyond C05.a, which removes the only divergence found by reading.",
		Rules: []Rule{
			{ID: "C05.a", Template: "T-TOKEN", Required: true, Run: ruleTokenAll,
				Doc: "Optional whitespace around ',' ';' '=' does not change the choice. The router and the writer read the same header; an untrimmed token on one side makes them disagree."},
			{ID: "C05.b", Template: "T-DETERMINISM", Required: true, Run: ruleC19e,
				Doc: "The same request always gets the same representation: no early exit or last-writer-wins over a map range (same obligation as C19.e)."},
			{ID: "C05.c", Template: "T-ORDER", Required: true, Run: ruleC05c,
				Doc: "Content-Type precedes the status and is the accessor's registered type."},
			{ID: "C05.d", Template: "T-PROV", Required: true, Run: ruleC05d,
				Doc: "The writer sees what the router saw."},
			{ID: "C05.e", Template: "T-GUARD", Required: true, Run: ruleC05e,
				Doc: "The negotiated type is one the route produces: no global default may be consulted while Accept ranges are being walked."},
			{ID: "C05.f", Template: "T-CMP", Required: true, Run: ruleC05f,
				Doc: "Header order on ties: equal q keeps header order. sort.Slice/sort.Sort are not stable (only small inputs happen to be), and a non-strict insertion test reverses ties."},
			{ID: "C05.g", Template: "T-PROV", Required: true, Run: ruleC15e,
				Doc: "The Response the handler writes to is the one that was given the route's Produces and the request's Accept: a framework filter continues the chain with the very pair it received, never with a new wrapper (which knows neither and negotiates against nothing)."},
			{ID: "C05.k", Template: "T-EFFECT", Required: false, Run: ruleHeaderElementsIndependent,
				Doc: "Every range of the Accept header takes part in the ranking: in a loop over the elements of a comma-separated header value no branch is decided by a lookup in a map the same loop fills. A 'seen' set skips the second occurrence of a range, which may be the one with the higher q-value."},
			{ID: "C05.j", Template: "T-TOKEN", Required: false, Run: ruleNumberFullyCut,
				Doc: "A q-value is parsed from a piece that was cut at every separator of its level. The last element of SplitN(piece, \";\", 2) or the part after strings.Cut is everything behind the first ';': with a further parameter behind the q-value the number does not parse, the range counts as q=1 and a representation the client ranked low is chosen."},
			{ID: "C05.i", Template: "T-SIBLING", Required: true, Run: ruleFoldingAgreement,
				Doc: "Where a token of Accept/Content-Type is compared for equality with a declared media type, both operands were case-folded by the same functions, or neither. Lower-casing the media ranges of the header while Produces entries are compared as declared makes a declared type with capitals unselectable by the writer although the router admits the request."},
			{ID: "C05.h", Template: "T-SIBLING", Required: true, Run: ruleKeyAgreement,
				Doc: "The entity-accessor registry is written and read under the same key: whatever normalisation is applied to the media type on registration must be applied on lookup. Lower-casing on registration only makes an accessor registered for a mixed-case Produces entry unreachable by the exact lookup, and the substring fallback then answers with another type's accessor."},
		},
	})
}

func ruleC05c(c *Ctx) {
	p := c.P
	// Content-Type set before WriteHeader in the entity writers
	n := 0
	for _, fn := range p.requestPathFuncs() {
		name := p.fname(fn)
		var sets []*ssa.Call
		var wh []ssa.Instruction
		eachInstr(fn, func(i ssa.Instruction) {
			if call, ok := i.(*ssa.Call); ok && calleeName(&call.Call) == "(net/http.Header).Set" {
				if k, ok := constStr(call.Call.Args[1]); ok && k == "Content-Type" {
					sets = append(sets, call)
				}
			}
			if cc := callCommon(i); cc != nil && cc.StaticCallee() != nil && cc.StaticCallee().Name() == "WriteHeader" && recvTypeName(cc.StaticCallee()) == "Response" {
				wh = append(wh, i)
			}
		})
		if len(sets) == 0 {
			continue
		}
		for _, s := range sets {
			n++
			late := ""
			for _, w := range wh {
				if canReach(w, s) {
					late = p.ipos(w)
				}
			}
			c.check(late == "", name, "Content-Type is set before the status is written", p.ipos(s), "no WriteHeader can precede it", "Content-Type is set after WriteHeader at "+late+": net/http ignores it and sniffs the type")
			// and every body path sets it: each WriteHeader that is followed by a body write is preceded by a Set
		}
		for _, w := range wh {
			// does a body write follow?
			body := false
			eachInstr(fn, func(i ssa.Instruction) {
				if writingCall(p, i) != "" && canReach(w, i) {
					body = true
				}
				if cc := callCommon(i); cc != nil && cc.StaticCallee() != nil && cc.StaticCallee().Name() == "Write" && recvTypeName(cc.StaticCallee()) == "Response" && canReach(w, i) {
					body = true
				}
			})
			if !body {
				continue
			}
			pre := false
			for _, s := range sets {
				if instrDominates(s, w) {
					pre = true
				}
			}
			c.check(pre, name, "a status followed by an entity body has its Content-Type set first", p.ipos(w), "a Content-Type Set dominates this WriteHeader", "an entity is written without Content-Type on this path")
		}
	}
	if n == 0 {
		c.bad("-", "entity writers set Content-Type", "-", "no Content-Type header is set on the request path")
	}
	// accessors write their own ContentType
	for _, fn := range p.requestPathFuncs() {
		if fn.Name() != "Write" || !strings.HasPrefix(recvTypeName(fn), "entity") {
			continue
		}
		eachInstr(fn, func(i ssa.Instruction) {
			call, ok := i.(*ssa.Call)
			if !ok || call.Call.StaticCallee() == nil || !p.inModule(call.Call.StaticCallee()) {
				return
			}
			own := false
			for _, a := range call.Call.Args {
				if _, f, ok := fieldLoad(strip(a)); ok && f.Name() == "ContentType" {
					own = true
				}
			}
			c.check(own, p.fname(fn), "the accessor writes under its own ContentType", p.ipos(i), "passes e.ContentType", "the accessor labels its output with another type")
		})
	}
	// built-in registrations: key == accessor's type
	for _, fn := range p.SrcFunc {
		eachInstr(fn, func(i ssa.Instruction) {
			call, ok := i.(*ssa.Call)
			if !ok || call.Call.StaticCallee() == nil || call.Call.StaticCallee().Name() != "RegisterEntityAccessor" {
				return
			}
			k, okk := constStr(call.Call.Args[0])
			inner, oki := strip(call.Call.Args[1]).(*ssa.Call)
			if !okk || !oki || len(inner.Call.Args) != 1 {
				return
			}
			k2, ok2 := constStr(inner.Call.Args[0])
			c.check(ok2 && k == k2, p.fname(fn), "built-in accessor is registered under the type it writes ("+k+")", p.ipos(i), "key == accessor ContentType", "the accessor registered for "+k+" labels its output "+k2)
		})
	}
}

func ruleC05d(c *Ctx) {
	p := c.P
	pw := p.pairWrapper()
	if pw == nil || pw.Route < 0 {
		c.undecided("-", "(*Route).wrapRequestResponse", "-", "not found")
		return
	}
	w := pw.Fn
	var rq *ssa.Parameter
	for _, prm := range w.Params {
		if isHTTPRequestPtr(prm.Type()) {
			rq = prm
		}
	}
	okA, okP := false, false
	eachInstr(w, func(i ssa.Instruction) {
		st, ok := i.(*ssa.Store)
		if !ok {
			return
		}
		fa, ok := st.Addr.(*ssa.FieldAddr)
		if !ok || ownerOfFieldAddr(fa) != "Response" {
			return
		}
		switch fieldOfAddr(fa).Name() {
		case "requestAccept":
			isHdr := func(v ssa.Value) bool {
				owner, name, ok := headerGet(v)
				if !ok || name != "Accept" {
					return false
				}
				if strip(owner) == ssa.Value(rq) {
					return true
				}
				b, f, ok := fieldLoad(strip(owner))
				return ok && f.Name() == "Header" && strip(b) == ssa.Value(rq)
			}
			if isHdr(st.Val) {
				okA = true
				return
			}
			// the header, or - where the request sent none - what the route declares for that case: every other
			// value that can be stored is a field of the route, and it is stored only where the header was found empty
			srcs := p.sources(st.Val, provOpt{ThroughCells: true})
			nh, nr, other := 0, 0, 0
			for _, src := range srcs {
				switch {
				case isHdr(src):
					nh++
				default:
					if b, _, ok := fieldLoad(strip(src)); ok && pw.Route >= 0 && (strip(b) == ssa.Value(w.Params[pw.Route]) || p.sameVar(b, w.Params[pw.Route])) {
						nr++
					} else {
						other++
					}
				}
			}
			if nh > 0 && other == 0 {
				guarded := nr == 0
				facts := factsAt(w)
				eachInstr(w, func(j ssa.Instruction) {
					s2, ok := j.(*ssa.Store)
					if !ok || isHdr(s2.Val) {
						return
					}
					if b, _, ok := fieldLoad(strip(s2.Val)); ok && (strip(b) == ssa.Value(w.Params[pw.Route]) || p.sameVar(b, w.Params[pw.Route])) {
						for f := range facts[s2.Block()] {
							bo, ok := f.Cond.(*ssa.BinOp)
							if !ok {
								continue
							}
							for _, pr := range [][2]ssa.Value{{bo.X, bo.Y}, {bo.Y, bo.X}} {
								if k, isS := constStr(pr[1]); isS && k == "" && (isHdr(pr[0]) || isHdr(singleAssignment(pr[0]))) && ((bo.Op == token.EQL && f.Pol) || (bo.Op == token.NEQ && !f.Pol)) {
									guarded = true
								}
								if call, isC := strip(pr[0]).(*ssa.Call); isC && isBuiltinCall(call, "len") && (isHdr(call.Call.Args[0]) || isHdr(singleAssignment(call.Call.Args[0]))) {
									if n, isN := constInt(pr[1]); isN && n == 0 && ((bo.Op == token.EQL && f.Pol) || (bo.Op == token.NEQ && !f.Pol)) {
										guarded = true
									}
								}
							}
						}
					}
				})
				// the default arrives over an edge of a phi: the edge's source block knows the header is empty
				if phi, isPhi := strip(st.Val).(*ssa.Phi); isPhi && !guarded {
					all := true
					for k, e := range phi.Edges {
						if isHdr(e) {
							continue
						}
						okEdge := false
						if k < len(phi.Block().Preds) {
							for f := range facts[phi.Block().Preds[k]] {
								bo, ok := f.Cond.(*ssa.BinOp)
								if !ok {
									continue
								}
								for _, pr := range [][2]ssa.Value{{bo.X, bo.Y}, {bo.Y, bo.X}} {
									if kk, isS := constStr(pr[1]); isS && kk == "" && isHdr(pr[0]) && ((bo.Op == token.EQL && f.Pol) || (bo.Op == token.NEQ && !f.Pol)) {
										okEdge = true
									}
									if call, isC := strip(pr[0]).(*ssa.Call); isC && isBuiltinCall(call, "len") && isHdr(call.Call.Args[0]) {
										if n, isN := constInt(pr[1]); isN && n == 0 && ((bo.Op == token.EQL && f.Pol) || (bo.Op == token.NEQ && !f.Pol)) {
											okEdge = true
										}
									}
								}
							}
						}
						if !okEdge {
							all = false
						}
					}
					guarded = all
				}
				if guarded {
					okA = true
				}
			}
		case "routeProduces":
			if b, f, ok := fieldLoad(strip(st.Val)); ok && f.Name() == "Produces" && strip(b) == ssa.Value(w.Params[pw.Route]) {
				okP = true
			}
		}
	})
	c.check(okA, p.fname(w), "the Response gets this request's Accept header verbatim", p.pos(w.Pos()), "requestAccept = httpRequest.Header.Get(Accept)", "the writer negotiates on something other than the header the router admitted")
	c.check(okP, p.fname(w), "the Response gets the selected route's Produces", p.pos(w.Pos()), "routeProduces = r.Produces", "the writer negotiates against another list than the route's Produces")
}

func ruleC05e(c *Ctx) {
	p := c.P
	// the negotiating function: calls the Accept ranking helper and returns (EntityReaderWriter, bool)
	var neg *ssa.Function
	var ranked *ssa.Call
	for _, fn := range p.requestPathFuncs() {
		res := fn.Signature.Results()
		if res.Len() != 2 || !isRestfulNamed(res.At(0).Type(), "EntityReaderWriter") {
			continue
		}
		eachInstr(fn, func(i ssa.Instruction) {
			if call, ok := i.(*ssa.Call); ok && call.Call.StaticCallee() != nil && p.inModule(call.Call.StaticCallee()) {
				if _, f, ok := fieldLoad(strip(firstArg(call))); ok && f.Name() == "requestAccept" {
					neg, ranked = fn, call
				}
			}
		})
	}
	if neg == nil {
		c.undecided("-", "negotiating function", "-", "no function ranking Response.requestAccept found")
		return
	}
	name := p.fname(neg)
	facts := factsAt(neg)
	cyc := blocksOnCycles(neg)
	isProduceElem := func(v ssa.Value) bool { return isElementOfField(strip(v), "routeProduces") }
	n := 0
	inLoop := func(b *ssa.BasicBlock) bool { return cyc[b] || dominatedByLoopOver(neg, b, ranked) }
	seenRet := map[string]bool{}
	for _, vr := range virtualReturns(neg) {
		r := vr
		if b, ok := constBool(r.Results[1]); ok && !b {
			continue
		}
		res0 := strip(refinePhi(r.Results[0], vr.Facts))
		// a negotiated answer: returned from inside the loop over the ranked ranges, or (after results were collected
		// in variables) looked up inside that loop
		in := inLoop(vr.Ret.Block())
		if ex, ok := res0.(*ssa.Extract); ok {
			if call, ok := ex.Tuple.(*ssa.Call); ok && rankedLoopHolds(neg, call.Block(), ranked) {
				in = true
			}
		}
		if !in {
			continue
		}
		key := p.ipos(vr.Ret) + "|" + res0.Name()
		if seenRet[key] {
			continue
		}
		seenRet[key] = true
		n++
		okSrc := false
		why := "the returned writer does not come from a registry lookup"
		if ex, ok := res0.(*ssa.Extract); ok {
			// a helper that walks the route's Produces: all its successful returns must qualify
			if call, ok := ex.Tuple.(*ssa.Call); ok && call.Call.StaticCallee() != nil && call.Call.StaticCallee().Name() != "accessorAt" && p.inModule(call.Call.StaticCallee()) {
				h := call.Call.StaticCallee()
				if res := h.Signature.Results(); res.Len() == 2 && isRestfulNamed(res.At(0).Type(), "EntityReaderWriter") {
					okAll, nret := true, 0
					for _, hr := range returnsOf(h) {
						if b, ok := constBool(hr.Results[1]); ok && !b {
							continue
						}
						nret++
						okOne := false
						if hex, ok := strip(hr.Results[0]).(*ssa.Extract); ok {
							if hc, ok := hex.Tuple.(*ssa.Call); ok && hc.Call.StaticCallee() != nil && hc.Call.StaticCallee().Name() == "accessorAt" {
								if isProduceElem(hc.Call.Args[len(hc.Call.Args)-1]) {
									okOne = true
								}
							}
						}
						if !okOne {
							okAll = false
						}
					}
					if okAll && nret > 0 {
						okSrc = true
					} else {
						why = "helper " + h.Name() + " can return a writer for a media type that is not an element of the route's Produces"
					}
				}
			}
			if call, ok := ex.Tuple.(*ssa.Call); ok && call.Call.StaticCallee() != nil && call.Call.StaticCallee().Name() == "accessorAt" {
				arg := call.Call.Args[len(call.Call.Args)-1]
				switch {
				case isProduceElem(arg):
					// "first Produces entry" stands for the wildcard range only
					okSrc = false
					why = "a Produces entry is returned for an Accept range that was not shown to be */*"
					for _, pa := range pathsFactsTo(neg, call.Block()) {
						_ = pa
					}
					for f := range facts[call.Block()] {
						if bo, ok := f.Cond.(*ssa.BinOp); ok && bo.Op == token.EQL && f.Pol {
							for _, pr := range [][2]ssa.Value{{bo.X, bo.Y}, {bo.Y, bo.X}} {
								if sv, ok := constStr(pr[0]); ok && sv == "*/*" {
									if _, fld, ok := fieldLoad(strip(pr[1])); ok && fld.Name() == "media" {
										okSrc = true
									}
								}
							}
						}
					}
				default:
					// an Accept range shown equal to a Produces entry
					for f := range facts[call.Block()] {
						if bo, ok := f.Cond.(*ssa.BinOp); ok && bo.Op == token.EQL && f.Pol {
							if (strip(bo.X) == strip(arg) && isProduceElem(bo.Y)) || (strip(bo.Y) == strip(arg) && isProduceElem(bo.X)) {
								okSrc = true
							}
							// same field loaded twice (eachAccept.media)
							_, f1, ok1 := fieldLoad(strip(arg))
							for _, pr := range [][2]ssa.Value{{bo.X, bo.Y}, {bo.Y, bo.X}} {
								_, f2, ok2 := fieldLoad(strip(pr[0]))
								if ok1 && ok2 && f1 == f2 && isProduceElem(pr[1]) {
									okSrc = true
								}
							}
						}
					}
					why = "the media type looked up (" + valueDesc(p, arg) + ") is neither an element of the route's Produces nor shown equal to one"
				}
			}
		}
		c.check(okSrc, name, "a negotiated writer is for a media type the route produces", p.ipos(vr.Ret), "accessorAt(<Produces entry>) or accessorAt(range) under range == <Produces entry>", why+": the response Content-Type can be one the route does not declare")
	}
	if n == 0 {
		c.bad(name, "negotiation over the ranked Accept ranges", p.pos(neg.Pos()), "no successful return inside the loop over the ranked ranges")
	}
}

func firstArg(call *ssa.Call) ssa.Value {
	if len(call.Call.Args) == 0 {
		return call
	}
	return call.Call.Args[0]
}

// dominatedByLoopOver: block b lies in a loop that iterates over the value v.
func dominatedByLoopOver(fn *ssa.Function, b *ssa.BasicBlock, v ssa.Value) bool {
	cyc := blocksOnCycles(fn)
	for h := b; h != nil; h = h.Idom() {
		if !cyc[h] {
			continue
		}
		for _, ins := range h.Instrs {
			if ia, ok := ins.(*ssa.IndexAddr); ok && strip(ia.X) == strip(v) {
				// b must be inside the same cycle
				if reachableAfter(b, nil)[h] || returnsFrom(b) {
					return true
				}
			}
		}
	}
	return false
}

// rankedLoopHolds: b lies inside the loop that walks the elements of v (it is dominated by the loop's element access
// and can reach it again).
func rankedLoopHolds(fn *ssa.Function, b *ssa.BasicBlock, v ssa.Value) bool {
	cyc := blocksOnCycles(fn)
	for h := b; h != nil; h = h.Idom() {
		if !cyc[h] {
			continue
		}
		for _, ins := range h.Instrs {
			if ia, ok := ins.(*ssa.IndexAddr); ok && strip(ia.X) == strip(v) {
				if h == b || reachableAfter(b, nil)[h] {
					return true
				}
			}
		}
	}
	return false
}

func returnsFrom(b *ssa.BasicBlock) bool {
	_, ok := b.Instrs[len(b.Instrs)-1].(*ssa.Return)
	return ok
}

func ruleC05f(c *Ctx) {
	p := c.P
	// functions that handle []mime
	isMimeSlice := func(t types.Type) bool {
		sl, ok := t.Underlying().(*types.Slice)
		return ok && isRestfulNamed(sl.Elem(), "mime")
	}
	n := 0
	for _, fn := range p.requestPathFuncs() {
		name := p.fname(fn)
		eachInstr(fn, func(i ssa.Instruction) {
			call, ok := i.(*ssa.Call)
			if !ok {
				return
			}
			switch calleeName(&call.Call) {
			case "sort.Slice", "sort.Sort":
				arg := strip(call.Call.Args[0])
				if isMimeSlice(arg.Type()) {
					n++
					c.bad(name, "Accept ranges ranked by an unstable sort", p.ipos(i), shortCallee(&call.Call)+" does not keep equal elements in input order: ranges with equal q lose their header order (only inputs of up to 12 elements happen to be sorted stably)")
				}
			case "sort.SliceStable", "sort.Stable":
				arg := strip(call.Call.Args[0])
				if isMimeSlice(arg.Type()) {
					n++
					c.ok(name, "Accept ranges ranked by a stable sort", p.ipos(i), "stable")
				}
			}
		})
		// insertion: func(l []mime, e mime) []mime with a comparison of qualities
		// (as a function or a method of the element, parameters in any order)
		nList, nElem := 0, 0
		for _, prm := range fn.Params {
			if isMimeSlice(prm.Type()) {
				nList++
			}
			if isRestfulNamed(derefType(prm.Type()), "mime") {
				nElem++
			}
		}
		if len(fn.Params) == 2 && nList == 1 && nElem == 1 {
			eachInstr(fn, func(i ssa.Instruction) {
				bo, ok := i.(*ssa.BinOp)
				if !ok {
					return
				}
				bx, fx, okx := fieldLoad(strip(bo.X))
				by, fy, oky := fieldLoad(strip(bo.Y))
				if !okx || !oky || fx != fy || !isRestfulNamed(derefType(bx.Type()), "mime") {
					return
				}
				isNew := func(v ssa.Value) bool {
					for _, s := range p.sources(v, provDefault) {
						if _, ok := s.(*ssa.Parameter); ok {
							return true
						}
						if a, ok := s.(*ssa.Alloc); ok {
							for _, r := range referrers(a) {
								if st, ok := r.(*ssa.Store); ok && st.Addr == ssa.Value(a) {
									if _, ok := st.Val.(*ssa.Parameter); ok {
										return true
									}
								}
							}
						}
					}
					return false
				}
				if !isNew(bx) && !isNew(by) {
					return
				}
				n++
				// new element e (parameter) is inserted before `each` iff e.q > each.q  (strict)
				newIsX := isNew(bx)
				strict := (bo.Op == token.GTR && newIsX) || (bo.Op == token.LSS && !newIsX)
				c.check(strict, name, "a new range is inserted before an earlier one only when its q is strictly greater", p.ipos(i), "e.quality > each.quality", "the insertion test is not 'strictly greater': a later range with the same q is placed before an earlier one, reversing header order on ties")
			})
		}
	}
	if n == 0 {
		c.undecided("-", "ranking of Accept ranges", "-", "neither a stable insertion nor a sort of []mime found")
	}
}

func derefType(t types.Type) types.Type {
	if pt, ok := t.Underlying().(*types.Pointer); ok {
		return pt.Elem()
	}
	return t
}

func pathsFactsTo(fn *ssa.Function, b *ssa.BasicBlock) []cfgPath { return nil }
